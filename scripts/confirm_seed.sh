#!/bin/bash
# usage: confirm_seed.sh <worktree> <seed-dir> <pkg-dir-of-demo> <run-regex>
# Confirms: with the patch the suite (without the demo) passes and the demo fails; without the patch the demo passes.
export GOFLAGS=-mod=mod GOPROXY=off GOSUMDB=off GOTOOLCHAIN=local; unset GOWORK
wt=$1; seed=$2; pkg=$3; rx=$4
cd $wt || exit 2
git checkout -q -- . ; git clean -fdq
git apply $seed/patch.diff || { echo "patch does not apply"; exit 2; }
go build ./... || { echo "BUILD FAILS with patch"; exit 1; }
if go test -vet=off -count=1 ./... > /tmp/suite.$$ 2>&1; then echo "suite with patch: PASS"; else echo "suite with patch: FAIL"; tail -20 /tmp/suite.$$; fi
for f in $seed/*_test.go; do cp $f $pkg/; done
if go test -vet=off -count=1 -run "$rx" ./$pkg/ > /tmp/demo1.$$ 2>&1; then echo "demo with patch: PASS (unexpected)"; else echo "demo with patch: FAIL (expected)"; grep -m3 -E "^\s+\S+_test.go|FAIL:" /tmp/demo1.$$; fi
git checkout -q -- .
if go test -vet=off -count=1 -run "$rx" ./$pkg/ > /tmp/demo2.$$ 2>&1; then echo "demo without patch: PASS (expected)"; else echo "demo without patch: FAIL (unexpected)"; tail -5 /tmp/demo2.$$; fi
for f in $seed/*_test.go; do rm -f $pkg/$(basename $f); done
rm -f /tmp/suite.$$ /tmp/demo1.$$ /tmp/demo2.$$
