#!/usr/bin/env python3
"""Generates /verif/reference/operators.json: for every operator cell (evaluator | operator | operand tags) the
canonical outcome set(s) the language reference prescribes, in the notation produced by plverif's `spec` engine.
Sources: docs/src/references/01-syntax-spec.md (§Operator, §Binary Expression, §Select Statement), the statement of
property C02 (integers exact 64-bit, promotion to float only with a float operand, equality across unrelated types
false, numeric equality exact, && / || on booleans, division/modulo by zero and type mismatches are errors).
Cells the reference leaves open are frozen from the pinned tree and marked in `frozen`."""
import json, os
tags = ["Invalid", "Void", "Nil", "Bool", "Int", "Float", "String", "List", "Map"]
num = {"Bool", "Int", "Float"}
sym = {"EQEQ": "==", "NEQ": "!=", "LT": "<", "LTE": "<=", "GT": ">", "GTE": ">=", "ADD": "+", "SUB": "-", "MUL": "*", "DIV": "/", "MOD": "%"}
cells, frozen = {}, []

def b(expr): return f"(bool)({expr}) : Bool"

for op in ["EQEQ", "NEQ"]:
    eq = op == "EQEQ"
    for l in tags:
        for r in tags:
            k = f"condOp|{op}|{l}|{r}"
            if l in num:
                if r in num:
                    if "Float" in (l, r):
                        cells[k] = [b(f"(f64(L) {sym[op]} f64(R))")]
                    else:
                        # numeric equality is exact: both integer-like operands compare as 64-bit integers
                        cells[k] = [b(f"(i64(L) {sym[op]} i64(R))")]
                        if "Bool" in (l, r): frozen.append(k)  # true == 1 is not in the spec; integer view frozen
                else:
                    cells[k] = [b("false" if eq else "true")]
            elif l == "String":
                cells[k] = [b(f"(str(L) {sym[op]} str(R))")] if r == "String" else [b("false" if eq else "true")]
            elif l == "Nil":
                cells[k] = [b("true" if eq else "false")] if r == "Nil" else [b("false" if eq else "true")]
            else:
                cells[k] = [b("reflect.DeepEqual(L, R)" if eq else "!reflect.DeepEqual(L, R)")]
                if l in ("Invalid", "Void"): frozen.append(k)
for op in ["LT", "LTE", "GT", "GTE"]:
    for l in tags:
        for r in tags:
            k = f"condOp|{op}|{l}|{r}"
            if l in num and r in num:
                if "Float" in (l, r):
                    cells[k] = [b(f"(f64(L) {sym[op]} f64(R))")]
                else:
                    cells[k] = [b(f"(i64(L) {sym[op]} i64(R))"), b(f"(int(L) {sym[op]} int(R))")]
            else:
                cells[k] = ["error"]
for op in ["AND", "OR"]:
    for l in tags:
        for r in tags:
            k = f"condOp|{op}|{l}|{r}"
            if l == "Bool" and r == "Bool":
                cells[k] = ["(bool)(bool(R)) : Bool if bool(L) | (bool)(false) : Bool if !(bool(L))"] if op == "AND" else \
                           ["(bool)(bool(R)) : Bool if !(bool(L)) | (bool)(true) : Bool if bool(L)"]
            else:
                cells[k] = ["error"]

def arith(op, l, r):
    ok = {"Int", "Float", "Bool", "String"}
    if l not in ok or r not in ok: return ["error"]
    if "String" in (l, r):
        return ["(string)((str(L) + str(R))) : String"] if (op == "ADD" and l == r == "String") else ["error"]
    if "Float" in (l, r):
        if op == "MOD": return ["error"]
        e = f"(float64)((f64(L) {sym[op]} f64(R))) : Float"
        return [e + " if !((f64(R) == 0)) | error if (f64(R) == 0)"] if op == "DIV" else [e]
    e = f"(int64)((i64(L) {sym[op]} i64(R))) : Int"
    return [e + " if !((i64(R) == 0)) | error if (i64(R) == 0)"] if op in ("DIV", "MOD") else [e]

for op in ["ADD", "SUB", "MUL", "DIV", "MOD"]:
    for l in tags:
        for r in tags:
            cells[f"arith|{op}|{l}|{r}"] = arith(op, l, r)
for aop, op in [("EQ", None), ("ADDEQ", "ADD"), ("SUBEQ", "SUB"), ("MULEQ", "MUL"), ("DIVEQ", "DIV"), ("MODEQ", "MOD")]:
    for l in tags:
        for r in tags:
            cells[f"assignarith|{aop}|{l}|{r}"] = ["error"] if op is None else arith(op, l, r)
for op, s in [("SUB", "-"), ("ADD", "")]:
    for l in tags:
        k = f"unary|{op}|{l}"
        if l == "Bool":
            one = "-1" if op == "SUB" else "1"
            cells[k] = [f"(int64)(0) : Int if !(X.(bool)) | (int64)({one}) : Int if X.(bool)"]
        elif l == "Int":
            cells[k] = [f"(int64)({s}X.(int64)) : Int"]
        elif l == "Float":
            cells[k] = [f"(float64)({s}X.(float64)) : Float"]
        else:
            cells[k] = ["error"]
cells["unary|NOT|nil"] = [b("true")]
cells["unary|NOT|bool"] = [b("!X.(bool)")]
for gt, e in [("int64", "(X.(int64) == 0)"), ("float64", "(X.(float64) == 0)"), ("string", "(len(X.(string)) == 0)"),
              ("[]any", "(len(X.([]any)) == 0)"), ("map[string]any", "(len(X.(map[string]any)) == 0)")]:
    cells[f"unary|NOT|{gt}"] = [f"{b('false')} if !({e}) | {b('true')} if {e}"]
    frozen.append(f"unary|NOT|{gt}")
cells["unary|NOT|int"] = ["error"]
for l in tags:
    for r in tags:
        k = f"in|{l}|{r}"
        if r == "String":
            cells[k] = [b("strings.Contains(R.(string), L.(string))")] if l == "String" else ["error"]
        elif r == "Map":
            cells[k] = [f"{b('false')} if !(has(R.(map[string]any)[L.(string)])) | {b('true')} if has(R.(map[string]any)[L.(string)])"] if l == "String" else ["error"]
        elif r == "List":
            cells[k] = ["LOOP{(bool)(false) : Bool | (bool)(true) : Bool} tests{reflect.DeepEqual(L, elem(R.([]any)))}"]
        else:
            cells[k] = ["error"]
for a, o in [("ADDEQ", "+"), ("SUBEQ", "-"), ("MULEQ", "*"), ("DIVEQ", "/"), ("MODEQ", "%")]:
    cells[f"assign2arith|{a}"] = [f'["{o}" true]']
for a in ["EQ", "ADD", "SUB", "MUL", "DIV", "MOD"]:
    cells[f"assign2arith|{a}"] = ['["" false]']
truthy = {
 "Int": "[false] if (i64(val) == 0) | [true] if !((i64(val) == 0))",
 "Float": "[false] if (f64(val) == 0) | [true] if !((f64(val) == 0))",
 "String": '[false] if (str(val) == "") | [true] if !((str(val) == ""))',
 "Bool": "[bool(val)]",
 "Nil": "[false]",
 "List": "[false] if (len(slice(val)) == 0) | [true] if !((len(slice(val)) == 0))",
 "Map": "[false] if !(is(val,map[string]any)) | [false] if is(val,map[string]any) && (len(val.(map[string]any)) == 0) | [true] if is(val,map[string]any) && !((len(val.(map[string]any)) == 0))",
 "Invalid": "[false]", "Void": "[false]",
}
for t, v in truthy.items():
    cells[f"truthy|{t}"] = [v]
frozen += ["truthy|Invalid", "truthy|Void"]
# outcome sets are rendered in byte order, like the checker does
for k, alts in cells.items():
    cells[k] = [a if a.startswith("LOOP{") else " | ".join(sorted(a.split(" | "))) for a in alts]
out = {"_source": __doc__, "cells": cells, "frozen": sorted(frozen)}
p = os.path.join(os.path.dirname(os.path.dirname(os.path.abspath(__file__))), "reference", "operators.json")
json.dump(out, open(p, "w"), indent=0, sort_keys=True)
print(len(cells), "cells")
