#!/bin/bash
# usage: try_seed.sh <worktree> <seed-name> <pkg-dir-of-demo> <run-regex>
# Saves the worktree's change as /verif/seeded/<seed-name>/, confirms it (suite green, demo red/green),
# applies it to /repo, runs every check, prints the ones that report, and reverts /repo.
export GOFLAGS=-mod=mod GOPROXY=off GOSUMDB=off GOTOOLCHAIN=local; unset GOWORK
wt=$1; name=$2; pkg=$3; rx=$4
d=/verif/seeded/$name
mkdir -p $d
if [ -n "$(git -C $wt status --porcelain)" ]; then
  git -C $wt diff > $d/patch.diff
  for f in $(git -C $wt ls-files --others --exclude-standard | grep _test.go); do cp $wt/$f $d/; done
fi
bash /verif/scripts/confirm_seed.sh $wt $d $pkg "$rx"
if [ -n "$(git -C /repo status --porcelain)" ]; then echo "/repo is dirty, not applying"; exit 2; fi
git -C /repo apply $d/patch.diff || exit 2
for i in $(seq -w 1 20); do
  out=$(/verif/bin/plverif check -p C$i -evidence /tmp/try_seed_ev 2>&1)
  if echo "$out" | grep -q "^VIOLATION"; then
    echo "== C$i reports:"; echo "$out" | grep -v "^VIOLATION" | cut -c1-330 | tail -6
  fi
done
rm -rf /tmp/try_seed_ev
git -C /repo checkout -- .
git -C /repo status --short
