#!/usr/bin/env python3
"""Regenerates /verif/MANIFEST.json from checks.json (one entry per claimed property) and properties.jsonl."""
import json, os, sys
here = os.path.dirname(os.path.dirname(os.path.abspath(__file__)))
props = [json.loads(l) for l in open(os.path.join(here, "properties.jsonl")) if l.strip()]
claimed = json.load(open(os.path.join(here, "checks.json")))
env = "GOFLAGS=-mod=mod GOPROXY=off GOSUMDB=off GOTOOLCHAIN=local GOWORK=off"
checks, na = [], []
for p in props:
    pid = p["id"]
    c = claimed.get(pid)
    if not c or c.get("not_applicable"):
        na.append({"property_id": pid, "reason": (c or {}).get("not_applicable", "check not built yet in this round; see DESIGN.md for the planned static rules")})
        continue
    checks.append({
        "property_id": pid,
        "quick_cmd": f"/verif/bin/plverif check -p {pid} -tier quick",
        "thorough_cmd": f"/verif/bin/plverif check -p {pid} -tier thorough",
        "evidence_file": f"/verif/evidence/{pid}.json",
        "replay_cmd_template": "/verif/bin/plverif replay {path}",
        "engine": "plverif",
        "level_claimed": {"category": "other", "text": c["level_text"], "design_ref": c["design_ref"]},
        "level_note": c["level_note"],
        "technique": c["technique"],
    })
m = {
    "version": 1,
    "setup_cmd": f"cd /verif/tool && env {env} go build -o /verif/bin/plverif . && env {env} go build -o /verif/bin/goyacc golang.org/x/tools/cmd/goyacc",
    "hooks": {
        "guard": "verif",
        "enable": "none needed: the checks are static (nothing in /repo is built with hooks or executed); `-tags verif` would be the guard if a hook were ever added",
        "baseline_off_cmd": "cd /repo && go test -vet=off -count=1 ./...",
        "source_commits": [],
        "add_only": True,
    },
    "engines": [{
        "name": "plverif",
        "path": "/verif/tool",
        "serves_properties": [c["property_id"] for c in checks],
        "kind_free_text": "custom static analyser (Go): go/packages + go/types + go/ssa over /repo's current working tree, plus a goyacc/LALR grammar engine over pkg/parser/gram.y; per-property rule sets produce obligations keyed by rule+construct",
    }],
    "checks": checks,
    "notes": "All checks are static analysis of /repo's current source (type-checked packages, SSA, regenerated LALR automaton). Nothing from /repo is executed. thorough = quick rules + GOARCH=386 configuration + seeded-variant self-test of the rules (in-memory overlays, /repo untouched). Known findings: /verif/known_findings.txt.",
    "not_applicable": na,
}
json.dump(m, open(os.path.join(here, "MANIFEST.json"), "w"), indent=1)
print("checks", len(checks), "not_applicable", len(na))
