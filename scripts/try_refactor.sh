#!/bin/bash
# usage: try_refactor.sh <patch.diff> [scratch-worktree]
# Applies a (behaviour-preserving) patch to a scratch worktree of /repo, runs every check against it and prints the
# checks that report: each report is a false alarm to be fixed in the machinery. The scratch tree is reset afterwards.
export GOFLAGS=-mod=mod GOPROXY=off GOSUMDB=off GOTOOLCHAIN=local; unset GOWORK
patch=$1; wt=${2:-/tmp/dev}
[ -d $wt ] || git -C /repo worktree add --detach $wt HEAD >/dev/null 2>&1
cd $wt || exit 2
git checkout -q -- . ; git clean -fdq
git apply $patch || { echo "patch does not apply: $patch"; exit 2; }
go build ./... || { echo "BUILD FAILS: $patch"; git checkout -q -- .; exit 2; }
n=0
for i in $(seq -w 1 20); do
  out=$(PLVERIF_REPO=$wt ${PLVERIF_BIN:-/verif/bin/plverif} check -p C$i -evidence /tmp/try_rf_ev 2>&1)
  if echo "$out" | grep -q "^VIOLATION\|panic:"; then
    n=$((n+1))
    echo "== C$i reports on $(basename $(dirname $patch))/$(basename $patch):"; echo "$out" | grep "violated\|undecided\|panic:" | cut -c1-420 | head -8
  fi
done
[ $n = 0 ] && echo "silent: $patch"
rm -rf /tmp/try_rf_ev
git checkout -q -- . ; git clean -fdq
