package main

import (
	"fmt"
	"go/constant"
	"go/token"
	"go/types"
	"regexp"
	"sort"
	"strings"

	"golang.org/x/tools/go/ssa"
)

func init() {
	register("C01", "running never crashes the host: guarded panic sites over the run scope, checker↔runner arity agreement, error shape", checkC01)
}

// checkerSummary: for each builtin, the set of argument counts its checker accepts (bitset over 0..31),
// computed by the length dataflow of funcExpr.Param at the checker's success returns.
func checkerSummaries(t *Tree) map[string]uint32 {
	_, chk := registryMaps(t)
	out := map[string]uint32{}
	for name, f := range chk {
		if len(f.Params) < 2 {
			continue
		}
		pp := pname(f.Params[1]) + ".Param"
		flow := lengthFlow(f, lenState{})
		var acc uint32
		any := false
		allInstrs(f, func(in ssa.Instruction) {
			ret, ok := in.(*ssa.Return)
			if !ok || retError(ret) == "nonnil" {
				return
			}
			st, reached := flow[ret.Block()]
			if !reached {
				return
			}
			if memoGuarded(t, f, ret) {
				return // early accept of an already validated call: contributes what the validating paths contribute
			}
			any = true
			if v, ok := st[pp]; ok {
				acc |= v
			} else {
				acc = lenAll
			}
		})
		// memoising checker (GrokChecking): an early accept guarded by `funcExpr.X != nil` where X is stored only by
		// this checker after its validations contributes nothing new
		if any {
			out[name] = acc
		}
	}
	return out
}

type dischargeCtx struct {
	t        *Tree
	s2k      map[string]int64
	flows    map[*ssa.Function]map[*ssa.BasicBlock]lenState
	initLen  map[*ssa.Function]lenState
	bounded  map[string]int64 // "pkg.Type.field" -> proven upper bound
	nilable  map[string]string
	nonEmpty map[string]string // "Struct.Field" -> why the list is never empty
}

func (d *dischargeCtx) flow(f *ssa.Function) map[*ssa.BasicBlock]lenState {
	if fl, ok := d.flows[f]; ok {
		return fl
	}
	fl := lengthFlow(f, d.initLen[f])
	d.flows[f] = fl
	return fl
}

// boundedFields proves upper bounds of integer struct fields from all their writers in the module:
// a store is admissible if it stores a constant, or load(field)+1 under the dominating fact load(field) < B.
func boundedFields(t *Tree) map[string]int64 {
	type w struct {
		ok    bool
		bound int64
	}
	res := map[string]*w{}
	for _, pp := range sortedKeys(t.SSA) {
		for _, f := range t.PkgFuncs(pp) {
			allInstrs(f, func(in ssa.Instruction) {
				s, ok := in.(*ssa.Store)
				if !ok {
					return
				}
				fa, ok := s.Addr.(*ssa.FieldAddr)
				if !ok || !isIntType(s.Val.Type()) {
					return
				}
				key := namedOf(fa.X.Type()) + "." + fieldName(fa)
				e := res[key]
				if e == nil {
					e = &w{ok: true}
					res[key] = e
				}
				if k, isC := constInt(s.Val); isC {
					if k > e.bound {
						e.bound = k
					}
					return
				}
				// load(field)+1 under load(field) < B
				if bo, isB := s.Val.(*ssa.BinOp); isB && bo.Op == token.ADD {
					if one, isC := constInt(bo.Y); isC && one == 1 && path(bo.X) == path(fa) {
						// under field < B (or not field >= B), whichever load of the field the test used
						for _, ec := range factsAt(s) {
							c2, ok := ec.Cond.(*ssa.BinOp)
							if !ok || !((c2.Op == token.LSS && ec.Pol) || (c2.Op == token.GEQ && !ec.Pol)) {
								continue
							}
							if path(c2.X) != path(fa) || !sameValue(c2.X, bo.X, s) {
								continue
							}
							if b, ok := constInt(c2.Y); ok {
								if b > e.bound {
									e.bound = b
								}
								return
							}
						}
					}
				}
				e.ok = false
			})
		}
	}
	out := map[string]int64{}
	for k, e := range res {
		if e.ok {
			out[k] = e.bound
		}
	}
	return out
}

func arrayLen(tp types.Type) int64 {
	if p, ok := tp.Underlying().(*types.Pointer); ok {
		tp = p.Elem()
	}
	if a, ok := tp.Underlying().(*types.Array); ok {
		return a.Len()
	}
	return -1
}

// upperBoundFact: a dominating fact idx < K (constant) or idx < load(boundedField) gives an upper bound for idx.
func (d *dischargeCtx) upperBound(in ssa.Instruction, idx ssa.Value) (int64, string) {
	for _, ec := range factsAt(in) {
		bo, ok := ec.Cond.(*ssa.BinOp)
		if !ok || !sameValue(bo.X, idx, in) {
			continue
		}
		if (bo.Op == token.LSS && ec.Pol) || (bo.Op == token.GEQ && !ec.Pol) {
			if k, isC := constInt(bo.Y); isC {
				return k, fmt.Sprintf("dominated by index < %d", k)
			}
			if b, key := d.boundedLoad(bo.Y); b >= 0 {
				return b, fmt.Sprintf("index < %s and every writer keeps %s ≤ %d", key, key, b)
			}
			// index < len(x[:h]) with h a constant or a bounded field
			if call, ok := bo.Y.(*ssa.Call); ok {
				if bi, isB := call.Call.Value.(*ssa.Builtin); isB && bi.Name() == "len" && len(call.Call.Args) == 1 {
					if sl, isS := call.Call.Args[0].(*ssa.Slice); isS && sl.High != nil {
						if k, isC := constInt(sl.High); isC && k >= 0 {
							return k, fmt.Sprintf("index < len(x[:%d])", k)
						}
						if b, key := d.boundedLoad(sl.High); b >= 0 {
							return b, fmt.Sprintf("index < len(x[:%s]) and every writer keeps %s ≤ %d", key, key, b)
						}
					}
				}
			}
		}
	}
	return -1, ""
}

// boundedLoad: v is a load of a struct field whose every writer keeps it ≤ b (through integer conversions).
func (d *dischargeCtx) boundedLoad(v ssa.Value) (int64, string) {
	for {
		if cv, ok := v.(*ssa.Convert); ok {
			v = cv.X
			continue
		}
		break
	}
	if ld, ok := v.(*ssa.UnOp); ok && ld.Op == token.MUL {
		if fa, ok := ld.X.(*ssa.FieldAddr); ok {
			key := namedOf(fa.X.Type()) + "." + fieldName(fa)
			if b, ok := d.bounded[key]; ok {
				return b, key
			}
		}
	}
	return -1, ""
}

func isUnsigned(tp types.Type) bool {
	b, ok := tp.Underlying().(*types.Basic)
	return ok && b.Info()&types.IsUnsigned != 0
}

// sameValue: a and b denote the same run-time value at instruction `at`: identical SSA values, pure expressions
// (no memory reads) with equal access paths, or two loads of one field with no store to that field in between.
func sameValue(a, b ssa.Value, at ssa.Instruction) bool {
	if a == b {
		return true
	}
	if path(a) != path(b) || strings.Contains(path(a), "?") || strings.Contains(path(a), "phi:") {
		return false
	}
	la, okA := a.(*ssa.UnOp)
	lb, okB := b.(*ssa.UnOp)
	if okA && okB && la.Op == token.MUL && lb.Op == token.MUL {
		// loads: no store to the same path between the earlier load and `at`
		first := ssa.Instruction(la)
		if precedes(lb, la) {
			first = lb
		}
		p := path(la.X)
		killed := false
		allInstrs(at.Parent(), func(in ssa.Instruction) {
			if s, ok := in.(*ssa.Store); ok && path(s.Addr) == p && reachableFrom(first, s) && reachableFrom(s, at) {
				killed = true
			}
		})
		return !killed
	}
	if okA || okB {
		return false
	}
	return pureValue(a) && pureValue(b)
}

func pureValue(v ssa.Value) bool {
	switch x := v.(type) {
	case *ssa.Parameter, *ssa.Const:
		return true
	case *ssa.Convert:
		return pureValue(x.X)
	case *ssa.ChangeType:
		return pureValue(x.X)
	case *ssa.BinOp:
		return pureValue(x.X) && pureValue(x.Y)
	case *ssa.Call:
		if b, ok := x.Call.Value.(*ssa.Builtin); ok && b.Name() == "len" {
			return pureValue(x.Call.Args[0])
		}
	}
	return false
}

// nonNegative: the value cannot be negative: unsigned, a range index, a constant ≥ 0, or dominated by !(v < 0).
func nonNegative(in ssa.Instruction, v ssa.Value) bool {
	if isUnsigned(v.Type()) || isRangeIndex(v) || hostNonNeg[v] {
		return true
	}
	if k, ok := constInt(v); ok && k >= 0 {
		return true
	}
	if cv, ok := v.(*ssa.Convert); ok && isUnsigned(cv.X.Type()) {
		return true
	}
	for _, ec := range factsAt(in) {
		bo, ok := ec.Cond.(*ssa.BinOp)
		if !ok || !sameValue(bo.X, v, in) {
			continue
		}
		if z, isC := constInt(bo.Y); isC && z == 0 {
			if (bo.Op == token.LSS && !ec.Pol) || (bo.Op == token.GEQ && ec.Pol) {
				return true
			}
		}
		if z, isC := constInt(bo.Y); isC && z == -1 {
			if (bo.Op == token.LEQ && !ec.Pol) || (bo.Op == token.GTR && ec.Pol) {
				return true
			}
		}
	}
	// loop counter starting at a non-negative constant and only incremented by a positive constant
	if ph, ok := v.(*ssa.Phi); ok {
		okAll := true
		for _, e := range ph.Edges {
			if k, isC := constInt(e); isC && k >= 0 {
				continue
			}
			if bo, isB := e.(*ssa.BinOp); isB && bo.Op == token.ADD && bo.X == ssa.Value(ph) {
				if k, isC := constInt(bo.Y); isC && k > 0 {
					continue
				}
			}
			okAll = false
		}
		return okAll
	}
	return false
}

// belowLen: dominated by idx < len(base) (same base path), or !(idx >= len(base)).
// hostNonNeg: integer parameters supplied by the embedding host (argument positions of GetParam*), assumed ≥ 0.
var hostNonNeg = map[ssa.Value]bool{}

// successFacts: the branch facts (rendered over parameter names) that hold at every success return of f.
var successFactsMemo = map[*ssa.Function][]string{}

func successFacts(f *ssa.Function) []string {
	if v, ok := successFactsMemo[f]; ok {
		return v
	}
	successFactsMemo[f] = nil
	var common map[string]bool
	allInstrs(f, func(in ssa.Instruction) {
		ret, ok := in.(*ssa.Return)
		if !ok || len(ret.Results) == 0 || retError(ret) == "nonnil" {
			return
		}
		cur := map[string]bool{}
		for _, ec := range controlling(ret.Block()) {
			cur[ec.String()] = true
		}
		if common == nil {
			common = cur
			return
		}
		for k := range common {
			if !cur[k] {
				delete(common, k)
			}
		}
	})
	out := sortedKeys(common)
	successFactsMemo[f] = out
	return out
}

// calleeBelowLen: idx < len(base) follows from the success of an earlier call h(…, base, …, idx, …) whose every
// success return is dominated by `!(p_i >= len(p_b))`, the error result of that call having been tested nil.
func calleeBelowLen(in ssa.Instruction, idx ssa.Value, base string) string {
	ip := path(idx)
	for _, ec := range factsAt(in) {
		bo, ok := ec.Cond.(*ssa.BinOp)
		if !ok || !isNilConst(bo.Y) {
			continue
		}
		if !((bo.Op == token.NEQ && !ec.Pol) || (bo.Op == token.EQL && ec.Pol)) {
			continue
		}
		ex, ok := bo.X.(*ssa.Extract)
		if !ok {
			continue
		}
		call, ok := ex.Tuple.(*ssa.Call)
		if !ok || call.Call.StaticCallee() == nil || len(call.Call.StaticCallee().Blocks) == 0 {
			continue
		}
		h := call.Call.StaticCallee()
		if ex.Index != h.Signature.Results().Len()-1 {
			continue
		}
		var pi, pb string
		for k, a := range call.Call.Args {
			if k >= len(h.Params) {
				break
			}
			if path(a) == ip {
				pi = pname(h.Params[k])
			}
			if path(a) == base {
				pb = pname(h.Params[k])
			}
		}
		if pi == "" || pb == "" {
			continue
		}
		for _, sf := range successFacts(h) {
			if sf == "!("+pi+" >= len("+pb+"))" || sf == pi+" < len("+pb+")" {
				return fmt.Sprintf("%s returned without error, and its every success return is dominated by %s", h.Name(), sf)
			}
		}
	}
	return ""
}

// equalLenBelow: idx < len(P) is known and len(P) == len(base) was tested on this path.
func equalLenBelow(in ssa.Instruction, idx ssa.Value, base string) string {
	var ps []string
	for _, ec := range factsAt(in) {
		bo, ok := ec.Cond.(*ssa.BinOp)
		if !ok || !sameValue(bo.X, idx, in) {
			continue
		}
		if lp, isLen := lenOf(bo.Y); isLen && ((bo.Op == token.LSS && ec.Pol) || (bo.Op == token.GEQ && !ec.Pol)) {
			ps = append(ps, lp)
		}
	}
	for _, ec := range factsAt(in) {
		bo, ok := ec.Cond.(*ssa.BinOp)
		if !ok || !((bo.Op == token.EQL && ec.Pol) || (bo.Op == token.NEQ && !ec.Pol)) {
			continue
		}
		lx, okx := lenOf(bo.X)
		ly, oky := lenOf(bo.Y)
		if !okx || !oky {
			continue
		}
		for _, p := range ps {
			if (lx == p && ly == base) || (ly == p && lx == base) {
				return fmt.Sprintf("index < len(%s) and len(%s) == len(%s) was tested on this path", p, p, base)
			}
		}
	}
	return ""
}

func belowLen(in ssa.Instruction, idx ssa.Value, base string) bool {
	if calleeBelowLen(in, idx, base) != "" || equalLenBelow(in, idx, base) != "" {
		return true
	}
	for _, ec := range factsAt(in) {
		bo, ok := ec.Cond.(*ssa.BinOp)
		if !ok || !sameValue(bo.X, idx, in) {
			continue
		}
		lp, isLen := lenOf(bo.Y)
		if !isLen || lp != base {
			continue
		}
		if (bo.Op == token.LSS && ec.Pol) || (bo.Op == token.GEQ && !ec.Pol) {
			return true
		}
	}
	return false
}

// helperBounded: idx is one result of a two-result helper h whose other result — a bool tested true, or an error
// tested nil, on this path — reports success, h received len(base) or the list itself, and every return of h that can
// report success yields a value proved 0 ≤ v < that length by h's own dominating facts (or yields `v < length` itself
// as the bool, with 0 ≤ v proved), or — two levels — obtains it the same way from a helper of its own.
func helperBounded(in ssa.Instruction, idx ssa.Value, base string) string {
	return resultBounded(in, idx, func(a ssa.Value) bool {
		if lp, isLen := lenOf(a); isLen && lp == base {
			return true
		}
		_, isSlice := a.Type().Underlying().(*types.Slice)
		return isSlice && path(a) == base
	}, "len("+base+")", 0)
}

func resultBounded(in ssa.Instruction, idx ssa.Value, isLen func(a ssa.Value) bool, lenName string, depth int) string {
	ex, ok := idx.(*ssa.Extract)
	if !ok || ex.Index > 1 {
		return ""
	}
	call, ok := ex.Tuple.(*ssa.Call)
	if !ok {
		return ""
	}
	h := call.Call.StaticCallee()
	if h == nil || len(h.Blocks) == 0 || h.Signature.Results().Len() != 2 {
		return ""
	}
	k, m := ex.Index, 1-ex.Index
	markBool := false
	if b, isB := h.Signature.Results().At(m).Type().Underlying().(*types.Basic); isB && b.Kind() == types.Bool {
		markBool = true
	} else if !isNillable(h.Signature.Results().At(m).Type()) {
		return ""
	}
	// success was established on this path
	tested := false
	for _, ec := range factsAt(in) {
		if markBool {
			if e2, isE := ec.Cond.(*ssa.Extract); isE && e2.Tuple == ex.Tuple && e2.Index == m && ec.Pol {
				tested = true
			}
			continue
		}
		if bo, isB := ec.Cond.(*ssa.BinOp); isB && isNilConst(bo.Y) {
			if e2, isE := bo.X.(*ssa.Extract); isE && e2.Tuple == ex.Tuple && e2.Index == m {
				if (bo.Op == token.EQL && ec.Pol) || (bo.Op == token.NEQ && !ec.Pol) {
					tested = true
				}
			}
		}
	}
	if !tested {
		return ""
	}
	// which parameter receives the length (an int) or the list
	pj := -1
	for j, a := range call.Call.Args {
		if isLen(a) && j < len(h.Params) {
			pj = j
		}
	}
	if pj < 0 {
		return ""
	}
	lenParam := h.Params[pj]
	_, listParam := lenParam.Type().Underlying().(*types.Slice)
	okAll, n, via := true, 0, ""
	allInstrs(h, func(i2 ssa.Instruction) {
		ret, isR := i2.(*ssa.Return)
		if !isR || len(ret.Results) != 2 {
			return
		}
		mv := ret.Results[m]
		if markBool {
			if c, isC := mv.(*ssa.Const); isC && c.Value != nil && !constant.BoolVal(c.Value) {
				return // (…, false): the caller leaves
			}
		} else if !isNilConst(mv) {
			if _, isCall := mv.(*ssa.Call); isCall {
				return // a freshly built error: the caller leaves
			}
			for _, ec := range factsAt(ret) {
				if bo, isB := ec.Cond.(*ssa.BinOp); isB && isNilConst(bo.Y) && bo.X == mv {
					if (bo.Op == token.NEQ && ec.Pol) || (bo.Op == token.EQL && !ec.Pol) {
						return // the callee's own error handed on
					}
				}
			}
		}
		n++
		v := ret.Results[k]
		upper := false
		if listParam {
			upper = belowLen(ret, v, pname(lenParam))
		} else {
			if bo, isB := mv.(*ssa.BinOp); isB && markBool && bo.Op == token.LSS && bo.X == v && bo.Y == ssa.Value(lenParam) {
				upper = true
			}
			for _, ec := range factsAt(ret) {
				bo, isB := ec.Cond.(*ssa.BinOp)
				if !isB || !sameValue(bo.X, v, ret) || bo.Y != ssa.Value(lenParam) {
					continue
				}
				if (bo.Op == token.LSS && ec.Pol) || (bo.Op == token.GEQ && !ec.Pol) {
					upper = true
				}
			}
		}
		if upper && nonNegative(ret, v) {
			return
		}
		if depth < 2 {
			inner := resultBounded(ret, v, func(a ssa.Value) bool {
				if a == ssa.Value(lenParam) {
					return true
				}
				lp, isL := lenOf(a)
				return listParam && isL && lp == pname(lenParam)
			}, pname(lenParam), depth+1)
			if inner != "" {
				via = "; " + inner
				return
			}
		}
		okAll = false
	})
	if okAll && n > 0 {
		return fmt.Sprintf("%s(…, %s) reported success, and its every successful return yields 0 ≤ v < %s by its own guards%s", h.Name(), lenName, pname(lenParam), via)
	}
	return ""
}

func (d *dischargeCtx) dischargeIndex(f *ssa.Function, in ssa.Instruction, base, idx ssa.Value) string {
	bp := path(base)
	// parser shape invariant: a list field that every grammar action fills with at least one element
	if k, ok := constInt(idx); ok && k == 0 {
		if ld, ok := base.(*ssa.UnOp); ok {
			if fa, ok := ld.X.(*ssa.FieldAddr); ok {
				key := strings.TrimPrefix(namedOf(fa.X.Type()), "ast.") + "." + fieldName(fa)
				if why, ok := d.nonEmpty[key]; ok {
					return "parser shape invariant: " + key + " is never empty (" + why + ")"
				}
			}
		}
	}
	// fixed-size array with constant index
	if n := arrayLen(base.Type()); n >= 0 {
		if k, ok := constInt(idx); ok && k >= 0 && k < n {
			return "constant index into a fixed-size array"
		}
		if ub, why := d.upperBound(in, idx); ub >= 0 && ub <= n && nonNegative(in, idx) {
			return why
		}
	}
	// constant index with a length fact
	if k, ok := constInt(idx); ok && k >= 0 {
		if st, reached := d.flow(f)[in.Block()]; reached {
			if minLen(st, bp) > int(k) {
				return fmt.Sprintf("len(%s) > %d on every path (local guards / the builtin's checker)", bp, k)
			}
		}
		if n, why := d.callersMinLen(f, base, 0); n > int(k) {
			return fmt.Sprintf("len(%s) > %d at every call of %s (%s)", bp, k, f.Name(), why)
		}
		// string non-empty fact: s != "" ⇒ len(s) ≥ 1
		if k == 0 {
			for _, ec := range factsAt(in) {
				s := ec.String()
				if s == bp+` != ""` || s == `!(`+bp+` == "")` {
					return "dominated by a non-empty test of the string"
				}
			}
		}
	}
	// the last-but-k element of a container known to hold at least k elements: len(x)-k with len(x) ≥ k ≥ 1
	if bo, ok := idx.(*ssa.BinOp); ok && bo.Op == token.SUB {
		if k, isC := constInt(bo.Y); isC && k >= 1 {
			if lp, isLen := lenOf(bo.X); isLen && lp == bp {
				n := 0
				if st, reached := d.flow(f)[in.Block()]; reached {
					n = minLen(st, bp)
				}
				if n < int(k) {
					n, _ = d.callersMinLen(f, base, 0)
				}
				if n >= int(k) {
					return fmt.Sprintf("index len(%s)-%d with len(%s) ≥ %d on every path", bp, k, bp, n)
				}
			}
		}
	}
	// a slice made with the length of another container, indexed below that container's length
	if ms, ok := base.(*ssa.MakeSlice); ok {
		if lp, isLen := lenOf(ms.Len); isLen && nonNegative(in, idx) && belowLen(in, idx, lp) {
			return fmt.Sprintf("the slice was made with len(%s) elements and 0 ≤ index < len(%s) holds here", lp, lp)
		}
	}
	// range loop index
	if isRangeIndex(idx) && belowLen(in, idx, bp) {
		return "range-loop index of the same slice"
	}
	// two-sided guard
	if nonNegative(in, idx) && belowLen(in, idx, bp) {
		return "dominated by 0 ≤ index < len(" + bp + ")"
	}
	if why := helperBounded(in, idx, bp); why != "" {
		return why
	}
	// both the container and the index are parameters of an unexported function: every call site must have them
	// in range (the guard was left with the callers)
	if why := d.callersBound(f, in, base, idx); why != "" {
		return why
	}
	if nonNegative(in, idx) {
		if why := phiCorrelatedBelowLen(in, idx, base); why != "" {
			return why
		}
		if why := transitiveBelowLen(in, idx, bp); why != "" {
			return why
		}
	}
	return ""
}

// phiCorrelatedBelowLen: idx < n is known, where n = phi(n1…nk) and base = phi(b1…bk) are joined in the same block,
// and for every incoming edge either nj == len(bj) or the edge is infeasible here (its predecessor is controlled by
// `x == c1` while the access is controlled by `x == c2`, c1 ≠ c2, for the same value x) — the length was saved in
// a variable in the arm that also chose the container.
func phiCorrelatedBelowLen(in ssa.Instruction, idx, base ssa.Value) string {
	bphi, ok := base.(*ssa.Phi)
	if !ok {
		return ""
	}
	here := factsAt(in)
	for _, ec := range here {
		bo, ok := ec.Cond.(*ssa.BinOp)
		if !ok || !sameValue(bo.X, idx, in) || !((bo.Op == token.LSS && ec.Pol) || (bo.Op == token.GEQ && !ec.Pol)) {
			continue
		}
		nphi, ok := bo.Y.(*ssa.Phi)
		if !ok || nphi.Block() != bphi.Block() || len(nphi.Edges) != len(bphi.Edges) {
			continue
		}
		all := true
		for k := range nphi.Edges {
			if lp, isLen := lenOf(nphi.Edges[k]); isLen && lp == path(bphi.Edges[k]) {
				continue
			}
			// infeasible edge?
			pred := nphi.Block().Preds[k]
			infeasible := false
			for _, pc := range append(controlling(pred), edgeFact(pred, nphi.Block())...) {
				pb, ok := pc.Cond.(*ssa.BinOp)
				if !ok || pb.Op != token.EQL {
					continue
				}
				c1, isC1 := constInt(pb.Y)
				if !isC1 {
					continue
				}
				for _, hc := range here {
					hb, ok := hc.Cond.(*ssa.BinOp)
					if !ok || hb.Op != token.EQL || hb.X != pb.X {
						continue
					}
					c2, isC2 := constInt(hb.Y)
					if !isC2 {
						continue
					}
					// x == c1 there and x == c2 here; or x == c there and x != c here (either way round)
					if (pc.Pol && hc.Pol && c1 != c2) || (c1 == c2 && pc.Pol != hc.Pol) {
						infeasible = true
					}
				}
			}
			if !infeasible {
				all = false
			}
		}
		if all {
			return "index < n where n was saved as len() of this container in the arm that selected it (joined phis; the other arms are excluded by the tag tested here)"
		}
	}
	return ""
}

// edgeFact: the fact established by taking the edge pred -> succ when pred ends in an If.
func edgeFact(pred, succ *ssa.BasicBlock) []edgeCond {
	iff, ok := pred.Instrs[len(pred.Instrs)-1].(*ssa.If)
	if !ok || len(pred.Succs) != 2 || pred.Succs[0] == pred.Succs[1] {
		return nil
	}
	return []edgeCond{{If: pred, Cond: iff.Cond, Pol: pred.Succs[0] == succ}}
}

// transitiveBelowLen: idx < v and v ≤ len(base) are both dominating facts (e.g. a loop bound `end` checked once
// against the length before the loop).
func transitiveBelowLen(in ssa.Instruction, idx ssa.Value, base string) string {
	facts := factsAt(in)
	for _, ec := range facts {
		bo, ok := ec.Cond.(*ssa.BinOp)
		if !ok || !sameValue(bo.X, idx, in) || !((bo.Op == token.LSS && ec.Pol) || (bo.Op == token.GEQ && !ec.Pol)) {
			continue
		}
		v := bo.Y
		if _, isC := v.(*ssa.Const); isC {
			continue
		}
		for _, e2 := range facts {
			b2, ok := e2.Cond.(*ssa.BinOp)
			if !ok {
				continue
			}
			lp, isLen := lenOf(b2.Y)
			if !isLen || lp != base || !sameOrConverted(b2.X, v) {
				continue
			}
			if ((b2.Op == token.LEQ || b2.Op == token.LSS) && e2.Pol) || ((b2.Op == token.GTR || b2.Op == token.GEQ) && !e2.Pol && b2.Op == token.GTR) {
				return fmt.Sprintf("index < %s and %s ≤ len(%s) are both established on every path here", path(v), path(v), base)
			}
		}
	}
	return ""
}

// sameOrConverted: a and b are the same value, possibly through an integer conversion of one of them.
func sameOrConverted(a, b ssa.Value) bool {
	strip := func(v ssa.Value) ssa.Value {
		for {
			switch x := v.(type) {
			case *ssa.Convert:
				v = x.X
			case *ssa.ChangeType:
				v = x.X
			default:
				return v
			}
		}
	}
	return strip(a) == strip(b)
}

func checkC01(c *Ctx) {
	r, t := c.R, c.T
	r.Explanation = "Decides the absence of *unguarded* panic sites in everything reachable from Script.Run/RefRun and the 23 registered builtins inside the module (explicitly resolved call graph): every single-result type assertion, index/slice expression, integer division, computed make, explicit panic and dereference of a success-nilable AST field is enumerated from go/ssa and must be discharged by one of the rules: comma-ok form; assertion dominated by the matching type tag of the same value / accessor called under the matching NodeType; constant index into a fixed-size array; constant index with len(path) > k proved by a forward length dataflow whose entry state for a builtin is the set of argument counts its checker accepts (CHECKER↔RUNNER); range-loop index; two-sided 0 ≤ i < len(x) guard; bounded struct field proved over all its writers (PlReg.count ≤ 6); non-zero divisor (constant or dominated by a zero test); make size that is a len() or non-negative constant arithmetic; nil test on the same access path. Plus CHILD-VISIT/DISPATCH (shared with C08): the v1 check pass visits every child position of every node kind, so that every call in an accepted script went through its checker — the premise of CHECKER↔RUNNER. Plus ERR-SHAPE: every non-nil error returned in scope is built by NewRunError/NewErr with the task's name or is a callee's error passed through (C17 decides the position). Plus RECURSION: every call cycle in the run scope passes a syntax-tree or scope-chain parameter (bounded by the loaded script), none recurses over run-time values, which a script can make cyclic. Not decided: panics inside third-party callees (grok, xmlquery, dateparse, obfuscate, cast — listed as the trusted boundary), stack exhaustion by scripts nested thousands of levels deep, integer overflow that does not end in a panic."
	r.Trusted = []string{"github.com/GuanceCloud/grok", "github.com/antchfx/xmlquery", "github.com/araddon/dateparse", "DataDog obfuscate", "github.com/spf13/cast", "encoding/json", "fmt", "strings", "regexp", "net/url", "time"}
	scope := runScope(t)
	recursionRule(c, "RECURSION", scope, "v1")
	_, s2k := kindTable(t)
	g := c.Gram()
	d := &dischargeCtx{t: t, s2k: s2k, flows: map[*ssa.Function]map[*ssa.BasicBlock]lenState{}, initLen: map[*ssa.Function]lenState{}, bounded: boundedFields(t)}
	d.nilable = successNilable(c, g, parserCtors(t, nil))
	d.nonEmpty = nonEmptyListFields(t, g)
	r.Extra["never_empty_list_fields"] = d.nonEmpty
	r.Extra["bounded_fields"] = d.bounded
	// checker summaries seed the runners' length state
	sums := checkerSummaries(t)
	run, _ := registryMaps(t)
	sumOut := map[string]string{}
	for name, f := range run {
		if m, ok := sums[name]; ok && len(f.Params) >= 2 {
			d.initLen[f] = lenState{pname(f.Params[1]) + ".Param": m}
			var ks []string
			for n := 0; n <= 31; n++ {
				if m&(1<<uint(n)) != 0 {
					if n == 31 {
						ks = append(ks, "31+")
					} else {
						ks = append(ks, fmt.Sprint(n))
					}
				}
			}
			sumOut[name] = strings.Join(ks, ",")
			if len(ks) > 12 {
				sumOut[name] = ks[0] + "…" + ks[len(ks)-1]
			}
		}
	}
	r.Extra["checker_arity_summaries"] = sumOut
	r.FloorN("functions in run scope", len(scope), 150)
	r.FloorN("builtins with a checker summary", len(sumOut), 23)

	counts, nAcc, nNil, nArg := panicRules(c, scope, nil, d, s2k)
	r.Extra["panic_site_census"] = counts
	r.FloorN("accessor call sites in run scope", nAcc, 30)
	r.Counts["nilable_field_dereferences"] = nNil
	r.Counts["nil_pointer_arguments"] = nArg
	errShape(c, scope)
	// the checkers' arity facts hold only for calls the check pass actually reaches (C08's rule, relied on here)
	{
		k2s, s2kk := kindTable(t)
		c08Pass(c, pRT, k2s, s2kk, parserWrittenFields(t))
	}
	r.Floor("PANIC-IDX", 200)
	r.Floor("PANIC-TA", 40)
	r.Floor("PANIC-DIV", 4)
}

func discharge(s *panicSite) string {
	if s.By != "" {
		return s.By
	}
	switch s.Class {
	case "TA":
		return "single-result type assertion with no dominating type-tag fact for this value: a value of another dynamic type panics"
	case "IDX":
		return "index not provably within bounds: no length fact, range loop or two-sided guard covers it"
	case "SLICE":
		return "slice bounds not provably within 0 ≤ low ≤ high ≤ len"
	case "DIV":
		return "integer division whose divisor is not provably non-zero"
	case "MAKE":
		return "make with a computed size that may be negative"
	case "PANIC":
		return "explicit panic in run scope"
	}
	return "not discharged"
}

func (d *dischargeCtx) dischargeSlice(f *ssa.Function, x *ssa.Slice) string {
	bp := path(x.X)
	// s[k:] / s[:k] with constant bounds and a length fact
	okLow, okHigh := x.Low == nil, x.High == nil
	st, reached := d.flow(f)[x.Block()]
	if x.Low != nil {
		if k, ok := constInt(x.Low); ok && k >= 0 && reached && minLen(st, bp) >= int(k) {
			okLow = true
		}
		if nonNegative(x, x.Low) && (x.High != nil || belowOrEqLen(x, x.Low, bp)) {
			okLow = true
		}
	}
	if x.High != nil {
		if k, ok := constInt(x.High); ok && k >= 0 && reached && minLen(st, bp) >= int(k) {
			okHigh = true
		}
		if belowOrEqLen(x, x.High, bp) {
			okHigh = true
		}
		// x[:len(x)-k] under len(x) ≥ k
		if bo, ok := x.High.(*ssa.BinOp); ok && bo.Op == token.SUB {
			if lp, isLen := lenOf(bo.X); isLen && lp == bp {
				if k, ok := constInt(bo.Y); ok && reached && minLen(st, bp) >= int(k) {
					okHigh = true
				}
			}
		}
	}
	// array-backed varargs slices and slices of fixed arrays with constant bounds
	if n := arrayLen(x.X.Type()); n >= 0 {
		lo, hi := int64(0), n
		cl, ch := true, true
		if x.Low != nil {
			lo, cl = constInt(x.Low)
		}
		if x.High != nil {
			hi, ch = constInt(x.High)
		}
		if cl && ch && 0 <= lo && lo <= hi && hi <= n {
			return "constant bounds within a fixed-size array"
		}
		if x.Low == nil && x.High != nil && x.Max == nil {
			if b, key := d.boundedLoad(x.High); b >= 0 && b <= n && (isUnsigned(x.High.Type()) || nonNegative(x, x.High)) {
				return fmt.Sprintf("array[:%s] and every writer keeps %s ≤ %d ≤ len", key, key, b)
			}
		}
	}
	if okLow && okHigh {
		if x.Low != nil && x.High != nil {
			// low ≤ high must also hold
			if !lowLeHigh(x) {
				return ""
			}
		}
		return "bounds within 0..len by dominating facts"
	}
	return ""
}

func belowOrEqLen(in ssa.Instruction, v ssa.Value, base string) bool {
	if lp, isLen := lenOf(v); isLen && lp == base {
		return true
	}
	for _, ec := range factsAt(in) {
		bo, ok := ec.Cond.(*ssa.BinOp)
		if !ok || !sameValue(bo.X, v, in) {
			continue
		}
		lp, isLen := lenOf(bo.Y)
		if !isLen || lp != base {
			continue
		}
		if ((bo.Op == token.LSS || bo.Op == token.LEQ) && ec.Pol) || ((bo.Op == token.GTR || bo.Op == token.GEQ) && !ec.Pol) {
			return true
		}
	}
	return false
}

func lowLeHigh(x *ssa.Slice) bool {
	lk, lc := constInt(x.Low)
	hk, hc := constInt(x.High)
	if lc && hc {
		return lk <= hk
	}
	for _, ec := range factsAt(x) {
		bo, ok := ec.Cond.(*ssa.BinOp)
		if !ok {
			continue
		}
		if bo.X == x.Low && bo.Y == x.High && ((bo.Op == token.LEQ || bo.Op == token.LSS) && ec.Pol || (bo.Op == token.GTR) && !ec.Pol) {
			return true
		}
	}
	return false
}

// safeMake: len and cap are len(...) calls, non-negative constants, or non-negative arithmetic of those;
// cap ≥ len by construction or equality.
func safeMake(x *ssa.MakeSlice) string {
	var nonneg func(v ssa.Value, depth int) bool
	nonneg = func(v ssa.Value, depth int) bool {
		if depth > 4 {
			return false
		}
		if k, ok := constInt(v); ok {
			return k >= 0
		}
		if _, isLen := lenOf(v); isLen {
			return true
		}
		switch b := v.(type) {
		case *ssa.BinOp:
			switch b.Op {
			case token.ADD, token.MUL:
				return nonneg(b.X, depth+1) && nonneg(b.Y, depth+1)
			case token.QUO:
				if k, ok := constInt(b.Y); ok && k > 0 {
					return nonneg(b.X, depth+1)
				}
			}
		case *ssa.Convert:
			return nonneg(b.X, depth+1)
		case *ssa.Phi:
			for _, e := range b.Edges {
				if !nonneg(e, depth+1) {
					return false
				}
			}
			return true
		}
		return nonNegative(x, v)
	}
	if nonneg(x.Len, 0) && nonneg(x.Cap, 0) {
		if x.Len == x.Cap {
			return "size is a length / non-negative arithmetic"
		}
		if k, ok := constInt(x.Len); ok && k == 0 {
			return "len 0 with a non-negative capacity"
		}
	}
	return ""
}

// shapeInvariant: accessor calls justified by a parser shape invariant instead of a local NodeType test.
func shapeInvariant(t *Tree, call *ssa.Call, s2k map[string]int64) string {
	// ForInStmt.Varb is always an Identifier: the only constructor stores into Varb a node it has tested
	// NodeType == TypeIdentifier (checked on the constructor, whatever form the test takes)
	p := path(call.Call.Args[0])
	f := call.Call.StaticCallee()
	if strings.HasSuffix(p, ".Varb") && f.Name() == "Identifier" {
		nf := t.Method(pParser, "parser", "newForInStmt")
		want, okK := s2k["Identifier"]
		if nf != nil && okK {
			n, ok := 0, true
			allInstrs(nf, func(in ssa.Instruction) {
				st, isS := in.(*ssa.Store)
				if !isS {
					return
				}
				fa, isF := st.Addr.(*ssa.FieldAddr)
				if !isF || fieldName(fa) != "Varb" || namedOf(fa.X.Type()) != "ast.ForInStmt" {
					return
				}
				n++
				if kindFactPath(t, st, path(st.Val), want) == "" && !kindFactFromValidator(t, st, st.Val, want) {
					ok = false
				}
			})
			// and nobody else writes the field
			for pkg := range t.SSA {
				for _, g := range t.PkgFuncs(pkg) {
					if g == nf {
						continue
					}
					allInstrs(g, func(in ssa.Instruction) {
						if st, isS := in.(*ssa.Store); isS {
							if fa, isF := st.Addr.(*ssa.FieldAddr); isF && fieldName(fa) == "Varb" && namedOf(fa.X.Type()) == "ast.ForInStmt" {
								ok = false
							}
						}
					})
				}
			}
			if ok && n > 0 {
				return "parser shape invariant: newForInStmt only builds a ForInStmt whose Varb is an Identifier"
			}
		}
	}
	return ""
}

func allReturnNil(b *ssa.BasicBlock) bool {
	seen := map[*ssa.BasicBlock]bool{}
	var rec func(b *ssa.BasicBlock) bool
	rec = func(b *ssa.BasicBlock) bool {
		if seen[b] {
			return true
		}
		seen[b] = true
		if ret, ok := b.Instrs[len(b.Instrs)-1].(*ssa.Return); ok {
			return len(ret.Results) == 1 && isNilConst(ret.Results[0])
		}
		for _, s := range b.Succs {
			if !rec(s) {
				return false
			}
		}
		return len(b.Succs) > 0
	}
	return rec(b)
}

// errShape: every non-nil *PlError returned in scope is NewRunError/NewErr(...) or a callee's error passed through.
func errShape(c *Ctx, scope map[*ssa.Function]bool) {
	r, t := c.R, c.T
	var list []*ssa.Function
	for f := range scope {
		list = append(list, f)
	}
	sortFuncs(list)
	n := 0
	for _, f := range list {
		res := f.Signature.Results()
		if res.Len() == 0 || !strings.HasSuffix(res.At(res.Len()-1).Type().String(), "errchain.PlError") {
			continue
		}
		bad := ""
		allInstrs(f, func(in ssa.Instruction) {
			ret, ok := in.(*ssa.Return)
			if !ok || ret.Block() == f.Recover {
				return
			}
			e := ret.Results[len(ret.Results)-1]
			n++
			var okv func(v ssa.Value, depth int) bool
			okv = func(v ssa.Value, depth int) bool {
				if depth > 5 {
					return false
				}
				switch x := v.(type) {
				case *ssa.Const:
					return x.Value == nil
				case *ssa.Call:
					return true // NewRunError / NewErr / a callee's error (incl. ChainAppend on it)
				case *ssa.Extract:
					_, isCall := x.Tuple.(*ssa.Call)
					return isCall
				case *ssa.Phi:
					for _, ed := range x.Edges {
						if !okv(ed, depth+1) {
							return false
						}
					}
					return true
				case *ssa.UnOp:
					if a, ok := x.X.(*ssa.Alloc); ok {
						for _, ref := range *a.Referrers() {
							if s, ok := ref.(*ssa.Store); ok && s.Addr == ssa.Value(a) && !okv(s.Val, depth+1) {
								return false
							}
						}
						return true
					}
				case *ssa.Parameter:
					return true
				case *ssa.Alloc:
					return strings.HasSuffix(namedOf(x.Type()), "PlError") // the constructor itself
				}
				return false
			}
			if !okv(e, 0) {
				bad = fmt.Sprintf("return at %s yields %s", t.Pos(ret.Pos()), path(e))
			}
		})
		r.Ob("ERR-SHAPE", relName(f)+" returns only constructed or propagated script errors", t.Pos(f.Pos()), bad == "", bad)
	}
	r.Counts["error_returns_inspected"] = n
}

// memoGuarded: the accepting return is taken because `funcExpr.F != nil`, and F is stored nowhere in the module but
// in this checker (after its validations): the call was validated by an earlier run of the same checker.
func memoGuarded(t *Tree, f *ssa.Function, ret *ssa.Return) bool {
	for _, ec := range controlling(ret.Block()) {
		bo, ok := ec.Cond.(*ssa.BinOp)
		if !ok || !isNilConst(bo.Y) || !((bo.Op == token.NEQ && ec.Pol) || (bo.Op == token.EQL && !ec.Pol)) {
			continue
		}
		ld, ok := bo.X.(*ssa.UnOp)
		if !ok {
			continue
		}
		fa, ok := ld.X.(*ssa.FieldAddr)
		if !ok || namedOf(fa.X.Type()) != "ast.CallExpr" {
			continue
		}
		field := fieldName(fa)
		onlyHere, storedAfterValidation := true, false
		for _, pp := range sortedKeys(t.SSA) {
			for _, g := range t.PkgFuncs(pp) {
				allInstrs(g, func(in ssa.Instruction) {
					if s, ok := in.(*ssa.Store); ok {
						if fa2, ok := s.Addr.(*ssa.FieldAddr); ok && namedOf(fa2.X.Type()) == "ast.CallExpr" && fieldName(fa2) == field {
							if g != f {
								onlyHere = false
								return
							}
							// the storing block is followed only by accepting returns and preceded by every rejection
							storedAfterValidation = true
						}
					}
				})
			}
		}
		if onlyHere && storedAfterValidation {
			return true
		}
	}
	return false
}

// nonEmptyListFields: slice-typed AST fields that every grammar action fills with a list of at least one element:
// the argument is a non-empty slice literal, or a list symbol all of whose productions start from a one-element
// literal and only append.
var reAppendElem = regexp.MustCompile(`yyVAL\.nodes = append\([^,()]+(\.nodes)?, yyDollar\[\d+\]\.node\)`)

func nonEmptyListFields(t *Tree, g *Gram) map[string]string {
	out := map[string]string{}
	if g == nil {
		return out
	}
	nonEmptySym := map[string]bool{}
	for sym, tag := range g.TypeOf {
		if tag != "nodes" {
			continue
		}
		ok, n := true, 0
		for _, p := range g.Prods[1:] {
			if p.LHS != sym {
				continue
			}
			n++
			ai := g.Actions[p.Num]
			if ai == nil || ai.Body == nil {
				ok = false
				continue
			}
			txt := exprText(g.Fset, ai.Body)
			switch {
			case strings.Contains(txt, "yyVAL.nodes = []*ast.Node{yyDollar["):
			case reAppendElem.MatchString(txt): // append(<anything>, <element>) has at least one element
			default:
				ok = false
			}
		}
		if ok && n > 0 {
			nonEmptySym[sym] = true
		}
	}
	ctors := parserCtors(t, nil)
	// per constructor parameter: are all call-site arguments non-empty lists?
	type pk struct {
		ctor string
		idx  int
	}
	okParam := map[pk]bool{}
	seen := map[pk]bool{}
	for _, cl := range g.AllCalls() {
		for i, a := range cl.Args {
			k := pk{cl.Name, i}
			good := false
			if strings.HasPrefix(a.Text, "[]*ast.Node{yyDollar[") {
				good = true
			}
			if len(a.Dollars) == 1 && a.Sel == "" && nonEmptySym[cl.Prod.RHS[a.Dollars[0]-1]] && strings.HasSuffix(a.Text, ".nodes") {
				good = true
			}
			if !seen[k] {
				seen[k] = true
				okParam[k] = good
			} else if !good {
				okParam[k] = false
			}
		}
	}
	for name, cs := range ctors {
		for f, srcs := range cs.Fields {
			if len(srcs) != 1 {
				continue
			}
			for src := range srcs {
				for i, pn := range cs.Params {
					if pn == src && okParam[pk{name, i}] {
						out[f] = "every grammar action passes " + name + " a list with at least one element"
					}
				}
			}
		}
	}
	return out
}

// nilArgRule: when some in-scope call passes nil (directly or through a phi) for a pointer-typed parameter of an
// in-module function, every dereference of that parameter in the callee must be dominated by a nil test of it.
func nilArgRule(c *Ctx, rule string, list []*ssa.Function) int {
	r, t := c.R, c.T
	mayNil := func(v ssa.Value) bool {
		seen := map[ssa.Value]bool{}
		var walk func(v ssa.Value) bool
		walk = func(v ssa.Value) bool {
			if seen[v] {
				return false
			}
			seen[v] = true
			switch x := v.(type) {
			case *ssa.Const:
				return x.Value == nil
			case *ssa.Phi:
				for _, e := range x.Edges {
					if walk(e) {
						return true
					}
				}
			}
			return false
		}
		return walk(v)
	}
	type pk struct {
		f *ssa.Function
		i int
	}
	nilParams := map[pk]string{}
	for _, f := range list {
		allInstrs(f, func(in ssa.Instruction) {
			ci, ok := in.(ssa.CallInstruction)
			if !ok {
				return
			}
			cal := ci.Common().StaticCallee()
			if cal == nil || len(cal.Blocks) == 0 || cal.Pkg == nil || !strings.HasPrefix(cal.Pkg.Pkg.Path(), mod) {
				return
			}
			for i, a := range ci.Common().Args {
				if i >= len(cal.Params) {
					break
				}
				if _, isPtr := a.Type().Underlying().(*types.Pointer); isPtr && mayNil(a) {
					nilParams[pk{cal, i}] = relName(f)
				}
			}
		})
	}
	n := 0
	var keys []pk
	for k := range nilParams {
		keys = append(keys, k)
	}
	sort.Slice(keys, func(i, j int) bool {
		if relName(keys[i].f) != relName(keys[j].f) {
			return relName(keys[i].f) < relName(keys[j].f)
		}
		return keys[i].i < keys[j].i
	})
	for _, k := range keys {
		par := k.f.Params[k.i]
		ord := 0
		for _, ref := range *par.Referrers() {
			deref := false
			switch x := ref.(type) {
			case *ssa.UnOp:
				deref = x.Op == token.MUL
			case *ssa.FieldAddr:
				deref = x.X == ssa.Value(par)
			case *ssa.Store:
				deref = x.Addr == ssa.Value(par)
			}
			if !deref {
				continue
			}
			ord++
			n++
			guarded := false
			for _, ec := range controlling(ref.Block()) {
				if bo, ok := ec.Cond.(*ssa.BinOp); ok && isNilConst(bo.Y) && bo.X == ssa.Value(par) {
					if (bo.Op == token.NEQ && ec.Pol) || (bo.Op == token.EQL && !ec.Pol) {
						guarded = true
					}
				}
			}
			r.Ob(rule, fmt.Sprintf("%s dereferences pointer parameter %s #%d", relName(k.f), par.Name(), ord), t.Pos(ref.Pos()), guarded,
				fmt.Sprintf("%s passes nil for this parameter; the dereference must sit under `%s != nil`", nilParams[k], par.Name()))
		}
	}
	return n
}

// panicRules enumerates and discharges the panic sites of every function of scope that is not in skip.
func panicRules(c *Ctx, scope, skip map[*ssa.Function]bool, d *dischargeCtx, s2k map[string]int64) (map[string]int, int, int, int) {
	r, t := c.R, c.T
	if skip != nil {
		sc := map[*ssa.Function]bool{}
		for f := range scope {
			if !skip[f] {
				sc[f] = true
			}
		}
		scope = sc
	}
	sites := collectPanicSites(t, scope)
	sortSites(sites)
	counts := map[string]int{}
	seenKey := map[string]int{}
	for i := range sites {
		s := &sites[i]
		counts[s.Class]++
		switch x := s.In.(type) {
		case *ssa.TypeAssert:
			// accessor bodies of pkg/ast: discharged at their call sites (kindGuarded)
			if s.Fn.Pkg.Pkg.Path() == pAst && s.Fn.Signature.Recv() != nil && strings.HasSuffix(path(x.X), ".elem") {
				s.By = "accessor body: obligation is on each call site (NodeType guard)"
				break
			}
			s.By = tagGuarded(t, x)
		case *ssa.IndexAddr:
			s.By = d.dischargeIndex(s.Fn, s.In, x.X, x.Index)
		case *ssa.Index:
			s.By = d.dischargeIndex(s.Fn, s.In, x.X, x.Index)
		case *ssa.Slice:
			s.By = d.dischargeSlice(s.Fn, x)
		case *ssa.BinOp:
			s.By = nonZeroDivisor(x)
		case *ssa.MakeSlice:
			s.By = safeMake(x)
		case *ssa.Panic:
			s.By = ""
		}
		base := fmt.Sprintf("%s %s %s", relName(s.Fn), s.Class, s.What)
		seenKey[base]++
		key := fmt.Sprintf("%s #%d", base, seenKey[base])
		r.Fn(relName(s.Fn))
		r.Ob("PANIC-"+s.Class, key, t.Pos(s.In.Pos()), s.By != "", discharge(s))
	}
	// accessor call sites
	nAcc := 0
	var list []*ssa.Function
	for f := range scope {
		list = append(list, f)
	}
	sortFuncs(list)
	accSeen := map[string]int{}
	for _, f := range list {
		allInstrs(f, func(in ssa.Instruction) {
			call, ok := in.(*ssa.Call)
			if !ok {
				return
			}
			cal := call.Call.StaticCallee()
			if cal == nil || cal.Pkg == nil || cal.Pkg.Pkg.Path() != pAst || cal.Signature.Recv() == nil || len(call.Call.Args) != 1 {
				return
			}
			if _, isKind := s2k[cal.Name()]; !isKind {
				return
			}
			nAcc++
			by := kindGuarded(t, call, s2k)
			if by == "" {
				by = shapeInvariant(t, call, s2k)
			}
			base := fmt.Sprintf("%s accessor %s.%s()", relName(f), path(call.Call.Args[0]), cal.Name())
			accSeen[base]++
			r.Ob("PANIC-TA", fmt.Sprintf("%s #%d", base, accSeen[base]), t.Pos(call.Pos()), by != "", "an accessor asserts the node's dynamic type: it must be called under the matching NodeType test ("+by+")")
		})
	}
	// nil dereferences of success-nilable AST fields
	nNil := 0
	for _, f := range list {
		nNil += nilDerefRule(c, "PANIC-NIL", f, d.nilable)
	}
	nArg := nilArgRule(c, "PANIC-NIL", list)
	return counts, nAcc, nNil, nArg
}

// callersBound: base and idx are parameters of the unexported function f, neither is reassigned, and at every call
// site of f in the module the corresponding arguments satisfy 0 ≤ idx < len(base) by the caller's own facts.
func (d *dischargeCtx) callersBound(f *ssa.Function, in ssa.Instruction, base, idx ssa.Value) string {
	if why := d.closureBound(f, base, idx); why != "" {
		return why
	}
	pb, ok1 := base.(*ssa.Parameter)
	pi, ok2 := idx.(*ssa.Parameter)
	if !ok1 || !ok2 || f.Object() == nil || f.Object().Exported() {
		return ""
	}
	kb, ki := -1, -1
	for k, p := range f.Params {
		if p == pb {
			kb = k
		}
		if p == pi {
			ki = k
		}
	}
	sites := callersOf(d.t)[f]
	if kb < 0 || ki < 0 || len(sites) == 0 {
		return ""
	}
	for _, cs := range sites {
		if kb >= len(cs.Call.Args) || ki >= len(cs.Call.Args) {
			return ""
		}
		ab, ai := cs.Call.Args[kb], cs.Call.Args[ki]
		if !(nonNegative(cs, ai) && belowLen(cs, ai, path(ab))) {
			return ""
		}
	}
	return fmt.Sprintf("every call of %s (%d) passes an index proved 0 ≤ i < len of the container it passes", f.Name(), len(sites))
}

func isNillable(t types.Type) bool {
	switch t.Underlying().(type) {
	case *types.Pointer, *types.Interface:
		return true
	}
	return false
}

// callersMinLen: base is rooted in a parameter of the unexported function f that f never reassigns (p, or a field
// path p.A.B); the least length of that container over all call sites of f in the module, each judged by the
// caller's own length state and non-empty facts — or, where the caller merely hands on its own parameter, by the
// caller's callers (three levels).
func (d *dischargeCtx) callersMinLen(f *ssa.Function, base ssa.Value, depth int) (int, string) {
	if depth > 3 || f.Object() == nil || f.Object().Exported() {
		return 0, ""
	}
	root, suffix := paramRoot(base)
	if root == nil || root.Parent() != f {
		return 0, ""
	}
	kp := -1
	for k, p := range f.Params {
		if p == root {
			kp = k
		}
	}
	sites := callersOf(d.t)[f]
	if kp < 0 || len(sites) == 0 {
		return 0, ""
	}
	best, via := 1<<30, ""
	for _, cs := range sites {
		g := cs.Parent()
		if kp >= len(cs.Call.Args) || g == nil {
			return 0, ""
		}
		arg := cs.Call.Args[kp]
		ap := path(arg) + suffix
		n := 0
		if st, reached := d.flow(g)[cs.Block()]; reached {
			n = minLen(st, ap)
		}
		if n == 0 && suffix == "" {
			for _, ec := range factsAt(cs) {
				s := ec.String()
				if s == ap+` != ""` || s == `!(`+ap+` == "")` {
					n = 1
				}
			}
		}
		if n == 0 && suffix == "" {
			// a tail x[i:] of a container with i < len(x) proved at the call: at least one element
			if sl, isS := arg.(*ssa.Slice); isS && sl.Low != nil && sl.High == nil && sl.Max == nil {
				if belowLen(cs, sl.Low, path(sl.X)) {
					n = 1
				}
			}
		}
		if n == 0 {
			// the caller hands on its own parameter (or a field path of it)
			if r2, _ := paramRoot(arg); r2 != nil {
				n, _ = d.callersMinLen(g, fieldPathValue{arg, suffix}, depth+1)
			}
		}
		if n == 0 {
			return 0, ""
		}
		if n < best {
			best, via = n, g.Name()
		}
	}
	return best, fmt.Sprintf("%d call site(s), the least from %s", len(sites), via)
}

// fieldPathValue lets callersMinLen recurse on "arg + field suffix" without materialising an SSA value.
type fieldPathValue struct {
	ssa.Value
	suffix string
}

// paramRoot: v is a parameter or a chain of field loads from one; returns the parameter and the field suffix
// (".Param"); nil when the parameter is spilled and reassigned.
func paramRoot(v ssa.Value) (*ssa.Parameter, string) {
	suffix := ""
	if fp, ok := v.(fieldPathValue); ok {
		v, suffix = fp.Value, fp.suffix
	}
	for i := 0; i < 6; i++ {
		switch x := v.(type) {
		case *ssa.Parameter:
			return x, suffix
		case *ssa.UnOp:
			if x.Op != token.MUL {
				return nil, ""
			}
			if fa, ok := x.X.(*ssa.FieldAddr); ok {
				suffix = "." + fieldName(fa) + suffix
				v = fa.X
				continue
			}
			if a, ok := x.X.(*ssa.Alloc); ok {
				if p := spilledParam(a); p != nil {
					return p, suffix
				}
			}
			return nil, ""
		case *ssa.Field:
			suffix = "." + fieldNameV(x) + suffix
			v = x.X
			continue
		default:
			return nil, ""
		}
	}
	return nil, ""
}

// kindFactFromValidator: v is a field path of result #k of a validation helper h(…) (value, ok) whose ok was tested
// true on the way to `at`, and at every return of h that can yield ok=true the same field path of the returned
// value is known to have NodeType == want by h's own dominating tests.
func kindFactFromValidator(t *Tree, at ssa.Instruction, v ssa.Value, want int64) bool {
	suffix := ""
	var ex *ssa.Extract
	for i := 0; i < 6 && ex == nil; i++ {
		switch x := v.(type) {
		case *ssa.UnOp:
			fa, ok := x.X.(*ssa.FieldAddr)
			if x.Op != token.MUL || !ok {
				return false
			}
			suffix = "." + fieldName(fa) + suffix
			v = fa.X
		case *ssa.Field:
			suffix = "." + fieldNameV(x) + suffix
			v = x.X
		case *ssa.Extract:
			ex = x
		default:
			return false
		}
	}
	if ex == nil {
		return false
	}
	call, ok := ex.Tuple.(*ssa.Call)
	if !ok {
		return false
	}
	h := call.Call.StaticCallee()
	if h == nil || len(h.Blocks) == 0 || h.Signature.Results().Len() != 2 {
		return false
	}
	m := 1 - ex.Index
	tested := false
	for _, ec := range factsAt(at) {
		if e2, isE := ec.Cond.(*ssa.Extract); isE && e2.Tuple == ex.Tuple && e2.Index == m && ec.Pol {
			tested = true
		}
	}
	if !tested {
		return false
	}
	okAll, n := true, 0
	allInstrs(h, func(in ssa.Instruction) {
		ret, isR := in.(*ssa.Return)
		if !isR || len(ret.Results) != 2 {
			return
		}
		if c, isC := ret.Results[m].(*ssa.Const); isC && c.Value != nil && c.Value.Kind() == constant.Bool && !constant.BoolVal(c.Value) {
			return
		}
		n++
		if kindFactPath(t, ret, path(ret.Results[ex.Index])+suffix, want) == "" {
			okAll = false
		}
	})
	return okAll && n > 0
}

// closureBound: f is a local closure, idx one of its parameters, base a field path of a variable it captures from
// the enclosing function; at every call of the closure the index argument is within the length the enclosing
// function knows for that container at the call.
func (d *dischargeCtx) closureBound(f *ssa.Function, base, idx ssa.Value) string {
	if f.Parent() == nil {
		return ""
	}
	pi, ok := idx.(*ssa.Parameter)
	if !ok {
		return ""
	}
	ki := -1
	for k, p := range f.Params {
		if p == pi {
			ki = k
		}
	}
	// base = <freevar>[.field…]; a by-reference capture is a pointer to the variable
	suffix := ""
	v := base
	var fv *ssa.FreeVar
	for i := 0; i < 6 && fv == nil; i++ {
		switch x := v.(type) {
		case *ssa.FreeVar:
			fv = x
		case *ssa.UnOp:
			if x.Op != token.MUL {
				return ""
			}
			if fa, ok := x.X.(*ssa.FieldAddr); ok {
				suffix = "." + fieldName(fa) + suffix
				v = fa.X
			} else {
				v = x.X
			}
		default:
			return ""
		}
	}
	kf := -1
	for k, x := range f.FreeVars {
		if x == fv {
			kf = k
		}
	}
	sites := callersOf(d.t)[f]
	if fv == nil || ki < 0 || kf < 0 || len(sites) == 0 {
		return ""
	}
	for _, cs := range sites {
		mc, ok := cs.Call.Value.(*ssa.MakeClosure)
		g := cs.Parent()
		if !ok || kf >= len(mc.Bindings) || ki >= len(cs.Call.Args) || g != f.Parent() {
			return ""
		}
		b := mc.Bindings[kf]
		bp := path(b)
		if al, isA := b.(*ssa.Alloc); isA {
			p := spilledParam(al)
			if p == nil {
				return ""
			}
			bp = pname(p)
		}
		ai := cs.Call.Args[ki]
		okSite := false
		if k, isC := constInt(ai); isC && k >= 0 {
			if st, reached := d.flow(g)[cs.Block()]; reached && minLen(st, bp+suffix) > int(k) {
				okSite = true
			}
		}
		if !okSite && nonNegative(cs, ai) && belowLen(cs, ai, bp+suffix) {
			okSite = true
		}
		if !okSite {
			return ""
		}
	}
	return fmt.Sprintf("every call of the closure (%d) passes an index within the length %s knows for the captured container", len(sites), f.Parent().Name())
}

// recursionRule (C01, C18): stack exhaustion is not recoverable — Go aborts the process, no error value is returned.
// Every recursion in the run scope must therefore be bounded by something a loaded script fixes: the depth of the
// syntax tree (a parameter of a pkg/ast type decreases along the tree) or of the scope chain. A recursion driven by a
// run-time *value* (a list or map walked element by element) is unbounded, because index assignment stores
// containers by reference and a script can make a list contain itself (`a = [0]; a[0] = a`).
func recursionRule(c *Ctx, rule string, scope map[*ssa.Function]bool, tag string) {
	r, t := c.R, c.T
	var fns []*ssa.Function
	for f := range scope {
		fns = append(fns, f)
	}
	sortFuncs(fns)
	succ := map[*ssa.Function][]*ssa.Function{}
	for _, f := range fns {
		seen := map[*ssa.Function]bool{}
		add := func(g *ssa.Function) {
			if g != nil && scope[g] && !seen[g] {
				seen[g] = true
				succ[f] = append(succ[f], g)
			}
		}
		for _, a := range f.AnonFuncs {
			add(a)
		}
		allInstrs(f, func(in ssa.Instruction) {
			if ci, ok := in.(ssa.CallInstruction); ok {
				// static callees only: interface dispatch (error.Error, fmt.Stringer) would tie unrelated methods into
				// cycles that no execution follows; a recursion closed through an interface method is not seen (stated limit)
				add(ci.Common().StaticCallee())
			}
			for _, op := range in.Operands(nil) {
				if op != nil && *op != nil {
					if g, ok := (*op).(*ssa.Function); ok {
						add(g)
					}
				}
			}
		})
	}
	// Tarjan
	index, low := map[*ssa.Function]int{}, map[*ssa.Function]int{}
	on := map[*ssa.Function]bool{}
	var stack []*ssa.Function
	var sccs [][]*ssa.Function
	n := 0
	var strong func(v *ssa.Function)
	strong = func(v *ssa.Function) {
		n++
		index[v], low[v] = n, n
		stack = append(stack, v)
		on[v] = true
		for _, w := range succ[v] {
			if index[w] == 0 {
				strong(w)
				if low[w] < low[v] {
					low[v] = low[w]
				}
			} else if on[w] && index[w] < low[v] {
				low[v] = index[w]
			}
		}
		if low[v] == index[v] {
			var comp []*ssa.Function
			for {
				w := stack[len(stack)-1]
				stack = stack[:len(stack)-1]
				on[w] = false
				comp = append(comp, w)
				if w == v {
					break
				}
			}
			sccs = append(sccs, comp)
		}
	}
	for _, f := range fns {
		if index[f] == 0 {
			strong(f)
		}
	}
	treeBound := func(f *ssa.Function) (bool, string) {
		check := func(tp types.Type) (bool, string) {
			for i := 0; i < 3; i++ {
				if p, ok := tp.(*types.Pointer); ok {
					tp = p.Elem()
					continue
				}
				if s, ok := tp.(*types.Slice); ok {
					tp = s.Elem()
					continue
				}
				break
			}
			if nm, ok := tp.(*types.Named); ok && nm.Obj().Pkg() != nil {
				if nm.Obj().Pkg().Path() == pAst {
					return true, "ast." + nm.Obj().Name()
				}
				if nm.Obj().Name() == "Stack" && strings.HasPrefix(nm.Obj().Pkg().Path(), mod) {
					return true, "scope chain"
				}
			}
			return false, ""
		}
		for _, p := range f.Params {
			if ok, why := check(p.Type()); ok {
				return true, why
			}
		}
		for _, fv := range f.FreeVars {
			if ok, why := check(fv.Type()); ok {
				return true, why
			}
		}
		return false, ""
	}
	nCyc := 0
	for _, comp := range sccs {
		cyclic := len(comp) > 1
		if !cyclic {
			for _, w := range succ[comp[0]] {
				if w == comp[0] {
					cyclic = true
				}
			}
		}
		if !cyclic {
			continue
		}
		nCyc++
		sortFuncs(comp)
		var names, bad []string
		for _, f := range comp {
			names = append(names, relName(f))
			if ok, _ := treeBound(f); !ok {
				bad = append(bad, relName(f))
			}
		}
		key := names[0]
		if len(names) > 1 {
			key = fmt.Sprintf("%s (+%d)", names[0], len(names)-1)
		}
		r.Ob(rule, fmt.Sprintf("%s recursion through %s descends the syntax tree or the scope chain", tag, key), t.Pos(comp[0].Pos()), len(bad) == 0,
			fmt.Sprintf("cycle of %d functions; without a tree-typed or scope-chain parameter: %v — a recursion over run-time values does not end on a list or map that contains itself, and stack exhaustion aborts the host process", len(comp), bad))
	}
	r.Extra[rule+"_"+tag+"_recursive_components"] = nCyc
}
