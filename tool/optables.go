package main

import (
	"fmt"
	"go/constant"
	"go/types"
	"regexp"
	"sort"
	"strings"

	"golang.org/x/tools/go/ssa"
)

// ------------------------------------------------------------------ operator tables extracted by `spec`

var allTags = []string{"Invalid", "Void", "Nil", "Bool", "Int", "Float", "String", "List", "Map"}

type opTables struct {
	pkg   string
	tag   string            // "v1" | "v2"
	Cells map[string]string // key -> canonical outcome set
	Abort []string
}

func (ot *opTables) set(key, val string) { ot.Cells[key] = canonTable(val) }

var (
	reCast    = regexp.MustCompile(`cast\.To(Int64|Int|Float64|String|Bool|Slice)\(`)
	reOperand = regexp.MustCompile(`\b(lhsVal|rhsVal|lhs|rhs)\b`)
)

// canon normalises a spec value string: cast names, operand names.
func canon(s string) string {
	s = reCast.ReplaceAllStringFunc(s, func(m string) string {
		switch m {
		case "cast.ToInt64(":
			return "i64("
		case "cast.ToInt(":
			return "int("
		case "cast.ToFloat64(":
			return "f64("
		case "cast.ToString(":
			return "str("
		case "cast.ToBool(":
			return "bool("
		case "cast.ToSlice(":
			return "slice("
		}
		return m
	})
	s = reOperand.ReplaceAllStringFunc(s, func(m string) string {
		if strings.HasPrefix(m, "l") {
			return "L"
		}
		return "R"
	})
	s = strings.ReplaceAll(s, "runtime.", "")
	s = reV2Operand.ReplaceAllString(s, "$1")
	s = reElem.ReplaceAllString(s, "elem")
	return normNeg(s)
}

// normNeg rewrites !(A == B) to (A != B) and !(A != B) to (A == B): a negated comparison and the opposite
// comparison are the same function, whichever way the source spells it.
func normNeg(s string) string {
	for from := 0; ; {
		i := strings.Index(s[from:], "!(")
		if i < 0 {
			return s
		}
		i += from
		depth, end := 0, -1
		for j := i + 1; j < len(s); j++ {
			if s[j] == '(' {
				depth++
			} else if s[j] == ')' {
				depth--
				if depth == 0 {
					end = j
					break
				}
			}
		}
		if end < 0 {
			return s
		}
		inner := s[i+2 : end]
		// find the single top-level comparison operator
		d, at, op := 0, -1, ""
		n := 0
		for j := 0; j+4 <= len(inner); j++ {
			switch inner[j] {
			case '(':
				d++
			case ')':
				d--
			}
			if d == 0 && (inner[j:j+4] == " == " || inner[j:j+4] == " != ") {
				at, op = j, inner[j:j+4]
				n++
			}
			if d == 0 && j+4 <= len(inner) && (inner[j:j+4] == " && " || inner[j:j+4] == " || ") {
				n = 99
			}
		}
		if n != 1 {
			from = i + 2
			continue
		}
		nop := " != "
		if op == " != " {
			nop = " == "
		}
		s = s[:i] + "(" + inner[:at] + nop + inner[at+4:] + ")" + s[end+1:]
		from = i
	}
}

var (
	reV2Operand = regexp.MustCompile(`\(([LR]), \d+\)`)
	reElem      = regexp.MustCompile(`[^\s(),]*\[\*\]`)
	reCallAtom  = regexp.MustCompile(`[A-Za-z_.]+\([^()]*\)`)
)

// summariseLoop: an outcome set that contains an unrolled loop is rendered by its distinct results and the
// distinct call atoms tested on the way (the unrolling depth is an artefact of the path enumeration).
func summariseLoop(set map[string]bool) (string, bool) {
	hasLoop := false
	for k := range set {
		if strings.Contains(k, "…loop") {
			hasLoop = true
		}
	}
	if !hasLoop {
		return "", false
	}
	vals, tests := map[string]bool{}, map[string]bool{}
	for k := range set {
		if strings.Contains(k, "…loop") {
			continue
		}
		v := k
		if i := strings.Index(k, " if "); i >= 0 {
			v = k[:i]
			for _, a := range strings.Split(k[i+4:], " && ") {
				for strings.HasPrefix(a, "!(") && strings.HasSuffix(a, ")") {
					a = a[2 : len(a)-1]
				}
				if !strings.HasPrefix(a, "(") {
					tests[a] = true // a call used as a test (comparisons of loop counters are dropped)
				}
			}
		}
		vals[v] = true
	}
	return "LOOP{" + joinOutcomes(vals) + "} tests{" + joinOutcomes(tests) + "}", true
}

type tagNamer struct{ byVal map[string]string }

func newTagNamer(t *Tree) *tagNamer {
	tn := &tagNamer{byVal: map[string]string{}}
	for _, n := range allTags {
		c := t.SSA[pAst].Const(n)
		tn.byVal[c.Value.Value.ExactString()] = n
	}
	return tn
}

func (tn *tagNamer) name(v sval) string {
	if v.isConst() {
		if n, ok := tn.byVal[v.c.ExactString()]; ok {
			return n
		}
		return v.c.ExactString()
	}
	return canon(v.String())
}

// renderOutcome3: (value, tag, err) triples as returned by v1 evaluators.
func (tn *tagNamer) outcome3(val, tag, err sval, conds []string) string {
	var cs []string
	for _, c := range conds {
		if strings.HasPrefix(c, "effect:") {
			continue
		}
		cs = append(cs, canon(c))
	}
	suffix := ""
	if len(cs) > 0 {
		suffix = " if " + strings.Join(cs, " && ")
	}
	switch errClass(err) {
	case "error":
		return "error" + suffix
	case "nil":
		return canon(val.String()) + " : " + tn.name(tag) + suffix
	}
	return canon(val.String()) + " : " + tn.name(tag) + " err=" + canon(err.String()) + suffix
}

func joinOutcomesL(set map[string]bool) string {
	if s, ok := summariseLoop(set); ok {
		return s
	}
	return joinOutcomes(set)
}

func joinOutcomes(set map[string]bool) string {
	var ks []string
	for k := range set {
		ks = append(ks, k)
	}
	sort.Strings(ks)
	return strings.Join(ks, " | ")
}

func opConst(t *Tree, name string) sval { return constv(t.SSA[pAst].Const(name).Value.Value) }

var condOps = []string{"EQEQ", "NEQ", "LT", "LTE", "GT", "GTE", "AND", "OR"}
var arithOps = []string{"ADD", "SUB", "MUL", "DIV", "MOD"}
var assignOps = []string{"EQ", "ADDEQ", "SUBEQ", "MULEQ", "DIVEQ", "MODEQ"}

// extractOpTables computes every operator cell of one interpreter package.
func extractOpTables(t *Tree, pkg string) *opTables {
	ot := &opTables{pkg: pkg, tag: "v1", Cells: map[string]string{}}
	v2 := pkg == pRT2
	if v2 {
		ot.tag = "v2"
	}
	pk := t.SSA[pkg]
	tn := newTagNamer(t)
	dt := func(n string) sval { return opConst(t, n) }
	note := func(ab string, key string) {
		if ab != "" {
			ot.Abort = append(ot.Abort, key+": "+ab)
		}
	}
	// the v2 evaluators report through ctx.Regs.ReturnAppend(V{val, tag}); GetRet hands out operands
	v2hook := func(f *ssa.Function, operands []sval) func(fn *ssa.Function, call *ssa.Call, nth int, args []sval) (sval, bool) {
		lastOperand := -1
		return func(fn *ssa.Function, call *ssa.Call, nth int, args []sval) (sval, bool) {
			cal := call.Call.StaticCallee()
			if cal == nil {
				return sval{}, false
			}
			switch fnName(cal) {
			case "RunExpr":
				// which operand: by the argument (expr.LHS / expr.RHS), wherever the call sits (the evaluator itself
				// or a helper it hands the node to); GetRet hands out the operand evaluated last
				if len(args) >= 2 {
					lastOperand = operandIndex(args[1].String(), len(operands), lastOperand+1)
					return sval{nil: true}, true
				}
			case "GetRet":
				if lastOperand >= 0 && lastOperand < len(operands) {
					return sval{tup: []sval{operands[lastOperand], {nil: true}}}, true
				}
			case "ReturnAppend":
				if len(args) == 2 && args[1].tup != nil && len(args[1].tup) == 1 && args[1].tup[0].tup != nil {
					v := args[1].tup[0].tup
					return symv("effect:ret " + canon(v[0].String()) + " : " + tn.name(v[1])), true
				}
				return symv("effect:ret ?"), true
			}
			return stdErrCall(fn, call, nth, args)
		}
	}
	v1hook := func(f *ssa.Function, operands [][2]sval) func(fn *ssa.Function, call *ssa.Call, nth int, args []sval) (sval, bool) {
		return func(fn *ssa.Function, call *ssa.Call, nth int, args []sval) (sval, bool) {
			cal := call.Call.StaticCallee()
			if cal != nil && fnName(cal) == "RunStmt" && len(args) >= 2 {
				if k := operandIndex(args[1].String(), len(operands), nth-1); k >= 0 && k < len(operands) {
					return sval{tup: []sval{operands[k][0], operands[k][1], {nil: true}}}, true
				}
			}
			return stdErrCall(fn, call, nth, args)
		}
	}
	// render the outcomes of a v2 evaluator: effect trace + error result
	v2render := func(outs []specOutcome) string {
		set := map[string]bool{}
		for _, o := range outs {
			var eff, cs []string
			for _, c := range o.Cond {
				if strings.HasPrefix(c, "effect:ret ") {
					eff = append(eff, strings.TrimPrefix(c, "effect:ret "))
				} else if !strings.HasPrefix(c, "effect:") {
					cs = append(cs, canon(c))
				}
			}
			suffix := ""
			if len(cs) > 0 {
				suffix = " if " + strings.Join(cs, " && ")
			}
			switch {
			case len(o.Vals) == 1 && errClass(o.Vals[0]) == "error":
				set["error"+suffix] = true
			case len(o.Vals) == 1 && errClass(o.Vals[0]) == "nil" && len(eff) == 1:
				set[eff[0]+suffix] = true
			case len(o.Vals) == 1 && errClass(o.Vals[0]) == "nil" && len(eff) == 0:
				set["NO-VALUE"+suffix] = true
			default:
				set[fmt.Sprint(o.Vals, eff)+suffix] = true
			}
		}
		return joinOutcomesL(set)
	}
	v1render := func(outs []specOutcome) string {
		set := map[string]bool{}
		for _, o := range outs {
			if len(o.Vals) == 3 {
				set[tn.outcome3(o.Vals[0], o.Vals[1], o.Vals[2], o.Cond)] = true
			} else {
				set[canon(fmt.Sprint(o.Vals))] = true
			}
		}
		return joinOutcomesL(set)
	}

	// ---- condOp
	if f := pkgFunc(pk, "condOp"); f != nil {
		for _, op := range condOps {
			for _, l := range allTags {
				for _, r := range allTags {
					key := fmt.Sprintf("condOp|%s|%s|%s", op, l, r)
					var outs []specOutcome
					var ab string
					if v2 {
						cfg := &specCfg{Call: stdErrCall}
						outs, ab = cfg.run(f, roleArgs(f, []sval{{tup: []sval{symv("L"), dt(l)}}, {tup: []sval{symv("R"), dt(r)}}, dt(op)}))
					} else {
						cfg := &specCfg{Call: stdErrCall}
						outs, ab = cfg.run(f, roleArgs(f, []sval{symv("L"), symv("R"), dt(l), dt(r), dt(op)}))
					}
					note(ab, key)
					ot.set(key, v1render(outs))
				}
			}
		}
	}
	// ---- arithmetic expression
	if f := pkgFunc(pk, "RunArithmeticExpr"); f != nil {
		for _, op := range arithOps {
			for _, l := range allTags {
				for _, r := range allTags {
					key := fmt.Sprintf("arith|%s|%s|%s", op, l, r)
					// operands are arbitrary expressions: a cell describes what happens for operand *values* of the two tags,
					// so the operand nodes' kinds are fixed to a non-literal kind. A fast path that answers literal operands
					// without evaluating them branches on the kind; its arms pair a literal's typed Val with a tag, which
					// TAG-VALUE decides, and they must not smear every cell with per-kind outcomes.
					cfg := &specCfg{Paths: map[string]sval{"expr.Op": dt(op), "expr.LHS.NodeType": dt("TypeIdentifier"), "expr.RHS.NodeType": dt("TypeIdentifier")}}
					if v2 {
						cfg.Call = v2hook(f, []sval{{tup: []sval{symv("L"), dt(l)}}, {tup: []sval{symv("R"), dt(r)}}})
						outs, ab := cfg.run(f, []sval{symv("ctx"), symv("expr")})
						note(ab, key)
						ot.set(key, v2render(outs))
					} else {
						cfg.Call = v1hook(f, [][2]sval{{symv("L"), dt(l)}, {symv("R"), dt(r)}})
						outs, ab := cfg.run(f, []sval{symv("ctx"), symv("expr")})
						note(ab, key)
						ot.set(key, v1render(outs))
					}
				}
			}
		}
	}
	// ---- compound assignment arithmetic
	if f := pkgFunc(pk, "runAssignArith"); f != nil {
		for _, op := range assignOps {
			for _, l := range allTags {
				for _, r := range allTags {
					key := fmt.Sprintf("assignarith|%s|%s|%s", op, l, r)
					cfg := &specCfg{Call: stdErrCall}
					var outs []specOutcome
					var ab string
					if v2 {
						outs, ab = cfg.run(f, roleArgs(f, []sval{symv("ctx"), {tup: []sval{symv("L"), dt(l)}}, {tup: []sval{symv("R"), dt(r)}}, dt(op), symv("pos")}))
						set := map[string]bool{}
						for _, o := range outs {
							if len(o.Vals) == 2 {
								var cs []string
								for _, c := range o.Cond {
									cs = append(cs, canon(c))
								}
								suffix := ""
								if len(cs) > 0 {
									suffix = " if " + strings.Join(cs, " && ")
								}
								if errClass(o.Vals[1]) == "error" {
									set["error"+suffix] = true
								} else if o.Vals[0].tup != nil {
									set[canon(o.Vals[0].tup[0].String())+" : "+tn.name(o.Vals[0].tup[1])+suffix] = true
								} else {
									set[canon(fmt.Sprint(o.Vals))+suffix] = true
								}
							}
						}
						note(ab, key)
						ot.set(key, joinOutcomes(set))
					} else {
						cfg.Paths = map[string]sval{"l.DType": dt(l), "r.DType": dt(r), "l.Value": symv("L"), "r.Value": symv("R")}
						outs, ab = cfg.run(f, roleArgs(f, []sval{symv("ctx"), symv("l"), symv("r"), dt(op), symv("pos")}))
						note(ab, key)
						ot.set(key, v1render(outs))
					}
				}
			}
		}
	}
	// ---- unary: arithmetic signs by tag
	if f := pkgFunc(pk, "RunUnaryExpr"); f != nil {
		goTypeOf := map[string]string{"Bool": "bool", "Int": "int64", "Float": "float64", "String": "string", "List": "[]any", "Map": "map[string]any"}
		for _, op := range []string{"SUB", "ADD"} {
			for _, l := range allTags {
				key := fmt.Sprintf("unary|%s|%s", op, l)
				cfg := &specCfg{Paths: map[string]sval{"expr.Op": dt(op)}}
				operand := symv("X")
				if gt, ok := goTypeOf[l]; ok {
					cfg.Dyn = dynWith(nil, "X", basicType(t, gt))
				}
				if v2 {
					cfg.Call = v2hook(f, []sval{{tup: []sval{operand, dt(l)}}})
					outs, ab := cfg.run(f, []sval{symv("ctx"), symv("expr")})
					note(ab, key)
					ot.set(key, v2render(outs))
				} else {
					cfg.Call = v1hook(f, [][2]sval{{operand, dt(l)}})
					outs, ab := cfg.run(f, []sval{symv("ctx"), symv("expr")})
					note(ab, key)
					ot.set(key, v1render(outs))
				}
			}
		}
		// logical not by dynamic Go type of the value
		for _, gt := range []string{"nil", "bool", "int64", "float64", "string", "[]any", "map[string]any", "int"} {
			key := fmt.Sprintf("unary|NOT|%s", gt)
			cfg := &specCfg{Paths: map[string]sval{"expr.Op": dt("NOT")}}
			operand := symv("X")
			if gt == "nil" {
				operand = sval{nil: true}
			} else {
				cfg.Dyn = dynWith(nil, "X", basicType(t, gt))
			}
			if v2 {
				cfg.Call = v2hook(f, []sval{{tup: []sval{operand, symv("T")}}})
				outs, ab := cfg.run(f, []sval{symv("ctx"), symv("expr")})
				note(ab, key)
				ot.set(key, v2render(outs))
			} else {
				cfg.Call = v1hook(f, [][2]sval{{operand, symv("T")}})
				outs, ab := cfg.run(f, []sval{symv("ctx"), symv("expr")})
				note(ab, key)
				ot.set(key, v1render(outs))
			}
		}
	}
	// ---- membership
	if f := pkgFunc(pk, "RunInExpr"); f != nil {
		goTypeOf := map[string]string{"Bool": "bool", "Int": "int64", "Float": "float64", "String": "string", "List": "[]any", "Map": "map[string]any"}
		for _, l := range allTags {
			for _, r := range allTags {
				key := fmt.Sprintf("in|%s|%s", l, r)
				cfg := &specCfg{}
				var dyn map[string]types.Type
				if gt, ok := goTypeOf[l]; ok {
					dyn = dynWith(dyn, "L", basicType(t, gt))
				}
				if gt, ok := goTypeOf[r]; ok {
					dyn = dynWith(dyn, "R", basicType(t, gt))
				}
				cfg.Dyn = dyn
				if v2 {
					cfg.Call = v2hook(f, []sval{{tup: []sval{symv("L"), dt(l)}}, {tup: []sval{symv("R"), dt(r)}}})
					outs, ab := cfg.run(f, []sval{symv("ctx"), symv("expr")})
					note(ab, key)
					ot.set(key, v2render(outs))
				} else {
					cfg.Call = v1hook(f, [][2]sval{{symv("L"), dt(l)}, {symv("R"), dt(r)}})
					outs, ab := cfg.run(f, []sval{symv("ctx"), symv("expr")})
					note(ab, key)
					ot.set(key, v1render(outs))
				}
			}
		}
	}
	// ---- assign2arithOp
	if f := pkgFunc(pk, "assign2arithOp"); f != nil {
		for _, op := range append(append([]string{}, assignOps...), arithOps...) {
			cfg := &specCfg{}
			outs, _ := cfg.run(f, []sval{dt(op)})
			ot.set("assign2arith|"+op, outcomeSet(outs, func(o specOutcome) string { return fmt.Sprint(o.Vals) }))
		}
	}
	// ---- truthiness
	if f := pkgFunc(pk, "condTrue"); f != nil {
		for _, l := range allTags {
			cfg := &specCfg{}
			var outs []specOutcome
			if v2 {
				outs, _ = cfg.run(f, []sval{{tup: []sval{symv("val"), dt(l)}}})
			} else {
				outs, _ = cfg.run(f, []sval{symv("val"), dt(l)})
			}
			set := map[string]bool{}
			for _, o := range outs {
				var cs []string
				for _, c := range o.Cond {
					cs = append(cs, canon(c))
				}
				s := canon(fmt.Sprint(o.Vals))
				if len(cs) > 0 {
					s += " if " + strings.Join(cs, " && ")
				}
				set[s] = true
			}
			ot.set("truthy|"+l, joinOutcomes(set))
		}
	}
	return ot
}

// operandIndex: which operand a RunStmt/RunExpr call evaluates, judged by its node argument: …LHS is the first,
// …RHS the last (the only one of a unary expression); anything else falls back to the call order.
func operandIndex(arg string, n, fallback int) int {
	switch {
	case strings.HasSuffix(arg, ".LHS"):
		return 0
	case strings.HasSuffix(arg, ".RHS"):
		return n - 1
	}
	return fallback
}

var _ = constant.MakeBool
