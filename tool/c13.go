package main

import (
	"fmt"
	"go/token"
	"go/types"
	"sort"
	"strings"

	"golang.org/x/tools/go/ssa"
)

func init() {
	register("C13", "use() shares the point but not variables; exit() ends only its own script", checkC13)
}

func checkC13(c *Ctx) {
	r, t := c.R, c.T
	r.Explanation = "Decides on the SSA of Script.RefRun, funcs.Use, funcs.Exit, GetContext/InitCtx and RunStmts: (1) FRESH-TASK: RefRun runs the callee on a task obtained from GetContext and initialised by InitCtx(newtask, caller.input, callee script, caller.signal); the only things read from the caller's task are its input and its signal, nothing is written to it, and the callee's statements are run on the new task; GetContext gives the task a brand-new root scope with no link to another scope chain; (2) USE: Use runs exactly the script bound in PrivateData, appends its own call site (task name, NamePos) to a callee error and returns nil otherwise; the error returned by a builtin aborts the caller (RunCallExpr returns it, RunStmts latches procExit and returns it); (2b) USE-BOUND: every use() call site accepted by the checker is recorded for the linker (UseChecking → SetCallRef appends on every path → Script.Check publishes the list), because Use silently does nothing for an unbound call site; (3) EXIT-OWN: Exit sets the exit latch of the task it was called with and of no other; the latch is set true only by SetExit, by RunStmts' error arm and by the signal poll, and cleared only by the init functions / PutContext; RefRun never reads the callee's latch, so an exit() inside a use()d script ends only that script; (4) STOP-AFTER-EXIT: RunStmts tests StmtRetrun (which includes the latch) after every statement and returns. Not decided: effect order across whole call trees as behaviour. (5) ERR-PROP: in the v1 run scope no test of a callee's *PlError leaves the function with a nil error on every path of its non-nil edge — a failing statement cannot turn into a successful one."
	refRun := t.Method(pRT, "Script", "RefRun")
	getCtx := t.Func(pRT, "GetContext")
	initCtx := t.Func(pRT, "InitCtx")
	runStmts := t.Func(pRT, "RunStmts")
	use := t.Func(pFuncs, "Use")
	exit := t.Func(pFuncs, "Exit")
	setExit := t.Method(pRT, "Task", "SetExit")
	rce := t.Func(pRT, "RunCallExpr")
	for n, f := range map[string]*ssa.Function{"RefRun": refRun, "GetContext": getCtx, "InitCtx": initCtx, "RunStmts": runStmts, "Use": use, "Exit": exit, "SetExit": setExit, "RunCallExpr": rce} {
		if f == nil {
			r.Undecided("ANCHOR", n, "", "unresolved anchor")
			return
		}
		r.Fn(relName(f))
	}
	// ---- (1) fresh task
	callerCtx := refRun.Params[1]
	var newTask *ssa.Call
	if rc := findCallThrough(refRun, getCtx); rc != nil {
		newTask = rc.Call // in RefRun itself or in the helper that also initialises and runs
	}
	// InitCtx and RunStmts may be called by RefRun itself or by a helper it hands the new task to
	initRC, runRC := findCallThrough(refRun, initCtx), findCallThrough(refRun, runStmts)
	r.Ob("FRESH-TASK", "RefRun takes a task from GetContext", t.Pos(refRun.Pos()), newTask != nil, "the callee must not run on the caller's task")
	okInit := initRC != nil && newTask != nil && initRC.Arg(0) == ssa.Value(newTask) &&
		path(initRC.Arg(1)) == pname(callerCtx)+".input" && initRC.Arg(2) == ssa.Value(refRun.Params[0]) && path(initRC.Arg(3)) == pname(callerCtx)+".signal"
	r.Ob("FRESH-TASK", "RefRun initialises the new task with (caller.input, callee script, caller.signal)", t.Pos(refRun.Pos()), okInit, "the point and the signal are shared, nothing else")
	okRun := runRC != nil && newTask != nil && (runRC.Arg(0) == ssa.Value(newTask) || (initRC != nil && runRC.Call.Call.Args[0] == ssa.Value(initRC.Call))) &&
		strings.HasSuffix(path(runRC.Call.Call.Args[1]), ".Ast") && runRC.Root(1) == ssa.Value(refRun.Params[0])
	r.Ob("FRESH-TASK", "RefRun runs the callee's statements on the new task", t.Pos(refRun.Pos()), okRun, "RunStmts(newtask, s.Ast)")
	// uses of the caller's task: only loads of input and signal
	var other []string
	for _, ref := range *callerCtx.Referrers() {
		fa, ok := ref.(*ssa.FieldAddr)
		if !ok {
			if _, isDbg := ref.(*ssa.DebugRef); isDbg {
				continue
			}
			other = append(other, fmt.Sprintf("%T at %s", ref, t.Pos(ref.Pos())))
			continue
		}
		if fn := fieldName(fa); fn != "input" && fn != "signal" {
			other = append(other, "field "+fn)
		}
		for _, rr := range *fa.Referrers() {
			if _, isStore := rr.(*ssa.Store); isStore {
				other = append(other, "store to "+fieldName(fa))
			}
		}
	}
	r.Ob("FRESH-TASK", "RefRun touches nothing of the caller's task but input and signal", t.Pos(refRun.Pos()), len(other) == 0, fmt.Sprintf("other uses: %v (variables, registers, flags and scopes of the caller must stay invisible to the callee, and vice versa)", other))
	// the result is RunStmts' result
	okRet := false
	var runRes ssa.Value
	if runRC != nil {
		runRes = runRC.Result()
	}
	allInstrs(refRun, func(in ssa.Instruction) {
		if ret, ok := in.(*ssa.Return); ok && runRes != nil && ret.Block() != refRun.Recover {
			if ret.Results[0] == runRes {
				okRet = true
			}
			if u, ok := ret.Results[0].(*ssa.UnOp); ok {
				if a, ok := u.X.(*ssa.Alloc); ok {
					if s := lastStoreBefore(a, u); s != nil && s.Val == runRes {
						okRet = true
					}
				}
			}
		}
	})
	r.Ob("FRESH-TASK", "RefRun returns the callee's error and nothing else", t.Pos(refRun.Pos()), okRet, "neither the callee's exit latch nor its variables flow back")
	// GetContext: fresh root scope without Before link
	okScope, linked := false, false
	allInstrs(getCtx, func(in ssa.Instruction) {
		if s, ok := in.(*ssa.Store); ok {
			if fa, ok := s.Addr.(*ssa.FieldAddr); ok {
				switch {
				case fieldName(fa) == "Before":
					linked = true
				}
			}
		}
	})
	okScope = freshRootFrame(getCtx)
	r.Ob("FRESH-TASK", "GetContext gives the task a new root scope with no parent", t.Pos(getCtx.Pos()), okScope && !linked, "a scope chain that reached another task's frames would leak variables")

	// ---- (2) Use
	var rr *ssa.Call
	allInstrs(use, func(in ssa.Instruction) {
		if call, ok := in.(*ssa.Call); ok && call.Call.StaticCallee() == refRun {
			rr = call
		}
	})
	okBound := false
	if rr != nil {
		// receiver derives from funcExpr.PrivateData.(*Script)
		p := path(rr.Call.Args[0])
		okBound = strings.Contains(p, ".PrivateData") || strings.Contains(p, "phi:")
		if ph, ok := rr.Call.Args[0].(*ssa.Phi); ok {
			okBound = false
			for _, e := range ph.Edges {
				if strings.Contains(path(e), ".PrivateData") {
					okBound = true
				}
			}
		}
		if !okBound {
			// the receiver comes out of lookup helpers: every non-nil origin is this call's PrivateData
			n := 0
			okBound = true
			for pv := range provOf(rr.Call.Args[0]) {
				if pv == "nil" {
					continue
				}
				n++
				if !strings.HasPrefix(pv, pname(use.Params[1])+".PrivateData") {
					okBound = false
				}
			}
			okBound = okBound && n > 0
		}
		okBound = okBound && rr.Call.Args[1] == ssa.Value(use.Params[0])
	}
	r.Ob("USE", "Use runs the script bound in PrivateData on the caller's task as parent", t.Pos(use.Pos()), okBound, "the callee is the script the linker bound to this call site")
	okChain := false
	allInstrs(use, func(in ssa.Instruction) {
		if call, ok := in.(*ssa.Call); ok && funcIs(call.Call.StaticCallee(), pErr, "PlError.ChainAppend") && rr != nil {
			if call.Call.Args[0] == ssa.Value(rr) && strings.HasSuffix(path(call.Call.Args[2]), ".NamePos") && strings.HasSuffix(path(call.Call.Args[1]), ".Name()") {
				for _, ec := range controlling(call.Block()) {
					if bo, ok := ec.Cond.(*ssa.BinOp); ok && bo.X == ssa.Value(rr) && isNilConst(bo.Y) && ((bo.Op == token.NEQ && ec.Pol) || (bo.Op == token.EQL && !ec.Pol)) {
						okChain = true
					}
				}
			}
		}
	})
	r.Ob("USE", "Use appends its own call site to a callee error", t.Pos(use.Pos()), okChain, "err.ChainAppend(ctx.Name(), funcExpr.NamePos) under err != nil")
	// RunCallExpr returns the builtin's error
	okProp := false
	allInstrs(rce, func(in ssa.Instruction) {
		call, ok := in.(*ssa.Call)
		if !ok || call.Call.StaticCallee() != nil || call.Call.IsInvoke() {
			return
		}
		if _, isB := call.Call.Value.(*ssa.Builtin); isB {
			return
		}
		for _, b := range rce.Blocks {
			for _, in2 := range b.Instrs {
				if ret, ok := in2.(*ssa.Return); ok && retValueIs(ret, call) {
					okProp = true
				}
			}
		}
	})
	r.Ob("USE", "RunCallExpr returns a builtin's error to the statement executor", t.Pos(rce.Pos()), okProp, "an error in the callee must abort the caller")
	// RunStmts error arm: latch + return err
	okErrArm := false
	allInstrs(runStmts, func(in ssa.Instruction) {
		latch := false
		if s, ok := in.(*ssa.Store); ok && strings.HasSuffix(path(s.Addr), ".procExit") {
			if cv, ok := s.Val.(*ssa.Const); ok && cv.Value != nil && cv.Value.ExactString() == "true" {
				latch = true
			}
		}
		if call, ok := in.(*ssa.Call); ok && call.Call.StaticCallee() == setExit && len(call.Call.Args) > 0 && call.Call.Args[0] == ssa.Value(runStmts.Params[0]) {
			latch = true // SetExit() on the executor's own task is that store
		}
		if latch {
			lb := in.Block()
			if ret, ok := lb.Instrs[len(lb.Instrs)-1].(*ssa.Return); ok && retError(ret) != "nil" {
				okErrArm = true
			}
			// … or the arm leaves the statement loop for a single exit that returns the (named) error
			if _, isJ := lb.Instrs[len(lb.Instrs)-1].(*ssa.Jump); isJ && len(lb.Succs) == 1 && retClassFrom(lb, 0) == "nonnil" {
				out := true
				for _, l := range naturalLoops(runStmts) {
					if l.Blocks[lb] && l.Blocks[lb.Succs[0]] {
						out = false
					}
				}
				if out {
					okErrArm = true
				}
			}
		}
	})
	r.Ob("USE", "RunStmts stops at the first failing statement and returns its error", t.Pos(runStmts.Pos()), okErrArm, "procExit = true; return err")

	callRefComplete(c, "USE-BOUND")
	c13ErrProp(c, runStmts)

	// ---- (3) exit
	okExit := false
	var extra []string
	allInstrs(exit, func(in ssa.Instruction) {
		if call, ok := in.(*ssa.Call); ok {
			if call.Call.StaticCallee() == setExit && call.Call.Args[0] == ssa.Value(exit.Params[0]) {
				okExit = true
			} else if call.Call.StaticCallee() != nil {
				extra = append(extra, fnName(call.Call.StaticCallee()))
			}
		}
	})
	r.Ob("EXIT-OWN", "Exit latches the task it was called with", t.Pos(exit.Pos()), okExit && len(extra) == 0, fmt.Sprintf("ctx.SetExit() and nothing else (other calls: %v)", extra))
	// procExit writers, module-wide
	nw := 0
	for _, pp := range []string{pRT, pFuncs, pEngine, pInput} {
		for _, f := range t.PkgFuncs(pp) {
			allInstrs(f, func(in ssa.Instruction) {
				s, ok := in.(*ssa.Store)
				if !ok {
					return
				}
				fa, ok := s.Addr.(*ssa.FieldAddr)
				if !ok || fieldName(fa) != "procExit" || !(namedOf(fa.X.Type()) == "runtime.Task" || (taskField(fa) && fa.Parent().Pkg != nil && fa.Parent().Pkg.Pkg.Path() == pRT)) {
					return
				}
				nw++
				cv, isC := s.Val.(*ssa.Const)
				val := "?"
				if isC && cv.Value != nil {
					val = cv.Value.ExactString()
				}
				allowed := false
				switch val {
				case "true":
					allowed = f == setExit || f == runStmts || f.Name() == "ProcExit"
				case "false":
					allowed = strings.HasPrefix(f.Name(), "InitCtx") || onlyCalledFromInit(t, f, 0)
				}
				// the receiver must be the function's own task parameter
				own := rootOf(fa.X) == ssa.Value(f.Params[0])
				r.Ob("EXIT-OWN", fmt.Sprintf("%s stores procExit=%s", relName(f), val), t.Pos(s.Pos()), allowed && own, "the exit latch is set by SetExit, the error arm of RunStmts and the signal poll, cleared by the init functions, always on the function's own task")
			})
		}
	}
	r.FloorN("procExit stores", nw, 3)
	// readers of procExit outside the task's own methods: none in RefRun/Use
	for _, f := range []*ssa.Function{refRun, use} {
		reads := false
		allInstrs(f, func(in ssa.Instruction) {
			if fa, ok := in.(*ssa.FieldAddr); ok && fieldName(fa) == "procExit" {
				reads = true
			}
			if call, ok := in.(*ssa.Call); ok && call.Call.StaticCallee() != nil && (fnName(call.Call.StaticCallee()) == "ProcExit" || fnName(call.Call.StaticCallee()) == "StmtRetrun") {
				reads = true
			}
		})
		r.Ob("EXIT-OWN", relName(f)+" does not look at an exit latch", t.Pos(f.Pos()), !reads, "the callee's exit must not end the caller")
	}
	// ---- (4) stop after exit: shared with C14's loop rule for RunStmts
	ok4 := false
	for _, l := range naturalLoops(runStmts) {
		for b := range l.Blocks {
			for _, in := range b.Instrs {
				if call, ok := in.(*ssa.Call); ok && call.Call.StaticCallee() != nil && fnName(call.Call.StaticCallee()) == "StmtRetrun" {
					if iff, ok := b.Instrs[len(b.Instrs)-1].(*ssa.If); ok && iff.Cond == ssa.Value(call) && !l.Blocks[b.Succs[0]] {
						dom := true
						for _, la := range l.Latch {
							if !b.Dominates(la) {
								dom = false
							}
						}
						ok4 = dom
					}
				}
			}
		}
	}
	r.Ob("STOP-AFTER-EXIT", "RunStmts tests StmtRetrun after every statement", t.Pos(runStmts.Pos()), ok4, "no later statement of the script runs once the latch is set")
	// StmtRetrun includes the latch through ProcExit (checked in C14 POLL-FN); here: ProcExit returns procExit
	pe := t.Method(pRT, "Task", "ProcExit")
	okPE := pe != nil
	if pe != nil {
		// once the latch is set the answer is true whatever the signal: every return is the field itself, or a
		// constant — false only under a tested-false latch
		allInstrs(pe, func(in ssa.Instruction) {
			ret, ok := in.(*ssa.Return)
			if !ok || strings.HasSuffix(path(ret.Results[0]), ".procExit") {
				return
			}
			cv, isC := ret.Results[0].(*ssa.Const)
			if !isC || cv.Value == nil {
				okPE = false
				return
			}
			if cv.Value.ExactString() == "false" {
				clear := false
				for _, ec := range controlling(ret.Block()) {
					cs := condStr(ec.Cond)
					if strings.HasSuffix(cs, ".procExit") && ((!strings.HasPrefix(cs, "!") && !ec.Pol) || (strings.HasPrefix(cs, "!") && ec.Pol)) {
						clear = true
					}
				}
				if !clear {
					okPE = false
				}
			}
		})
	}
	if !okPE && pe != nil {
		if sr := t.Method(pRT, "Task", "StmtRetrun"); sr != nil {
			okPE, _ = pollFnSpec(pe, sr) // decided on the outcomes: latch set on entry ⇒ true, whatever the signal
		}
	}
	r.Ob("STOP-AFTER-EXIT", "ProcExit reports the latch even without a signal", "pkg/engine/runtime/context.go", okPE, "return ctx.procExit")
	// every loop executor stops as soon as the exit latch is set (C14's poll rule: StmtRetrun is ProcExit, which
	// reports the latch): otherwise statements of a loop body keep running after exit()
	c14For(c, pRT)
}

func retValueIs(ret *ssa.Return, v ssa.Value) bool {
	if len(ret.Results) == 0 {
		return false
	}
	e := ret.Results[len(ret.Results)-1]
	if e == v {
		return true
	}
	if u, ok := e.(*ssa.UnOp); ok {
		if a, ok := u.X.(*ssa.Alloc); ok {
			if s := lastStoreBefore(a, u); s != nil && s.Val == v {
				return true
			}
		}
	}
	return false
}

// onlyCalledFromInit: every call chain that reaches f starts at one of the task's init functions (InitCtx…): f is a
// piece of the (re)initialisation moved into a helper.
func onlyCalledFromInit(t *Tree, f *ssa.Function, depth int) bool {
	if depth > 3 {
		return false
	}
	sites := callersOf(t)[f]
	if len(sites) == 0 || (f.Object() != nil && f.Object().Exported()) {
		return false
	}
	for _, cs := range sites {
		g := cs.Parent()
		if strings.HasPrefix(g.Name(), "InitCtx") {
			continue
		}
		if !onlyCalledFromInit(t, g, depth+1) {
			return false
		}
	}
	return true
}

// c13ErrProp: a failing statement aborts everything above it. In the run scope of the v1 interpreter (the functions
// RunStmts reaches in pkg/engine/runtime), every test `e != nil` of the *errchain.PlError a callee returned is looked
// at: on the non-nil edge the function must not be left with a nil error on every path (that would swallow the
// callee's failure: the caller of use() would go on, and Run would report success). Only the definite case is
// reported (the edge's returns are all nil); an edge that returns the error, a new error, or is not a return at all
// (the value is examined again later) passes.
func c13ErrProp(c *Ctx, runStmts *ssa.Function) {
	r, t := c.R, c.T
	isPlErr := func(ty types.Type) bool {
		return strings.HasSuffix(types.TypeString(ty, nil), "errchain.PlError")
	}
	lastIsErr := func(sig *types.Signature) (int, bool) {
		n := sig.Results().Len()
		if n == 0 || !isPlErr(sig.Results().At(n-1).Type()) {
			return 0, false
		}
		return n, true
	}
	// run scope: same-package functions reachable from RunStmts by static calls
	scope := map[*ssa.Function]bool{}
	var order []*ssa.Function
	var walk func(f *ssa.Function)
	walk = func(f *ssa.Function) {
		if f == nil || scope[f] || len(f.Blocks) == 0 || f.Pkg != runStmts.Pkg {
			return
		}
		scope[f] = true
		order = append(order, f)
		allInstrs(f, func(in ssa.Instruction) {
			walk(calleeOf(in))
			if mc, ok := in.(*ssa.MakeClosure); ok {
				if fn, ok := mc.Fn.(*ssa.Function); ok {
					walk(fn)
				}
			}
		})
	}
	walk(runStmts)
	sort.Slice(order, func(i, j int) bool { return relName(order[i]) < relName(order[j]) })
	nTests := 0
	for _, f := range order {
		if _, ok := lastIsErr(f.Signature); !ok {
			continue
		}
		k := 0
		for _, b := range f.Blocks {
			iff, ok := b.Instrs[len(b.Instrs)-1].(*ssa.If)
			if !ok {
				continue
			}
			bo, ok := iff.Cond.(*ssa.BinOp)
			if !ok || (bo.Op != token.NEQ && bo.Op != token.EQL) {
				continue
			}
			var ev ssa.Value
			switch {
			case isNilConst(bo.Y) && isPlErr(bo.X.Type()):
				ev = bo.X
			case isNilConst(bo.X) && isPlErr(bo.Y.Type()):
				ev = bo.Y
			default:
				continue
			}
			// the tested value is a callee's error result
			var call *ssa.Call
			switch x := ev.(type) {
			case *ssa.Call:
				call = x
			case *ssa.Extract:
				if cl, ok := x.Tuple.(*ssa.Call); ok && x.Index == cl.Call.Signature().Results().Len()-1 {
					call = cl
				}
			}
			if call == nil {
				continue
			}
			si := 0
			if bo.Op == token.EQL {
				si = 1
			}
			nTests++
			k++
			callee := "a function value"
			if sc := call.Call.StaticCallee(); sc != nil {
				callee = sc.Name()
			}
			cls := retClassFrom(b, si)
			r.Ob("ERR-PROP", fmt.Sprintf("%s: failure of %s (#%d) is not swallowed", relName(f), callee, k), t.Pos(bo.Pos()), cls != "nil",
				"on the edge where the callee's error is non-nil the function returns: "+cls+" — a nil return there turns a failing statement into a successful one: the scripts above it (through use()) carry on and Run reports no error")
		}
	}
	r.FloorN("error tests in the v1 run scope", nTests, 20)
}
