package main

import (
	"go/types"
	"strings"

	"golang.org/x/tools/go/ssa"
)

// reach computes the in-module functions reachable from roots through explicitly resolved calls:
// static callees, closures, in-module implementations of interface invokes, and the bound dynamic sites.
// dyn maps a function to the callees of its unresolved dynamic call sites.
// dynSite is a dynamic call site that reach could not bind to callees.
type dynSite struct {
	Fn *ssa.Function
	In ssa.Instruction
}

func (d dynSite) key(t *Tree) string { return relName(d.Fn) + " at " + t.Pos(d.In.Pos()) }

// globalFuncTargets resolves a call through a package-level func variable (AstOp = func…): the function values
// ever stored to that variable anywhere in the module.
func globalFuncTargets(t *Tree, g *ssa.Global) []*ssa.Function {
	var out []*ssa.Function
	for _, pp := range sortedKeys(t.SSA) {
		for _, f := range t.PkgFuncs(pp) {
			allInstrs(f, func(in ssa.Instruction) {
				if s, ok := in.(*ssa.Store); ok && s.Addr == ssa.Value(g) {
					switch v := s.Val.(type) {
					case *ssa.Function:
						out = append(out, v)
					case *ssa.MakeClosure:
						if fn, ok := v.Fn.(*ssa.Function); ok {
							out = append(out, fn)
						}
					}
				}
			})
		}
	}
	return out
}

func reach(t *Tree, roots []*ssa.Function, dyn map[*ssa.Function][]*ssa.Function) (map[*ssa.Function]bool, []dynSite) {
	seen := map[*ssa.Function]bool{}
	var unresolved []dynSite
	work := append([]*ssa.Function{}, roots...)
	for len(work) > 0 {
		f := work[len(work)-1]
		work = work[:len(work)-1]
		if f == nil || seen[f] || !inModule(f) {
			continue
		}
		seen[f] = true
		work = append(work, f.AnonFuncs...)
		allInstrs(f, func(in ssa.Instruction) {
			// function values taken (callbacks)
			for _, op := range in.Operands(nil) {
				if op == nil || *op == nil {
					continue
				}
				switch v := (*op).(type) {
				case *ssa.Function:
					work = append(work, v)
				case *ssa.MakeClosure:
					if fn, ok := v.Fn.(*ssa.Function); ok {
						work = append(work, fn)
					}
				}
			}
			ci, ok := in.(ssa.CallInstruction)
			if !ok {
				return
			}
			cc := ci.Common()
			if sc := cc.StaticCallee(); sc != nil {
				work = append(work, sc)
				return
			}
			if cc.IsInvoke() {
				work = append(work, implementations(t, cc)...)
				return
			}
			if _, isB := cc.Value.(*ssa.Builtin); isB {
				return
			}
			if d, ok := dyn[f]; ok {
				work = append(work, d...)
				return
			}
			// the value looked up in the task's function / checker table (v1), wherever the call sits
			if ex, ok := cc.Value.(*ssa.Extract); ok && ex.Index == 0 && dyn != nil {
				if gc, ok := ex.Tuple.(*ssa.Call); ok && gc.Call.StaticCallee() != nil && gc.Call.StaticCallee().Pkg != nil && gc.Call.StaticCallee().Pkg.Pkg.Path() == pRT {
					run, chk := registryMaps(t)
					var tab map[string]*ssa.Function
					switch fnName(gc.Call.StaticCallee()) {
					case "GetFuncCall":
						tab = run
					case "GetFuncCheck":
						tab = chk
					}
					if len(tab) > 0 {
						for _, k := range sortedKeys(tab) {
							work = append(work, tab[k])
						}
						return
					}
				}
			}
			if u, ok := cc.Value.(*ssa.UnOp); ok {
				if g, ok := u.X.(*ssa.Global); ok {
					if tg := globalFuncTargets(t, g); len(tg) > 0 {
						work = append(work, tg...)
						return
					}
				}
			}
			if tg := tableFuncTargets(cc.Value); len(tg) > 0 {
				work = append(work, tg...)
				return
			}
			unresolved = append(unresolved, dynSite{f, in})
		})
	}
	return seen, unresolved
}

// implementations: methods of in-module named types that implement the invoked interface method.
func implementations(t *Tree, cc *ssa.CallCommon) []*ssa.Function {
	it, ok := cc.Value.Type().Underlying().(*types.Interface)
	if !ok {
		return nil
	}
	var out []*ssa.Function
	for _, p := range t.SSA {
		for _, m := range p.Members {
			ty, ok := m.(*ssa.Type)
			if !ok {
				continue
			}
			if _, isIface := ty.Type().Underlying().(*types.Interface); isIface {
				continue
			}
			for _, recv := range []types.Type{ty.Type(), types.NewPointer(ty.Type())} {
				if types.Implements(recv, it) {
					ms := t.Prog.MethodSets.MethodSet(recv)
					if sel := ms.Lookup(cc.Method.Pkg(), cc.Method.Name()); sel != nil {
						if f := t.Prog.MethodValue(sel); f != nil {
							out = append(out, f)
						}
					}
					break
				}
			}
		}
	}
	return out
}

var scopeCache = map[*Tree]map[string]map[*ssa.Function]bool{}

// runScope: everything reachable from (*runtime.Script).Run / RefRun and the registered builtins (v1).
func runScope(t *Tree) map[*ssa.Function]bool {
	if m := scopeCache[t]; m != nil && m["run"] != nil {
		return m["run"]
	}
	runners, _ := registryMaps(t)
	var rs []*ssa.Function
	for _, k := range sortedKeys(runners) {
		rs = append(rs, runners[k])
	}
	roots := []*ssa.Function{t.Method(pRT, "Script", "Run"), t.Method(pRT, "Script", "RefRun")}
	roots = append(roots, rs...)
	dyn := map[*ssa.Function][]*ssa.Function{}
	if f := t.Func(pRT, "RunCallExpr"); f != nil {
		dyn[f] = rs
	}
	res, _ := reach(t, roots, dyn)
	if scopeCache[t] == nil {
		scopeCache[t] = map[string]map[*ssa.Function]bool{}
	}
	scopeCache[t]["run"] = res
	return res
}

// runScopeUnresolved lists dynamic call sites in the v1 run scope that could not be bound.
func runScopeUnresolved(t *Tree) []dynSite {
	runners, _ := registryMaps(t)
	var rs []*ssa.Function
	for _, k := range sortedKeys(runners) {
		rs = append(rs, runners[k])
	}
	roots := []*ssa.Function{t.Method(pRT, "Script", "Run"), t.Method(pRT, "Script", "RefRun")}
	roots = append(roots, rs...)
	dyn := map[*ssa.Function][]*ssa.Function{}
	if f := t.Func(pRT, "RunCallExpr"); f != nil {
		dyn[f] = rs
	}
	_, un := reach(t, roots, dyn)
	return un
}

// v2Scope: everything reachable from (*runtimev2.Script).Run.
func v2Scope(t *Tree) (map[*ssa.Function]bool, []dynSite) {
	roots := []*ssa.Function{t.Method(pRT2, "Script", "Run")}
	for _, f := range t.PkgFuncs(pRT2) {
		if strings.HasPrefix(f.Name(), "GetParam") {
			roots = append(roots, f)
		}
	}
	return reach(t, roots, nil)
}

// checkScope: everything reachable from Script.Check (v1) with the checkers bound.
func checkScope(t *Tree) map[*ssa.Function]bool {
	_, chk := registryMaps(t)
	var cs []*ssa.Function
	for _, k := range sortedKeys(chk) {
		cs = append(cs, chk[k])
	}
	roots := []*ssa.Function{t.Method(pRT, "Script", "Check")}
	roots = append(roots, cs...)
	dyn := map[*ssa.Function][]*ssa.Function{}
	if f := t.Func(pRT, "RunCallExprCheck"); f != nil {
		dyn[f] = cs
	}
	res, _ := reach(t, roots, dyn)
	return res
}

// parseScope: everything reachable from parser.ParsePipeline, with l.state(l) bound to the state functions.
func parseScope(t *Tree) (map[*ssa.Function]bool, []dynSite) {
	pp := t.SSA[pParser]
	var states []*ssa.Function
	for _, f := range t.PkgFuncs(pParser) {
		if f.Signature.Recv() == nil && f.Signature.Results().Len() == 1 && strings.HasSuffix(f.Signature.Results().At(0).Type().String(), "parser.stateFn") {
			states = append(states, f)
		}
	}
	dyn := map[*ssa.Function][]*ssa.Function{}
	if f := t.Method(pParser, "Lexer", "NextItem"); f != nil {
		dyn[f] = states
	}
	roots := []*ssa.Function{pkgFunc(pp, "ParsePipeline")}
	return reach(t, roots, dyn)
}

// loadScope: everything reachable from the load entry points (ParseScript, ParseV2, the linker), with the
// registered checkers bound to the v1 dynamic check call and the lexer state functions bound to NextItem.
func loadScope(t *Tree) (map[*ssa.Function]bool, []dynSite) {
	_, chk := registryMaps(t)
	var cs []*ssa.Function
	for _, k := range sortedKeys(chk) {
		cs = append(cs, chk[k])
	}
	var states []*ssa.Function
	for _, f := range t.PkgFuncs(pParser) {
		if f.Signature.Recv() == nil && f.Signature.Results().Len() == 1 && strings.HasSuffix(f.Signature.Results().At(0).Type().String(), "parser.stateFn") {
			states = append(states, f)
		}
	}
	dyn := map[*ssa.Function][]*ssa.Function{}
	if f := t.Func(pRT, "RunCallExprCheck"); f != nil {
		dyn[f] = cs
	}
	if f := t.Method(pParser, "Lexer", "NextItem"); f != nil {
		dyn[f] = states
	}
	roots := []*ssa.Function{t.Func(pEngine, "ParseScript"), t.Func(pEngine, "ParseV2"), t.Func(pEngine, "EngineCallRefLinkAndCheck"), t.Func(pRT2, "CheckPassParam"), t.Func(pRT2, "CheckFnParamDef")}
	roots = append(roots, cs...)
	return reach(t, roots, dyn)
}

// tableFuncTargets resolves a call of a value looked up in a read-only package-level table (map, array or slice
// filled once by the package initialiser and never written elsewhere, see roTable): the callees are the function
// values stored in the table. Struct-valued rows are followed one field deep.
func tableFuncTargets(v ssa.Value) []*ssa.Function {
	for i := 0; i < 6; i++ {
		switch x := v.(type) {
		case *ssa.Alloc: // a local copy of the row, assigned once
			var stored ssa.Value
			n := 0
			if x.Referrers() != nil {
				for _, r := range *x.Referrers() {
					if st, ok := r.(*ssa.Store); ok && st.Addr == ssa.Value(x) {
						stored = st.Val
						n++
					}
				}
			}
			if n != 1 {
				return nil
			}
			v = stored
			continue
		case *ssa.Extract:
			v = x.Tuple
			continue
		case *ssa.Field:
			v = x.X
			continue
		case *ssa.Lookup:
			v = x.X
		case *ssa.Index:
			v = x.X
		case *ssa.UnOp:
			if ia, ok := x.X.(*ssa.IndexAddr); ok {
				v = ia.X
				if _, isG := v.(*ssa.Global); isG {
					v = &ssa.UnOp{X: v}
				}
			} else if fa, ok := x.X.(*ssa.FieldAddr); ok {
				v = fa.X
				continue
			}
		}
		break
	}
	g := globalOfLoad(v)
	if g == nil {
		return nil
	}
	tab := roTable(g)
	if tab == nil {
		return nil
	}
	var out []*ssa.Function
	var add func(val ssa.Value, depth int) bool
	add = func(val ssa.Value, depth int) bool {
		switch c := val.(type) {
		case *ssa.Function:
			out = append(out, c)
			return true
		case *ssa.MakeClosure:
			if f, ok := c.Fn.(*ssa.Function); ok {
				out = append(out, f)
				return true
			}
		case *ssa.Const:
			return true
		case *ssa.UnOp: // a struct row built in a temporary: its field stores
			if al, ok := c.X.(*ssa.Alloc); ok && depth == 0 && al.Referrers() != nil {
				for _, r := range *al.Referrers() {
					if fa, ok := r.(*ssa.FieldAddr); ok && fa.Referrers() != nil {
						for _, r2 := range *fa.Referrers() {
							if st, ok := r2.(*ssa.Store); ok && !add(st.Val, 1) {
								return false
							}
						}
					}
				}
				return true
			}
		}
		return false
	}
	for _, k := range sortedKeys(tab.vals) {
		if !add(tab.vals[k], 0) {
			return nil
		}
	}
	return out
}
