package main

import (
	"fmt"
	"go/token"
	"go/types"
	"sort"
	"strings"

	"golang.org/x/tools/go/ssa"
)

func init() {
	register("C15", "runs depend only on script, functions and point: pooled-object reset completeness, acquire/release pairing, no hidden state", checkC15)
}

type poolInfo struct {
	Global *ssa.Global
	Type   *types.Named
	Struct *types.Struct
	Pkg    string
}

// discoverPools finds package-level sync.Pool variables of the module and the struct type their New returns.
func discoverPools(t *Tree) []poolInfo {
	var out []poolInfo
	for _, pp := range sortedKeys(t.SSA) {
		pk := t.SSA[pp]
		for _, mn := range sortedKeys(pk.Members) {
			g, ok := pk.Members[mn].(*ssa.Global)
			if !ok {
				continue
			}
			pt, ok := g.Type().(*types.Pointer)
			if !ok || pt.Elem().String() != "sync.Pool" {
				continue
			}
			// New closure: init stores a function into the New field
			var nt *types.Named
			for _, f := range t.PkgFuncs(pp) {
				if !strings.HasPrefix(f.Name(), "init") {
					continue
				}
				allInstrs(f, func(in ssa.Instruction) {
					s, ok := in.(*ssa.Store)
					if !ok {
						return
					}
					fa, ok := s.Addr.(*ssa.FieldAddr)
					if !ok || fa.X != ssa.Value(g) || fieldName(fa) != "New" {
						return
					}
					var nf *ssa.Function
					switch v := s.Val.(type) {
					case *ssa.Function:
						nf = v
					case *ssa.MakeClosure:
						nf, _ = v.Fn.(*ssa.Function)
					}
					if nf == nil {
						return
					}
					allInstrs(nf, func(in2 ssa.Instruction) {
						if a, ok := in2.(*ssa.Alloc); ok && a.Heap {
							if p, ok := a.Type().(*types.Pointer); ok {
								if n, ok := p.Elem().(*types.Named); ok {
									nt = n
								}
							}
						}
					})
				})
			}
			if nt == nil {
				continue
			}
			st, _ := nt.Underlying().(*types.Struct)
			out = append(out, poolInfo{g, nt, st, pp})
		}
	}
	return out
}

// fieldsAssigned: fields of *T (the value `obj` and aliases obtained by type assertion) that fn assigns on an
// unconditional path (no controlling condition other than nil/ok tests of the object itself and range loops).
func fieldsAssigned(fn *ssa.Function, isObj func(v ssa.Value) bool, st *types.Struct) map[string]bool {
	got := map[string]bool{}
	carried := map[string]bool{}
	defer func() {
		for k := range carried {
			delete(got, k)
		}
	}()
	allInstrs(fn, func(in ssa.Instruction) {
		s, ok := in.(*ssa.Store)
		if !ok {
			return
		}
		uncond := true
		for _, ec := range controlling(s.Block()) {
			d := ec.String()
			// a nil / ok test of the pooled object itself is not a condition on the reset …
			if bo, ok := ec.Cond.(*ssa.BinOp); ok && isNilConst(bo.Y) && isObj(bo.X) {
				continue
			}
			if strings.HasSuffix(condStr(ec.Cond), "#1") {
				continue
			}
			// … nor is leaving a range loop
			if ex, ok := ec.Cond.(*ssa.Extract); ok {
				if _, isNext := ex.Tuple.(*ssa.Next); isNext && !ec.Pol {
					continue
				}
			}
			if strings.Contains(d, "(phi:") && strings.Contains(d, "+1) < len(") && !ec.Pol {
				continue
			}
			// but a test of one of its fields (`if ctx.stackHeader == nil`) is: the old value survives on the other arm
			uncond = false
		}
		if !uncond {
			return
		}
		if fa, ok := s.Addr.(*ssa.FieldAddr); ok && isObj(fa.X) {
			if isObj(rootOf(s.Val)) {
				carried[fieldName(fa)] = true // re-stores (part of) the object's own old state: not a reset
				return
			}
			got[fieldName(fa)] = true
			return
		}
		if isObj(s.Addr) && st != nil { // whole-struct store: *obj = T{…}
			kept := map[string]bool{}
			// fields of the literal that are filled from the object itself are carried over, not reset
			if ld, ok := s.Val.(*ssa.UnOp); ok {
				if a, ok := ld.X.(*ssa.Alloc); ok {
					for _, ref := range *a.Referrers() {
						if fa, ok := ref.(*ssa.FieldAddr); ok {
							for _, rr := range *fa.Referrers() {
								if fs, ok := rr.(*ssa.Store); ok && fs.Addr == ssa.Value(fa) && isObj(rootOf(fs.Val)) {
									kept[fieldName(fa)] = true
								}
							}
						}
					}
				}
			}
			for i := 0; i < st.NumFields(); i++ {
				if !kept[st.Field(i).Name()] {
					got[st.Field(i).Name()] = true
				}
			}
		}
	})
	// method calls x.F.Reset() count as a reset of F
	allInstrs(fn, func(in ssa.Instruction) {
		if call, ok := in.(*ssa.Call); ok && call.Call.StaticCallee() != nil && (call.Call.StaticCallee().Name() == "Reset" || call.Call.StaticCallee().Name() == "Clear") && len(call.Call.Args) == 1 {
			if fa, ok := call.Call.Args[0].(*ssa.FieldAddr); ok && isObj(fa.X) {
				got[fieldName(fa)] = true
			}
			// x.F.Clear() on the loaded field value
			if ld, ok := call.Call.Args[0].(*ssa.UnOp); ok {
				if fa, ok := ld.X.(*ssa.FieldAddr); ok && isObj(fa.X) {
					got[fieldName(fa)] = true
				}
			}
		}
	})
	return got
}

func checkC15(c *Ctx) {
	r, t := c.R, c.T
	r.Explanation = "Decides the structural conditions under which a run cannot see earlier history: (1) RESET-COMPLETE: for each pooled type (discovered from the sync.Pool globals: parser, runtime.Task, input.Point, input.TFMeta) every field is assigned unconditionally by the acquiring function, or by every init function of the type, or cleared by the releasing function — or is one of three frozen parser exceptions whose premises are re-verified (lastClosing is never read; inject is read only under `injecting`, which InjectItem sets together with inject; yyParser is re-initialised by Parse); (2) ACQ-REL: every function that acquires a pooled task or parser releases it on every path (defer-aware typestate); (3) NO-HIDDEN-STATE: no function reachable from ParseScript/ParseV2/the linker, from Script.Run/RefRun and the builtins, or from ParsePipeline writes a package-level variable; (4) REGS: RunCallExpr resets the return registers on exit and PlReg.Reset clears every used slot and the count; the loop/exit flags of a task are re-initialised by both init functions. Not decided: equality of results across histories as behaviour (follows from these facts plus C16's write discipline)."
	pools := discoverPools(t)
	r.FloorN("sync.Pool globals", len(pools), 4)
	exceptions := map[string]string{
		"parser.yyParser":    "the goyacc driver's Parse() re-initialises its own state (char, stack pointer) before reading it",
		"parser.lastClosing": "written by Lex, never read",
		"parser.inject":      "read by Lex only when injecting is true; InjectItem stores inject before setting injecting",
	}
	for _, pi := range pools {
		tn := pi.Type.Obj().Name()
		isT := func(v ssa.Value) bool {
			p, ok := v.Type().(*types.Pointer)
			return ok && types.Identical(p.Elem(), pi.Type)
		}
		var acquire, release, inits []*ssa.Function
		for _, f := range t.PkgFuncs(pi.Pkg) {
			gets, puts := false, false
			allInstrs(f, func(in ssa.Instruction) {
				if call, ok := in.(*ssa.Call); ok && call.Call.StaticCallee() != nil && len(call.Call.Args) > 0 && call.Call.Args[0] == ssa.Value(pi.Global) {
					switch call.Call.StaticCallee().Name() {
					case "Get":
						gets = true
					case "Put":
						puts = true
					}
				}
			})
			if gets {
				acquire = append(acquire, f)
			}
			if puts {
				release = append(release, f)
			}
			if strings.HasPrefix(f.Name(), "Init") && f.Signature.Recv() == nil && len(f.Params) > 0 && isT(f.Params[0]) {
				inits = append(inits, f)
			}
		}
		objIn := func(f *ssa.Function) func(v ssa.Value) bool {
			return func(v ssa.Value) bool {
				if !isT(v) {
					return false
				}
				switch x := v.(type) {
				case *ssa.Parameter:
					return true
				case *ssa.Extract, *ssa.TypeAssert:
					return true
				case *ssa.Phi:
					_ = x
					return true
				}
				return false
			}
		}
		acq, rel := map[string]bool{}, map[string]bool{}
		for _, f := range acquire {
			r.Fn(relName(f))
			for k := range fieldsAssigned(f, objIn(f), pi.Struct) {
				acq[k] = true
			}
		}
		for _, f := range release {
			r.Fn(relName(f))
			for k := range fieldsAssigned(f, objIn(f), pi.Struct) {
				rel[k] = true
			}
		}
		var initSets []map[string]bool
		for _, f := range inits {
			r.Fn(relName(f))
			initSets = append(initSets, fieldsAssigned(f, objIn(f), pi.Struct))
		}
		names := func(fs []*ssa.Function) string {
			var s []string
			for _, f := range fs {
				s = append(s, f.Name())
			}
			sort.Strings(s)
			return strings.Join(s, ",")
		}
		for i := 0; i < pi.Struct.NumFields(); i++ {
			fn := pi.Struct.Field(i).Name()
			inAllInits := len(initSets) > 0
			for _, s := range initSets {
				if !s[fn] {
					inAllInits = false
				}
			}
			key := fmt.Sprintf("pooled %s.%s field %s", t.SSA[pi.Pkg].Pkg.Name(), tn, fn)
			pos := t.Pos(pi.Global.Pos())
			covered := acq[fn] || rel[fn] || inAllInits
			if !covered {
				if why, ok := exceptions[tn+"."+fn]; ok {
					r.Ob("RESET-COMPLETE", key, pos, c15ExceptionHolds(t, tn, fn), "frozen exception: "+why)
					continue
				}
			}
			r.Ob("RESET-COMPLETE", key, pos, covered,
				fmt.Sprintf("assigned by acquire(%s)=%v, by every init(%s)=%v, cleared by release(%s)=%v — a field that is none of these keeps the value a previous, unrelated use left in the pooled object", names(acquire), acq[fn], names(inits), inAllInits, names(release), rel[fn]))
		}
	}
	r.Floor("RESET-COMPLETE", 28)

	// (2) acquire/release pairing for tasks and parsers
	getCtx, putCtx := t.Func(pRT, "GetContext"), t.Func(pRT, "PutContext")
	newP := t.Func(pParser, "newParser")
	for _, pp := range []string{pRT, pParser, pEngine, pFuncs} {
		for _, f := range t.PkgFuncs(pp) {
			isAcq := func(cc *ssa.CallCommon) bool {
				return cc.StaticCallee() != nil && (cc.StaticCallee() == getCtx || cc.StaticCallee() == newP)
			}
			isRel := func(cc *ssa.CallCommon) bool {
				if cc.StaticCallee() == putCtx && putCtx != nil {
					return true
				}
				if f := cc.StaticCallee(); f != nil && f.Name() == "Put" && len(cc.Args) > 0 {
					if g, ok := cc.Args[0].(*ssa.Global); ok && strings.HasSuffix(g.Name(), "Pool") {
						return true
					}
				}
				return false
			}
			uses := false
			allInstrs(f, func(in ssa.Instruction) {
				if ci, ok := in.(*ssa.Call); ok && isAcq(&ci.Call) {
					uses = true
				}
			})
			if !uses || f == getCtx {
				continue
			}
			r.Fn(relName(f))
			// every return (success or error) must have released
			ts := &typestate{fn: f, nstate: 4, init: psFree}
			ts.trans = func(in ssa.Instruction, st int) int {
				switch x := in.(type) {
				case *ssa.Defer:
					if isRel(&x.Call) {
						return st | 2
					}
				case *ssa.RunDefers:
					if st&2 != 0 {
						return psFree
					}
				case *ssa.Call:
					if isAcq(&x.Call) {
						return st | 1
					}
					if isRel(&x.Call) {
						return st &^ 1
					}
				}
				return st
			}
			before := ts.run()
			ok := true
			var where ssa.Instruction
			allInstrs(f, func(in ssa.Instruction) {
				if ret, isR := in.(*ssa.Return); isR && ret.Block() != f.Recover {
					if before[in]&((1<<psHeld)|(1<<psHeldDefer)) != 0 {
						ok = false
						where = in
					}
				}
			})
			pos := t.Pos(f.Pos())
			if where != nil {
				pos = t.Pos(where.Pos())
			}
			r.Ob("ACQ-REL", relName(f)+" returns its pooled object", pos, ok, "an object taken from a pool must be put back (and thereby reset) on every return path, normally by a deferred release")
		}
	}
	r.Floor("ACQ-REL", 4)

	// (3) no hidden state
	load, _ := loadScope(t)
	parse, _ := parseScope(t)
	for _, sc := range []struct {
		name string
		fns  map[*ssa.Function]bool
	}{{"load", load}, {"run", runScope(t)}, {"parse", parse}} {
		var bad []string
		nfn := 0
		for f := range sc.fns {
			nfn++
			for _, w := range writesOf(f) {
				if g, ok := w.Root.(*ssa.Global); ok {
					bad = append(bad, fmt.Sprintf("%s writes %s.%s at %s", relName(f), g.Pkg.Pkg.Name(), g.Name(), t.Pos(w.In.Pos())))
				}
			}
		}
		sort.Strings(bad)
		r.Ob("NO-HIDDEN-STATE", sc.name+" scope writes no package-level variable", "", len(bad) == 0, fmt.Sprintf("%d functions inspected; %s", nfn, strings.Join(bad, "; ")))
	}

	// (2b) a pooled object is released only once it is owned by nobody else
	useAfterRelease(c, "ACQ-REL", []string{pRT, pRT2, pEngine, pFuncs, pInput, pParser})
	{
		putMeta := t.Func(pInput, "PutMeta")
		nRel := 0
		if putMeta != nil {
			for _, f := range t.PkgFuncs(pInput) {
				allInstrs(f, func(in ssa.Instruction) {
					ci, ok := in.(ssa.CallInstruction)
					if !ok || ci.Common().StaticCallee() != putMeta {
						return
					}
					_, deferred := in.(*ssa.Defer)
					call := in
					nRel++
					m := ci.Common().Args[0]
					// where does the entry come from: a lookup / range over the point's index
					var mapV, keyV ssa.Value
					switch x := m.(type) {
					case *ssa.Extract:
						switch tup := x.Tuple.(type) {
						case *ssa.Lookup:
							mapV, keyV = tup.X, tup.Index
						case *ssa.Next:
							if rg, ok := tup.Iter.(*ssa.Range); ok {
								mapV = rg.X
								for _, ref := range *tup.Referrers() {
									if ex, ok := ref.(*ssa.Extract); ok && ex.Index == 1 {
										keyV = ex
									}
								}
							}
						}
					case *ssa.Lookup:
						mapV, keyV = x.X, x.Index
					}
					unlinked := false
					detail := "the released entry does not come from a lookup of the index"
					if mapV != nil && keyV != nil {
						detail = fmt.Sprintf("entry %s[%s]", path(mapV), path(keyV))
						allInstrs(f, func(i2 ssa.Instruction) {
							d, ok := i2.(*ssa.Call)
							if !ok || builtinName(d) != "delete" {
								return
							}
							if path(d.Call.Args[0]) == path(mapV) && (d.Call.Args[1] == keyV || path(d.Call.Args[1]) == path(keyV)) {
								if precedes(d, call) {
									unlinked = true
								}
								if deferred {
									// a deferred release runs at the exits: every exit reachable from the defer passes the delete
									okAll := true
									allInstrs(f, func(r2 ssa.Instruction) {
										if ret, isRet := r2.(*ssa.Return); isRet && reachAvoid(call, ret, func(k ssa.Instruction) bool { return k == ssa.Instruction(d) }) {
											okAll = false
										}
									})
									if okAll {
										unlinked = true
									}
								}
							}
						})
					}
					nthPut, done := 0, false
					for _, bb := range f.Blocks {
						for _, ii := range bb.Instrs {
							if done {
								break
							}
							if c2, ok := ii.(ssa.CallInstruction); ok && c2.Common().StaticCallee() == putMeta {
								nthPut++
							}
							if ii == call {
								done = true
							}
						}
					}
					r.Ob("ACQ-REL", fmt.Sprintf("%s releases an index entry only after removing it from the index (PutMeta #%d)", relName(f), nthPut), t.Pos(call.Pos()), unlinked,
						detail+": delete(Meta, key) with the same key must dominate PutMeta — an entry that goes back to the pool while a key still points at it is handed to another key later and both then share type and flag")
				})
			}
		}
		r.FloorN("PutMeta call sites", nRel, 2)
	}

	// (3b) no third-party object shared between runs
	{
		var fns []*ssa.Function
		for f := range runScope(t) {
			fns = append(fns, f)
		}
		sortFuncs(fns)
		n, bad := sharedObjects(t, fns)
		r.Ob("NO-HIDDEN-STATE", "run scope shares no mutable third-party object between runs", "", len(bad) == 0,
			fmt.Sprintf("%d uses of package-level pointers to foreign struct types inspected (sync.Pool, regexp.Regexp, time.Location accepted); %s", n, strings.Join(bad, "; ")))
	}

	// (4) registers and flags
	rce := t.Func(pRT, "RunCallExpr")
	reset := t.Method(pRT, "PlReg", "Reset")
	if rce == nil || reset == nil {
		r.Undecided("REGS", "runtime.RunCallExpr / PlReg.Reset", "", "unresolved anchor")
	} else {
		r.Fn(relName(rce), relName(reset))
		deferred := false
		allInstrs(rce, func(in ssa.Instruction) {
			if d, ok := in.(*ssa.Defer); ok && d.Call.StaticCallee() == reset && d.Block() == rce.Blocks[0] {
				deferred = true
			}
		})
		r.Ob("REGS", "RunCallExpr resets the return registers on every exit", t.Pos(rce.Pos()), deferred, "defer ctx.Regs.Reset() in the entry block")
		clearsCount, clearsSlots := false, 0
		allInstrs(reset, func(in ssa.Instruction) {
			if s, ok := in.(*ssa.Store); ok {
				p := path(s.Addr)
				if strings.HasSuffix(p, ".count") {
					if v, ok := constInt(s.Val); ok && v == 0 {
						clearsCount = true
					}
				}
				if strings.Contains(p, "[*]") {
					clearsSlots++
				}
			}
		})
		r.Ob("REGS", "PlReg.Reset clears the count", t.Pos(reset.Pos()), clearsCount, "count = 0")
		_, st := t.NamedStruct(pRT, "PlReg")
		arrays := 0
		if st != nil {
			for i := 0; i < st.NumFields(); i++ {
				if _, ok := st.Field(i).Type().Underlying().(*types.Array); ok {
					arrays++
				}
			}
		}
		r.Ob("REGS", "PlReg.Reset clears every register array", t.Pos(reset.Pos()), clearsSlots >= arrays && arrays > 0, fmt.Sprintf("%d element stores for %d arrays", clearsSlots, arrays))
	}
	for _, name := range []string{"InitCtx", "InitCtxForCheck"} {
		f := t.Func(pRT, name)
		if f == nil {
			r.Undecided("REGS", "runtime."+name, "", "unresolved anchor")
			continue
		}
		got := fieldsAssigned(f, func(v ssa.Value) bool { _, ok := v.(*ssa.Parameter); return ok && namedOf(v.Type()) == "runtime.Task" }, nil)
		for _, fl := range []string{"loopBreak", "loopContinue", "procExit", "Regs", "name", "funcCall", "funcCheck", "callRef"} {
			r.Ob("REGS", fmt.Sprintf("%s re-initialises Task.%s", name, fl), t.Pos(f.Pos()), got[fl], "per-run control state must not survive from the previous use of the task")
		}
	}
}

// c15ExceptionHolds re-verifies the premise of a frozen parser exception.
func c15ExceptionHolds(t *Tree, typ, field string) bool {
	switch typ + "." + field {
	case "parser.lastClosing":
		// never read
		read := false
		for _, f := range t.PkgFuncs(pParser) {
			allInstrs(f, func(in ssa.Instruction) {
				if u, ok := in.(*ssa.UnOp); ok && u.Op == token.MUL {
					if fa, ok := u.X.(*ssa.FieldAddr); ok && fieldName(fa) == "lastClosing" {
						read = true
					}
				}
			})
		}
		return !read
	case "parser.inject":
		// every load of inject is controlled by injecting == true; InjectItem stores both
		ok := true
		for _, f := range t.PkgFuncs(pParser) {
			allInstrs(f, func(in ssa.Instruction) {
				u, isU := in.(*ssa.UnOp)
				if !isU || u.Op != token.MUL {
					return
				}
				fa, isF := u.X.(*ssa.FieldAddr)
				if !isF || fieldName(fa) != "inject" || namedOf(fa.X.Type()) != "parser.parser" {
					return
				}
				if f.Name() == "InjectItem" {
					return // diagnostic read in the panic message
				}
				g := false
				for _, ec := range controlling(u.Block()) {
					if strings.HasSuffix(condStr(ec.Cond), ".injecting") && ec.Pol {
						g = true
					}
				}
				if !g {
					ok = false
				}
			})
		}
		inj := t.Method(pParser, "parser", "InjectItem")
		if inj == nil {
			return false
		}
		si, sj := false, false
		allInstrs(inj, func(in ssa.Instruction) {
			if s, isS := in.(*ssa.Store); isS {
				if fa, isF := s.Addr.(*ssa.FieldAddr); isF {
					switch fieldName(fa) {
					case "inject":
						si = true
					case "injecting":
						sj = true
					}
				}
			}
		})
		return ok && si && sj
	case "parser.yyParser":
		// Parse starts from a fresh parse state: it assigns char and state before the loop
		p := t.Method(pParser, "yyParserImpl", "Parse")
		if p == nil {
			return false
		}
		setsChar := false
		for _, in := range p.Blocks[0].Instrs {
			if s, ok := in.(*ssa.Store); ok && strings.HasSuffix(path(s.Addr), ".char") {
				setsChar = true
			}
		}
		return setsChar
	}
	return false
}

// sharedObjects: calls, made from the given functions, that hand a package-level pointer to a mutable object of a
// type declared outside the module to code outside the module. Such an object carries state from one run (and one
// goroutine) to the next. sync.Pool (its purpose), *regexp.Regexp and *time.Location (immutable after
// construction, documented safe for concurrent use) are the only accepted types.
func sharedObjects(t *Tree, fns []*ssa.Function) (n int, bad []string) {
	allowed := map[string]bool{"*sync.Pool": true, "*regexp.Regexp": true, "*time.Location": true, "sync.Pool": true}
	seen := map[string]bool{}
	for _, f := range fns {
		allInstrs(f, func(in ssa.Instruction) {
			// any use of a package-level variable holding (a pointer to) a struct declared outside the module
			for _, op := range in.Operands(nil) {
				if op == nil || *op == nil {
					continue
				}
				g, isGlobal := (*op).(*ssa.Global)
				if !isGlobal {
					continue
				}
				vt := g.Type().(*types.Pointer).Elem() // type of the variable
				et := vt
				if p, ok := vt.Underlying().(*types.Pointer); ok {
					et = p.Elem()
				}
				named, isNamed := et.(*types.Named)
				if !isNamed || named.Obj().Pkg() == nil || strings.HasPrefix(named.Obj().Pkg().Path(), mod) {
					continue
				}
				if _, isStruct := named.Underlying().(*types.Struct); !isStruct {
					continue
				}
				n++
				ts := types.TypeString(vt, func(p *types.Package) string { return p.Name() })
				if allowed[ts] {
					continue
				}
				k := fmt.Sprintf("%s uses package variable %s (%s)", relName(f), g.Name(), ts)
				if !seen[k] {
					seen[k] = true
					bad = append(bad, k)
				}
			}
		})
	}
	sort.Strings(bad)
	return n, bad
}
