package main

import (
	"fmt"
	"go/ast"
	"go/token"
	"go/types"
	"sort"
	"strings"

	"golang.org/x/tools/go/ssa"
)

func init() {
	register("C15", "runs depend only on script, functions and point: pooled-object reset completeness, acquire/release pairing, no hidden state", checkC15)
}

type poolInfo struct {
	Global *ssa.Global
	Type   *types.Named
	Struct *types.Struct
	Pkg    string
}

// discoverPools finds package-level sync.Pool variables of the module and the struct type their New returns.
func discoverPools(t *Tree) []poolInfo {
	var out []poolInfo
	for _, pp := range sortedKeys(t.SSA) {
		pk := t.SSA[pp]
		for _, mn := range sortedKeys(pk.Members) {
			g, ok := pk.Members[mn].(*ssa.Global)
			if !ok {
				continue
			}
			pt, ok := g.Type().(*types.Pointer)
			if !ok || pt.Elem().String() != "sync.Pool" {
				continue
			}
			// New closure: init stores a function into the New field
			var nt *types.Named
			for _, f := range t.PkgFuncs(pp) {
				if !strings.HasPrefix(f.Name(), "init") {
					continue
				}
				allInstrs(f, func(in ssa.Instruction) {
					s, ok := in.(*ssa.Store)
					if !ok {
						return
					}
					fa, ok := s.Addr.(*ssa.FieldAddr)
					if !ok || fa.X != ssa.Value(g) || fieldName(fa) != "New" {
						return
					}
					var nf *ssa.Function
					switch v := s.Val.(type) {
					case *ssa.Function:
						nf = v
					case *ssa.MakeClosure:
						nf, _ = v.Fn.(*ssa.Function)
					}
					if nf == nil {
						return
					}
					allInstrs(nf, func(in2 ssa.Instruction) {
						if a, ok := in2.(*ssa.Alloc); ok && a.Heap {
							if p, ok := a.Type().(*types.Pointer); ok {
								if n, ok := p.Elem().(*types.Named); ok {
									nt = n
								}
							}
						}
					})
				})
			}
			if nt == nil {
				continue
			}
			st, _ := nt.Underlying().(*types.Struct)
			out = append(out, poolInfo{g, nt, st, pp})
		}
	}
	return out
}

// fieldsAssigned: fields of *T (the value `obj` and aliases obtained by type assertion) that fn assigns on an
// unconditional path (no controlling condition other than nil/ok tests of the object itself and range loops).
func fieldsAssigned(fn *ssa.Function, isObj func(v ssa.Value) bool, st *types.Struct) map[string]bool {
	got := map[string]bool{}
	carried := map[string]bool{}
	defer func() {
		for k := range carried {
			delete(got, k)
		}
	}()
	unconditional := func(b *ssa.BasicBlock) bool {
		uncond := true
		for _, ec := range controlling(b) {
			d := ec.String()
			// a nil / ok test of the pooled object itself is not a condition on the reset …
			if bo, ok := ec.Cond.(*ssa.BinOp); ok && isNilConst(bo.Y) && isObj(bo.X) {
				continue
			}
			if strings.HasSuffix(condStr(ec.Cond), "#1") {
				continue
			}
			// … nor is leaving a range loop
			if ex, ok := ec.Cond.(*ssa.Extract); ok {
				if _, isNext := ex.Tuple.(*ssa.Next); isNext && !ec.Pol {
					continue
				}
			}
			if strings.Contains(d, "(phi:") && strings.Contains(d, "+1) < len(") && !ec.Pol {
				continue
			}
			// but a test of one of its fields (`if ctx.stackHeader == nil`) is: the old value survives on the other arm
			uncond = false
		}
		return uncond
	}
	allInstrs(fn, func(in ssa.Instruction) {
		s, ok := in.(*ssa.Store)
		if !ok {
			return
		}
		// re-storing (part of) the object's own old state keeps it alive whether or not the store is conditional
		if fa, ok := s.Addr.(*ssa.FieldAddr); ok && isObj(fa.X) && isObj(rootOf(s.Val)) && !truncatedToZero(s.Val) {
			carried[fieldName(fa)] = true
			return
		}
		if !unconditional(s.Block()) {
			return
		}
		if fa, ok := s.Addr.(*ssa.FieldAddr); ok && isObj(fa.X) {
			if isObj(rootOf(s.Val)) && !truncatedToZero(s.Val) {
				carried[fieldName(fa)] = true // re-stores (part of) the object's own old state: not a reset
				return
			}
			got[fieldName(fa)] = true
			// a struct-typed field assigned as a whole (`ctx.flags = flags{}`): its own fields are assigned with it —
			// they are the object's fields when the struct is embedded
			if sub := structOfPtr(fa.Type()); sub != nil {
				for i := 0; i < sub.NumFields(); i++ {
					got[fieldVarName(sub.Field(i))] = true
				}
			}
			return
		}
		// a field of a struct nested in the object: obj.flags.loopBreak = …
		if fa, ok := s.Addr.(*ssa.FieldAddr); ok {
			if outer, ok := fa.X.(*ssa.FieldAddr); ok && isObj(outer.X) && !isObj(rootOf(s.Val)) {
				got[fieldName(fa)] = true
				return
			}
		}
		if isObj(s.Addr) && st != nil { // whole-struct store: *obj = T{…}
			kept := map[string]bool{}
			// fields of the literal that are filled from the object itself are carried over, not reset
			if ld, ok := s.Val.(*ssa.UnOp); ok {
				if a, ok := ld.X.(*ssa.Alloc); ok {
					for _, ref := range *a.Referrers() {
						if fa, ok := ref.(*ssa.FieldAddr); ok {
							for _, rr := range *fa.Referrers() {
								if fs, ok := rr.(*ssa.Store); ok && fs.Addr == ssa.Value(fa) && isObj(rootOf(fs.Val)) {
									kept[fieldName(fa)] = true
								}
							}
						}
					}
				}
			}
			for i := 0; i < st.NumFields(); i++ {
				if !kept[fieldVarName(st.Field(i))] {
					got[fieldVarName(st.Field(i))] = true
				}
			}
		}
	})
	// method calls x.F.Reset() count as a reset of F
	allInstrs(fn, func(in ssa.Instruction) {
		if call, ok := in.(*ssa.Call); ok && call.Call.StaticCallee() != nil && (fnName(call.Call.StaticCallee()) == "Reset" || fnName(call.Call.StaticCallee()) == "Clear") && len(call.Call.Args) == 1 {
			if fa, ok := call.Call.Args[0].(*ssa.FieldAddr); ok && isObj(fa.X) {
				got[fieldName(fa)] = true
			}
			// x.F.Clear() on the loaded field value
			if ld, ok := call.Call.Args[0].(*ssa.UnOp); ok {
				if fa, ok := ld.X.(*ssa.FieldAddr); ok && isObj(fa.X) {
					got[fieldName(fa)] = true
				}
			}
		}
	})
	// a helper called unconditionally with the object itself (method or function) assigns what it assigns
	allInstrs(fn, func(in ssa.Instruction) {
		call, ok := in.(*ssa.Call)
		if !ok || !unconditional(call.Block()) {
			return
		}
		g := call.Call.StaticCallee()
		if g == nil || len(g.Blocks) == 0 || g == fn || g.Pkg != fn.Pkg || fieldsAssignedBusy[g] {
			return
		}
		for k, a := range call.Call.Args {
			if !isObj(a) || k >= len(g.Params) {
				continue
			}
			prm := g.Params[k]
			fieldsAssignedBusy[g] = true
			sub := fieldsAssigned(g, func(v ssa.Value) bool { return v == ssa.Value(prm) }, st)
			delete(fieldsAssignedBusy, g)
			for f := range sub {
				got[f] = true
			}
		}
	})
	// any method called unconditionally on &obj.F that itself assigns every field of F's struct type re-initialises F
	allInstrs(fn, func(in ssa.Instruction) {
		call, ok := in.(*ssa.Call)
		if !ok || len(call.Call.Args) == 0 || !unconditional(call.Block()) {
			return
		}
		g := call.Call.StaticCallee()
		if g == nil || len(g.Blocks) == 0 || g.Signature.Recv() == nil || g == fn || fieldsAssignedBusy[g] {
			return
		}
		fa, ok := call.Call.Args[0].(*ssa.FieldAddr)
		if !ok || !isObj(fa.X) {
			return
		}
		pt, ok := fa.Type().(*types.Pointer)
		if !ok {
			return
		}
		ft, ok := pt.Elem().Underlying().(*types.Struct)
		if !ok {
			return
		}
		fieldsAssignedBusy[g] = true
		sub := fieldsAssigned(g, func(v ssa.Value) bool { return len(g.Params) > 0 && v == ssa.Value(g.Params[0]) }, ft)
		delete(fieldsAssignedBusy, g)
		for i := 0; i < ft.NumFields(); i++ {
			if !sub[fieldVarName(ft.Field(i))] {
				return
			}
		}
		got[fieldName(fa)] = true
	})
	return got
}

var fieldsAssignedBusy = map[*ssa.Function]bool{}

func checkC15(c *Ctx) {
	r, t := c.R, c.T
	r.Explanation = "Decides the structural conditions under which a run cannot see earlier history: (1) RESET-COMPLETE: for each pooled type (discovered from the sync.Pool globals: parser, runtime.Task, input.Point, input.TFMeta) every field is assigned unconditionally by the acquiring function, or by every init function of the type, or cleared by the releasing function — or is one of three frozen parser exceptions whose premises are re-verified (lastClosing is never read; inject is read only under `injecting`, which InjectItem sets together with inject; yyParser is re-initialised by Parse); (2) ACQ-REL: every function that acquires a pooled task or parser releases it on every path (defer-aware typestate); (3) NO-HIDDEN-STATE: no function reachable from ParseScript/ParseV2/the linker, from Script.Run/RefRun and the builtins, or from ParsePipeline writes a package-level variable; (4) REGS: RunCallExpr resets the return registers on exit and PlReg.Reset clears every used slot and the count; the loop/exit flags of a task are re-initialised by both init functions. (5) APPEND-OWNED: every append whose first operand is read from a field or a package-level variable stores its result back into that same field and uses it nowhere else (an append into another object would share the backing array between two objects: what one load appends, another sees). Not decided: equality of results across histories as behaviour (follows from these facts plus C16's write discipline)."
	pools := discoverPools(t)
	r.FloorN("sync.Pool globals", len(pools), 4)
	// (5) APPEND-OWNED: no slice of a shared object is extended into another object
	r.FloorN("appends to fields", appendOwnedRule(c, "APPEND-OWNED", []string{pErr, pEngine, pRT, pRT2, pInput, pFuncs, pParser}), 5)
	exceptions := map[string]string{
		"parser.yyParser":    "the goyacc driver's Parse() re-initialises its own state (char, stack pointer) before reading it",
		"parser.lastClosing": "written by Lex, never read",
		"parser.inject":      "read by Lex only when injecting is true; InjectItem stores inject before setting injecting",
	}
	for _, pi := range pools {
		tn := pi.Type.Obj().Name()
		isT := func(v ssa.Value) bool {
			p, ok := v.Type().(*types.Pointer)
			return ok && types.Identical(p.Elem(), pi.Type)
		}
		var acquire, release, inits []*ssa.Function
		for _, f := range t.PkgFuncs(pi.Pkg) {
			gets, puts := false, false
			allInstrs(f, func(in ssa.Instruction) {
				if call, ok := in.(*ssa.Call); ok && call.Call.StaticCallee() != nil && len(call.Call.Args) > 0 && call.Call.Args[0] == ssa.Value(pi.Global) {
					switch fnName(call.Call.StaticCallee()) {
					case "Get":
						gets = true
					case "Put":
						puts = true
					}
				}
			})
			if gets {
				acquire = append(acquire, f)
			}
			if puts {
				release = append(release, f)
			}
			if strings.HasPrefix(f.Name(), "Init") && f.Signature.Recv() == nil && len(f.Params) > 0 && isT(f.Params[0]) {
				inits = append(inits, f)
			}
		}
		objIn := func(f *ssa.Function) func(v ssa.Value) bool {
			return func(v ssa.Value) bool {
				if !isT(v) {
					return false
				}
				switch x := v.(type) {
				case *ssa.Parameter:
					return true
				case *ssa.Extract, *ssa.TypeAssert:
					return true
				case *ssa.Phi:
					_ = x
					return true
				}
				return false
			}
		}
		acq, rel := map[string]bool{}, map[string]bool{}
		for _, f := range acquire {
			r.Fn(relName(f))
			for k := range fieldsAssigned(f, objIn(f), pi.Struct) {
				acq[k] = true
			}
		}
		for _, f := range release {
			r.Fn(relName(f))
			for k := range fieldsAssigned(f, objIn(f), pi.Struct) {
				rel[k] = true
			}
		}
		var initSets []map[string]bool
		for _, f := range inits {
			r.Fn(relName(f))
			initSets = append(initSets, fieldsAssigned(f, objIn(f), pi.Struct))
		}
		names := func(fs []*ssa.Function) string {
			var s []string
			for _, f := range fs {
				s = append(s, f.Name())
			}
			sort.Strings(s)
			return strings.Join(s, ",")
		}
		for i := 0; i < pi.Struct.NumFields(); i++ {
			fn := fieldVarName(pi.Struct.Field(i))
			inAllInits := len(initSets) > 0
			for _, s := range initSets {
				if !s[fn] {
					inAllInits = false
				}
			}
			key := fmt.Sprintf("pooled %s.%s field %s", t.SSA[pi.Pkg].Pkg.Name(), tn, fn)
			pos := t.Pos(pi.Global.Pos())
			covered := acq[fn] || rel[fn] || inAllInits
			if !covered {
				if why, ok := exceptions[tn+"."+fn]; ok {
					r.Ob("RESET-COMPLETE", key, pos, c15ExceptionHolds(t, tn, fn), "frozen exception: "+why)
					continue
				}
			}
			r.Ob("RESET-COMPLETE", key, pos, covered,
				fmt.Sprintf("assigned by acquire(%s)=%v, by every init(%s)=%v, cleared by release(%s)=%v — a field that is none of these keeps the value a previous, unrelated use left in the pooled object", names(acquire), acq[fn], names(inits), inAllInits, names(release), rel[fn]))
		}
	}
	r.Floor("RESET-COMPLETE", 24)
	emptyProductions(c, "RESET-COMPLETE")

	// (2) acquire/release pairing for tasks and parsers
	poolPairing(c, "ACQ-REL")
	r.Floor("ACQ-REL", 4)

	// (3) no hidden state
	load, _ := loadScope(t)
	parse, _ := parseScope(t)
	for _, sc := range []struct {
		name string
		fns  map[*ssa.Function]bool
	}{{"load", load}, {"run", runScope(t)}, {"parse", parse}} {
		var bad []string
		nfn := 0
		for f := range sc.fns {
			nfn++
			for _, w := range writesOf(f) {
				if g, ok := w.Root.(*ssa.Global); ok {
					bad = append(bad, fmt.Sprintf("%s writes %s.%s at %s", relName(f), g.Pkg.Pkg.Name(), g.Name(), t.Pos(w.In.Pos())))
				}
			}
		}
		sort.Strings(bad)
		r.Ob("NO-HIDDEN-STATE", sc.name+" scope writes no package-level variable", "", len(bad) == 0, fmt.Sprintf("%d functions inspected; %s", nfn, strings.Join(bad, "; ")))
	}

	// (2b) a pooled object is released only once it is owned by nobody else
	useAfterRelease(c, "ACQ-REL", []string{pRT, pRT2, pEngine, pFuncs, pInput, pParser})
	{
		putMeta := t.Func(pInput, "PutMeta")
		nRel := 0
		if putMeta != nil {
			for _, f := range t.PkgFuncs(pInput) {
				allInstrs(f, func(in ssa.Instruction) {
					ci, ok := in.(ssa.CallInstruction)
					if !ok || ci.Common().StaticCallee() != putMeta {
						return
					}
					_, deferred := in.(*ssa.Defer)
					call := in
					nRel++
					m := ci.Common().Args[0]
					// where does the entry come from: a lookup / range over the point's index
					var mapV, keyV ssa.Value
					switch x := m.(type) {
					case *ssa.Extract:
						switch tup := x.Tuple.(type) {
						case *ssa.Lookup:
							mapV, keyV = tup.X, tup.Index
						case *ssa.Next:
							if rg, ok := tup.Iter.(*ssa.Range); ok {
								mapV = rg.X
								for _, ref := range *tup.Referrers() {
									if ex, ok := ref.(*ssa.Extract); ok && ex.Index == 1 {
										keyV = ex
									}
								}
							}
						}
					case *ssa.Lookup:
						mapV, keyV = x.X, x.Index
					}
					unlinked := false
					detail := "the released entry does not come from a lookup of the index"
					if mapV != nil && keyV != nil {
						detail = fmt.Sprintf("entry %s[%s]", path(mapV), path(keyV))
						allInstrs(f, func(i2 ssa.Instruction) {
							d, ok := i2.(*ssa.Call)
							if !ok || builtinName(d) != "delete" {
								return
							}
							if path(d.Call.Args[0]) == path(mapV) && (d.Call.Args[1] == keyV || path(d.Call.Args[1]) == path(keyV)) {
								if precedes(d, call) {
									unlinked = true
								}
								if deferred {
									// a deferred release runs at the exits: every exit reachable from the defer passes the delete
									okAll := true
									allInstrs(f, func(r2 ssa.Instruction) {
										if ret, isRet := r2.(*ssa.Return); isRet && reachAvoid(call, ret, func(k ssa.Instruction) bool { return k == ssa.Instruction(d) }) {
											okAll = false
										}
									})
									if okAll {
										unlinked = true
									}
								}
							}
						})
					}
					nthPut, done := 0, false
					for _, bb := range f.Blocks {
						for _, ii := range bb.Instrs {
							if done {
								break
							}
							if c2, ok := ii.(ssa.CallInstruction); ok && c2.Common().StaticCallee() == putMeta {
								nthPut++
							}
							if ii == call {
								done = true
							}
						}
					}
					r.Ob("ACQ-REL", fmt.Sprintf("%s releases an index entry only after removing it from the index (PutMeta #%d)", relName(f), nthPut), t.Pos(call.Pos()), unlinked,
						detail+": delete(Meta, key) with the same key must dominate PutMeta — an entry that goes back to the pool while a key still points at it is handed to another key later and both then share type and flag")
				})
			}
		}
		r.FloorN("PutMeta call sites", nRel, 2)
	}

	// (3b) no third-party object shared between runs
	{
		for _, sc := range []struct {
			name string
			fns  map[*ssa.Function]bool
		}{{"run", runScope(t)}, {"load", load}, {"parse", parse}} {
			var fns []*ssa.Function
			for f := range sc.fns {
				fns = append(fns, f)
			}
			sortFuncs(fns)
			n, bad := sharedObjects(t, fns)
			what := "runs"
			if sc.name != "run" {
				what = "loads"
			}
			r.Ob("NO-HIDDEN-STATE", sc.name+" scope shares no mutable third-party object between "+what, "", len(bad) == 0,
				fmt.Sprintf("%d uses of package-level variables holding foreign struct types inspected (sync.Pool, regexp.Regexp, time.Location accepted; a sync.Map or a cache object is state that outlives the call); %s", n, strings.Join(bad, "; ")))
		}
	}

	// (3c) nothing kept on the shared tree flows into a run
	treeContainers(c, "NO-HIDDEN-STATE")

	// (4) registers and flags
	rce := t.Func(pRT, "RunCallExpr")
	reset := t.Method(pRT, "PlReg", "Reset")
	if rce == nil || reset == nil {
		r.Undecided("REGS", "runtime.RunCallExpr / PlReg.Reset", "", "unresolved anchor")
	} else {
		r.Fn(relName(rce), relName(reset))
		deferred := false
		allInstrs(rce, func(in ssa.Instruction) {
			if d, ok := in.(*ssa.Defer); ok && d.Call.StaticCallee() == reset && d.Block() == rce.Blocks[0] {
				deferred = true
			}
		})
		r.Ob("REGS", "RunCallExpr resets the return registers on every exit", t.Pos(rce.Pos()), deferred, "defer ctx.Regs.Reset() in the entry block")
		clearsCount, clearsSlots := false, 0
		allInstrs(reset, func(in ssa.Instruction) {
			if s, ok := in.(*ssa.Store); ok {
				p := path(s.Addr)
				if strings.HasSuffix(p, ".count") {
					if v, ok := constInt(s.Val); ok && v == 0 {
						clearsCount = true
					}
				}
				if strings.Contains(p, "[*]") {
					clearsSlots++
				}
			}
		})
		r.Ob("REGS", "PlReg.Reset clears the count", t.Pos(reset.Pos()), clearsCount, "count = 0")
		_, st := t.NamedStruct(pRT, "PlReg")
		arrays := 0
		if st != nil {
			for i := 0; i < st.NumFields(); i++ {
				if _, ok := st.Field(i).Type().Underlying().(*types.Array); ok {
					arrays++
				}
			}
		}
		r.Ob("REGS", "PlReg.Reset clears every register array", t.Pos(reset.Pos()), clearsSlots >= arrays && arrays > 0, fmt.Sprintf("%d element stores for %d arrays", clearsSlots, arrays))
	}
	for _, name := range []string{"InitCtx", "InitCtxForCheck"} {
		f := t.Func(pRT, name)
		if f == nil {
			r.Undecided("REGS", "runtime."+name, "", "unresolved anchor")
			continue
		}
		got := fieldsAssigned(f, func(v ssa.Value) bool { _, ok := v.(*ssa.Parameter); return ok && namedOf(v.Type()) == "runtime.Task" }, nil)
		for _, fl := range []string{"loopBreak", "loopContinue", "procExit", "Regs", "name", "funcCall", "funcCheck", "callRef"} {
			r.Ob("REGS", fmt.Sprintf("%s re-initialises Task.%s", name, fl), t.Pos(f.Pos()), got[fl], "per-run control state must not survive from the previous use of the task")
		}
	}
}

// c15ExceptionHolds re-verifies the premise of a frozen parser exception.
func c15ExceptionHolds(t *Tree, typ, field string) bool {
	switch typ + "." + field {
	case "parser.lastClosing":
		// never read
		read := false
		for _, f := range t.PkgFuncs(pParser) {
			allInstrs(f, func(in ssa.Instruction) {
				if u, ok := in.(*ssa.UnOp); ok && u.Op == token.MUL {
					if fa, ok := u.X.(*ssa.FieldAddr); ok && fieldName(fa) == "lastClosing" {
						read = true
					}
				}
			})
		}
		return !read
	case "parser.inject":
		// every load of inject is controlled by injecting == true; InjectItem stores both
		ok := true
		for _, f := range t.PkgFuncs(pParser) {
			allInstrs(f, func(in ssa.Instruction) {
				u, isU := in.(*ssa.UnOp)
				if !isU || u.Op != token.MUL {
					return
				}
				fa, isF := u.X.(*ssa.FieldAddr)
				if !isF || fieldName(fa) != "inject" || namedOf(fa.X.Type()) != "parser.parser" {
					return
				}
				if f.Name() == "InjectItem" {
					return // diagnostic read in the panic message
				}
				g := false
				for _, ec := range controlling(u.Block()) {
					if strings.HasSuffix(condStr(ec.Cond), ".injecting") && ec.Pol {
						g = true
					}
				}
				if !g {
					ok = false
				}
			})
		}
		inj := t.Method(pParser, "parser", "InjectItem")
		if inj == nil {
			return false
		}
		si, sj := false, false
		allInstrs(inj, func(in ssa.Instruction) {
			if s, isS := in.(*ssa.Store); isS {
				if fa, isF := s.Addr.(*ssa.FieldAddr); isF {
					switch fieldName(fa) {
					case "inject":
						si = true
					case "injecting":
						sj = true
					}
				}
			}
		})
		return ok && si && sj
	case "parser.yyParser":
		// Parse starts from a fresh parse state: it assigns char and state before the loop
		p := t.Method(pParser, "yyParserImpl", "Parse")
		if p == nil {
			return false
		}
		setsChar := false
		for _, in := range p.Blocks[0].Instrs {
			if s, ok := in.(*ssa.Store); ok && strings.HasSuffix(path(s.Addr), ".char") {
				setsChar = true
			}
		}
		return setsChar
	}
	return false
}

// sharedObjects: calls, made from the given functions, that hand a package-level pointer to a mutable object of a
// type declared outside the module to code outside the module. Such an object carries state from one run (and one
// goroutine) to the next. sync.Pool (its purpose), *regexp.Regexp and *time.Location (immutable after
// construction, documented safe for concurrent use) are the only accepted types.
func sharedObjects(t *Tree, fns []*ssa.Function) (n int, bad []string) {
	allowed := map[string]bool{"*sync.Pool": true, "*regexp.Regexp": true, "*time.Location": true, "sync.Pool": true, "*os.File": true /* os.Stderr/os.Stdout: diagnostics sink, not an input of any result */}
	seen := map[string]bool{}
	for _, f := range fns {
		allInstrs(f, func(in ssa.Instruction) {
			// any use of a package-level variable holding (a pointer to) a struct declared outside the module
			for _, op := range in.Operands(nil) {
				if op == nil || *op == nil {
					continue
				}
				g, isGlobal := (*op).(*ssa.Global)
				if !isGlobal {
					continue
				}
				vt := g.Type().(*types.Pointer).Elem() // type of the variable
				et := vt
				if p, ok := vt.Underlying().(*types.Pointer); ok {
					et = p.Elem()
				}
				named, isNamed := et.(*types.Named)
				if !isNamed || named.Obj().Pkg() == nil || strings.HasPrefix(named.Obj().Pkg().Path(), mod) {
					continue
				}
				if _, isStruct := named.Underlying().(*types.Struct); !isStruct {
					continue
				}
				n++
				ts := types.TypeString(vt, func(p *types.Package) string { return p.Name() })
				if allowed[ts] {
					continue
				}
				k := fmt.Sprintf("%s uses package variable %s (%s)", relName(f), g.Name(), ts)
				if !seen[k] {
					seen[k] = true
					bad = append(bad, k)
				}
			}
		})
	}
	sort.Strings(bad)
	return n, bad
}

// posCacheReinit (shared by C05 and C17): the parser object is pooled and its position cache answers every
// line/column question of a parse; newParser must re-initialise the whole cache for the new text — a whole-struct
// store, or a method that assigns every field — so that no answer depends on the text parsed before.
func posCacheReinit(c *Ctx, rule string) {
	r, t := c.R, c.T
	np := t.Func(pParser, "newParser")
	if np == nil {
		r.Undecided(rule, "parser.newParser", "pkg/parser/parser.go", "unresolved anchor")
		return
	}
	var pst *types.Struct
	var pnamed types.Type
	if tn := t.SSA[pParser].Type("parser"); tn != nil {
		pnamed = tn.Type()
		pst, _ = pnamed.Underlying().(*types.Struct)
	}
	if pst == nil {
		r.Undecided(rule, "parser.parser", "pkg/parser/parser.go", "unresolved anchor")
		return
	}
	isP := func(v ssa.Value) bool {
		p, ok := v.Type().(*types.Pointer)
		if !ok || !types.Identical(p.Elem(), pnamed) {
			return false
		}
		switch v.(type) {
		case *ssa.Parameter, *ssa.Extract, *ssa.TypeAssert, *ssa.Phi:
			return true
		}
		return false
	}
	got := fieldsAssigned(np, isP, pst)
	n := 0
	for i := 0; i < pst.NumFields(); i++ {
		f := pst.Field(i)
		if !strings.HasSuffix(f.Type().String(), "token.PosCache") {
			continue
		}
		n++
		r.Ob(rule, "newParser re-initialises every field of the pooled parser's position cache "+f.Name(), t.Pos(np.Pos()), got[f.Name()],
			"a whole-struct store or a method assigning every field of token.PosCache on every path — a field left over from the previous text makes line/column answers depend on what was parsed before")
	}
	r.FloorN("position-cache fields of the pooled parser", n, 1)
}

// truncatedToZero: v is x[:0] or append(x[:0], …): the buffer is reused but none of its old elements survive.
func truncatedToZero(v ssa.Value) bool {
	for depth := 0; depth < 4; depth++ {
		switch x := v.(type) {
		case *ssa.Slice:
			if x.High == nil {
				return false
			}
			k, ok := constInt(x.High)
			return ok && k == 0
		case *ssa.Call:
			if b, ok := x.Call.Value.(*ssa.Builtin); ok && b.Name() == "append" && len(x.Call.Args) > 0 {
				v = x.Call.Args[0]
				continue
			}
			return false
		default:
			return false
		}
	}
	return false
}

// emptyProductions: the goyacc driver keeps its value stack inside the parser object, which is pooled and never
// wiped; before a reduction it preloads $$ with the stack slot just above the handle — for an empty right-hand side
// that is a slot left over from an earlier (possibly unrelated) parse. An empty production of a typed nonterminal
// must therefore assign $$ itself on every path; an untyped one has no value that could be read.
func emptyProductions(c *Ctx, rule string) {
	r := c.R
	g := c.Gram()
	if g == nil {
		r.Undecided(rule, "grammar", "pkg/parser/gram.y", "grammar not loaded")
		return
	}
	n := 0
	for _, p := range g.Prods[1:] {
		if len(p.RHS) != 0 {
			continue
		}
		n++
		tag := g.TypeOf[p.LHS]
		key := fmt.Sprintf("empty production %d `%s:` yields a defined value", p.Num, p.LHS)
		pos := fmt.Sprintf("pkg/parser/gram.y:%d", p.Line)
		if tag == "" {
			r.Ob(rule, key, pos, true, "the nonterminal is untyped: no action can read its value")
			continue
		}
		assigns := false
		if ai := g.Actions[p.Num]; ai != nil && ai.Body != nil {
			var stmts []ast.Stmt
			for _, st := range ai.Body.Body {
				if bl, ok := st.(*ast.BlockStmt); ok { // goyacc wraps the action in a block
					stmts = append(stmts, bl.List...)
				} else {
					stmts = append(stmts, st)
				}
			}
			for _, st := range stmts {
				if as, ok := st.(*ast.AssignStmt); ok && len(as.Lhs) == 1 {
					if sel, ok := as.Lhs[0].(*ast.SelectorExpr); ok {
						if id, ok := sel.X.(*ast.Ident); ok && id.Name == "yyVAL" && sel.Sel.Name == tag {
							assigns = true
						}
					}
				}
			}
		}
		r.Ob(rule, key, pos, assigns, "typed ("+tag+") nonterminal with an empty right-hand side: without a top-level `$$ = …` its value is whatever an earlier parse left in the pooled parser's value stack")
	}
	r.FloorN("empty productions examined", n, 1)
}

// poolPairing (shared by C15 and C16): every function that takes a task or a parser from its pool gives it back on
// every return path — and gives it back once. A call that hands the object to a function which releases that
// parameter on all of its own paths counts as the release (a release wrapper); a second release of the same object
// (a deferred PutContext next to such a wrapper) puts one pointer into the pool twice, so two later Get calls —
// possibly on two goroutines — receive the same object.
func poolPairing(c *Ctx, rule string) {
	r, t := c.R, c.T
	getCtx, putCtx := t.Func(pRT, "GetContext"), t.Func(pRT, "PutContext")
	newP := t.Func(pParser, "newParser")
	isAcq := func(cc *ssa.CallCommon) bool {
		return cc.StaticCallee() != nil && (cc.StaticCallee() == getCtx || cc.StaticCallee() == newP)
	}
	directRel := func(cc *ssa.CallCommon) bool {
		if cc.StaticCallee() == putCtx && putCtx != nil {
			return true
		}
		if f := cc.StaticCallee(); f != nil && f.Name() == "Put" && len(cc.Args) > 0 {
			if g, ok := cc.Args[0].(*ssa.Global); ok && isSyncPool(g) {
				return true
			}
		}
		return false
	}
	// relObj: the object a direct release call gives back
	relObj := func(cc *ssa.CallCommon) ssa.Value {
		if cc.StaticCallee() == putCtx {
			return cc.Args[0]
		}
		if len(cc.Args) >= 2 {
			v := cc.Args[len(cc.Args)-1]
			if mi, ok := v.(*ssa.MakeInterface); ok {
				return mi.X
			}
			return v
		}
		return nil
	}
	// release wrappers: g releases its parameter #k on every return path (one level, no recursion)
	wrapper := map[*ssa.Function]int{}
	for _, pp := range []string{pRT, pParser, pEngine, pFuncs} {
		for _, g := range t.PkgFuncs(pp) {
			if g == putCtx || len(g.Blocks) == 0 {
				continue
			}
			for k, prm := range g.Params {
				if _, isPtr := prm.Type().(*types.Pointer); !isPtr {
					continue
				}
				ts := &typestate{fn: g, nstate: 4, init: 0}
				ts.trans = func(in ssa.Instruction, st int) int {
					switch x := in.(type) {
					case *ssa.Defer:
						if directRel(&x.Call) && relObj(&x.Call) == ssa.Value(prm) {
							return st | 2
						}
					case *ssa.RunDefers:
						if st&2 != 0 {
							return st | 1
						}
					case *ssa.Call:
						if directRel(&x.Call) && relObj(&x.Call) == ssa.Value(prm) {
							return st | 1
						}
					}
					return st
				}
				before := ts.run()
				all, n := true, 0
				allInstrs(g, func(in ssa.Instruction) {
					if ret, isR := in.(*ssa.Return); isR && ret.Block() != g.Recover {
						n++
						for st := 0; st < 4; st++ {
							if before[in]&(1<<uint(st)) != 0 && st&1 == 0 {
								all = false
							}
						}
					}
				})
				if all && n > 0 {
					wrapper[g] = k
				}
			}
		}
	}
	wrapNames := []string{}
	for g := range wrapper {
		wrapNames = append(wrapNames, relName(g))
	}
	sort.Strings(wrapNames)
	r.Extra["release_wrappers"] = wrapNames
	const (
		held     = 1
		deferred = 2
		released = 4
		twice    = 8
	)
	for _, pp := range []string{pRT, pParser, pEngine, pFuncs} {
		for _, f := range t.PkgFuncs(pp) {
			var obj ssa.Value
			allInstrs(f, func(in ssa.Instruction) {
				if ci, ok := in.(*ssa.Call); ok && isAcq(&ci.Call) {
					obj = ci
				}
			})
			if obj == nil || f == getCtx {
				continue
			}
			r.Fn(relName(f))
			same := func(v ssa.Value) bool {
				if v == nil {
					return false
				}
				return v == obj || rootOf(v) == obj
			}
			isRel := func(cc *ssa.CallCommon) bool {
				if directRel(cc) {
					return relObj(cc) == nil || same(relObj(cc))
				}
				if g := cc.StaticCallee(); g != nil {
					if k, ok := wrapper[g]; ok && k < len(cc.Args) && same(cc.Args[k]) {
						return true
					}
				}
				return false
			}
			release := func(st int) int {
				if st&released != 0 {
					return st | twice
				}
				return (st &^ held) | released
			}
			ts := &typestate{fn: f, nstate: 16, init: 0}
			ts.trans = func(in ssa.Instruction, st int) int {
				switch x := in.(type) {
				case *ssa.Defer:
					if isRel(&x.Call) {
						return st | deferred
					}
				case *ssa.RunDefers:
					if st&deferred != 0 {
						return release(st)
					}
				case *ssa.Call:
					if isAcq(&x.Call) {
						return (st | held) &^ released
					}
					if isRel(&x.Call) {
						return release(st)
					}
				}
				return st
			}
			before := ts.run()
			ok, once := true, true
			var where ssa.Instruction
			allInstrs(f, func(in ssa.Instruction) {
				if ret, isR := in.(*ssa.Return); isR && ret.Block() != f.Recover {
					for st := 0; st < 16; st++ {
						if before[in]&(1<<uint(st)) == 0 {
							continue
						}
						if st&held != 0 {
							ok, where = false, in
						}
						if st&twice != 0 {
							once, where = false, in
						}
					}
				}
			})
			pos := t.Pos(f.Pos())
			if where != nil {
				pos = t.Pos(where.Pos())
			}
			r.Ob(rule, relName(f)+" returns its pooled object", pos, ok, "an object taken from a pool must be put back (and thereby reset) on every return path, normally by a deferred release or by a callee that releases it on all of its paths")
			r.Ob(rule, relName(f)+" returns its pooled object once", pos, once, "an object released twice (e.g. by a callee that releases its parameter and again by the caller's deferred release) sits in the pool twice: two later acquisitions, possibly on two goroutines, get the same object")
		}
	}
}

// appendOwnedRule: `append(x.F, …)` may write into spare capacity of x.F's backing array. That is harmless only when
// the result goes back into the very field it was read from (the owner grows its own slice). If the result is put
// anywhere else — a new object's field, a return value, another variable — two objects share one backing array, and
// what is appended through one shows up in (or is overwritten by) the other: the outcome of one load then depends on
// which other scripts were loaded before. Rule: every append whose first operand is loaded from a field (or a
// package-level variable) has exactly one use, the store back to that same field of that same object.
func appendOwnedRule(c *Ctx, rule string, pkgs []string) int {
	r, t := c.R, c.T
	n := 0
	for _, pp := range pkgs {
		for _, f := range t.PkgFuncs(pp) {
			if pp == pParser && f.Name() == "Parse" && strings.Contains(relName(f), "yyParserImpl") {
				// the one exception: the generated driver's grammar actions. `$$ = append($1.list, $2)` moves the list from
				// the value-stack slot of $1, which the reduction pops, to the slot of $$: the old holder is dead.
				continue
			}
			k := 0
			allInstrs(f, func(in ssa.Instruction) {
				call, ok := in.(*ssa.Call)
				if !ok || builtinName(call) != "append" || len(call.Call.Args) == 0 {
					return
				}
				base := call.Call.Args[0]
				ld, ok := base.(*ssa.UnOp)
				if !ok || ld.Op != token.MUL {
					return
				}
				var owner string
				switch a := ld.X.(type) {
				case *ssa.FieldAddr:
					owner = path(a)
				case *ssa.Global:
					owner = path(a)
				default:
					return
				}
				n++
				k++
				okBack, other := false, ""
				if refs := call.Referrers(); refs != nil {
					for _, ref := range *refs {
						switch x := ref.(type) {
						case *ssa.DebugRef:
						case *ssa.Store:
							if x.Val == ssa.Value(call) && sameAddr(x.Addr, ld.X) {
								okBack = true
							} else {
								other = "stored to " + path(x.Addr)
							}
						case *ssa.Return:
							other = "returned"
						default:
							other = fmt.Sprintf("used by %T", ref)
						}
					}
				}
				r.Ob(rule, fmt.Sprintf("%s append to %s #%d goes back into the slice it extends", relName(f), owner, k), t.Pos(call.Pos()), okBack && other == "",
					"append(x.F, …) shares x.F's backing array with its result; the result must replace x.F and go nowhere else ("+other+") — otherwise copy first")
			})
		}
	}
	return n
}

// sameAddr: two field addresses of the same field of the same object (or the same global).
func sameAddr(a, b ssa.Value) bool {
	if a == b {
		return true
	}
	fa, ok1 := a.(*ssa.FieldAddr)
	fb, ok2 := b.(*ssa.FieldAddr)
	if ok1 && ok2 {
		return fa.Field == fb.Field && (fa.X == fb.X || sameVal(fa.X, fb.X) || path(fa.X) == path(fb.X))
	}
	return false
}

// isSyncPool: the package-level variable is a sync.Pool (whatever it is called).
func isSyncPool(g *ssa.Global) bool {
	pt, ok := g.Type().(*types.Pointer)
	return ok && types.TypeString(pt.Elem(), nil) == "sync.Pool"
}

// fieldVarName: the name the field had on the pinned tree (see anchors.go), else its own.
func fieldVarName(v *types.Var) string {
	if c, ok := canonFieldOf[v]; ok {
		return c
	}
	return v.Name()
}
