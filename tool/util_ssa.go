package main

import (
	"fmt"
	"go/constant"
	"go/token"
	"go/types"
	"os"
	"sort"
	"strings"

	"golang.org/x/tools/go/ssa"
)

// ---------------------------------------------------------------- access paths

func structOfPtr(t types.Type) *types.Struct {
	if p, ok := t.Underlying().(*types.Pointer); ok {
		if s, ok := p.Elem().Underlying().(*types.Struct); ok {
			return s
		}
	}
	return nil
}

func fieldName(fa *ssa.FieldAddr) string {
	if s := structOfPtr(fa.X.Type()); s != nil {
		if c, ok := canonFieldOf[s.Field(fa.Field)]; ok {
			return c // a renamed field keeps the name the rules know it by (anchors.go)
		}
		return s.Field(fa.Field).Name()
	}
	return fmt.Sprintf("f%d", fa.Field)
}

func fieldNameV(f *ssa.Field) string {
	if s, ok := f.X.Type().Underlying().(*types.Struct); ok {
		if c, ok := canonFieldOf[s.Field(f.Field)]; ok {
			return c
		}
		return s.Field(f.Field).Name()
	}
	return fmt.Sprintf("f%d", f.Field)
}

// namedOf returns "pkgname.Type" of a (pointer to a) named type, or "".
func namedOf(t types.Type) string {
	if p, ok := t.(*types.Pointer); ok {
		t = p.Elem()
	}
	if n, ok := t.(*types.Named); ok {
		if n.Obj().Pkg() != nil {
			return n.Obj().Pkg().Name() + "." + n.Obj().Name()
		}
		return n.Obj().Name()
	}
	return ""
}

func constStr(c *ssa.Const) string {
	if c.Value == nil {
		return "nil"
	}
	return c.Value.ExactString()
}

// path renders a value as an access path over parameters, fields, constant indices and accessor calls.
// Two separate loads of the same location yield the same string.
func path(v ssa.Value) string {
	switch v := v.(type) {
	case *ssa.Parameter:
		return pname(v)
	case *ssa.FreeVar:
		return v.Name()
	case *ssa.Global:
		return v.Pkg.Pkg.Name() + "." + v.Name()
	case *ssa.Const:
		return constStr(v)
	case *ssa.FieldAddr:
		return path(v.X) + "." + fieldName(v)
	case *ssa.Field:
		return path(v.X) + "." + fieldNameV(v)
	case *ssa.UnOp:
		if v.Op == token.MUL {
			if a, ok := v.X.(*ssa.Alloc); ok {
				if p := spilledParam(a); p != nil {
					return pname(p)
				}
			}
			return path(v.X)
		}
		return v.Op.String() + path(v.X)
	case *ssa.IndexAddr:
		return path(v.X) + "[" + idxStr(v.Index) + "]"
	case *ssa.Index:
		return path(v.X) + "[" + idxStr(v.Index) + "]"
	case *ssa.Lookup:
		return path(v.X) + "[" + idxStr(v.Index) + "]"
	case *ssa.ChangeType:
		return path(v.X)
	case *ssa.Convert:
		return path(v.X)
	case *ssa.MakeInterface:
		return path(v.X)
	case *ssa.Extract:
		return path(v.Tuple) + "#" + fmt.Sprint(v.Index)
	case *ssa.Next:
		return "next(" + path(v.Iter) + ")"
	case *ssa.Range:
		return path(v.X)
	case *ssa.TypeAssert:
		return path(v.X) + ".(" + types.TypeString(v.AssertedType, func(p *types.Package) string { return p.Name() }) + ")"
	case *ssa.Call:
		if c := v.Call.StaticCallee(); c != nil {
			if len(v.Call.Args) == 1 && c.Signature.Recv() != nil {
				return path(v.Call.Args[0]) + "." + fnName(c) + "()"
			}
			var as []string
			for _, a := range v.Call.Args {
				as = append(as, path(a))
			}
			return fnName(c) + "(" + strings.Join(as, ",") + ")"
		}
		if b, ok := v.Call.Value.(*ssa.Builtin); ok {
			var as []string
			for _, a := range v.Call.Args {
				as = append(as, path(a))
			}
			return b.Name() + "(" + strings.Join(as, ",") + ")"
		}
		if v.Call.IsInvoke() {
			return path(v.Call.Value) + "." + v.Call.Method.Name() + "()"
		}
	case *ssa.Phi:
		return "phi:" + v.Name()
	case *ssa.Alloc:
		// a local that is written exactly once as a whole (range-element copy, captured parameter):
		// an alias of the stored value for provenance purposes
		if sv := singleStore(v); sv != nil {
			return path(sv)
		}
		return "alloc:" + v.Name()
	case *ssa.BinOp:
		return "(" + path(v.X) + v.Op.String() + path(v.Y) + ")"
	case *ssa.Slice:
		return path(v.X) + "[:]"
	}
	return "?" + v.Name()
}

// singleStore returns the value stored into a local allocation if it is stored to exactly once as a whole.
func singleStore(a *ssa.Alloc) ssa.Value {
	var val ssa.Value
	n := 0
	for _, r := range *a.Referrers() {
		if s, ok := r.(*ssa.Store); ok && s.Addr == ssa.Value(a) {
			n++
			val = s.Val
		}
	}
	if n == 1 {
		return val
	}
	return nil
}

// spilledParam recognises go/ssa's spill of a captured parameter: `t0 = new T (p); *t0 = p` with no other store.
func spilledParam(a *ssa.Alloc) *ssa.Parameter {
	var prm *ssa.Parameter
	n := 0
	for _, r := range *a.Referrers() {
		if s, ok := r.(*ssa.Store); ok && s.Addr == ssa.Value(a) {
			n++
			prm, _ = s.Val.(*ssa.Parameter)
		}
	}
	if n == 1 {
		return prm
	}
	return nil
}

func idxStr(v ssa.Value) string {
	if c, ok := v.(*ssa.Const); ok {
		return constStr(c)
	}
	return "*"
}

// ---------------------------------------------------------------- calls

func calleeOf(in ssa.Instruction) *ssa.Function {
	if c, ok := in.(ssa.CallInstruction); ok {
		return c.Common().StaticCallee()
	}
	return nil
}

func calleeName(in ssa.Instruction) string {
	if f := calleeOf(in); f != nil {
		return fnName(f)
	}
	return ""
}

func builtinName(in ssa.Instruction) string {
	if c, ok := in.(ssa.CallInstruction); ok {
		if b, ok := c.Common().Value.(*ssa.Builtin); ok {
			return b.Name()
		}
	}
	return ""
}

// isCallTo reports whether in is a static call to pkgPath.name (name may be "Type.Method" for methods).
func isCallTo(in ssa.Instruction, pkgPath, name string) bool {
	f := calleeOf(in)
	if f == nil {
		return false
	}
	return funcIs(f, pkgPath, name)
}

func funcIs(f *ssa.Function, pkgPath, name string) bool {
	if f == nil {
		return false
	}
	pp := ""
	if f.Pkg != nil {
		pp = f.Pkg.Pkg.Path()
	} else if f.Object() != nil && f.Object().Pkg() != nil {
		pp = f.Object().Pkg().Path()
	}
	if pp != pkgPath {
		return false
	}
	if i := strings.IndexByte(name, '.'); i >= 0 {
		if f.Signature.Recv() == nil {
			return false
		}
		rt := namedOf(f.Signature.Recv().Type())
		if j := strings.IndexByte(rt, '.'); j >= 0 {
			rt = rt[j+1:]
		}
		return rt == name[:i] && f.Name() == name[i+1:]
	}
	return f.Name() == name && f.Signature.Recv() == nil
}

// ---------------------------------------------------------------- returns

// retError classifies the error result of a return: "nil", "nonnil" or "unknown".
// It looks through go/ssa's defer-spilled named results (*t = nil; rundefers; r = *t; return r).
func retError(r *ssa.Return) string {
	if len(r.Results) == 0 {
		return "nil"
	}
	return nilness(r.Results[len(r.Results)-1], r.Block(), 0)
}

func nilness(e ssa.Value, b *ssa.BasicBlock, depth int) string {
	switch x := e.(type) {
	case *ssa.Const:
		if x.Value == nil {
			return "nil"
		}
		return "nonnil"
	case *ssa.MakeInterface:
		// a typed pointer wrapped into an interface: nil only if the pointer is a nil constant (still non-nil interface)
		return "nonnil"
	case *ssa.Alloc, *ssa.MakeSlice, *ssa.MakeMap, *ssa.MakeClosure:
		return "nonnil"
	case *ssa.ChangeInterface:
		return nilness(x.X, b, depth)
	case *ssa.UnOp:
		if x.Op == token.MUL {
			if a, ok := x.X.(*ssa.Alloc); ok {
				// last store to a before this load, searching this block then unique predecessors
				if s := lastStoreBefore(a, x); s != nil {
					return nilness(s.Val, s.Block(), depth+1)
				}
			}
		}
	case *ssa.Phi:
		if depth > 4 {
			return "unknown"
		}
		res := ""
		for _, ed := range x.Edges {
			n := nilness(ed, b, depth+1)
			if res == "" {
				res = n
			} else if res != n {
				return "unknown"
			}
		}
		return res
	case *ssa.Call:
		if f := x.Call.StaticCallee(); f != nil && depth < 3 {
			if fp := f.Object(); fp != nil && fp.Pkg() != nil {
				switch fp.Pkg().Path() + "." + f.Name() {
				case "fmt.Errorf", "errors.New":
					return "nonnil"
				}
			}
			// constructor-like callee that never returns nil
			if alwaysNonNil(f, depth+1) {
				return "nonnil"
			}
			// wrapper: every return is non-nil or hands back a parameter whose argument is non-nil here
			if len(f.Blocks) > 0 && f.Signature.Results().Len() == 1 {
				ok := true
				for _, fb := range f.Blocks {
					r, isRet := fb.Instrs[len(fb.Instrs)-1].(*ssa.Return)
					if !isRet {
						continue
					}
					if nilness(r.Results[0], fb, depth+1) == "nonnil" {
						continue
					}
					passed := false
					v := r.Results[0]
					if ci, isCI := v.(*ssa.ChangeInterface); isCI {
						v = ci.X
					}
					if prm, isP := v.(*ssa.Parameter); isP {
						for k, fp := range f.Params {
							if fp == prm && k < len(x.Call.Args) && nilness(x.Call.Args[k], b, depth+1) == "nonnil" {
								passed = true
							}
						}
					}
					if !passed {
						ok = false
					}
				}
				if ok {
					return "nonnil"
				}
			}
		}
	case *ssa.Extract:
		// comma-ok map lookup of an error value under its ok edge: error tables hold non-nil errors
		if lk, ok := x.Tuple.(*ssa.Lookup); ok && lk.CommaOk && x.Index == 0 {
			for _, ec := range controlling(b) {
				if ex, ok := ec.Cond.(*ssa.Extract); ok && ex.Tuple == x.Tuple && ex.Index == 1 && ec.Pol {
					return "nonnil"
				}
			}
		}
	}
	// guarded by a dominating `e != nil` on the same value
	for _, ec := range controlling(b) {
		if bo, ok := ec.Cond.(*ssa.BinOp); ok && isNilConst(bo.Y) && bo.X == e {
			if (bo.Op == token.NEQ && ec.Pol) || (bo.Op == token.EQL && !ec.Pol) {
				return "nonnil"
			}
			if (bo.Op == token.EQL && ec.Pol) || (bo.Op == token.NEQ && !ec.Pol) {
				return "nil"
			}
		}
	}
	return "unknown"
}

func lastStoreBefore(a *ssa.Alloc, load ssa.Instruction) *ssa.Store {
	b := load.Block()
	var last *ssa.Store
	for _, in := range b.Instrs {
		if in == load {
			break
		}
		if s, ok := in.(*ssa.Store); ok && s.Addr == ssa.Value(a) {
			last = s
		}
	}
	if last != nil {
		return last
	}
	// walk up through single-predecessor chains
	seen := map[*ssa.BasicBlock]bool{b: true}
	for len(b.Preds) == 1 && !seen[b.Preds[0]] {
		b = b.Preds[0]
		seen[b] = true
		for _, in := range b.Instrs {
			if s, ok := in.(*ssa.Store); ok && s.Addr == ssa.Value(a) {
				last = s
			}
		}
		if last != nil {
			return last
		}
	}
	return nil
}

func alwaysNonNil(f *ssa.Function, depth int) bool {
	if len(f.Blocks) == 0 || f.Signature.Results().Len() != 1 {
		return false
	}
	for _, b := range f.Blocks {
		if r, ok := b.Instrs[len(b.Instrs)-1].(*ssa.Return); ok {
			if nilness(r.Results[0], b, depth) != "nonnil" {
				return false
			}
		}
	}
	return true
}

// ---------------------------------------------------------------- control: edge conditions

type edgeCond struct {
	If   *ssa.BasicBlock
	Cond ssa.Value
	Pol  bool // the true edge was taken
}

// controlling returns the branch conditions that hold on every path from entry to b:
// for a dominating If block d, the edge d->s controls b when s has d as its only predecessor and s dominates b.
func controlling(b *ssa.BasicBlock) []edgeCond {
	var res []edgeCond
	for _, d := range b.Parent().Blocks {
		if d == b || len(d.Instrs) == 0 {
			continue
		}
		iff, ok := d.Instrs[len(d.Instrs)-1].(*ssa.If)
		if !ok || !d.Dominates(b) {
			continue
		}
		for i, s := range d.Succs {
			if len(s.Preds) == 1 && (s == b || s.Dominates(b)) {
				res = append(res, edgeCond{d, iff.Cond, i == 0})
			}
		}
	}
	return res
}

// condStr renders an atomic branch condition over access paths.
func condStr(c ssa.Value) string {
	switch b := c.(type) {
	case *ssa.BinOp:
		return fmt.Sprintf("%s %s %s", path(b.X), b.Op, path(b.Y))
	case *ssa.UnOp:
		if b.Op == token.NOT {
			return "!(" + condStr(b.X) + ")"
		}
	}
	return path(c)
}

func (e edgeCond) String() string {
	if e.Pol {
		return condStr(e.Cond)
	}
	return "!(" + condStr(e.Cond) + ")"
}

// rejecting: every path from b ends in a return whose error result is non-nil (or a panic).
func rejecting(b *ssa.BasicBlock) bool {
	return rejectingRec(b, map[*ssa.BasicBlock]bool{})
}

func rejectingRec(b *ssa.BasicBlock, seen map[*ssa.BasicBlock]bool) bool {
	if seen[b] {
		return true
	}
	seen[b] = true
	switch last := b.Instrs[len(b.Instrs)-1].(type) {
	case *ssa.Return:
		return retError(last) == "nonnil"
	case *ssa.Panic:
		return true
	}
	if len(b.Succs) == 0 {
		return false
	}
	for _, s := range b.Succs {
		if !rejectingRec(s, seen) {
			return false
		}
	}
	return true
}

// ---------------------------------------------------------------- loops

type natLoop struct {
	Header *ssa.BasicBlock
	Latch  []*ssa.BasicBlock
	Blocks map[*ssa.BasicBlock]bool
}

func naturalLoops(fn *ssa.Function) []*natLoop {
	byHeader := map[*ssa.BasicBlock]*natLoop{}
	var order []*ssa.BasicBlock
	for _, b := range fn.Blocks {
		for _, s := range b.Succs {
			if s.Dominates(b) {
				l := byHeader[s]
				if l == nil {
					l = &natLoop{Header: s, Blocks: map[*ssa.BasicBlock]bool{s: true}}
					byHeader[s] = l
					order = append(order, s)
				}
				l.Latch = append(l.Latch, b)
				st := []*ssa.BasicBlock{b}
				for len(st) > 0 {
					x := st[len(st)-1]
					st = st[:len(st)-1]
					if l.Blocks[x] {
						continue
					}
					l.Blocks[x] = true
					st = append(st, x.Preds...)
				}
			}
		}
	}
	var out []*natLoop
	for _, h := range order {
		out = append(out, byHeader[h])
	}
	return out
}

// ---------------------------------------------------------------- instruction order

func instrIndex(in ssa.Instruction) int {
	for i, x := range in.Block().Instrs {
		if x == in {
			return i
		}
	}
	return -1
}

// precedes: a executes before b on every path that reaches b (a dominates b).
func precedes(a, b ssa.Instruction) bool {
	if a.Block() == b.Block() {
		return instrIndex(a) < instrIndex(b)
	}
	return a.Block().Dominates(b.Block())
}

// reachableFrom: is there a CFG path from the point just after instruction a to instruction b?
func reachableFrom(a, b ssa.Instruction) bool {
	if a.Block() == b.Block() && instrIndex(a) < instrIndex(b) {
		return true
	}
	seen := map[*ssa.BasicBlock]bool{}
	st := append([]*ssa.BasicBlock{}, a.Block().Succs...)
	for len(st) > 0 {
		x := st[len(st)-1]
		st = st[:len(st)-1]
		if seen[x] {
			continue
		}
		seen[x] = true
		if x == b.Block() {
			return true
		}
		st = append(st, x.Succs...)
	}
	return false
}

// ---------------------------------------------------------------- misc

func allInstrs(fn *ssa.Function, f func(in ssa.Instruction)) {
	for _, b := range fn.Blocks {
		for _, in := range b.Instrs {
			f(in)
		}
	}
}

func constInt(v ssa.Value) (int64, bool) {
	c, ok := v.(*ssa.Const)
	if !ok || c.Value == nil || c.Value.Kind() != constant.Int {
		return 0, false
	}
	return constant.Int64Val(c.Value)
}

func isNilConst(v ssa.Value) bool {
	c, ok := v.(*ssa.Const)
	return ok && c.Value == nil
}

func sortedKeys[M ~map[string]V, V any](m M) []string {
	var ks []string
	for k := range m {
		ks = append(ks, k)
	}
	sort.Strings(ks)
	return ks
}

func isIntType(t types.Type) bool {
	b, ok := t.Underlying().(*types.Basic)
	return ok && b.Info()&types.IsInteger != 0
}

// reachAvoid: is there a CFG path from just after `from` to `to` on which no instruction satisfies kill?
func reachAvoid(from, to ssa.Instruction, kill func(ssa.Instruction) bool) bool {
	// scan the rest of from's block
	scan := func(b *ssa.BasicBlock, start int) (hit bool, killed bool) {
		for i := start; i < len(b.Instrs); i++ {
			in := b.Instrs[i]
			if in == to {
				return true, false
			}
			if kill(in) {
				return false, true
			}
		}
		return false, false
	}
	hit, killed := scan(from.Block(), instrIndex(from)+1)
	if hit {
		return true
	}
	if killed {
		return false
	}
	seen := map[*ssa.BasicBlock]bool{}
	st := append([]*ssa.BasicBlock{}, from.Block().Succs...)
	for len(st) > 0 {
		b := st[len(st)-1]
		st = st[:len(st)-1]
		if seen[b] {
			continue
		}
		seen[b] = true
		hit, killed := scan(b, 0)
		if hit {
			return true
		}
		if killed {
			continue
		}
		st = append(st, b.Succs...)
	}
	return false
}

// rootOf walks an access path back to its base value (parameter, global, allocation, call result …).
func rootOf(v ssa.Value) ssa.Value {
	for i := 0; i < 64; i++ {
		switch x := v.(type) {
		case *ssa.FieldAddr:
			v = x.X
		case *ssa.Field:
			v = x.X
		case *ssa.IndexAddr:
			v = x.X
		case *ssa.Index:
			v = x.X
		case *ssa.Lookup:
			v = x.X
		case *ssa.UnOp:
			if x.Op != token.MUL {
				return v
			}
			if a, ok := x.X.(*ssa.Alloc); ok {
				if sv := singleStore(a); sv != nil {
					v = sv
					continue
				}
				return a
			}
			v = x.X
		case *ssa.ChangeType:
			v = x.X
		case *ssa.Convert:
			v = x.X
		case *ssa.MakeInterface:
			v = x.X
		case *ssa.Extract:
			v = x.Tuple
		case *ssa.Next:
			v = x.Iter
		case *ssa.Range:
			v = x.X
		case *ssa.Slice:
			v = x.X
		case *ssa.TypeAssert:
			v = x.X
		case *ssa.Alloc:
			if sv := singleStore(x); sv != nil {
				v = sv
				continue
			}
			return v
		case *ssa.Call:
			// accessor / method on a node: follow the receiver
			if f := x.Call.StaticCallee(); f != nil && f.Signature.Recv() != nil && len(x.Call.Args) >= 1 && f.Pkg != nil && f.Pkg.Pkg.Path() == pAst {
				v = x.Call.Args[0]
				continue
			}
			if f := x.Call.StaticCallee(); f != nil && f.Name() == "NodeStartPos" && len(x.Call.Args) == 1 {
				v = x.Call.Args[0]
				continue
			}
			// ast.WrapXxx(e): the node wrapping e has e's positions
			if f := x.Call.StaticCallee(); f != nil && f.Pkg != nil && f.Pkg.Pkg.Path() == pAst && strings.HasPrefix(f.Name(), "Wrap") && f.Signature.Recv() == nil && len(x.Call.Args) == 1 {
				v = x.Call.Args[0]
				continue
			}
			return v
		default:
			return v
		}
	}
	return v
}

// isAstTyped: the type is (a pointer to / slice of) something declared in pkg/ast.
func isAstTyped(t types.Type) bool {
	s := t.String()
	return strings.Contains(s, "/pkg/ast.")
}

// resolvedCall: a call of f to target, found in f itself or inside a same-module helper that f calls (one level);
// Arg translates the helper's parameters back to f's actual arguments, so rules written against f's own values keep
// working when the call sequence is moved into a helper.
type resolvedCall struct {
	Call *ssa.Call // the call to target
	Via  *ssa.Call // f's call to the helper, nil when direct
}

func findCallThrough(f, target *ssa.Function) *resolvedCall {
	var direct *ssa.Call
	allInstrs(f, func(in ssa.Instruction) {
		if call, ok := in.(*ssa.Call); ok && call.Call.StaticCallee() == target {
			direct = call
		}
	})
	if direct != nil {
		return &resolvedCall{Call: direct}
	}
	var res *resolvedCall
	allInstrs(f, func(in ssa.Instruction) {
		via, ok := in.(*ssa.Call)
		if !ok || res != nil {
			return
		}
		h := via.Call.StaticCallee()
		if h == nil || h == f || !inModule(h) || len(h.Blocks) == 0 {
			return
		}
		allInstrs(h, func(i2 ssa.Instruction) {
			if call, ok := i2.(*ssa.Call); ok && call.Call.StaticCallee() == target {
				res = &resolvedCall{Call: call, Via: via}
			}
		})
	})
	return res
}

// translate: a value of the helper expressed in f's terms (parameter → actual argument); other values unchanged.
func (rc *resolvedCall) translate(v ssa.Value) ssa.Value {
	if rc.Via == nil {
		return v
	}
	h := rc.Via.Call.StaticCallee()
	for k, prm := range h.Params {
		if v == ssa.Value(prm) && k < len(rc.Via.Call.Args) {
			return rc.Via.Call.Args[k]
		}
	}
	return v
}

func (rc *resolvedCall) Arg(i int) ssa.Value { return rc.translate(rc.Call.Call.Args[i]) }

// Root: rootOf the i-th argument, translated.
func (rc *resolvedCall) Root(i int) ssa.Value { return rc.translate(rootOf(rc.Call.Call.Args[i])) }

// Result: the value in f that carries the call's result: the call itself, or the helper call when every return
// of the helper yields the inner call's result.
func (rc *resolvedCall) Result() ssa.Value {
	if rc.Via == nil {
		return rc.Call
	}
	h := rc.Via.Call.StaticCallee()
	ok, n := true, 0
	allInstrs(h, func(in ssa.Instruction) {
		ret, isR := in.(*ssa.Return)
		if !isR || ret.Block() == h.Recover || len(ret.Results) != 1 {
			return
		}
		n++
		if ret.Results[0] == ssa.Value(rc.Call) {
			return
		}
		if isNilConst(ret.Results[0]) && !reachableFrom(rc.Call, ret) {
			return // left before the inner call was made: nothing to hand on
		}
		if u, isU := ret.Results[0].(*ssa.UnOp); isU {
			if a, isA := u.X.(*ssa.Alloc); isA {
				if s := lastStoreBefore(a, u); s != nil && (s.Val == ssa.Value(rc.Call) || (isNilConst(s.Val) && !reachableFrom(rc.Call, s))) {
					return
				}
			}
		}
		ok = false
	})
	if ok && n > 0 {
		return rc.Via
	}
	return nil
}

// ---------------------------------------------------------------- returns fed by one exit (named results, `err`
// assigned on the way and returned once)

// retClassFrom: the function is left along the edge b -> b.Succs[si]; what is the error it returns (its last result)
// on the paths from there to a return? "nil" / "nonnil" when that holds on every such path, else "unknown".
// The result value is followed per path: through the phi of the return block (the value the path carries into it),
// or, for a named result kept in a local slot, through the last store to the slot on the path; a value is judged by
// nilness at the point it was produced, refined by the nil tests passed on the path (the edge itself included).
func retClassFrom(b *ssa.BasicBlock, si int) string {
	f := b.Parent()
	type fact struct {
		v      ssa.Value
		nonnil bool
	}
	var facts []fact
	addFact := func(v ssa.Value, nonnil bool) {
		facts = append(facts, fact{v, nonnil})
		// a test of a load of a local slot is a test of the value last stored there
		if ld, ok := v.(*ssa.UnOp); ok && ld.Op == token.MUL {
			if a, ok := ld.X.(*ssa.Alloc); ok {
				if s := lastStoreBefore(a, ld); s != nil {
					facts = append(facts, fact{s.Val, nonnil})
				}
			}
		}
	}
	addEdgeFact := func(pb *ssa.BasicBlock, idx int) {
		iff, ok := pb.Instrs[len(pb.Instrs)-1].(*ssa.If)
		if !ok {
			return
		}
		bo, ok := iff.Cond.(*ssa.BinOp)
		if !ok || !isNilConst(bo.Y) || (bo.Op != token.EQL && bo.Op != token.NEQ) {
			return
		}
		nonnil := (bo.Op == token.NEQ) == (idx == 0)
		addFact(bo.X, nonnil)
	}
	for _, ec := range controlling(b) {
		if bo, ok := ec.Cond.(*ssa.BinOp); ok && isNilConst(bo.Y) && (bo.Op == token.EQL || bo.Op == token.NEQ) {
			addFact(bo.X, (bo.Op == token.NEQ) == ec.Pol)
		}
	}
	addEdgeFact(b, si)
	judge := func(v ssa.Value, at *ssa.BasicBlock) string {
		for i := 0; i < 4; i++ {
			for _, fc := range facts {
				if fc.v == v {
					if fc.nonnil {
						return "nonnil"
					}
					return "nil"
				}
			}
			// a load of the result slot stands for the value last stored there
			if ld, ok := v.(*ssa.UnOp); ok && ld.Op == token.MUL {
				if a, ok := ld.X.(*ssa.Alloc); ok {
					// a test of another load of the same slot with no store in between is a fact about this one
					for _, fc := range facts {
						if l2, ok := fc.v.(*ssa.UnOp); ok && l2.Op == token.MUL && l2.X == ssa.Value(a) && lastStoreBefore(a, l2) == lastStoreBefore(a, ld) && lastStoreBefore(a, ld) != nil {
							if fc.nonnil {
								return "nonnil"
							}
							return "nil"
						}
					}
					if s := lastStoreBefore(a, ld); s != nil {
						v = s.Val
						continue
					}
				}
			}
			break
		}
		n := nilness(v, at, 0)
		if n == "nil" || n == "nonnil" {
			return n
		}
		return "unknown"
	}
	res := ""
	merge := func(c string) {
		switch {
		case res == "":
			res = c
		case res != c:
			res = "unknown"
		}
	}
	// the named-result slot, if the function returns through one
	var slot *ssa.Alloc
	for _, fb := range f.Blocks {
		if ret, ok := fb.Instrs[len(fb.Instrs)-1].(*ssa.Return); ok && len(ret.Results) > 0 {
			if ld, ok := ret.Results[len(ret.Results)-1].(*ssa.UnOp); ok && ld.Op == token.MUL {
				if a, ok := ld.X.(*ssa.Alloc); ok {
					slot = a
				}
			}
		}
	}
	type item struct {
		blk   *ssa.BasicBlock
		from  *ssa.BasicBlock
		carry ssa.Value // value of the slot on this path (nil: not written on the path so far)
	}
	var startCarry ssa.Value
	startClass := "" // what a forward dataflow knows about the slot when the edge is taken and no store is in sight
	if slot != nil {
		// the value the slot holds when the edge is taken
		last := b.Instrs[len(b.Instrs)-1]
		if s := lastStoreBefore(slot, last); s != nil {
			startCarry = s.Val
		} else {
			startClass = slotClassOnEdge(slot, b, si)
		}
	}
	seen := map[*ssa.BasicBlock]int{}
	work := []item{{b.Succs[si], b, startCarry}}
	steps := 0
	for len(work) > 0 && res != "unknown" {
		it := work[len(work)-1]
		work = work[:len(work)-1]
		steps++
		if seen[it.blk] > 1 || steps > 400 {
			merge("unknown")
			continue
		}
		seen[it.blk]++
		carry := it.carry
		for _, in := range it.blk.Instrs {
			if s, ok := in.(*ssa.Store); ok && slot != nil && s.Addr == ssa.Value(slot) {
				if ld, isL := s.Val.(*ssa.UnOp); isL && ld.Op == token.MUL && ld.X == ssa.Value(slot) {
					continue // `return err` with a named result stores the slot back into itself
				}
				carry = s.Val
			}
		}
		last := it.blk.Instrs[len(it.blk.Instrs)-1]
		if ret, ok := last.(*ssa.Return); ok {
			if len(ret.Results) == 0 {
				merge("nil")
				continue
			}
			rv := ret.Results[len(ret.Results)-1]
			if ph, isP := rv.(*ssa.Phi); isP && ph.Block() == it.blk {
				for i, p := range it.blk.Preds {
					if p == it.from {
						rv = ph.Edges[i]
					}
				}
			} else if ld, isL := rv.(*ssa.UnOp); isL && ld.Op == token.MUL && slot != nil && ld.X == ssa.Value(slot) {
				if carry != nil {
					rv = carry
				} else if startClass != "" {
					merge(startClass)
					continue
				}
			}
			merge(judge(rv, it.blk))
			continue
		}
		for _, sc := range it.blk.Succs {
			work = append(work, item{sc, it.blk, carry})
		}
	}
	if res == "" {
		return "unknown"
	}
	return res
}

var errEdgeMemo = map[*ssa.BasicBlock][2]int8{}

// errorEdge: leaving b by its successor si the function can only return a non-nil error (an `if err != nil` arm
// that breaks out to a single exit returning err). Dataflows over the success paths do not follow such edges.
func errorEdge(b *ssa.BasicBlock, si int) bool {
	if si > 1 {
		return false
	}
	iff, ok := b.Instrs[len(b.Instrs)-1].(*ssa.If)
	if !ok {
		return false
	}
	bo, ok := iff.Cond.(*ssa.BinOp)
	if !ok || !isNilConst(bo.Y) || (bo.Op != token.EQL && bo.Op != token.NEQ) {
		return false
	}
	sig := b.Parent().Signature.Results()
	if sig.Len() == 0 {
		return false
	}
	lt := sig.At(sig.Len() - 1).Type().String()
	if !strings.HasSuffix(lt, "errchain.PlError") && lt != "error" {
		return false
	}
	m := errEdgeMemo[b]
	if m[si] == 0 {
		m[si] = -1
		cls := retClassFrom(b, si)
		if cls == "nonnil" {
			m[si] = 1
		}
		if os.Getenv("PLVERIF_DEBUG") == "erredge" {
			fmt.Fprintf(os.Stderr, "ERREDGE %s block %d succ %d (%s): %s\n", b.Parent().Name(), b.Index, si, iff.Cond, cls)
		}
		errEdgeMemo[b] = m
	}
	return m[si] == 1
}

// slotClassOnEdge: a forward dataflow over the function for one local slot of pointer/interface type (a named error
// result): on every path reaching the edge b -> succ si, is the slot nil, non-nil, or either? The slot starts nil;
// a store sets it to the nilness of the stored value; a nil test of a load of the slot refines it on both arms.
func slotClassOnEdge(slot *ssa.Alloc, b *ssa.BasicBlock, si int) string {
	f := b.Parent()
	isSlotLoad := func(v ssa.Value) bool {
		ld, ok := v.(*ssa.UnOp)
		return ok && ld.Op == token.MUL && ld.X == ssa.Value(slot)
	}
	ts := &typestate{fn: f, nstate: 3, init: 0} // 0 nil, 1 non-nil, 2 unknown
	ts.trans = func(in ssa.Instruction, st int) int {
		s, ok := in.(*ssa.Store)
		if !ok || s.Addr != ssa.Value(slot) {
			if _, isCall := in.(*ssa.Call); isCall && slotEscapes(slot) {
				return 2
			}
			return st
		}
		if isSlotLoad(s.Val) {
			return st
		}
		switch nilness(s.Val, s.Block(), 0) {
		case "nil":
			return 0
		case "nonnil":
			return 1
		}
		return 2
	}
	ts.edge = func(eb *ssa.BasicBlock, esi int, st int) int {
		iff, ok := eb.Instrs[len(eb.Instrs)-1].(*ssa.If)
		if !ok {
			return st
		}
		bo, ok := iff.Cond.(*ssa.BinOp)
		if !ok || !isNilConst(bo.Y) || (bo.Op != token.EQL && bo.Op != token.NEQ) || !isSlotLoad(bo.X) {
			return st
		}
		// the load must see the slot as it is at the end of the block: no store between it and the branch
		ld := bo.X.(*ssa.UnOp)
		after := false
		for _, in := range eb.Instrs {
			if in == ssa.Instruction(ld) {
				after = true
				continue
			}
			if s, isS := in.(*ssa.Store); isS && after && s.Addr == ssa.Value(slot) {
				return st
			}
		}
		if ld.Block() != eb {
			return st
		}
		nonnil := (bo.Op == token.NEQ) == (esi == 0)
		if nonnil {
			if st == 0 {
				return -1
			}
			return 1
		}
		if st == 1 {
			return -1
		}
		return 0
	}
	before := ts.run()
	last := b.Instrs[len(b.Instrs)-1]
	var out uint16
	for st := 0; st < 3; st++ {
		if before[last]&(1<<uint(st)) == 0 {
			continue
		}
		n := ts.trans(last, st)
		if n = ts.edge(b, si, n); n >= 0 {
			out |= 1 << uint(n)
		}
	}
	switch out {
	case 1:
		return "nil"
	case 2:
		return "nonnil"
	}
	return ""
}

// slotEscapes: the slot's address is handed to something other than loads and stores (a closure, a callee).
func slotEscapes(slot *ssa.Alloc) bool {
	if slot.Referrers() == nil {
		return false
	}
	for _, r := range *slot.Referrers() {
		switch x := r.(type) {
		case *ssa.UnOp, *ssa.DebugRef:
		case *ssa.Store:
			if x.Addr != ssa.Value(slot) {
				return true
			}
		default:
			return true
		}
	}
	return false
}
