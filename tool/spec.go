package main

import (
	"fmt"
	"go/constant"
	"go/token"
	"go/types"
	"os"
	"sort"
	"strings"

	"golang.org/x/tools/go/ssa"
)

// ------------------------------------------------------------------ spec: conditional constant propagation by
// bounded path enumeration. A function is specialised for constant bindings of parameters, access paths, call
// results and dynamic types; every branch whose condition folds is pruned; in-module callees are inlined
// (depth-bounded); the result is, per feasible return, the normalised expression of each result value.

type sval struct {
	c    constant.Value // constant (non-nil) …
	nil  bool           // … or the nil constant
	sym  string         // … or a symbolic expression
	tup  []sval         // … or a tuple
	dyn  types.Type     // known dynamic type of an interface value (optional)
	ptr  bool           // the value stands for the address of a local holding it (&v): non-nil; loading through it yields the value
	fn   *ssa.Function  // a function value (a named function, or a closure with its captured values in free)
	free []sval
}

func (v sval) isConst() bool { return v.c != nil }

func (v sval) String() string {
	switch {
	case v.tup != nil:
		var s []string
		for _, e := range v.tup {
			s = append(s, e.String())
		}
		return "(" + strings.Join(s, ", ") + ")"
	case v.c != nil:
		return v.c.ExactString()
	case v.nil:
		return "nil"
	}
	return v.sym
}

func symv(s string) sval           { return sval{sym: s} }
func constv(c constant.Value) sval { return sval{c: c} }

type specOutcome struct {
	Vals []sval
	Cond []string // symbolic branch conditions taken on the way (not folded)
}

type specCfg struct {
	// Path bindings: access path (as rendered by path()) -> value.
	Paths map[string]sval
	// Call bindings: decide the result of a call (static callee name, ordinal of that callee in the function).
	Call func(fn *ssa.Function, call *ssa.Call, nth int, args []sval) (sval, bool)
	// DynCall decides the result of a call through a function value that the evaluation could not resolve.
	DynCall func(fn *ssa.Function, call *ssa.Call, callee sval, args []sval) (sval, bool)
	// Dynamic types of symbolic interface values, keyed by their symbolic name.
	Dyn map[string]types.Type
	// Index bindings: value of x[k] for symbolic x (keyed "x[k]").
	MaxDepth  int
	MaxVisits int
	MaxLoop   int // how often one block may be re-entered on a path (default 2)
	// StoreEffects: record stores through fields of non-local objects as effects "store <path> := <value>".
	StoreEffects bool
	// Consistent: a symbolic condition met twice on one path is decided the same way both times. Sound only when every
	// symbol stands for one value (hooks name values by what they denote; no opaque impure calls among the conditions).
	Consistent bool
	MaxAlts    int // how many distinct outcomes of an inlined callee are forked on (default 8); beyond, the call stays symbolic
	Inline     func(f *ssa.Function) bool
}

type specRun struct {
	cfg       *specCfg
	ptrStores map[string]sval // values stored through caller-made field pointers (path-insensitive: last store wins; used for read-after-write inside one helper)
	visits    int
	abort     string
}

func (cfg *specCfg) run(fn *ssa.Function, args []sval) ([]specOutcome, string) {
	sr := &specRun{cfg: cfg}
	if cfg.MaxDepth == 0 {
		cfg.MaxDepth = 3
	}
	if cfg.MaxVisits == 0 {
		cfg.MaxVisits = 60000
	}
	outs := sr.fn(fn, args, 0)
	// dedupe
	seen := map[string]bool{}
	var res []specOutcome
	for _, o := range outs {
		k := fmt.Sprint(o.Vals, o.Cond)
		if !seen[k] {
			seen[k] = true
			res = append(res, o)
		}
	}
	return res, sr.abort
}

func (sr *specRun) fn(fn *ssa.Function, args []sval, depth int) []specOutcome {
	return sr.fnFree(fn, args, nil, depth)
}

func (sr *specRun) fnFree(fn *ssa.Function, args []sval, free []sval, depth int) []specOutcome {
	if len(fn.Blocks) == 0 {
		return nil
	}
	env := map[ssa.Value]sval{}
	for i, fv := range fn.FreeVars {
		if i < len(free) {
			env[fv] = free[i]
		}
	}
	for i, p := range fn.Params {
		if i < len(args) {
			env[p] = args[i]
		} else {
			env[p] = symv(pname(p))
		}
	}
	var outs []specOutcome
	callCount := map[*ssa.Function]int{}
	var exploreFrom func(b, pred *ssa.BasicBlock, i0 int, env map[ssa.Value]sval, conds []string, onPath map[*ssa.BasicBlock]int, calls map[*ssa.Function]int)
	explore := func(b, pred *ssa.BasicBlock, env map[ssa.Value]sval, conds []string, onPath map[*ssa.BasicBlock]int, calls map[*ssa.Function]int) {
		sr.visits++
		if sr.visits > sr.cfg.MaxVisits {
			sr.abort = "path explosion in " + fn.Name()
			return
		}
		maxLoop := sr.cfg.MaxLoop
		if maxLoop == 0 {
			maxLoop = 2
		}
		if onPath[b] >= maxLoop {
			outs = append(outs, specOutcome{Vals: []sval{symv("…loop")}, Cond: conds})
			return
		}
		onPath[b]++
		exploreFrom(b, pred, 0, env, conds, onPath, calls)
		onPath[b]--
	}
	exploreFrom = func(b, pred *ssa.BasicBlock, i0 int, env map[ssa.Value]sval, conds []string, onPath map[*ssa.BasicBlock]int, calls map[*ssa.Function]int) {
		if sr.abort != "" {
			return
		}
		get := func(v ssa.Value) sval {
			switch c := v.(type) {
			case *ssa.Const:
				if c.Value == nil {
					return sval{nil: true}
				}
				return constv(c.Value)
			case *ssa.Global:
				return symv(c.Pkg.Pkg.Name() + "." + c.Name())
			case *ssa.Function:
				return sval{sym: c.Name(), fn: c}
			case *ssa.FieldAddr:
				if _, has := env[v]; !has {
					return sval{sym: "&" + path(c), ptr: true} // the address of a field is never nil
				}
			}
			if x, ok := env[v]; ok {
				if _, isAlloc := v.(*ssa.Alloc); isAlloc && x.tup == nil {
					x.ptr = true
				}
				return x
			}
			if _, isAlloc := v.(*ssa.Alloc); isAlloc {
				return symv("&local")
			}
			return symv(v.Name() + "?")
		}
		for ii := i0; ii < len(b.Instrs); ii++ {
			switch in := b.Instrs[ii].(type) {
			case *ssa.Phi:
				for i, p := range b.Preds {
					if p == pred {
						env[in] = get(in.Edges[i])
					}
				}
			case *ssa.BinOp:
				x, y := get(in.X), get(in.Y)
				// an interface value with a known dynamic type is not nil
				if (in.Op == token.EQL || in.Op == token.NEQ) && (x.nil != y.nil) {
					other := x
					if x.nil {
						other = y
					}
					if other.sym != "" && (other.dyn != nil || sr.cfg.Dyn[other.sym] != nil) {
						env[in] = constv(constant.MakeBool(in.Op == token.NEQ))
						break
					}
				}
				env[in] = foldBin(in.Op, x, y)
			case *ssa.UnOp:
				x := get(in.X)
				switch {
				case in.Op == token.NOT && x.isConst():
					env[in] = constv(constant.MakeBool(!constant.BoolVal(x.c)))
				case in.Op == token.SUB && x.isConst():
					env[in] = constv(constant.UnaryOp(token.SUB, x.c, 0))
				case in.Op == token.MUL && x.ptr && !isAddrInstr(in.X) && !strings.HasPrefix(x.sym, "&"):
					// load through a pointer to a tracked local
					x.ptr = false
					env[in] = x
				case in.Op == token.MUL && !isAddrInstr(in.X) && x.ptr && strings.HasPrefix(x.sym, "&") && derefPath(env, in.X, x) != "":
					// load through a pointer the caller made of a field of a non-local object (&lit.Val): the field —
					// unless this path has stored through the pointer already
					dp := derefPath(env, in.X, x)
					if v, ok := sr.ptrStores[dp]; ok {
						env[in] = v
					} else if bv, ok := sr.cfg.Paths[dp]; ok {
						env[in] = bv
					} else {
						env[in] = symv(dp)
					}
				case in.Op == token.MUL:
					// load: bound access path?
					p := path(in)
					if ia, isIA := in.X.(*ssa.IndexAddr); isIA {
						g, _ := ia.X.(*ssa.Global)
						if g == nil {
							g = globalOfLoad(ia.X)
						}
						if g != nil {
							if v, _, ok := roLookup(g, get(ia.Index)); ok {
								env[in] = v
								break
							}
						}
						if _, isC := ia.Index.(*ssa.Const); !isC {
							// element of a ranged slice
							env[in] = symv("elem(" + get(ia.X).String() + ")")
							break
						}
					}
					if bv, ok := sr.cfg.Paths[p]; ok {
						env[in] = bv
					} else if cv, ok := specLoad(env, in.X); ok {
						env[in] = cv // local variable / struct field / array element tracked through stores
					} else if z, ok := untouchedZero(env, in); ok {
						env[in] = z // a field of a local that no store on this path has reached yet: its zero value
					} else if ep, ok := envPath(env, in); ok {
						if bv, bound := sr.cfg.Paths[ep]; bound {
							env[in] = bv
						} else {
							env[in] = symv(ep)
						}
					} else {
						env[in] = symv(p)
					}
				default:
					env[in] = symv(in.Op.String() + x.String())
				}
			case *ssa.Store:
				specStore(env, in.Addr, get(in.Val))
				if !isAddrInstr(in.Addr) {
					if av := get(in.Addr); av.ptr && strings.HasPrefix(av.sym, "&") {
						// a store through a pointer to a field of a non-local object handed in by the caller
						dp := av.sym[1:]
						if sr.ptrStores == nil {
							sr.ptrStores = map[string]sval{}
						}
						sr.ptrStores[dp] = get(in.Val)
						if sr.cfg.StoreEffects {
							conds = append(append([]string{}, conds...), "effect:store "+dp+" := "+get(in.Val).String())
						}
					}
				}
				if sr.cfg.StoreEffects {
					// a store through a field of something that is not a tracked local: an effect on the heap
					if fa, isFA := in.Addr.(*ssa.FieldAddr); isFA {
						if _, tracked := specBase(env, fa.X); !tracked {
							ap, _ := envPath(env, in.Addr)
							conds = append(append([]string{}, conds...), "effect:store "+ap+" := "+get(in.Val).String())
						}
					}
				}
			case *ssa.Alloc, *ssa.FieldAddr, *ssa.IndexAddr:
				// addresses: resolved at the load
			case *ssa.Field:
				env[in] = symv(path(in))
				if bv, ok := sr.cfg.Paths[path(in)]; ok {
					env[in] = bv
					break
				}
				x := get(in.X)
				if prm, isP := in.X.(*ssa.Parameter); isP && x.tup == nil && x.sym != "" && !x.ptr && x.sym != pname(prm) && !strings.ContainsAny(x.sym, " (") {
					// a struct handed in by value under another name: the field of what the caller passed
					p2 := x.sym + "." + fieldNameV(in)
					if bv, ok := sr.cfg.Paths[p2]; ok {
						env[in] = bv
					} else {
						env[in] = symv(p2)
					}
				} else if x.tup != nil && in.Field < len(x.tup) {
					env[in] = x.tup[in.Field]
				} else if c, isC := in.X.(*ssa.Const); isC && c.Value == nil {
					// a field of the zero value of a struct
					if z, ok := zeroConst(in.Type()); ok {
						env[in] = z
					}
				} else if x.nil && x.tup == nil {
					if _, isStruct := in.X.Type().Underlying().(*types.Struct); isStruct {
						if z, ok := zeroConst(in.Type()); ok {
							env[in] = z
						}
					}
				}
			case *ssa.Call:
				var as []sval
				for _, a := range in.Call.Args {
					as = append(as, get(a))
				}
				var target *ssa.Function
				var free []sval
				if mc, isMC := in.Call.Value.(*ssa.MakeClosure); isMC {
					for _, b := range mc.Bindings {
						free = append(free, captured(b, get))
					}
				} else if in.Call.StaticCallee() == nil && !in.Call.IsInvoke() {
					if _, isB := in.Call.Value.(*ssa.Builtin); !isB {
						cv := get(in.Call.Value)
						if cv.fn != nil {
							target, free = cv.fn, cv.free
						} else if sr.cfg.DynCall != nil {
							if dv, ok := sr.cfg.DynCall(fn, in, cv, as); ok {
								env[in] = dv
								if strings.HasPrefix(dv.sym, "effect:") {
									conds = append(append([]string{}, conds...), dv.sym)
								}
								continue
							}
						}
					}
				}
				alts := sr.call(fn, in, as, depth, calls, target, free)
				if len(alts) == 1 {
					env[in] = alts[0].val
					conds = append(append([]string{}, conds...), alts[0].conds...)
					if strings.HasPrefix(alts[0].val.sym, "effect:") {
						conds = append(conds, alts[0].val.sym)
					}
					break
				}
				// the inlined callee has several outcomes: fork this path once per outcome
				for _, alt := range alts {
					ne := make(map[ssa.Value]sval, len(env)+1)
					for k, v := range env {
						ne[k] = v
					}
					ne[in] = alt.val
					nc := map[*ssa.Function]int{}
					for k, v := range calls {
						nc[k] = v
					}
					exploreFrom(b, pred, ii+1, ne, append(append([]string{}, conds...), alt.conds...), onPath, nc)
				}
				return
			case *ssa.Index:
				x, idx := get(in.X), get(in.Index)
				key := x.String() + "[" + idx.String() + "]"
				if bv, ok := sr.cfg.Paths[key]; ok {
					env[in] = bv
				} else {
					env[in] = symv(key)
				}
			case *ssa.Lookup:
				x, idx := get(in.X), get(in.Index)
				key := x.String() + "[" + idx.String() + "]"
				if g := globalOfLoad(in.X); g != nil {
					if v, found, ok := roLookup(g, idx); ok {
						if in.CommaOk {
							env[in] = sval{tup: []sval{v, constv(constant.MakeBool(found))}}
						} else {
							env[in] = v
						}
						break
					}
				}
				if bv, ok := sr.cfg.Paths[key]; ok {
					env[in] = bv
				} else if in.CommaOk {
					env[in] = sval{tup: []sval{symv(key), symv("has(" + key + ")")}}
				} else {
					env[in] = symv(key)
				}
			case *ssa.Slice:
				if a, ok := in.X.(*ssa.Alloc); ok && in.Low == nil && in.High == nil {
					if tv, ok := env[a]; ok && tv.tup != nil {
						env[in] = tv
						break
					}
				}
				env[in] = symv(get(in.X).String() + "[:]")
			case *ssa.Extract:
				tv := get(in.Tuple)
				if tv.tup != nil && in.Index < len(tv.tup) {
					env[in] = tv.tup[in.Index]
				} else {
					env[in] = symv(fmt.Sprintf("%s#%d", tv, in.Index))
				}
			case *ssa.MakeInterface:
				x := get(in.X)
				x.dyn = in.X.Type()
				if x.sym != "" {
					x.sym = "(" + typeShort(in.X.Type()) + ")(" + x.sym + ")"
				} else if x.c != nil {
					x = sval{sym: "(" + typeShort(in.X.Type()) + ")(" + x.c.ExactString() + ")", dyn: in.X.Type()}
				}
				env[in] = x
			case *ssa.ChangeType:
				env[in] = get(in.X)
			case *ssa.ChangeInterface:
				env[in] = get(in.X)
			case *ssa.Convert:
				x := get(in.X)
				if x.isConst() {
					env[in] = x
				} else {
					env[in] = symv(typeShort(in.Type()) + "(" + x.String() + ")")
				}
			case *ssa.TypeAssert:
				x := get(in.X)
				dt := x.dyn
				if dt == nil && x.sym != "" {
					dt = sr.cfg.Dyn[x.sym]
				}
				if x.nil {
					// nil interface: assertion fails
					if in.CommaOk {
						env[in] = sval{tup: []sval{symv("zero"), constv(constant.MakeBool(false))}}
					} else {
						env[in] = symv("PANIC(type assertion on nil)")
					}
					break
				}
				if dt != nil {
					ok := types.Identical(dt, in.AssertedType)
					if _, isIface := in.AssertedType.Underlying().(*types.Interface); isIface {
						ok = types.Implements(dt, in.AssertedType.Underlying().(*types.Interface))
					}
					val := symv(x.String() + ".(" + typeShort(in.AssertedType) + ")")
					if in.CommaOk {
						env[in] = sval{tup: []sval{val, constv(constant.MakeBool(ok))}}
					} else if ok {
						env[in] = val
					} else {
						env[in] = symv("PANIC(type assertion " + typeShort(dt) + " is not " + typeShort(in.AssertedType) + ")")
					}
					break
				}
				val := symv(x.String() + ".(" + typeShort(in.AssertedType) + ")")
				if in.CommaOk {
					env[in] = sval{tup: []sval{val, symv("is(" + x.String() + "," + typeShort(in.AssertedType) + ")")}}
				} else {
					env[in] = val
				}
			case *ssa.MakeClosure:
				cf, _ := in.Fn.(*ssa.Function)
				cv := sval{sym: "closure", fn: cf}
				if cf != nil {
					cv.sym = cf.Name()
				}
				for _, b := range in.Bindings {
					cv.free = append(cv.free, captured(b, get))
				}
				env[in] = cv
			case *ssa.MakeSlice, *ssa.MakeMap, *ssa.Range, *ssa.Next:
				env[in.(ssa.Value)] = symv(strings.TrimPrefix(fmt.Sprintf("%T", in), "*ssa."))
			case *ssa.If:
				cv := get(in.Cond)
				if cv.isConst() {
					i := 1
					if constant.BoolVal(cv.c) {
						i = 0
					}
					explore(b.Succs[i], b, env, conds, onPath, calls)
				} else {
					only := -1
					if sr.cfg.Consistent {
						// the same symbolic condition was decided earlier on this path: stay consistent with it
						lit := canonLit(cv.String())
						for _, c := range conds {
							if strings.HasPrefix(c, "effect:") {
								continue
							}
							switch canonLit(c) {
							case lit:
								only = 0
							case negLit(lit):
								only = 1
							}
						}
					}
					for i := 0; i < 2; i++ {
						if only >= 0 && i != only {
							continue
						}
						ne := make(map[ssa.Value]sval, len(env))
						for k, v := range env {
							ne[k] = v
						}
						nc := map[*ssa.Function]int{}
						for k, v := range calls {
							nc[k] = v
						}
						cs := cv.String()
						if i == 1 {
							cs = "!(" + cs + ")"
						}
						explore(b.Succs[i], b, ne, append(append([]string{}, conds...), cs), onPath, nc)
					}
				}
				return
			case *ssa.Jump:
				explore(b.Succs[0], b, env, conds, onPath, calls)
				return
			case *ssa.Return:
				o := specOutcome{Cond: conds}
				for _, rv := range in.Results {
					o.Vals = append(o.Vals, get(rv))
				}
				outs = append(outs, o)
				return
			case *ssa.Panic:
				outs = append(outs, specOutcome{Vals: []sval{symv("PANIC(" + get(in.X).String() + ")")}, Cond: conds})
				return
			case *ssa.RunDefers, *ssa.Defer, *ssa.DebugRef, *ssa.MapUpdate, *ssa.Go, *ssa.Send:
			default:
				if v, ok := in.(ssa.Value); ok {
					env[v] = symv(strings.TrimPrefix(fmt.Sprintf("%T", in), "*ssa."))
				}
			}
		}
	}
	explore(fn.Blocks[0], nil, env, nil, map[*ssa.BasicBlock]int{}, callCount)
	return outs
}

type callAlt struct {
	val   sval
	conds []string
}

func one(v sval) []callAlt { return []callAlt{{val: v}} }

func (sr *specRun) call(fn *ssa.Function, in *ssa.Call, as []sval, depth int, calls map[*ssa.Function]int, target *ssa.Function, free []sval) []callAlt {
	callee := in.Call.StaticCallee()
	if callee == nil {
		callee = target // a function value resolved by the evaluation (constant table of functions, local closure)
	}
	name := "dyn"
	if b, ok := in.Call.Value.(*ssa.Builtin); ok {
		name = b.Name()
		if name == "len" && len(as) == 1 {
			if as[0].isConst() && as[0].c.Kind() == constant.String {
				return one(constv(constant.MakeInt64(int64(len(constant.StringVal(as[0].c))))))
			}
			if v, ok := sr.cfg.Paths["len("+as[0].String()+")"]; ok { // a length the caller fixed
				return one(v)
			}
		}
	}
	if callee != nil {
		name = callee.Name()
		if callee.Pkg != nil && callee.Pkg != fn.Pkg {
			name = callee.Pkg.Pkg.Name() + "." + name
		} else if callee.Pkg == nil && callee.Object() != nil && callee.Object().Pkg() != nil {
			name = callee.Object().Pkg().Name() + "." + name
		}
		calls[callee]++
		if sr.cfg.Call != nil {
			if v, ok := sr.cfg.Call(fn, in, calls[callee], as); ok {
				return one(v)
			}
		}
		inl := inModule(callee) && depth < sr.cfg.MaxDepth
		if inl && sr.cfg.Inline != nil {
			inl = sr.cfg.Inline(callee)
		}
		if inl {
			sub := sr.fnFree(callee, as, free, depth+1)
			// a unique outcome is substituted; otherwise the call stays symbolic but error-ness may still be decided
			uniq := map[string]specOutcome{}
			var order []string
			for _, o := range sub {
				k := fmt.Sprint(o.Vals, effectsOf(o.Cond))
				if _, ok := uniq[k]; !ok {
					order = append(order, k)
				}
				uniq[k] = o
			}
			maxAlts := sr.cfg.MaxAlts
			if maxAlts == 0 {
				maxAlts = 8
			}
			if os.Getenv("PLVERIF_DEBUG") == "inline" {
				fmt.Fprintln(os.Stderr, "INLINE", callee.Name(), "outcomes", len(sub), "distinct", len(uniq), "abort", sr.abort)
			}
			if len(uniq) >= 1 && len(uniq) <= maxAlts {
				var alts []callAlt
				for _, k := range order {
					o := uniq[k]
					v := sval{tup: o.Vals}
					if len(o.Vals) == 1 {
						v = o.Vals[0]
					}
					cs := o.Cond
					if len(uniq) == 1 {
						cs = effectsOf(o.Cond)
					}
					alts = append(alts, callAlt{val: v, conds: cs})
				}
				return alts
			}
		}
	} else if in.Call.IsInvoke() {
		name = in.Call.Method.Name()
		as = append([]sval{symv(path(in.Call.Value))}, as...)
	}
	var ss []string
	for _, a := range as {
		ss = append(ss, a.String())
	}
	return one(symv(name + "(" + strings.Join(ss, ", ") + ")"))
}

func foldBin(op token.Token, x, y sval) sval {
	if x.isConst() && y.isConst() {
		switch op {
		case token.EQL, token.NEQ, token.LSS, token.LEQ, token.GTR, token.GEQ:
			return constv(constant.MakeBool(constant.Compare(x.c, op, y.c)))
		case token.SHL, token.SHR:
			sh, _ := constant.Uint64Val(y.c)
			return constv(constant.Shift(x.c, op, uint(sh)))
		case token.QUO:
			if x.c.Kind() == constant.Int && y.c.Kind() == constant.Int {
				if constant.Sign(y.c) == 0 {
					return symv("PANIC(division by zero)")
				}
				return constv(constant.BinaryOp(x.c, token.QUO_ASSIGN, y.c))
			}
		case token.LAND, token.LOR:
		}
		return constv(constant.BinaryOp(x.c, op, y.c))
	}
	// nil comparisons
	if (op == token.EQL || op == token.NEQ) && (x.nil || y.nil) {
		other := y
		if y.nil {
			other = x
		}
		if other.nil {
			return constv(constant.MakeBool(op == token.EQL))
		}
		if other.ptr {
			return constv(constant.MakeBool(op == token.NEQ)) // the address of a local is never nil
		}
		if other.isConst() || strings.HasPrefix(other.sym, "err:") || strings.HasPrefix(other.sym, "(") && other.dyn != nil {
			return constv(constant.MakeBool(op == token.NEQ))
		}
	}
	return symv(fmt.Sprintf("(%s %s %s)", x, op, y))
}

func typeShort(t types.Type) string {
	return strings.ReplaceAll(types.TypeString(t, func(p *types.Package) string { return p.Name() }), "interface{}", "any")
}

// errValue: helper for Call hooks — constructor-like error calls yield a recognisable non-nil error.
func errValue(what string) sval { return symv("err:" + what) }

// isErr reports whether an outcome value is a definite error / definitely nil / unknown.
func errClass(v sval) string {
	switch {
	case v.nil:
		return "nil"
	case strings.HasPrefix(v.sym, "err:"):
		return "error"
	}
	return "?" + v.String()
}

// stdErrCall: default Call hook recognising the error constructors used across the module.
func stdErrCall(fn *ssa.Function, call *ssa.Call, nth int, args []sval) (sval, bool) {
	f := call.Call.StaticCallee()
	if f == nil {
		return sval{}, false
	}
	switch f.Name() {
	case "NewRunError", "NewErr":
		return errValue(f.Name()), true
	case "Errorf":
		if len(args) > 0 && args[0].isConst() {
			return errValue("Errorf " + constant.StringVal(args[0].c)), true
		}
		return errValue("Errorf"), true
	case "New":
		if f.Object() != nil && f.Object().Pkg() != nil && f.Object().Pkg().Path() == "errors" {
			return errValue("errors.New"), true
		}
	case "Sprintf", "Error", "String":
		return symv("text"), true
	}
	return sval{}, false
}

func outcomeSet(outs []specOutcome, render func(o specOutcome) string) string {
	set := map[string]bool{}
	for _, o := range outs {
		set[render(o)] = true
	}
	var ks []string
	for k := range set {
		ks = append(ks, k)
	}
	sort.Strings(ks)
	return strings.Join(ks, " | ")
}

// specStore / specLoad track local aggregates (struct literals, varargs arrays) as tuples in the environment;
// a pointer to a local aggregate and the aggregate itself share one entry.
func specStore(env map[ssa.Value]sval, addr ssa.Value, val sval) {
	switch a := addr.(type) {
	case *ssa.Alloc:
		env[a] = val
	case *ssa.FieldAddr:
		base, ok := specBase(env, a.X)
		if !ok {
			return
		}
		n := 0
		if st := structOfPtr(a.X.Type()); st != nil {
			n = st.NumFields()
		}
		tv := env[base]
		if tv.tup == nil {
			tv = sval{tup: make([]sval, n)}
			st := structOfPtr(a.X.Type())
			for i := range tv.tup {
				tv.tup[i] = symv("zero")
				if st != nil && i < st.NumFields() {
					// a field the literal leaves out holds its type's zero value
					if z, ok := zeroConst(st.Field(i).Type()); ok {
						tv.tup[i] = z
					}
				}
			}
		} else {
			tv = sval{tup: append([]sval{}, tv.tup...)}
		}
		if a.Field < len(tv.tup) {
			tv.tup[a.Field] = val
		}
		env[base] = tv
	case *ssa.IndexAddr:
		base, ok := specBase(env, a.X)
		k, isC := constInt(a.Index)
		if !ok || !isC {
			return
		}
		tv := env[base]
		nt := append([]sval{}, tv.tup...)
		for int64(len(nt)) <= k {
			nt = append(nt, symv("zero"))
		}
		nt[k] = val
		env[base] = sval{tup: nt}
	}
}

func specBase(env map[ssa.Value]sval, v ssa.Value) (ssa.Value, bool) {
	switch x := v.(type) {
	case *ssa.Alloc:
		return x, true
	case *ssa.Parameter:
		if tv, ok := env[x]; ok && tv.tup != nil {
			return x, true
		}
	}
	return nil, false
}

func specLoad(env map[ssa.Value]sval, addr ssa.Value) (sval, bool) {
	switch a := addr.(type) {
	case *ssa.Alloc:
		v, ok := env[a]
		return v, ok
	case *ssa.FreeVar: // a variable captured by reference: the value it had when the closure was made (assigned once)
		if v, ok := env[a]; ok && v.sym != "&local" {
			return v, true
		}
	case *ssa.FieldAddr:
		if base, ok := specBase(env, a.X); ok {
			if tv, ok := env[base]; ok && tv.tup != nil && a.Field < len(tv.tup) {
				return tv.tup[a.Field], true
			}
		}
	case *ssa.IndexAddr:
		if base, ok := specBase(env, a.X); ok {
			if k, isC := constInt(a.Index); isC {
				if tv, ok := env[base]; ok && tv.tup != nil && k < int64(len(tv.tup)) {
					return tv.tup[k], true
				}
			}
		}
	}
	return sval{}, false
}

func effectsOf(conds []string) []string {
	var out []string
	for _, c := range conds {
		if strings.HasPrefix(c, "effect:") {
			out = append(out, c)
		}
	}
	return out
}

// envPath renders the access path of v like path(), but names its root after what the environment binds it to: a
// parameter of an inlined callee is named by the caller's argument, a field of a tracked local aggregate by the
// value stored there. ok reports whether any such substitution happened.
func envPath(env map[ssa.Value]sval, v ssa.Value) (string, bool) {
	plain := func(x sval) bool {
		return x.sym != "" && x.tup == nil && x.c == nil && !x.nil && x.sym != "zero" && x.sym != "&local" && !strings.HasSuffix(x.sym, "?") && !strings.HasPrefix(x.sym, "effect:")
	}
	switch x := v.(type) {
	case *ssa.Parameter:
		if b, ok := env[x]; ok && plain(b) && b.sym != x.Name() {
			return b.sym, true
		}
		return x.Name(), false
	case *ssa.UnOp:
		if x.Op != token.MUL {
			return path(v), false
		}
		if b, ok := specLoad(env, x.X); ok && plain(b) {
			return b.sym, true
		}
		return envPath(env, x.X)
	case *ssa.Alloc:
		// a local that holds what the caller passed by value (a spilled struct parameter)
		if b, ok := specLoad(env, x); ok && plain(b) && !b.ptr && !strings.ContainsAny(b.sym, " (") {
			return b.sym, true
		}
	case *ssa.FieldAddr:
		s, ok := envPath(env, x.X)
		return s + "." + fieldName(x), ok
	case *ssa.Field:
		s, ok := envPath(env, x.X)
		return s + "." + fieldNameV(x), ok
	case *ssa.Call:
		if c := x.Call.StaticCallee(); c != nil && len(x.Call.Args) == 1 && c.Signature.Recv() != nil {
			s, ok := envPath(env, x.Call.Args[0])
			return s + "." + c.Name() + "()", ok
		}
	}
	return path(v), false
}

// captured: the value a closure sees for one binding. A variable captured by reference is bound to its value only if
// it is assigned exactly once in the enclosing function (so the value at closure creation is the value at every call).
func captured(b ssa.Value, get func(ssa.Value) sval) sval {
	if al, ok := b.(*ssa.Alloc); ok {
		stores := 0
		if refs := al.Referrers(); refs != nil {
			for _, r := range *refs {
				switch x := r.(type) {
				case *ssa.Store:
					if x.Addr == ssa.Value(al) {
						stores++
					} else {
						stores += 2
					}
				case *ssa.UnOp, *ssa.MakeClosure, *ssa.DebugRef:
				default:
					stores += 2 // address handed on: may be written elsewhere
				}
			}
		}
		if stores != 1 {
			return symv("&local")
		}
	}
	return get(b)
}

// untouchedZero: the load reads a field of a local struct variable that never leaves the function (only field
// accesses, whole stores and loads refer to it) and that no store on the current path has written: Go's zero value.
func untouchedZero(env map[ssa.Value]sval, ld *ssa.UnOp) (sval, bool) {
	fa, ok := ld.X.(*ssa.FieldAddr)
	if !ok {
		return sval{}, false
	}
	al, ok := fa.X.(*ssa.Alloc)
	if !ok || al.Referrers() == nil {
		return sval{}, false
	}
	if _, has := env[al]; has {
		return sval{}, false
	}
	for _, r := range *al.Referrers() {
		switch x := r.(type) {
		case *ssa.FieldAddr, *ssa.UnOp, *ssa.DebugRef:
		case *ssa.Store:
			if x.Addr != ssa.Value(al) {
				return sval{}, false
			}
		default:
			return sval{}, false
		}
	}
	return zeroConst(ld.Type())
}

func isAddrInstr(v ssa.Value) bool {
	switch v.(type) {
	case *ssa.FieldAddr, *ssa.IndexAddr, *ssa.Alloc, *ssa.Global:
		return true
	}
	return false
}

// derefPath: x is the value of a pointer operand that stands for the address of a non-local field ("&a.b.c").
func derefPath(env map[ssa.Value]sval, ptr ssa.Value, x sval) string {
	if !x.ptr || !strings.HasPrefix(x.sym, "&") || len(x.sym) < 2 {
		return ""
	}
	return x.sym[1:]
}
