package main

import (
	"fmt"
	"go/token"
	"os"
	"strings"

	"golang.org/x/tools/go/ssa"
)

func init() {
	register("C10", "point key index: ownership of Fields/Tags/Meta, per-method coherence, type discipline", checkC10)
}

// c10 flag-state encoding: flag(0=unknown,1=field,2=tag) + 3*delFields + 6*delTags
func c10enc(flag int, delF, delT bool) int {
	st := flag
	if delF {
		st += 3
	}
	if delT {
		st += 6
	}
	return st
}
func c10dec(st int) (flag int, delF, delT bool) {
	return st % 3, (st/3)%2 == 1, st/6 == 1
}

func ptFlagConsts(t *Tree) (field, tag int64, ok bool) {
	pk := t.SSA[pInput]
	f, g := pk.Const("PtField"), pk.Const("PtTag")
	if f == nil || g == nil {
		return 0, 0, false
	}
	fv, _ := constInt(f.Value)
	gv, _ := constInt(g.Value)
	return fv, gv, true
}

func isPointMap(v ssa.Value, name string) bool {
	// v is the map value loaded from pt.<name>
	u, ok := v.(*ssa.UnOp)
	if !ok || u.Op != token.MUL {
		return false
	}
	fa, ok := u.X.(*ssa.FieldAddr)
	return ok && namedOf(fa.X.Type()) == "input.Point" && fieldName(fa) == name
}

func checkC10(c *Ctx) {
	r, t := c.R, c.T
	r.Explanation = "Decides the inductive invariant `Meta[k] exists with flag Field ⇔ k ∈ Fields, flag Tag ⇔ k ∈ Tags` method by method: (1) OWNERSHIP: Point.Fields, Point.Tags and Point.Meta are written (element update, delete, re-assignment) only by functions of package input that take the point as receiver or first parameter — every other package must go through those methods; (2) FLAG-DOMAIN: only the constants PtField and PtTag are ever stored to TFMeta.PtFlag (directly or as GetMeta's argument), which makes the flag two-valued; (3) COHERENCE, by a flag typestate over each Point method (state = known flag of Meta[key] × `Fields[key] deleted` × `Tags[key] deleted`, refined on branches `m.PtFlag == const`): an insertion into Fields[key] happens only in state Field and into Tags[key] only in state Tag; delete(Meta,key) is reached only after the entry was deleted from the map its flag names; a flip Field→Tag is accompanied on every path by delete(Fields,key) or the proven absence of the key; Get reads the map its flag names and returns the recorded type; InitPt records a Field entry for every initial field and a Tag entry for every initial tag; (4) TYPES: Set stores the raw value only for tags other than Nil/Void/Invalid/List/Map, stores the JSON text with type String for List/Map, and Tags only ever receives strings (by type). Not decided: reachability of states over arbitrary builtin sequences as such — the invariant is inductive and each method's preservation is what is checked."
	fieldC, tagC, ok := ptFlagConsts(t)
	if !ok {
		r.Undecided("ANCHOR", "input.PtField/PtTag", "pkg/inimpl/guancecloud/input/point.go", "constants not found")
		return
	}
	// ---- (1) ownership, module-wide
	nW := 0
	for _, pp := range sortedKeys(t.SSA) {
		for _, f := range t.PkgFuncs(pp) {
			for _, w := range writesOf(f) {
				if len(w.Through) == 0 {
					continue
				}
				last := w.Through[0]
				if last != "input.Point.Fields" && last != "input.Point.Tags" && last != "input.Point.Meta" {
					continue
				}
				nW++
				owner := pp == pInput && len(f.Params) > 0 && namedOf(f.Params[0].Type()) == "input.Point"
				r.Ob("OWNERSHIP", fmt.Sprintf("%s %s %s", relName(f), w.Kind, strings.TrimPrefix(last, "input.")), t.Pos(w.In.Pos()), owner,
					"the point's key maps may only be written by input.Point's own methods, which keep the key index (Meta) in step; a direct edit leaves Meta describing keys that moved or vanished (unreadable, undroppable, or both tag and field)")
			}
		}
	}
	r.FloorN("writes to Point.Fields/Tags/Meta", nW, 20)

	// ---- (2) flag domain
	nFlag := 0
	for _, pp := range sortedKeys(t.SSA) {
		for _, f := range t.PkgFuncs(pp) {
			allInstrs(f, func(in ssa.Instruction) {
				switch x := in.(type) {
				case *ssa.Store:
					fa, ok := x.Addr.(*ssa.FieldAddr)
					if !ok || namedOf(fa.X.Type()) != "input.TFMeta" || fieldName(fa) != "PtFlag" {
						return
					}
					if f.Name() == "GetMeta" {
						return // checked at its call sites
					}
					nFlag++
					v, isC := constInt(x.Val)
					r.Ob("FLAG-DOMAIN", fmt.Sprintf("%s stores PtFlag #%d", relName(f), ordinalOf(f, in)), t.Pos(x.Pos()), isC && (v == fieldC || v == tagC), "only PtField or PtTag may be recorded for a key")
				case *ssa.Call:
					if isCallTo(in, pInput, "GetMeta") {
						nFlag++
						v, isC := constInt(x.Call.Args[1])
						r.Ob("FLAG-DOMAIN", fmt.Sprintf("%s GetMeta #%d flag argument", relName(f), ordinalCall(f, x)), t.Pos(x.Pos()), isC && (v == fieldC || v == tagC), "only PtField or PtTag may be recorded for a key")
					}
				}
			})
		}
	}
	r.FloorN("PtFlag stores and GetMeta calls", nFlag, 5)

	// ---- (2b) a tag's index entry always has type String (Point.Get returns a tag with the recorded type and
	// reads Nil/Void entries as nil before it looks at the flag)
	strC, _ := constInt(t.SSA[pAst].Const("String").Value)
	nTy := 0
	for _, pp := range sortedKeys(t.SSA) {
		for _, f := range t.PkgFuncs(pp) {
			allInstrs(f, func(in ssa.Instruction) {
				switch x := in.(type) {
				case *ssa.Store:
					fa, ok := x.Addr.(*ssa.FieldAddr)
					if !ok || namedOf(fa.X.Type()) != "input.TFMeta" || fieldName(fa) != "DType" || f.Name() == "GetMeta" || f.Name() == "PutMeta" {
						return
					}
					nTy++
					v, isC := constInt(x.Val)
					isStr := isC && v == strC
					underField := false
					for _, ec := range controlling(x.Block()) {
						bo, ok := ec.Cond.(*ssa.BinOp)
						if !ok || !strings.HasSuffix(path(bo.X), ".PtFlag") {
							continue
						}
						// same index entry
						if ld, ok := bo.X.(*ssa.UnOp); ok {
							if fb, ok := ld.X.(*ssa.FieldAddr); ok && fb.X != fa.X {
								continue
							}
						}
						k, isK := constInt(bo.Y)
						if isK && ((k == fieldC && bo.Op == token.EQL && ec.Pol) || (k == tagC && bo.Op == token.NEQ && ec.Pol) || (k == tagC && bo.Op == token.EQL && !ec.Pol) || (k == fieldC && bo.Op == token.NEQ && !ec.Pol)) {
							underField = true
						}
					}
					fresh := false
					if call, ok := fa.X.(*ssa.Call); ok && isCallTo(call, pInput, "GetMeta") {
						if k, isK := constInt(call.Call.Args[1]); isK && k == fieldC {
							fresh = true
						}
					}
					// the entry is a parameter of an unexported helper: every call hands it over under PtFlag == PtField
					if prm, isP := fa.X.(*ssa.Parameter); isP && !underField && (f.Object() == nil || !f.Object().Exported()) {
						idx := -1
						for k, q := range f.Params {
							if q == prm {
								idx = k
							}
						}
						sites := callersOf(t)[f]
						all := idx >= 0 && len(sites) > 0
						for _, cs := range sites {
							if idx >= len(cs.Call.Args) {
								all = false
								break
							}
							entry := cs.Call.Args[idx]
							okSite := false
							for _, ec := range factsAt(cs) {
								bo, ok := ec.Cond.(*ssa.BinOp)
								if !ok || !strings.HasSuffix(path(bo.X), ".PtFlag") {
									continue
								}
								if ld, ok := bo.X.(*ssa.UnOp); ok {
									if fb, ok := ld.X.(*ssa.FieldAddr); ok && fb.X != entry {
										continue
									}
								}
								k, isK := constInt(bo.Y)
								if isK && ((k == fieldC && bo.Op == token.EQL && ec.Pol) || (k == tagC && bo.Op == token.NEQ && ec.Pol) || (k == tagC && bo.Op == token.EQL && !ec.Pol) || (k == fieldC && bo.Op == token.NEQ && !ec.Pol)) {
									okSite = true
								}
							}
							if !okSite {
								all = false
							}
						}
						if all {
							underField = true
						}
					}
					r.Ob("FLAG-DOMAIN", fmt.Sprintf("%s stores TFMeta.DType #%d", relName(f), ordinalOf(f, in)), t.Pos(x.Pos()), isStr || underField || fresh,
						fmt.Sprintf("a type other than String may be recorded only for an entry known to be a field (stores String: %v, under PtFlag == PtField of the same entry: %v): a tag indexed as Nil reads as nil although the output holds its value", isStr, underField))
				case *ssa.Call:
					if isCallTo(in, pInput, "GetMeta") {
						if k, isK := constInt(x.Call.Args[1]); isK && k == tagC {
							nTy++
							v, isC := constInt(x.Call.Args[0])
							r.Ob("FLAG-DOMAIN", fmt.Sprintf("%s GetMeta #%d creates a tag entry of type String", relName(f), ordinalCall(f, x)), t.Pos(x.Pos()), isC && v == strC, "GetMeta(ast.String, PtTag)")
						}
					}
				}
			})
		}
	}
	r.FloorN("TFMeta.DType stores and tag GetMeta calls", nTy, 6)

	// ---- (3) coherence typestate over each method of Point that writes the maps
	var cohFns []*ssa.Function
	for _, f := range t.PkgFuncs(pInput) {
		if len(f.Params) == 0 || namedOf(f.Params[0].Type()) != "input.Point" {
			continue
		}
		touches := false
		for _, w := range writesOf(f) {
			if len(w.Through) > 0 && strings.HasPrefix(w.Through[0], "input.Point.") && (strings.HasSuffix(w.Through[0], "Fields") || strings.HasSuffix(w.Through[0], "Tags") || strings.HasSuffix(w.Through[0], "Meta")) {
				touches = true
			}
		}
		if !touches || f.Name() == "InitPt" || f.Name() == "PutPoint" {
			continue
		}
		cohFns = append(cohFns, f)
	}
	// helpers (unexported functions of the package called by other functions of it) start in the states their call
	// sites are in; functions reached only from InitPt / PutPoint belong to construction / release and are left to
	// those rules
	{
		inSet := map[*ssa.Function]bool{}
		for _, f := range cohFns {
			inSet[f] = true
		}
		callers := map[*ssa.Function][]*ssa.Call{}
		for _, f := range t.PkgFuncs(pInput) {
			allInstrs(f, func(in ssa.Instruction) {
				if call, ok := in.(*ssa.Call); ok {
					if g := call.Call.StaticCallee(); g != nil && g.Pkg == f.Pkg && g != f {
						callers[g] = append(callers[g], call)
					}
				}
			})
		}
		onlyFrom := func(g *ssa.Function, roots map[string]bool) bool {
			seen := map[*ssa.Function]bool{}
			var up func(x *ssa.Function) bool
			up = func(x *ssa.Function) bool {
				if seen[x] {
					return true
				}
				seen[x] = true
				if roots[x.Name()] {
					return true
				}
				cs := callers[x]
				if len(cs) == 0 || (x.Object() != nil && x.Object().Exported()) {
					return false
				}
				for _, cl := range cs {
					if !up(cl.Parent()) {
						return false
					}
				}
				return true
			}
			return len(callers[g]) > 0 && up(g)
		}
		entry := map[*ssa.Function]uint16{}
		var helpers, roots []*ssa.Function
		for _, f := range cohFns {
			switch {
			case onlyFrom(f, map[string]bool{"InitPt": true, "PutPoint": true}):
				continue
			case len(callers[f]) > 0 && (f.Object() == nil || !f.Object().Exported()):
				helpers = append(helpers, f)
			default:
				roots = append(roots, f)
			}
		}
		befores := map[*ssa.Function]map[ssa.Instruction]uint16{}
		for _, f := range roots {
			r.Fn(relName(f))
			befores[f] = c10Coherence(c, f, fieldC, tagC, 1<<uint(c10enc(0, false, false)))
		}
		for _, f := range helpers {
			for _, cl := range callers[f] {
				// a call from the construction / teardown of the whole point (InitPt, PutPoint, or a function only they
				// reach) is outside the per-key protocol: there the maps are replaced or dropped wholesale
				if pn := cl.Parent().Name(); pn == "InitPt" || pn == "PutPoint" || onlyFrom(cl.Parent(), map[string]bool{"InitPt": true, "PutPoint": true}) {
					continue
				}
				if b, ok := befores[cl.Parent()]; ok {
					entry[f] |= b[cl]
				} else {
					entry[f] |= 1 << uint(c10enc(0, false, false))
				}
			}
			if os.Getenv("PLVERIF_DEBUG") == "c10" {
				for _, cl := range callers[f] {
					_, has := befores[cl.Parent()]
					fmt.Fprintf(os.Stderr, "C10 helper %s called from %s (analysed=%v, teardown=%v) state=%b\n", f.Name(), cl.Parent().Name(), has, onlyFrom(cl.Parent(), map[string]bool{"InitPt": true, "PutPoint": true}), befores[cl.Parent()][cl])
				}
			}
			r.Fn(relName(f))
			befores[f] = c10Coherence(c, f, fieldC, tagC, entry[f])
		}
	}
	r.Floor("COHERENCE", 10)
	c10InitPt(c, fieldC, tagC)
	c10Get(c, fieldC, tagC)
	c10Types(c)
}

// metaFlagOf: the flag a freshly obtained meta value is known to carry (GetMeta(_, const)), or 0.
func metaFlagOf(v ssa.Value, fieldC, tagC int64) int {
	if call, ok := v.(*ssa.Call); ok && call.Call.StaticCallee() != nil && fnName(call.Call.StaticCallee()) == "GetMeta" {
		if k, ok := constInt(call.Call.Args[1]); ok {
			switch k {
			case fieldC:
				return 1
			case tagC:
				return 2
			}
		}
	}
	return 0
}

func c10Coherence(c *Ctx, f *ssa.Function, fieldC, tagC int64, entry uint16) map[ssa.Instruction]uint16 {
	r, t := c.R, c.T
	isFlagLoad := func(v ssa.Value) bool {
		u, ok := v.(*ssa.UnOp)
		if !ok || u.Op != token.MUL {
			return false
		}
		fa, ok := u.X.(*ssa.FieldAddr)
		return ok && namedOf(fa.X.Type()) == "input.TFMeta" && fieldName(fa) == "PtFlag"
	}
	ts := &typestate{fn: f, nstate: 12, init: c10enc(0, false, false)}
	ts.trans = func(in ssa.Instruction, st int) int {
		flag, dF, dT := c10dec(st)
		switch x := in.(type) {
		case *ssa.Store:
			if fa, ok := x.Addr.(*ssa.FieldAddr); ok && namedOf(fa.X.Type()) == "input.TFMeta" && fieldName(fa) == "PtFlag" {
				if v, ok := constInt(x.Val); ok {
					if v == fieldC {
						flag = 1
					} else if v == tagC {
						flag = 2
					}
				}
			}
		case *ssa.MapUpdate:
			// Meta[key] = GetMeta(_, const): the flag of the (new) entry is known
			if isPointMap(x.Map, "Meta") {
				if fl := metaFlagOf(x.Value, fieldC, tagC); fl != 0 {
					flag = fl
				}
			}
		case *ssa.Call:
			if builtinName(x) == "delete" {
				if isPointMap(x.Call.Args[0], "Fields") {
					dF = true
				}
				if isPointMap(x.Call.Args[0], "Tags") {
					dT = true
				}
			}
		}
		return c10enc(flag, dF, dT)
	}
	ts.edge = func(b *ssa.BasicBlock, si int, st int) int {
		iff, ok := b.Instrs[len(b.Instrs)-1].(*ssa.If)
		if !ok {
			return st
		}
		flag, dF, dT := c10dec(st)
		cond := iff.Cond
		if u, isU := cond.(*ssa.UnOp); isU && u.Op == token.NOT {
			cond, si = u.X, 1-si // `!x`: the arms swap
		}
		switch cnd := cond.(type) {
		case *ssa.BinOp:
			if isFlagLoad(cnd.X) && (cnd.Op == token.EQL || cnd.Op == token.NEQ) {
				if v, ok := constInt(cnd.Y); ok {
					is := (si == 0) == (cnd.Op == token.EQL)
					switch {
					case v == fieldC && is, v == tagC && !is:
						if flag == 2 {
							return -1
						}
						flag = 1
					case v == tagC && is, v == fieldC && !is:
						if flag == 1 {
							return -1
						}
						flag = 2
					}
				}
			}
		case *ssa.Extract:
			// `v, ok := pt.Fields[key]` false edge: the key is absent from Fields (as good as deleted)
			if lk, ok := cnd.Tuple.(*ssa.Lookup); ok && lk.CommaOk && cnd.Index == 1 && si == 1 {
				if isPointMap(lk.X, "Fields") {
					dF = true
				}
				if isPointMap(lk.X, "Tags") {
					dT = true
				}
			}
		}
		return c10enc(flag, dF, dT)
	}
	before := map[ssa.Instruction]uint16{}
	for st0 := 0; st0 < 12; st0++ {
		if entry&(1<<uint(st0)) == 0 {
			continue
		}
		ts.init = st0
		for k, v := range ts.run() {
			before[k] |= v
		}
	}
	states := func(m uint16) string {
		var s []string
		for st := 0; st < 12; st++ {
			if m&(1<<uint(st)) != 0 {
				fl, dF, dT := c10dec(st)
				s = append(s, fmt.Sprintf("flag=%s delFields=%v delTags=%v", []string{"unknown", "field", "tag"}[fl], dF, dT))
			}
		}
		return strings.Join(s, " | ")
	}
	all := func(m uint16, pred func(flag int, dF, dT bool) bool) bool {
		if m == 0 {
			return true
		}
		for st := 0; st < 12; st++ {
			if m&(1<<uint(st)) != 0 {
				if fl, dF, dT := c10dec(st); !pred(fl, dF, dT) {
					return false
				}
			}
		}
		return true
	}
	// an index entry may be (over)written under key k only where k is known to have no entry (failed lookup of the
	// same key) or after whatever k held was removed from both maps (Point.Delete(k)): otherwise the value the old
	// entry described stays in its map with no entry — or, under the other kind, next to the new value
	allInstrs(f, func(in ssa.Instruction) {
		mu, ok := in.(*ssa.MapUpdate)
		if !ok || !isPointMap(mu.Map, "Meta") {
			return
		}
		why := ""
		for _, ec := range factsAt(mu) {
			if ex, isE := ec.Cond.(*ssa.Extract); isE && ex.Index == 1 && !ec.Pol {
				if lk, isL := ex.Tuple.(*ssa.Lookup); isL && lk.CommaOk && isPointMap(lk.X, "Meta") && lk.Index == mu.Key {
					why = "the key was looked up and has no entry"
				}
			}
		}
		allInstrs(f, func(i2 ssa.Instruction) {
			if call, isC := i2.(*ssa.Call); isC && call.Call.StaticCallee() != nil && fnName(call.Call.StaticCallee()) == "Delete" &&
				len(call.Call.Args) == 2 && namedOf(call.Call.Args[0].Type()) == "input.Point" && call.Call.Args[1] == mu.Key && precedes(call, mu) {
				why = "Point.Delete(k) precedes it on every path"
			}
		})
		r.Ob("COHERENCE", fmt.Sprintf("%s Meta[k] = … #%d replaces no live entry", relName(f), ordinalOf(f, in)), t.Pos(mu.Pos()), why != "",
			"the index entry of a key may be written only where the key has no entry or was deleted from both maps first ("+why+") — an overwritten entry of the other kind leaves its value behind: the key is then a tag and a field at once")
	})
	allInstrs(f, func(in ssa.Instruction) {
		switch x := in.(type) {
		case *ssa.MapUpdate:
			switch {
			case isPointMap(x.Map, "Fields"):
				r.Ob("COHERENCE", fmt.Sprintf("%s Fields[k] insertion #%d", relName(f), ordinalOf(f, in)), t.Pos(x.Pos()),
					all(before[in], func(fl int, _, _ bool) bool { return fl == 1 }), "a value may be put into Fields only where the key's index entry is known to say Field; possible states: "+states(before[in]))
			case isPointMap(x.Map, "Tags"):
				r.Ob("COHERENCE", fmt.Sprintf("%s Tags[k] insertion #%d", relName(f), ordinalOf(f, in)), t.Pos(x.Pos()),
					all(before[in], func(fl int, dF, _ bool) bool { return fl == 2 }), "a value may be put into Tags only where the key's index entry is known to say Tag; possible states: "+states(before[in]))
			}
		case *ssa.Call:
			if builtinName(x) == "delete" && isPointMap(x.Call.Args[0], "Meta") {
				r.Ob("COHERENCE", fmt.Sprintf("%s delete(Meta,k) #%d", relName(f), ordinalOf(f, in)), t.Pos(x.Pos()),
					all(before[in], func(fl int, dF, dT bool) bool { return (fl == 1 && dF) || (fl == 2 && dT) || (dF && dT) }),
					"the index entry may be dropped only after the key was removed from the map its flag names; possible states: "+states(before[in]))
			}
		case *ssa.Store:
			// re-flagging an existing entry as Tag: the key must have left Fields already, or leave it on every path to a return
			fa, ok := x.Addr.(*ssa.FieldAddr)
			if !ok || namedOf(fa.X.Type()) != "input.TFMeta" || fieldName(fa) != "PtFlag" {
				return
			}
			if v, ok := constInt(x.Val); !ok || v != tagC {
				return
			}
			already := all(before[in], func(fl int, dF, _ bool) bool { return fl == 2 || dF })
			later := true
			allInstrs(f, func(i2 ssa.Instruction) {
				if ret, ok := i2.(*ssa.Return); ok && reachAvoidEdges(in, ret) {
					later = false
				}
			})
			r.Ob("COHERENCE", fmt.Sprintf("%s Field→Tag flip #%d", relName(f), ordinalOf(f, in)), t.Pos(x.Pos()), already || later,
				"when an existing entry is re-flagged as Tag the key must leave Fields on the same path (delete before or after, or proven absence), otherwise it is both a tag and a field; states at the flip: "+states(before[in]))
		}
	})
	return before
}

// reachAvoidEdges: path from `from` to `to` that passes neither delete(pt.Fields, …) nor the false edge of `_, ok := pt.Fields[k]`.
func reachAvoidEdges(from, to ssa.Instruction) bool {
	kill := func(in ssa.Instruction) bool {
		if call, ok := in.(*ssa.Call); ok && builtinName(call) == "delete" && isPointMap(call.Call.Args[0], "Fields") {
			return true
		}
		return false
	}
	type item struct {
		b     *ssa.BasicBlock
		start int
	}
	seen := map[*ssa.BasicBlock]bool{}
	work := []item{{from.Block(), instrIndex(from) + 1}}
	for len(work) > 0 {
		it := work[len(work)-1]
		work = work[:len(work)-1]
		killed := false
		for i := it.start; i < len(it.b.Instrs); i++ {
			in := it.b.Instrs[i]
			if in == to {
				return true
			}
			if kill(in) {
				killed = true
				break
			}
		}
		if killed {
			continue
		}
		for si, s := range it.b.Succs {
			// skip the "absent" edge of a Fields lookup
			if iff, ok := it.b.Instrs[len(it.b.Instrs)-1].(*ssa.If); ok {
				if ex, ok := iff.Cond.(*ssa.Extract); ok && ex.Index == 1 && si == 1 {
					if lk, ok := ex.Tuple.(*ssa.Lookup); ok && lk.CommaOk && isPointMap(lk.X, "Fields") {
						continue
					}
				}
			}
			if !seen[s] {
				seen[s] = true
				work = append(work, item{s, 0})
			}
		}
	}
	return false
}

func c10InitPt(c *Ctx, fieldC, tagC int64) {
	r, t := c.R, c.T
	f := t.Func(pInput, "InitPt")
	if f == nil {
		r.Undecided("COHERENCE", "input.InitPt", "", "unresolved anchor")
		return
	}
	r.Fn(relName(f))
	// every Meta update keyed by the range key of the fields map carries PtField, of the tags map PtTag
	okF, okT, bad := false, false, false
	// InitPt itself and the same-package helpers it calls (the two loops may have been moved into methods)
	scope := []*ssa.Function{f}
	allInstrs(f, func(in ssa.Instruction) {
		if call, ok := in.(*ssa.Call); ok {
			if h := call.Call.StaticCallee(); h != nil && h.Pkg == f.Pkg && len(h.Blocks) > 0 && h.Name() != "GetMeta" {
				scope = append(scope, h)
			}
		}
	})
	for _, g := range scope {
		allInstrs(g, func(in ssa.Instruction) {
			mu, ok := in.(*ssa.MapUpdate)
			if !ok || !isPointMap(mu.Map, "Meta") {
				return
			}
			fl := metaFlagOf(mu.Value, fieldC, tagC)
			src := rangeSourceType(mu.Key)
			switch {
			case src == "map[string]any" && fl == 1:
				okF = true
			case src == "map[string]string" && fl == 2:
				okT = true
			default:
				bad = true
			}
		})
	}
	r.Ob("COHERENCE", "InitPt indexes every initial field as Field and every initial tag as Tag", t.Pos(f.Pos()), okF && okT && !bad, "Meta must be built from the two initial maps with the matching flags")
	// a fresh Meta map
	fresh := false
	allInstrs(f, func(in ssa.Instruction) {
		if s, ok := in.(*ssa.Store); ok {
			if fa, ok := s.Addr.(*ssa.FieldAddr); ok && fieldName(fa) == "Meta" {
				if _, ok := s.Val.(*ssa.MakeMap); ok {
					fresh = true
				}
			}
		}
	})
	r.Ob("COHERENCE", "InitPt starts from an empty index", t.Pos(f.Pos()), fresh, "pt.Meta must be a new map")
}

func c10Get(c *Ctx, fieldC, tagC int64) {
	r, t := c.R, c.T
	f := t.Method(pInput, "Point", "Get")
	if f == nil {
		r.Undecided("COHERENCE", "input.Point.Get", "", "unresolved anchor")
		return
	}
	r.Fn(relName(f))
	okF, okT := false, false
	allInstrs(f, func(in ssa.Instruction) {
		lk, ok := in.(*ssa.Lookup)
		if !ok {
			return
		}
		var want int64 = -1
		if isPointMap(lk.X, "Fields") {
			want = fieldC
		} else if isPointMap(lk.X, "Tags") {
			want = tagC
		} else {
			return
		}
		g := false
		for _, ec := range controlling(lk.Block()) {
			if bo, ok := ec.Cond.(*ssa.BinOp); ok && bo.Op == token.EQL && ec.Pol && strings.HasSuffix(path(bo.X), ".PtFlag") {
				if v, ok := constInt(bo.Y); ok && v == want {
					g = true
				}
			}
		}
		if want == fieldC {
			okF = g
		} else {
			okT = g
		}
	})
	r.Ob("COHERENCE", "Point.Get reads Fields under flag Field", t.Pos(f.Pos()), okF, "the map consulted must be the one the index entry names")
	r.Ob("COHERENCE", "Point.Get reads Tags under flag Tag", t.Pos(f.Pos()), okT, "the map consulted must be the one the index entry names")
	// returns m.DType for fields, String for tags
	okTy := false
	allInstrs(f, func(in ssa.Instruction) {
		if ret, ok := in.(*ssa.Return); ok && len(ret.Results) == 3 {
			if strings.HasSuffix(path(ret.Results[1]), ".DType") && strings.Contains(path(ret.Results[0]), ".Fields[") {
				okTy = true
			}
		}
	})
	r.Ob("COHERENCE", "Point.Get returns a field with its recorded type", t.Pos(f.Pos()), okTy, "(pt.Fields[key], m.DType)")
}

func c10Types(c *Ctx) {
	r, t := c.R, c.T
	f := t.Method(pInput, "Point", "Set")
	if f == nil {
		r.Undecided("TYPES", "input.Point.Set", "", "unresolved anchor")
		return
	}
	astp := t.SSA[pAst]
	val := func(n string) int64 {
		v, _ := constInt(astp.Const(n).Value)
		return v
	}
	excluded := []int64{val("Nil"), val("Void"), val("Invalid"), val("List"), val("Map")}
	// Set itself, and the methods it hands (value, dtype) to: the field stores may live in a helper
	type setCtx struct {
		g          *ssa.Function
		val, dtype *ssa.Parameter
	}
	ctxs := []setCtx{{f, f.Params[2], f.Params[3]}}
	allInstrs(f, func(in ssa.Instruction) {
		hc, ok := in.(*ssa.Call)
		if !ok {
			return
		}
		h := hc.Call.StaticCallee()
		if h == nil || h.Pkg != f.Pkg || len(h.Blocks) == 0 {
			return
		}
		sc := setCtx{g: h}
		for k, a := range hc.Call.Args {
			if k >= len(h.Params) {
				break
			}
			if a == ssa.Value(f.Params[2]) {
				sc.val = h.Params[k]
			}
			if a == ssa.Value(f.Params[3]) {
				sc.dtype = h.Params[k]
			}
		}
		if sc.val != nil && sc.dtype != nil {
			ctxs = append(ctxs, sc)
		}
	})
	for _, sc := range ctxs {
		f, valP, dtP := sc.g, sc.val, sc.dtype
		allInstrs(f, func(in ssa.Instruction) {
			mu, ok := in.(*ssa.MapUpdate)
			if !ok || !isPointMap(mu.Map, "Fields") {
				return
			}
			v := unwrapIface(mu.Value)
			switch {
			case v == ssa.Value(valP): // raw value
				neg := map[int64]bool{}
				for _, ec := range controlling(mu.Block()) {
					if bo, ok := ec.Cond.(*ssa.BinOp); ok && bo.Op == token.EQL && !ec.Pol && path(bo.X) == dtP.Name() {
						if k, ok := constInt(bo.Y); ok {
							neg[k] = true
						}
					}
				}
				okAll := true
				for _, e := range excluded {
					if !neg[e] {
						okAll = false
					}
				}
				r.Ob("TYPES", "Point.Set stores the raw value only for scalar tags", t.Pos(mu.Pos()), okAll, "the raw value reaches Fields only when dtype is none of Nil/Void/Invalid/List/Map (those become nil or JSON text)")
			case isNilConst(mu.Value) || isNilConst(v):
				r.Ob("TYPES", fmt.Sprintf("Point.Set nil store #%d", ordinalOf(f, in)), t.Pos(mu.Pos()), true, "nil field")
			default:
				// must be the Conv2String result, recorded as String
				isConv := strings.Contains(path(mu.Value), "Conv2String(")
				r.Ob("TYPES", "Point.Set stores lists and maps as their JSON text", t.Pos(mu.Pos()), isConv, "value stored is "+path(mu.Value))
				// … and records the type String for it in the same step
				strC, _ := constInt(astp.Const("String").Value)
				rec := false
				for _, i2 := range mu.Block().Instrs {
					if st, ok := i2.(*ssa.Store); ok {
						if fa, ok := st.Addr.(*ssa.FieldAddr); ok && namedOf(fa.X.Type()) == "input.TFMeta" && fieldName(fa) == "DType" {
							if k, isC := constInt(st.Val); isC && k == strC {
								rec = true
							}
						}
					}
				}
				r.Ob("TYPES", "Point.Set indexes the JSON text of a list or map as String", t.Pos(mu.Pos()), rec, "m.DType = ast.String next to Fields[key] = <JSON text>: the index must say what the output holds, whatever type the key had before")
			}
		})
	}
	r.Floor("TYPES", 3)
	// Tags is map[string]string
	_, st := t.NamedStruct(pInput, "Point")
	okTags := false
	if st != nil {
		for i := 0; i < st.NumFields(); i++ {
			if st.Field(i).Name() == "Tags" && st.Field(i).Type().String() == "map[string]string" {
				okTags = true
			}
		}
	}
	r.Ob("TYPES", "Point.Tags is map[string]string", "pkg/inimpl/guancecloud/input/point.go", okTags, "tag values are strings by type")
}

// rangeSourceType: for a key obtained by ranging over a map, the type of that map ("" otherwise).
func rangeSourceType(key ssa.Value) string {
	ex, ok := key.(*ssa.Extract)
	if !ok {
		return ""
	}
	nx, ok := ex.Tuple.(*ssa.Next)
	if !ok {
		return ""
	}
	rg, ok := nx.Iter.(*ssa.Range)
	if !ok {
		return ""
	}
	return strings.ReplaceAll(rg.X.Type().String(), "interface{}", "any")
}
