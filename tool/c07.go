package main

import (
	"fmt"
	"go/constant"
	"go/token"
	"go/types"
	"os"
	"regexp"
	"sort"
	"strings"
	"unicode"

	"golang.org/x/tools/go/ssa"
)

func init() {
	register("C07", "literals: escape table by specialisation, lexer ⊇ unquoter, literal plumbing, number parsing, keywords", checkC07)
}

var reLenLT = regexp.MustCompile(`\(len\(s\[:\]\) < (\d+)\)`)

// escapeClass specialises unquoteChar for the two-byte prefix `\` c and classifies what it does.
func escapeClass(t *Tree, f *ssa.Function, c int, quote byte) (string, string) {
	cfg := &specCfg{
		Paths:     map[string]sval{"s[0]": constv(constant.MakeInt64('\\')), "s[1]": constv(constant.MakeInt64(int64(c)))},
		MaxVisits: 400000, MaxLoop: 10,
	}
	cfg.Call = func(fn *ssa.Function, call *ssa.Call, nth int, args []sval) (sval, bool) {
		if cal := call.Call.StaticCallee(); cal != nil && fnName(cal) == "unhex" {
			return sval{tup: []sval{symv("hexval"), symv("hexok")}}, true
		}
		return stdErrCall(fn, call, nth, args)
	}
	outs, ab := cfg.run(f, []sval{symv("s"), constv(constant.MakeInt64(int64(quote))), constv(constant.MakeBool(false))})
	if ab != "" {
		return "", ab
	}
	allErr := true
	simple := ""
	conds := map[string]bool{}
	multibyte := false
	for _, o := range outs {
		for _, cd := range o.Cond {
			conds[cd] = true
		}
		if len(o.Vals) != 4 {
			continue
		}
		if o.Vals[3].nil {
			allErr = false
			if o.Vals[0].isConst() {
				simple = o.Vals[0].c.ExactString()
			}
			if o.Vals[1].isConst() && constant.BoolVal(o.Vals[1].c) {
				multibyte = true
			}
		}
	}
	if allErr {
		return "error", ""
	}
	all := strings.Join(sortedKeys(conds), " ")
	n := ""
	if m := reLenLT.FindStringSubmatch(all); m != nil {
		n = m[1]
	}
	switch {
	case strings.Contains(all, "hexok"):
		rng := "unchecked"
		if strings.Contains(all, "> 1114111") {
			rng = "max-rune"
		}
		return fmt.Sprintf("hex:%s:%s:multibyte=%v", n, rng, multibyte), ""
	case strings.Contains(all, "- 48) > 7"):
		mx := ""
		if strings.Contains(all, "> 255") {
			mx = "255"
		}
		return fmt.Sprintf("octal:1+%s:max=%s", n, mx), ""
	case simple != "":
		return "value:" + simple, ""
	}
	return "unclassified " + all, ""
}

// goEscapeRef: the Go rune/string-literal escape table for `\c` inside a literal delimited by quote.
func goEscapeRef(c int, quote byte) string {
	switch c {
	case 'a':
		return "value:7"
	case 'b':
		return "value:8"
	case 'f':
		return "value:12"
	case 'n':
		return "value:10"
	case 'r':
		return "value:13"
	case 't':
		return "value:9"
	case 'v':
		return "value:11"
	case '\\':
		return "value:92"
	case 'x':
		return "hex:2:unchecked:multibyte=false"
	case 'u':
		return "hex:4:max-rune:multibyte=true"
	case 'U':
		return "hex:8:max-rune:multibyte=true"
	case '0', '1', '2', '3', '4', '5', '6', '7':
		return "octal:1+2:max=255"
	}
	if c == int(quote) {
		return fmt.Sprintf("value:%d", c)
	}
	return "error"
}

func checkC07(c *Ctx) {
	r, t := c.R, c.T
	r.Explanation = "Decides the structural clauses of literal denotation: (1) ESCAPES: unquoteChar specialised by `spec` for the prefix `\\`+c for every byte c (256) and both quote characters yields the value / hex-digit count and range check / octal form / error of that escape, compared with the Go rune-literal table (\\a \\b \\f \\n \\r \\t \\v \\\\ and the active quote; \\x 2 hex digits; \\u 4 and \\U 8 hex digits ≤ MaxRune; three octal digits ≤ 255; everything else an error) — 512 cells, exhaustive; in multiline (raw) mode every byte is kept; (2) LEX-SUPERSET: every escape letter the unquoter accepts is accepted by lexEscape (same specialisation on the lexer state function), so no valid spelling is rejected by the lexer, and every unquote error reaches addParseErrf; (3) PLUMBING (grammar action-flow): STRING and QUOTED_STRING are unquoted by unquoteString, MULTILINE_STRING by unquoteMultilineString, before their constructors; TRUE/FALSE build bool literals with the constants true/false; NIL and NULL build nil literals; NUMBER goes to newNumberLiteral; (4) NUMBERS: newNumberLiteral tries strconv.ParseInt(text, 0, 64) first and strconv.ParseFloat(text, 64) only when that fails, and records an error when both fail; (5) KEYWORDS: every key of the keyword table is lower-case and the lookup key is strings.ToLower(word). Sign folding is checked under C02 FOLD. Not decided: agreement of lexer and unquoter on every whole string (only the escape alphabet and the error plumbing), rounding of floats and integer range (delegated to strconv, trusted). Also QUOTE-OPEN (the runes after an opening quote are tested against that quote only), DELIMS (exactly the delimiters are stripped), ESCAPE-RANGE, and RAW-QUOTE: in Unquote the branch of an opening back-quote never reaches the escape decoder and returns a slice of its argument."
	r.Trusted = []string{"strconv.ParseInt / ParseFloat", "unicode/utf8"}
	r.Exhaustive = true
	uq := t.Func(pParser, "unquoteChar")
	if uq == nil {
		r.Undecided("ESCAPES", "parser.unquoteChar", "", "unresolved anchor")
		return
	}
	r.Fn(relName(uq))
	accepted := map[byte]map[int]bool{'"': {}, '\'': {}}
	for _, q := range []byte{'"', '\''} {
		for ch := 0; ch < 256; ch++ {
			got, ab := escapeClass(t, uq, ch, q)
			key := fmt.Sprintf("escape \\x%02x (%q) in %c…%c literal", ch, rune(ch), q, q)
			if ab != "" {
				r.Undecided("ESCAPES", key, t.Pos(uq.Pos()), ab)
				continue
			}
			want := goEscapeRef(ch, q)
			if got != "error" {
				accepted[q][ch] = true
			}
			r.Ob("ESCAPES", key, t.Pos(uq.Pos()), got == want, fmt.Sprintf("unquoteChar: %s ; Go escape rules: %s", got, want))
		}
	}
	r.Floor("ESCAPES", 512)
	// multiline mode keeps bytes
	{
		cfg := &specCfg{Call: stdErrCall}
		// the decoder of the raw mode: what UnquoteMultiline calls per character (itself or through the loop helper it
		// shares with Unquote), specialised with the constant arguments of that call
		dec, args := uq, []sval{symv("s"), constv(constant.MakeInt64(0)), constv(constant.MakeBool(true))}
		if um := t.Func(pParser, "UnquoteMultiline"); um != nil {
			var find func(f *ssa.Function, bind map[*ssa.Parameter]sval, depth int) bool
			find = func(f *ssa.Function, bind map[*ssa.Parameter]sval, depth int) bool {
				found := false
				allInstrs(f, func(in ssa.Instruction) {
					call, ok := in.(*ssa.Call)
					if !ok || found {
						return
					}
					g := call.Call.StaticCallee()
					if g == nil || pkgOf(g) != um.Pkg || len(g.Blocks) == 0 {
						return
					}
					var as []sval
					for _, a := range call.Call.Args {
						switch x := a.(type) {
						case *ssa.Const:
							if x.Value != nil {
								as = append(as, constv(x.Value))
							} else {
								as = append(as, sval{nil: true})
							}
						case *ssa.Parameter:
							if v, ok := bind[x]; ok {
								as = append(as, v)
							} else {
								as = append(as, symv("s"))
							}
						default:
							as = append(as, symv("s"))
						}
					}
					if g.Signature.Results().Len() == 4 {
						dec, args, found = g, as, true
						return
					}
					if depth < 1 {
						b2 := map[*ssa.Parameter]sval{}
						for i, p := range g.Params {
							if i < len(as) && as[i].isConst() {
								b2[p] = as[i]
							}
						}
						if find(g, b2, depth+1) {
							found = true
						}
					}
				})
				return found
			}
			find(um, nil, 0)
		}
		outs, _ := cfg.run(dec, args)
		ok := len(outs) > 0
		for _, o := range outs {
			if len(o.Vals) != 4 || !o.Vals[3].nil {
				ok = false
			}
		}
		r.Ob("ESCAPES", "multiline mode keeps every byte as it is", t.Pos(uq.Pos()), ok, fmt.Sprintf("%d outcomes, all without error", len(outs)))
	}
	c07Assemble(c, uq)
	c07Delims(c)
	c07LexSuperset(c, accepted)
	c07EscapeRange(c)
	c07QuoteOpen(c)
	c07RawQuote(c)
	c07Plumbing(c)
	c07Numbers(c)
	c07Keywords(c)
}

func c07LexSuperset(c *Ctx, accepted map[byte]map[int]bool) {
	r, t := c.R, c.T
	le := t.Func(pParser, "lexEscape")
	next := t.Method(pParser, "Lexer", "next")
	errorf := t.Method(pParser, "Lexer", "errorf")
	if le == nil || next == nil || errorf == nil {
		r.Undecided("LEX-SUPERSET", "parser.lexEscape", "", "unresolved anchor")
		return
	}
	r.Fn(relName(le))
	for _, q := range []byte{'"', '\''} {
		for ch := 0; ch < 256; ch++ {
			if !accepted[q][ch] {
				continue
			}
			cfg := &specCfg{Paths: map[string]sval{"l.stringOpen": constv(constant.MakeInt64(int64(q))), "l.backquoteOpen": constv(constant.MakeInt64(0))}, MaxLoop: 2, MaxVisits: 100000}
			rejectedFirst := false
			cfg.Call = func(fn *ssa.Function, call *ssa.Call, nth int, args []sval) (sval, bool) {
				cal := call.Call.StaticCallee()
				if cal == next && fn == le {
					if nth == 1 {
						return constv(constant.MakeInt64(int64(ch))), true
					}
					return symv(fmt.Sprintf("rune%d", nth)), true
				}
				if cal == errorf {
					return symv("effect:errorf " + args[1].String()), true
				}
				if cal != nil && (fnName(cal) == "Debugf" || fnName(cal) == "digitVal") {
					return symv(cal.Name()), true
				}
				return sval{}, false
			}
			outs, ab := cfg.run(le, []sval{symv("l")})
			if ab != "" {
				r.Undecided("LEX-SUPERSET", fmt.Sprintf("lexEscape on \\%q in %c-quoted string", rune(ch), q), t.Pos(le.Pos()), ab)
				continue
			}
			// the escape letter itself must not be refused: no path whose first effect is `unknown escape sequence`
			for _, o := range outs {
				for _, cd := range o.Cond {
					if strings.HasPrefix(cd, "effect:errorf") && strings.Contains(cd, "unknown escape") {
						rejectedFirst = true
					}
				}
			}
			r.Ob("LEX-SUPERSET", fmt.Sprintf("lexEscape accepts \\%q in a %c-quoted string", rune(ch), q), t.Pos(le.Pos()), !rejectedFirst && len(outs) > 0,
				"an escape the unquoter understands must not be refused by the lexer as an unknown escape sequence")
		}
	}
	r.Floor("LEX-SUPERSET", 40)
	// unquote errors are reported
	for _, name := range []string{"unquoteString", "unquoteMultilineString"} {
		f := t.Method(pParser, "parser", name)
		ok := false
		if f != nil {
			r.Fn(relName(f))
			allInstrs(f, func(in ssa.Instruction) {
				if call, isC := in.(*ssa.Call); isC && call.Call.StaticCallee() != nil && reportsParseErr(call.Call.StaticCallee(), 0) {
					for _, ec := range controlling(call.Block()) {
						if strings.Contains(ec.String(), "!= nil") && !strings.HasPrefix(ec.String(), "!(") {
							ok = true
						}
					}
				}
			})
		}
		r.Ob("LEX-SUPERSET", "parser."+name+" reports an unquoting error as a parse error", "pkg/parser/parser.go", ok, "err != nil → addParseErrf")
	}
}

func c07Plumbing(c *Ctx) {
	r := c.R
	g := c.requireGram()
	if g == nil {
		return
	}
	type want struct {
		tok, helper, ctor string
		constArg          string
	}
	wants := []want{
		{"STRING", "unquoteString", "newStringLiteral", ""},
		{"MULTILINE_STRING", "unquoteMultilineString", "newStringLiteral", ""},
		{"QUOTED_STRING", "unquoteString", "newIdentifierLiteral", ""},
		{"ID", "", "newIdentifierLiteral", ""},
		{"NUMBER", "", "newNumberLiteral", ""},
		{"TRUE", "", "newBoolLiteral", "true"},
		{"FALSE", "", "newBoolLiteral", "false"},
		{"NIL", "", "newNilLiteral", ""},
		{"NULL", "", "newNilLiteral", ""},
	}
	for _, w := range wants {
		found := false
		for _, p := range g.Prods[1:] {
			if len(p.RHS) != 1 || p.RHS[0] != w.tok {
				continue
			}
			ai := g.Actions[p.Num]
			if ai == nil {
				continue
			}
			helperOK := w.helper == ""
			ctorOK := false
			order := 0
			for i, cl := range ai.Calls {
				if cl.Name == w.helper && !cl.ToResult {
					// $1.Val = helper($1.Val)
					for _, is := range ai.ItemSets {
						if is == "1.Val:"+w.helper {
							helperOK = true
							order = i
						}
					}
				}
				if cl.Name == w.ctor && cl.ToResult {
					ctorOK = i >= order
					if w.constArg != "" {
						ctorOK = ctorOK && len(cl.Args) == 2 && cl.Args[1].Text == w.constArg
					}
					// no other helper rewrites the text
					for _, is := range ai.ItemSets {
						if w.helper == "" || !strings.HasSuffix(is, ":"+w.helper) {
							if strings.HasPrefix(is, "1.Val:") && !strings.HasSuffix(is, ":"+w.helper) {
								ctorOK = false
							}
						}
					}
				}
			}
			if helperOK && ctorOK {
				found = true
			}
			r.Ob("PLUMBING", fmt.Sprintf("token %s → %s%s", w.tok, map[bool]string{true: w.helper + " → ", false: ""}[w.helper != ""], w.ctor), fmt.Sprintf("pkg/parser/gram.y:%d", p.Line), helperOK && ctorOK,
				fmt.Sprintf("calls in the action: %v, item rewrites: %v", callNames(ai.Calls), ai.ItemSets))
		}
		if !found {
			r.Ob("PLUMBING", "token "+w.tok+" production", "pkg/parser/gram.y", false, "no production `X: "+w.tok+"` with the expected action found")
		}
	}
	r.Floor("PLUMBING", 9)
}

func callNames(cs []CtorCall) []string {
	var out []string
	for _, c := range cs {
		var as []string
		for _, a := range c.Args {
			as = append(as, a.Text)
		}
		out = append(out, c.Name+"("+strings.Join(as, ", ")+")")
	}
	return out
}

func c07Numbers(c *Ctx) {
	r, t := c.R, c.T
	f := t.Method(pParser, "parser", "newNumberLiteral")
	if f == nil {
		r.Undecided("NUMBERS", "parser.newNumberLiteral", "", "unresolved anchor")
		return
	}
	r.Fn(relName(f))
	var pi, pf *ssa.Call
	var pfVia *ssa.Call // f's call to the helper that holds the float path, if it was moved out
	allInstrs(f, func(in ssa.Instruction) {
		if call, ok := in.(*ssa.Call); ok && call.Call.StaticCallee() != nil {
			switch fnName(call.Call.StaticCallee()) {
			case "ParseInt":
				pi = call
			case "ParseFloat":
				pf = call
			}
		}
	})
	if pf == nil {
		allInstrs(f, func(in ssa.Instruction) {
			via, ok := in.(*ssa.Call)
			if !ok || via.Call.StaticCallee() == nil || via.Call.StaticCallee().Pkg != f.Pkg || len(via.Call.StaticCallee().Blocks) == 0 {
				return
			}
			allInstrs(via.Call.StaticCallee(), func(i2 ssa.Instruction) {
				if c2, ok := i2.(*ssa.Call); ok && c2.Call.StaticCallee() != nil && fnName(c2.Call.StaticCallee()) == "ParseFloat" {
					pf, pfVia = c2, via
				}
			})
		})
	}
	okInt := pi != nil && strings.HasSuffix(path(pi.Call.Args[0]), ".Val")
	if okInt {
		b, _ := constInt(pi.Call.Args[1])
		bits, _ := constInt(pi.Call.Args[2])
		okInt = b == 0 && bits == 64
	}
	// the same four facts on the constructor's specialised outcomes, for when the conversion sits in helpers
	sInt, sFloat, sIntVal, sFloatVal := c07NumbersSpec(f)
	okInt = okInt || sInt
	r.Ob("NUMBERS", "newNumberLiteral parses integers with strconv.ParseInt(text, 0, 64)", t.Pos(f.Pos()), okInt, "base 0 (decimal, 0x…), 64 bits")
	okFloat := pf != nil && pi != nil && strings.HasSuffix(path(pf.Call.Args[0]), ".Val")
	if okFloat {
		bits, _ := constInt(pf.Call.Args[1])
		okFloat = bits == 64
		// only on ParseInt's failure
		g := false
		ecs := controlling(pf.Block())
		if pfVia != nil {
			ecs = controlling(pfVia.Block())
		}
		for _, ec := range ecs {
			if bo, ok := ec.Cond.(*ssa.BinOp); ok && isNilConst(bo.Y) {
				if ex, ok := bo.X.(*ssa.Extract); ok && ex.Tuple == ssa.Value(pi) && ex.Index == 1 && ec.Pol == (bo.Op.String() == "!=") {
					g = true
				}
			}
		}
		okFloat = okFloat && g
	}
	okFloat = okFloat || sFloat
	r.Ob("NUMBERS", "newNumberLiteral falls back to strconv.ParseFloat(text, 64) only when ParseInt failed", t.Pos(f.Pos()), okFloat, "every literal that is a valid int64 must stay an integer")
	// integer result is ParseInt's value, float result ParseFloat's
	sum := summarizeCtor(f)
	r.Ob("NUMBERS", "integer literal carries ParseInt's value", t.Pos(f.Pos()), setStr(sum.Fields["IntegerLiteral.Val"]) == "call:ParseInt" || sIntVal, "IntegerLiteral.Val <- "+setStr(sum.Fields["IntegerLiteral.Val"]))
	fsum := sum
	if pfVia != nil {
		fsum = summarizeCtor(pfVia.Call.StaticCallee())
	}
	r.Ob("NUMBERS", "float literal carries ParseFloat's value", t.Pos(f.Pos()), setStr(fsum.Fields["FloatLiteral.Val"]) == "call:ParseFloat" || sFloatVal, "FloatLiteral.Val <- "+setStr(fsum.Fields["FloatLiteral.Val"]))
}

func c07Keywords(c *Ctx) {
	r, t := c.R, c.T
	n := 0
	for _, f := range t.PkgFuncs(pParser) {
		if !strings.HasPrefix(f.Name(), "init") {
			continue
		}
		allInstrs(f, func(in ssa.Instruction) {
			mu, ok := in.(*ssa.MapUpdate)
			if !ok {
				return
			}
			isKw := false
			switch m := mu.Map.(type) {
			case *ssa.MakeMap:
				for _, ref := range *m.Referrers() {
					if s, ok := ref.(*ssa.Store); ok {
						if g, ok := s.Addr.(*ssa.Global); ok && g.Name() == "keywords" {
							isKw = true
						}
					}
				}
			case *ssa.UnOp:
				if g, ok := m.X.(*ssa.Global); ok && g.Name() == "keywords" {
					isKw = true
				}
			}
			if !isKw {
				return
			}
			kc, ok := mu.Key.(*ssa.Const)
			if !ok || kc.Value == nil {
				return
			}
			n++
			k := constant.StringVal(kc.Value)
			lower := true
			for _, ch := range k {
				if unicode.IsUpper(ch) {
					lower = false
				}
			}
			r.Ob("KEYWORDS", fmt.Sprintf("keyword table key %q is lower-case", k), t.Pos(mu.Pos()), lower, "the lookup key is lower-cased, so a key with capitals can never match")
		})
	}
	r.FloorN("keyword table entries", n, 20)
	f := t.Func(pParser, "lexKeywordOrIdentifier")
	ok := false
	if f != nil {
		r.Fn(relName(f))
		allInstrs(f, func(in ssa.Instruction) {
			if lk, isL := in.(*ssa.Lookup); isL && strings.HasSuffix(path(lk.X), "keywords") {
				if call, isC := lk.Index.(*ssa.Call); isC && call.Call.StaticCallee() != nil && fnName(call.Call.StaticCallee()) == "ToLower" {
					ok = true
				}
			}
		})
	}
	r.Ob("KEYWORDS", "keywords are looked up by strings.ToLower(word)", "pkg/parser/lex.go", ok, "true/false/nil/null and the other keywords are recognised in any letter case")
	// … and by every word: a word leaves the state as an identifier only on the miss edge of that lookup (or because it
	// is longer than every keyword). A mode flag or any other test in front of the lookup turns `true`, `false`, `nil`
	// into identifiers in some context.
	if f != nil {
		maxKey := 0
		for _, pf := range t.PkgFuncs(pParser) {
			allInstrs(pf, func(in ssa.Instruction) {
				if mu, ok := in.(*ssa.MapUpdate); ok {
					if kc, ok := mu.Key.(*ssa.Const); ok && kc.Value != nil && kc.Value.Kind() == constant.String && strings.Contains(mu.Map.Type().String(), "ItemType") {
						if l := len(constant.StringVal(kc.Value)); l > maxKey {
							maxKey = l
						}
					}
				}
			})
		}
		var idVal constant.Value
		if o, ok := t.SSA[pParser].Pkg.Scope().Lookup("ID").(*types.Const); ok {
			idVal = o.Val()
		}
		isLookupMiss := func(ec edgeCond) bool {
			ex, ok := ec.Cond.(*ssa.Extract)
			if !ok || ex.Index != 1 || ec.Pol {
				return false
			}
			switch tup := ex.Tuple.(type) {
			case *ssa.Lookup:
				return strings.HasSuffix(path(tup.X), "keywords")
			case *ssa.Call:
				cal := tup.Call.StaticCallee()
				if cal == nil || !inModule(cal) {
					return false
				}
				found := false
				allInstrs(cal, func(in ssa.Instruction) {
					if lk, ok := in.(*ssa.Lookup); ok && strings.HasSuffix(path(lk.X), "keywords") {
						found = true
					}
				})
				return found
			}
			return false
		}
		isTooLong := func(ec edgeCond) bool {
			b, ok := ec.Cond.(*ssa.BinOp)
			if !ok {
				return false
			}
			op, x, y := b.Op, b.X, b.Y
			if _, isC := x.(*ssa.Const); isC { // K op n  ≡  n op' K
				x, y = y, x
				op = map[token.Token]token.Token{token.LSS: token.GTR, token.GTR: token.LSS, token.LEQ: token.GEQ, token.GEQ: token.LEQ}[op]
			}
			k, ok := constInt(y)
			if !ok {
				return false
			}
			if !ec.Pol { // the false edge holds the negation
				op = map[token.Token]token.Token{token.LSS: token.GEQ, token.GTR: token.LEQ, token.LEQ: token.GTR, token.GEQ: token.LSS}[op]
			}
			return op == token.GTR && k >= int64(maxKey) || op == token.GEQ && k > int64(maxKey)
		}
		nID := 0
		allInstrs(f, func(in ssa.Instruction) {
			call, ok := in.(*ssa.Call)
			if !ok || call.Call.StaticCallee() == nil || fnName(call.Call.StaticCallee()) != "emit" {
				return
			}
			var arg ssa.Value
			if len(call.Call.Args) > 0 {
				arg = call.Call.Args[len(call.Call.Args)-1]
			}
			kc, isC := arg.(*ssa.Const)
			if !isC || idVal == nil || kc.Value == nil || !constant.Compare(kc.Value, token.EQL, idVal) {
				return
			}
			nID++
			good := false
			var conds []string
			for _, ec := range controlling(call.Block()) {
				conds = append(conds, ec.String())
				if isLookupMiss(ec) || isTooLong(ec) {
					good = true
				}
			}
			r.Ob("KEYWORDS", fmt.Sprintf("identifier emission #%d happens only when the keyword lookup missed", nID), t.Pos(call.Pos()), good,
				fmt.Sprintf("emit(ID) must sit on the miss edge of the keyword-table lookup (or under a length test against a constant ≥ %d, the longest keyword); it is controlled by: %s", maxKey, strings.Join(conds, " ∧ ")))
		})
		r.FloorN("identifier emissions in lexKeywordOrIdentifier", nID, 1)
	}
}

// c07Assemble: the loops that assemble the decoded string from unquoteChar's results. unquoteChar returns a value
// >= 0x80 with multibyte=false for \xHH and \ooo (one raw byte) and with multibyte=true for \u, \U and literal
// runes (UTF-8 encoding); the caller must honour the flag.
func c07Assemble(c *Ctx, uq *ssa.Function) {
	r, t := c.R, c.T
	n := 0
	for _, f := range t.PkgFuncs(pParser) {
		var calls []*ssa.Call
		allInstrs(f, func(in ssa.Instruction) {
			if call, ok := in.(*ssa.Call); ok && call.Call.StaticCallee() == uq {
				calls = append(calls, call)
			}
		})
		for ci, call := range calls {
			n++
			var val, multi *ssa.Extract
			for _, ref := range *call.Referrers() {
				if ex, ok := ref.(*ssa.Extract); ok {
					switch ex.Index {
					case 0:
						val = ex
					case 1:
						multi = ex
					}
				}
			}
			key := fmt.Sprintf("%s unquoteChar call #%d", relName(f), ci+1)
			if val == nil {
				r.Ob("ASSEMBLE", key+" uses the decoded value", t.Pos(call.Pos()), false, "the value result is dropped")
				continue
			}
			// every UTF-8 encoding of the value happens only when multibyte is true; a single-byte append exists
			encs, okEnc, bytes := 0, true, 0
			// the places to look at: the caller itself, and a helper that is handed the value (and the multibyte flag)
			type asmCtx struct {
				g          *ssa.Function
				val, multi ssa.Value
			}
			ctxs := []asmCtx{{f, val, valueOrNil(multi)}}
			allInstrs(f, func(in ssa.Instruction) {
				hc, ok := in.(*ssa.Call)
				if !ok || hc == call {
					return
				}
				h := hc.Call.StaticCallee()
				if h == nil || h.Pkg != f.Pkg || len(h.Blocks) == 0 {
					return
				}
				ac := asmCtx{g: h}
				for k, a := range hc.Call.Args {
					if k >= len(h.Params) {
						break
					}
					if a == ssa.Value(val) {
						ac.val = h.Params[k]
					}
					if multi != nil && a == ssa.Value(multi) {
						ac.multi = h.Params[k]
					}
				}
				if ac.val != nil {
					ctxs = append(ctxs, ac)
				}
			})
			for _, ac := range ctxs {
				val, multi := ac.val, ac.multi
				allInstrs(ac.g, func(in ssa.Instruction) {
					switch x := in.(type) {
					case *ssa.Call:
						cal := x.Call.StaticCallee()
						if cal == nil || cal.Pkg == nil || cal.Pkg.Pkg.Path() != "unicode/utf8" || !strings.HasPrefix(cal.Name(), "EncodeRune") && !strings.HasPrefix(cal.Name(), "AppendRune") {
							return
						}
						uses := false
						for _, a := range x.Call.Args {
							if a == val {
								uses = true
							}
						}
						if !uses {
							return
						}
						encs++
						guarded := false
						for _, ec := range controlling(x.Block()) {
							if multi != nil && ec.Cond == multi && ec.Pol {
								guarded = true
							}
						}
						if !guarded {
							okEnc = false
						}
					case *ssa.Convert:
						if x.X == val {
							if b, ok := x.Type().Underlying().(*types.Basic); ok && b.Kind() == types.Uint8 {
								bytes++
							}
							if b, ok := x.Type().Underlying().(*types.Basic); ok && b.Kind() == types.String {
								// string(rune) encodes as UTF-8 unconditionally
								encs++
								okEnc = false
							}
						}
					}
				})
			}
			r.Ob("ASSEMBLE", key+" encodes the value as UTF-8 only when unquoteChar reports multibyte", t.Pos(call.Pos()), okEnc && encs > 0 && bytes > 0,
				fmt.Sprintf("%d UTF-8 encodings of the value (all on the multibyte==true edge: %v), %d single-byte appends — \\x80…\\xff and \\200…\\377 denote one byte, not a rune", encs, okEnc, bytes))
		}
	}
	r.FloorN("callers of unquoteChar", n, 1)
}

// c07Delims: the unquote functions strip exactly the delimiters: Unquote one byte at each end, UnquoteMultiline
// three — by slicing s[k:len(s)-k] (or TrimPrefix/TrimSuffix of the delimiter) and never by a cutset trim, which
// would also eat quote characters that belong to the text.
func c07Delims(c *Ctx) {
	r, t := c.R, c.T
	for _, spec := range []struct {
		name string
		k    int64
	}{{"Unquote", 1}, {"UnquoteMultiline", 3}} {
		f := t.Func(pParser, spec.name)
		if f == nil {
			r.Undecided("DELIMS", "parser."+spec.name, "", "unresolved anchor")
			continue
		}
		r.Fn(relName(f))
		okSlice, cutset, prefSuf := false, "", 0
		allInstrs(f, func(in ssa.Instruction) {
			switch x := in.(type) {
			case *ssa.Slice:
				if x.Low == nil || x.High == nil {
					return
				}
				lo, isC := constInt(x.Low)
				if !isC || lo != spec.k {
					return
				}
				if bo, ok := x.High.(*ssa.BinOp); ok && bo.Op == token.SUB {
					if k, isK := constInt(bo.Y); isK && k == spec.k {
						if _, isLen := lenOf(bo.X); isLen || strings.HasPrefix(path(bo.X), "len(") {
							okSlice = true
						}
					}
				}
			case *ssa.Call:
				cal := x.Call.StaticCallee()
				if cal == nil || cal.Pkg == nil || cal.Pkg.Pkg.Path() != "strings" {
					return
				}
				switch fnName(cal) {
				case "Trim", "TrimLeft", "TrimRight", "TrimFunc", "TrimLeftFunc", "TrimRightFunc":
					cutset = cal.Name()
				case "TrimPrefix", "TrimSuffix":
					prefSuf++
				}
			}
		})
		r.Ob("DELIMS", fmt.Sprintf("parser.%s strips exactly %d delimiter byte(s) at each end", spec.name, spec.k), t.Pos(f.Pos()), (okSlice || prefSuf >= 2) && cutset == "",
			fmt.Sprintf("s[%d:len(s)-%d] found: %v, TrimPrefix/TrimSuffix calls: %d, cutset trim: %q — a cutset trim also removes quote characters that are part of the text", spec.k, spec.k, okSlice, prefSuf, cutset))
	}
}

// c07EscapeRange: lexEscape is the decoder that refuses numeric escapes outside the code-point range (the unquoter,
// adapted from an old strconv, only tests `v > MaxRune` on a signed rune). Its digit loop accumulates up to eight
// hexadecimal digits, i.e. values up to 16^8-1 = 4294967295; the range test `x > max` is exact only if the accumulator
// cannot wrap before it. Rule: every loop-carried integer in lexEscape that is multiplied/shifted and added to per
// iteration has a type that holds 4294967295.
func c07EscapeRange(c *Ctx) {
	r, t := c.R, c.T
	le := t.Func(pParser, "lexEscape")
	if le == nil {
		r.Undecided("ESCAPE-RANGE", "parser.lexEscape", "", "unresolved anchor")
		return
	}
	intBits := int64(64)
	if c.T.GOARCH == "386" || c.T.GOARCH == "arm" {
		intBits = 32
	}
	holds := func(tp types.Type) (bool, string) {
		b, ok := tp.Underlying().(*types.Basic)
		if !ok {
			return false, tp.String()
		}
		switch b.Kind() {
		case types.Uint32, types.Uint64, types.Int64:
			return true, b.Name()
		case types.Uint, types.Uintptr:
			return true, b.Name()
		case types.Int:
			return intBits == 64, b.Name()
		}
		return false, b.Name()
	}
	n := 0
	escFns := []*ssa.Function{le}
	allInstrs(le, func(in ssa.Instruction) {
		if call, ok := in.(*ssa.Call); ok {
			if h := call.Call.StaticCallee(); h != nil && h.Pkg == le.Pkg && len(h.Blocks) > 0 && h != le && h.Name() != "next" && h.Name() != "errorf" && h.Name() != "backup" {
				escFns = append(escFns, h)
			}
		}
	})
	for _, le := range escFns {
		allInstrs(le, func(in ssa.Instruction) {
			ph, ok := in.(*ssa.Phi)
			if !ok {
				return
			}
			if b, isB := ph.Type().Underlying().(*types.Basic); !isB || b.Info()&types.IsInteger == 0 {
				return
			}
			// an edge that is (ph * k | ph << k) (+ | '|') d
			acc := false
			var dep func(v ssa.Value, depth int, scaled bool) bool
			dep = func(v ssa.Value, depth int, scaled bool) bool {
				if depth > 4 {
					return false
				}
				if v == ssa.Value(ph) {
					return scaled
				}
				if bo, isB := v.(*ssa.BinOp); isB {
					switch bo.Op {
					case token.MUL, token.SHL:
						return dep(bo.X, depth+1, true) || (bo.Op == token.MUL && dep(bo.Y, depth+1, true))
					case token.ADD, token.OR:
						return dep(bo.X, depth+1, scaled) || dep(bo.Y, depth+1, scaled)
					}
				}
				if cv, isC := v.(*ssa.Convert); isC {
					return dep(cv.X, depth+1, scaled)
				}
				return false
			}
			for _, e := range ph.Edges {
				if dep(e, 0, false) {
					acc = true
				}
			}
			if !acc {
				return
			}
			n++
			ok2, name := holds(ph.Type())
			r.Ob("ESCAPE-RANGE", fmt.Sprintf("lexEscape digit accumulator #%d cannot wrap below 16^8", n), t.Pos(phiPos(ph, le)), ok2,
				fmt.Sprintf("accumulator type %s; \\UHHHHHHHH accumulates up to 4294967295 before the `> max` test — a narrower or signed 32-bit type wraps and lets out-of-range escapes through", name))
		})
	}
	r.Floor("ESCAPE-RANGE", 1)
}

func phiPos(ph *ssa.Phi, f *ssa.Function) token.Pos {
	if ph.Pos().IsValid() {
		return ph.Pos()
	}
	for _, e := range ph.Edges {
		if e.Pos().IsValid() {
			return e.Pos()
		}
	}
	return f.Pos()
}

// c07QuoteOpen: what follows an opening quote. lexStatements specialised for the first rune q ∈ {", '} (hooks:
// next → q, then symbolic runes; peek → symbolic; emit → effect) may leave for lexString (an ordinary string opened by
// q), emit an empty string, or leave for lexMultilineString. Which of the three happens must depend on the following
// runes only through "is it q again": a test of a following rune against anything else (the other quote, a set of
// quote characters) makes `"'…"` an empty or a multi-line string and so rejects or mis-reads a valid literal.
func c07QuoteOpen(c *Ctx) {
	r, t := c.R, c.T
	ls := t.Func(pParser, "lexStatements")
	next := t.Method(pParser, "Lexer", "next")
	peek := t.Method(pParser, "Lexer", "peek")
	emit := t.Method(pParser, "Lexer", "emit")
	if ls == nil || next == nil || peek == nil || emit == nil {
		r.Undecided("QUOTE-OPEN", "parser.lexStatements", "", "unresolved anchor")
		return
	}
	r.Fn(relName(ls))
	reRune := regexp.MustCompile(`\b(peek|rune)#\d+(@\w+)?`)
	for _, q := range []byte{'"', '\''} {
		cfg := &specCfg{MaxLoop: 2, MaxVisits: 200000, MaxDepth: 3}
		nSym := 0
		cfg.Call = func(fn *ssa.Function, call *ssa.Call, nth int, args []sval) (sval, bool) {
			cal := call.Call.StaticCallee()
			if cal == nil {
				return sval{}, false
			}
			switch {
			case cal == next && fn == ls && nth == 1:
				return constv(constant.MakeInt64(int64(q))), true
			case cal == next:
				nSym++
				return symv(fmt.Sprintf("rune#%d", nSym)), true
			case cal == peek:
				nSym++
				return symv(fmt.Sprintf("peek#%d", nSym)), true
			case cal == emit:
				return symv("effect:emit " + args[len(args)-1].String()), true
			case fnName(cal) == "backup" || fnName(cal) == "ignore" || fnName(cal) == "Debugf":
				return symv(cal.Name()), true
			case cal.Pkg != nil && cal.Pkg.Pkg.Path() == "strings" && fnName(cal) == "HasPrefix":
				return constv(constant.MakeBool(false)), true
			case cal.Pkg != nil && (cal.Pkg.Pkg.Path() == "strings" || cal.Pkg.Pkg.Path() == "unicode"):
				var as []string
				for _, a := range args {
					as = append(as, a.String())
				}
				return symv(cal.Name() + "(" + strings.Join(as, ", ") + ")"), true
			}
			return sval{}, false
		}
		outs, ab := cfg.run(ls, []sval{symv("l")})
		key := fmt.Sprintf("what follows an opening %c decides between string, empty string and multi-line string only by being %c again", q, q)
		if ab != "" || len(outs) == 0 {
			r.Undecided("QUOTE-OPEN", key, t.Pos(ls.Pos()), "lexStatements could not be specialised for this first rune: "+ab)
			continue
		}
		want := fmt.Sprintf("== %d", q)
		bad := ""
		kinds := map[string]bool{}
		for _, o := range outs {
			ret := ""
			if len(o.Vals) == 1 {
				ret = o.Vals[0].String()
			}
			kinds[ret] = true
			for _, cd := range o.Cond {
				if strings.HasPrefix(cd, "effect:") || !reRune.MatchString(cd) {
					continue
				}
				lit := canonLit(cd)
				atom := strings.TrimLeft(lit, "+-")
				m := reRune.FindString(atom)
				if atom != m+" "+want && atom != fmt.Sprintf("%d == %s", q, m) {
					bad = cd
				}
			}
		}
		var ks []string
		for k := range kinds {
			ks = append(ks, k)
		}
		sort.Strings(ks)
		detail := fmt.Sprintf("%d outcomes (next states: %s)", len(outs), strings.Join(ks, ", "))
		if bad != "" {
			detail += "; a following rune is tested by `" + bad + "`, which is not a comparison with the opening quote"
		}
		r.Ob("QUOTE-OPEN", key, t.Pos(ls.Pos()), bad == "" && kinds["lexString"] && kinds["lexMultilineString"], detail)
	}
	r.Floor("QUOTE-OPEN", 2)
}

// reportsParseErr: f is addParseErrf / addParseErr, or a helper every path of which calls one (two levels).
func reportsParseErr(f *ssa.Function, depth int) bool {
	if f.Name() == "addParseErrf" || f.Name() == "addParseErr" {
		return true
	}
	if depth >= 2 || len(f.Blocks) == 0 || !inModule(f) {
		return false
	}
	var sites []*ssa.BasicBlock
	allInstrs(f, func(in ssa.Instruction) {
		if call, ok := in.(*ssa.Call); ok && call.Call.StaticCallee() != nil && reportsParseErr(call.Call.StaticCallee(), depth+1) {
			sites = append(sites, call.Block())
		}
	})
	// on every path: some site dominates every return
	for _, b := range f.Blocks {
		if _, isRet := b.Instrs[len(b.Instrs)-1].(*ssa.Return); !isRet {
			continue
		}
		ok := false
		for _, s := range sites {
			if s.Dominates(b) {
				ok = true
			}
		}
		if !ok {
			return false
		}
	}
	return len(sites) > 0
}

// c07NumbersSpec: newNumberLiteral specialised with the two strconv results as symbols (helpers inlined, structs
// tracked): (1) ParseInt is called on the token text with base 0 and 64 bits, ParseFloat with 64 bits; (2) whenever
// ParseInt succeeded the node built is the integer literal holding ParseInt's value and ParseFloat plays no part;
// (3) otherwise, if ParseFloat succeeded, the node is the float literal holding ParseFloat's value; (4) if both
// failed no node is built.
func c07NumbersSpec(f *ssa.Function) (okInt, okFloat, okIntVal, okFloatVal bool) {
	cfg := &specCfg{MaxLoop: 2, MaxDepth: 4, MaxAlts: 16, Consistent: true}
	intArgs, floatArgs := "", ""
	cfg.Call = func(fn *ssa.Function, call *ssa.Call, nth int, args []sval) (sval, bool) {
		cal := call.Call.StaticCallee()
		if cal == nil {
			return sval{}, false
		}
		switch fnName(cal) {
		case "ParseInt":
			intArgs = fmt.Sprint(args)
			return sval{tup: []sval{symv("INTVAL"), symv("interr")}}, true
		case "ParseFloat":
			floatArgs = fmt.Sprint(args)
			return sval{tup: []sval{symv("FLOATVAL"), symv("floaterr")}}, true
		case "LnCol", "PositionRange":
			return symv(cal.Name()), true
		case "addParseErrf", "addParseErr":
			return symv("effect:parse-error"), true
		case "WrapIntegerLiteral":
			return symv("IntegerNode" + args[0].String()), true
		case "WrapFloatLiteral":
			return symv("FloatNode" + args[0].String()), true
		}
		return sval{}, false
	}
	var args []sval
	for _, p := range f.Params {
		args = append(args, symv(pname(p)))
	}
	outs, ab := cfg.run(f, args)
	if ab != "" || len(outs) == 0 || len(f.Params) < 2 {
		return
	}
	text := pname(f.Params[1]) + ".Val"
	okInt = strings.HasPrefix(intArgs, "["+text+" 0 64")
	okFloat = strings.HasPrefix(floatArgs, "["+text+" 64")
	okIntVal, okFloatVal = true, true
	sawInt, sawFloat := false, false
	for _, o := range outs {
		if len(o.Vals) != 1 {
			return false, false, false, false
		}
		lits := map[string]bool{}
		for _, cd := range condsOnly(o.Cond) {
			lits[canonLit(cd)] = true
		}
		if os.Getenv("PLVERIF_DEBUG") == "numbers" {
			fmt.Fprintln(os.Stderr, "NUMBERS", o.Vals, sortedKeys(lits))
		}
		intOK := lits["+interr == nil"] || lits["+nil == interr"]
		intFail := lits["-interr == nil"] || lits["-nil == interr"]
		floatOK := lits["+floaterr == nil"] || lits["+nil == floaterr"]
		floatSeen := floatOK || lits["-floaterr == nil"] || lits["-nil == floaterr"]
		v := o.Vals[0].String()
		switch {
		case intOK:
			sawInt = true
			if !strings.HasPrefix(v, "IntegerNode") || !strings.Contains(v, "INTVAL") {
				okIntVal = false
			}
			if floatSeen {
				okFloat = false // the float conversion decided something although the integer conversion succeeded
			}
		case intFail && floatOK:
			sawFloat = true
			if !strings.HasPrefix(v, "FloatNode") || !strings.Contains(v, "FLOATVAL") {
				okFloatVal = false
			}
		case intFail && floatSeen:
			if !o.Vals[0].nil {
				okFloatVal = false
			}
		default:
			// a path on which the integer conversion was not consulted
			if strings.HasPrefix(v, "IntegerNode") || strings.HasPrefix(v, "FloatNode") {
				okIntVal, okFloatVal = false, false
			}
		}
	}
	if !sawInt {
		okIntVal = false
	}
	if !sawFloat {
		okFloatVal, okFloat = false, false
	}
	return
}

// c07RawQuote: a back-quoted identifier is raw — its value is the text between the quotes, no escape is decoded.
// Rule, in parser.Unquote: the branch taken when the opening byte s[0] equals '`' never reaches a call that decodes
// escapes (unquoteChar, directly or through helpers), and its successful returns hand back a slice of the argument.
// Decided on the control-flow graph: the successor of the comparison's '`' edge must not reach a decoding call.
func c07RawQuote(c *Ctx) {
	r, t := c.R, c.T
	uq := t.Func(pParser, "Unquote")
	dec := t.Func(pParser, "unquoteChar")
	if uq == nil || dec == nil || len(uq.Params) == 0 {
		r.Undecided("RAW-QUOTE", "parser.Unquote / parser.unquoteChar", "pkg/parser/strutil.go", "unresolved anchor")
		return
	}
	r.Fn(relName(uq), relName(dec))
	memo := map[*ssa.Function]int{}
	var decodes func(f *ssa.Function) bool
	decodes = func(f *ssa.Function) bool {
		if f == dec {
			return true
		}
		if f == nil || len(f.Blocks) == 0 || f.Pkg != uq.Pkg || memo[f] == 3 {
			return false
		}
		if memo[f] != 0 {
			return memo[f] == 2
		}
		memo[f] = 3
		res := false
		allInstrs(f, func(in ssa.Instruction) {
			if cal := calleeOf(in); cal != nil && cal != f && decodes(cal) {
				res = true
			}
		})
		memo[f] = 1
		if res {
			memo[f] = 2
		}
		return res
	}
	// the opening byte: s[0] of the parameter
	isOpen := func(v ssa.Value) bool {
		switch x := v.(type) {
		case *ssa.Lookup:
			i, ok := constInt(x.Index)
			return ok && i == 0 && rootOf(x.X) == ssa.Value(uq.Params[0])
		case *ssa.Index:
			i, ok := constInt(x.Index)
			return ok && i == 0 && rootOf(x.X) == ssa.Value(uq.Params[0])
		}
		return false
	}
	nCmp := 0
	for _, b := range uq.Blocks {
		iff, ok := b.Instrs[len(b.Instrs)-1].(*ssa.If)
		if !ok {
			continue
		}
		bo, ok := iff.Cond.(*ssa.BinOp)
		if !ok || (bo.Op != token.EQL && bo.Op != token.NEQ) {
			continue
		}
		var k int64
		var isK bool
		switch {
		case isOpen(bo.X):
			k, isK = constInt(bo.Y)
		case isOpen(bo.Y):
			k, isK = constInt(bo.X)
		}
		if !isK || k != '`' {
			continue
		}
		nCmp++
		raw := b.Succs[0]
		if bo.Op == token.NEQ {
			raw = b.Succs[1]
		}
		// everything reachable from the raw branch
		seen := map[*ssa.BasicBlock]bool{}
		st := []*ssa.BasicBlock{raw}
		bad, okRet, nRet := "", true, 0
		for len(st) > 0 {
			x := st[len(st)-1]
			st = st[:len(st)-1]
			if seen[x] {
				continue
			}
			seen[x] = true
			for _, in := range x.Instrs {
				if cal := calleeOf(in); cal != nil && decodes(cal) {
					bad += fmt.Sprintf(" %s at %s", cal.Name(), t.Pos(in.Pos()))
				}
				if ret, isR := in.(*ssa.Return); isR && len(ret.Results) == 2 && isNilConst(ret.Results[1]) {
					nRet++
					if rootOf(ret.Results[0]) != ssa.Value(uq.Params[0]) {
						if _, isLoad := ret.Results[0].(*ssa.UnOp); !isLoad { // named result slot: decided by the decode rule
							okRet = false
						}
					}
				}
			}
			st = append(st, x.Succs...)
		}
		why := fmt.Sprintf("%d successful return(s) on the back-quote branch, none after a decoding call", nRet)
		if bad != "" {
			why = "the back-quote branch reaches the escape decoder:" + bad + " — `a\\tb` would denote a TAB, not backslash-t"
		} else if !okRet {
			why = "a successful return on the back-quote branch hands back something other than the text between the quotes"
		}
		r.Ob("RAW-QUOTE", "parser.Unquote: a back-quoted literal is its raw text", t.Pos(bo.Pos()), bad == "" && okRet && nRet > 0, why)
	}
	if nCmp == 0 {
		r.Ob("RAW-QUOTE", "parser.Unquote: a back-quoted literal is its raw text", t.Pos(uq.Pos()), false, "no comparison of the opening byte with '`' found: back-quoted literals are not told apart")
	}
}
