// plverif decides the platypus properties C01..C20 by static analysis of /repo's current source.
package main

import (
	"encoding/json"
	"flag"
	"fmt"
	"os"
	"path/filepath"
	"runtime/debug"
	"sort"
	"strconv"
	"strings"
)

// Ctx is what a property check gets.
type Ctx struct {
	T    *Tree
	R    *Report
	Tier string
	gram *Gram
	gerr error
}

type propCheck struct {
	id    string
	run   func(c *Ctx)
	gram  bool // needs only the grammar engine (no package load)
	about string
}

var registry = map[string]*propCheck{}

func register(id string, about string, run func(c *Ctx)) {
	registry[id] = &propCheck{id: id, run: run, about: about}
}

func usage() {
	fmt.Fprintln(os.Stderr, "usage: plverif check -p Cnn [-tier quick|thorough] [-overlay variant.json] | replay <file> | selftest -p Cnn | list")
	os.Exit(2)
}

func main() {
	if len(os.Args) < 2 {
		usage()
	}
	switch os.Args[1] {
	case "check":
		os.Exit(cmdCheck(os.Args[2:]))
	case "replay":
		os.Exit(cmdReplay(os.Args[2:]))
	case "selftest":
		os.Exit(cmdSelftest(os.Args[2:]))
	case "list":
		var ids []string
		for id := range registry {
			ids = append(ids, id)
		}
		sort.Strings(ids)
		for _, id := range ids {
			fmt.Println(id, registry[id].about)
		}
	case "dump":
		os.Exit(cmdDump(os.Args[2:]))
	case "anchors": // records the unexported functions and struct layouts of the current (pinned) tree
		t, err := LoadTree(repoDir(), nil, "")
		if err != nil {
			fmt.Fprintln(os.Stderr, err)
			os.Exit(2)
		}
		if err := writeAnchors(t, filepath.Join(verifDir(), "reference", "anchors.json")); err != nil {
			fmt.Fprintln(os.Stderr, err)
			os.Exit(2)
		}
	default:
		usage()
	}
}

func seedFromEnv() int64 {
	s, _ := strconv.ParseInt(os.Getenv("VERIF_SEED"), 10, 64)
	return s
}

// runProp runs one property's rules on one configuration and returns the report.
// A panic inside a rule is an undecided obligation (fails closed), never a silent pass.
func runProp(id, tier string, overlay map[string][]byte, goarch string) (*Report, error) {
	pc := registry[id]
	if pc == nil {
		return nil, fmt.Errorf("no check registered for %s", id)
	}
	r := NewReport(id, tier)
	t, err := LoadTree(repoDir(), overlay, goarch)
	if err != nil {
		r.Undecided("LOAD", "tree", "", err.Error())
		return r, nil
	}
	resolveAnchors(t)
	c := &Ctx{T: t, R: r, Tier: tier}
	func() {
		defer func() {
			if e := recover(); e != nil {
				r.Undecided("INTERNAL", "panic in rule code", "", fmt.Sprintf("%v\n%s", e, trimStack(debug.Stack())))
			}
		}()
		pc.run(c)
	}()
	r.Extra["packages_loaded"] = len(t.Pkgs)
	if len(resolvedRenames) > 0 {
		r.Extra["resolved_renames"] = resolvedRenames
	}
	r.Extra["goarch"] = goarch
	return r, nil
}

func trimStack(b []byte) string {
	lines := strings.Split(string(b), "\n")
	if len(lines) > 24 {
		lines = lines[:24]
	}
	return strings.Join(lines, "\n")
}

func cmdCheck(args []string) int {
	fs := flag.NewFlagSet("check", flag.ExitOnError)
	p := fs.String("p", "", "property id")
	tier := fs.String("tier", os.Getenv("VERIF_TIER"), "quick|thorough")
	ov := fs.String("overlay", "", "variant file to overlay on the tree (self-test only)")
	evdir := fs.String("evidence", filepath.Join(verifDir(), "evidence"), "evidence directory")
	quiet := fs.Bool("q", false, "quiet")
	fs.Parse(args)
	if *tier == "" {
		*tier = "quick"
	}
	if *tier != "quick" && *tier != "thorough" {
		usage()
	}
	if registry[*p] == nil {
		fmt.Fprintln(os.Stderr, "unknown property", *p)
		return 2
	}
	var overlay map[string][]byte
	if *ov != "" {
		v, err := loadVariant(*ov)
		if err != nil {
			fmt.Fprintln(os.Stderr, err)
			return 2
		}
		overlay, err = v.Overlay(repoDir())
		if err != nil {
			fmt.Println("SKIP variant does not apply:", err)
			return 3
		}
		os.Setenv("PLVERIF_OVERLAY", *ov)
	}
	r, err := runProp(*p, *tier, overlay, "")
	if err != nil {
		fmt.Fprintln(os.Stderr, err)
		return 2
	}
	if *tier == "thorough" && overlay == nil {
		thorough(*p, r)
	}
	return r.Finish(seedFromEnv(), *quiet, *evdir)
}

func cmdReplay(args []string) int {
	if len(args) != 1 {
		usage()
	}
	b, err := os.ReadFile(args[0])
	if err != nil {
		fmt.Fprintln(os.Stderr, err)
		return 2
	}
	var rf replayFile
	if err := json.Unmarshal(b, &rf); err != nil {
		fmt.Fprintln(os.Stderr, err)
		return 2
	}
	var overlay map[string][]byte
	if rf.Overlay != "" {
		if v, err := loadVariant(rf.Overlay); err == nil {
			overlay, _ = v.Overlay(repoDir())
		}
	}
	r, err := runProp(rf.Property, "quick", overlay, "")
	if err != nil {
		fmt.Fprintln(os.Stderr, err)
		return 2
	}
	for _, o := range r.Obls {
		if o.Rule == rf.Ob.Rule && o.Key == rf.Ob.Key {
			fmt.Printf("replay %s [%s] %s at %s: %s — %s\n", rf.Property, o.Rule, o.Key, o.Pos, o.Status, o.Detail)
			if o.Status != stOK {
				fmt.Printf("VIOLATION property=%s replay=%s\n", rf.Property, args[0])
				return 1
			}
			return 0
		}
	}
	// the construct is gone: undecided obligations of kind FLOOR/LOAD reproduce by key too; otherwise the instance vanished
	fmt.Printf("replay %s [%s] %s: construct no longer present on the current tree\n", rf.Property, rf.Ob.Rule, rf.Ob.Key)
	return 0
}
