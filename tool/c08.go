package main

import (
	"fmt"
	"go/constant"
	"go/token"
	"go/types"
	"regexp"
	"sort"
	"strings"

	"golang.org/x/tools/go/ssa"
)

func init() {
	register("C08", "load-time checking is complete: child traversal, dispatch, registry, loop depth", checkC08)
}

// childPaths enumerates the child-node positions of an ast struct as normalised access paths
// ("LHS", "Param[*]", "KeyValeList[*][0]", "IfList[*].Block.Stmts[*]", ...).
func childPaths(t types.Type, depth int) []string {
	if depth > 3 {
		return nil
	}
	switch u := t.(type) {
	case *types.Pointer:
		if namedOf(u) == "ast.Node" {
			return []string{""}
		}
		if st, ok := u.Elem().Underlying().(*types.Struct); ok && strings.HasPrefix(namedOf(u), "ast.") {
			switch namedOf(u) {
			case "ast.BlockStmt", "ast.IfStmtElem":
				var out []string
				for i := 0; i < st.NumFields(); i++ {
					for _, p := range childPaths(st.Field(i).Type(), depth+1) {
						out = append(out, "."+st.Field(i).Name()+p)
					}
				}
				return out
			}
		}
		return nil
	case *types.Named:
		return childPaths(u.Underlying(), depth)
	case *types.Slice:
		var out []string
		for _, p := range childPaths(u.Elem(), depth+1) {
			out = append(out, "[*]"+p)
		}
		return out
	case *types.Array:
		var out []string
		for i := int64(0); i < u.Len(); i++ {
			for _, p := range childPaths(u.Elem(), depth+1) {
				out = append(out, fmt.Sprintf("[%d]", i)+p)
			}
		}
		return out
	}
	return nil
}

// kindTable derives NodeType constant -> ast struct name from the Wrap* constructors of pkg/ast.
func kindTable(t *Tree) (map[int64]string, map[string]int64) {
	k2s := map[int64]string{}
	s2k := map[string]int64{}
	for _, f := range t.PkgFuncs(pAst) {
		if !strings.HasPrefix(f.Name(), "Wrap") || len(f.Params) != 1 {
			continue
		}
		sn := namedOf(f.Params[0].Type())
		allInstrs(f, func(in ssa.Instruction) {
			if s, ok := in.(*ssa.Store); ok {
				if fa, ok := s.Addr.(*ssa.FieldAddr); ok && fieldName(fa) == "NodeType" {
					if v, ok := constInt(s.Val); ok {
						k2s[v] = strings.TrimPrefix(sn, "ast.")
						s2k[strings.TrimPrefix(sn, "ast.")] = v
					}
				}
			}
		})
	}
	return k2s, s2k
}

func nodeTypeNames(t *Tree) map[int64]string {
	out := map[int64]string{}
	sc := t.ByPath[pAst].Types.Scope()
	for _, n := range sc.Names() {
		if c, ok := sc.Lookup(n).(*types.Const); ok && namedOf(c.Type()) == "ast.NodeType" {
			if v, ok := constIntVal(c); ok {
				out[v] = n
			}
		}
	}
	return out
}

func constIntVal(c *types.Const) (int64, bool) {
	v := c.Val()
	if v == nil {
		return 0, false
	}
	var x int64
	if _, err := fmt.Sscan(v.ExactString(), &x); err != nil {
		return 0, false
	}
	return x, true
}

// parserWrittenFields: "Struct.Field" written by any parser constructor.
func parserWrittenFields(t *Tree) map[string]bool {
	out := map[string]bool{}
	for _, cs := range parserCtors(t, nil) {
		for k := range cs.Fields {
			out[k] = true
		}
		for k := range cs.Updates {
			out[k] = true
		}
	}
	return out
}

type visit struct {
	call  *ssa.Call
	path  string // normalised, relative to the struct ("LHS", "Param[*]", ...)
	whole bool   // passed as a whole list to the list visitor
	// neutral: loop conditions that do not select among children (the counter of a loop over the complete local
	// array of children)
	neutral map[ssa.Value]bool
}

// collectVisits: the child positions of prm (the node struct of check function fn) that are handed to the element
// visitor or the list visitor — directly; through a local array of children that is ranged over
// (`for _, n := range [...]*ast.Node{x.A, x.B} { visit(n) }`); or inside a same-package helper that fn hands a
// child position to (one level, the helper's parameter translated back).
func collectVisits(fn *ssa.Function, prm *ssa.Parameter, stmtV, listV *ssa.Function, checkFns map[string]*ssa.Function) []visit {
	var visits []visit
	isCheckFn := map[*ssa.Function]bool{}
	for _, f := range checkFns {
		isCheckFn[f] = true
	}
	allInstrs(fn, func(in ssa.Instruction) {
		call, ok := in.(*ssa.Call)
		if !ok {
			return
		}
		f := call.Call.StaticCallee()
		if f == nil {
			return
		}
		if f == stmtV || f == listV {
			arg := call.Call.Args[len(call.Call.Args)-1]
			if p, ok := normVisitPath(prm, arg); ok {
				visits = append(visits, visit{call: call, path: p, whole: f == listV})
				return
			}
			// an element of a local array of children
			// … `*(&arr[i])`, or `(*arr)[i]` when the range statement copied the array first
			type elemRef struct {
				X     ssa.Value
				Index ssa.Value
			}
			var ia *elemRef
			if ld, isL := arg.(*ssa.UnOp); isL && ld.Op == token.MUL {
				if x, isI := ld.X.(*ssa.IndexAddr); isI {
					ia = &elemRef{x.X, x.Index}
				}
			}
			if ix, isIx := arg.(*ssa.Index); isIx {
				if ld, isL := ix.X.(*ssa.UnOp); isL && ld.Op == token.MUL {
					ia = &elemRef{ld.X, ix.Index}
				}
			}
			if ia != nil {
				{
					if arr, isA := ia.X.(*ssa.Alloc); isA && arrayLen(arr.Type()) >= 0 {
						// the loop that walks the array: `idx < len` (index loop) or the range form, over all of it
						neutral := map[ssa.Value]bool{}
						for _, ec := range controlling(call.Block()) {
							if bo, isB := ec.Cond.(*ssa.BinOp); isB && bo.Op == token.LSS && ec.Pol {
								if k, isC := constInt(bo.Y); isC && k == arrayLen(arr.Type()) && (bo.X == ia.Index || path(bo.X) == path(ia.Index)) {
									neutral[ec.Cond] = true
								}
							}
						}
						for _, ref := range *arr.Referrers() {
							ia2, isI2 := ref.(*ssa.IndexAddr)
							if !isI2 {
								continue
							}
							if _, isC := constInt(ia2.Index); !isC {
								continue
							}
							for _, rr := range *ia2.Referrers() {
								if st, isS := rr.(*ssa.Store); isS && st.Addr == ssa.Value(ia2) {
									if p, ok := normVisitPath(prm, st.Val); ok {
										visits = append(visits, visit{call, p, f == listV, neutral})
									}
								}
							}
						}
					}
				}
			}
			return
		}
		// a helper that receives child positions (directly, or as the elements of a variadic list)
		if pkgOf(f) != fn.Pkg || len(f.Blocks) == 0 || isCheckFn[f] {
			return
		}
		for _, sv := range helperVisitSummary(f, stmtV, listV, isCheckFn, 0) {
			if sv.param >= len(call.Call.Args) {
				continue
			}
			a := call.Call.Args[sv.param]
			if a == ssa.Value(prm) && strings.HasPrefix(sv.suffix, ".") {
				visits = append(visits, visit{call: call, path: sv.suffix[1:], whole: sv.whole})
				continue
			}
			if ap, ok := normVisitPath(prm, a); ok {
				visits = append(visits, visit{call: call, path: ap + sv.suffix, whole: sv.whole})
				continue
			}
			if strings.HasPrefix(sv.suffix, "[*]") {
				for _, el := range variadicElems(a) {
					if ep, ok := normVisitPath(prm, el); ok {
						visits = append(visits, visit{call: call, path: ep + sv.suffix[3:], whole: sv.whole})
					}
				}
			}
		}
	})
	return visits
}

// rejectingOther: the arm not taken by this edge rejects (returns an error).
func rejectingOther(ec edgeCond) bool {
	other := ec.If.Succs[1]
	if !ec.Pol {
		other = ec.If.Succs[0]
	}
	return rejecting(other)
}

func normVisitPath(prm *ssa.Parameter, arg ssa.Value) (string, bool) {
	p := path(arg)
	pre := pname(prm) + "."
	if !strings.HasPrefix(p, pre) {
		return p, false
	}
	return p[len(pre):], true
}

func checkC08(c *Ctx) {
	r, t := c.R, c.T
	r.Explanation = "Decides, exhaustively over the AST type definitions and for both check passes (pkg/engine/runtime/checkstmt.go and pkg/engine/runtimev2/r_check.go): (1) CHILD-VISIT: for every ast struct and every child position of it that the parser can fill (fields of type *Node, []*Node, [][2]*Node, Stmts, *BlockStmt, IfList and their nested positions), the check function dispatched for that node kind calls RunStmtCheck/RunStmtsCheck on exactly that position, and every branch condition controlling that call is a nil test of the same position, the range loop over it, the error exit of an earlier visit, or a test whose other arm rejects; (2) DISPATCH: RunStmtCheck has an arm `NodeType == K -> check(node.K())` for every kind whose struct has children (kind↔struct table derived from the ast.Wrap* constructors); (3) CALL-CHECK: RunCallExprCheck rejects an unknown function, visits the arguments, rejects a missing checker and returns the checker's verdict; FuncsMap and FuncsCheckMap have the same key set; every registered checker can reject (has a non-nil return) unless the builtin accepts any call; (4) LOOP-DEPTH: both loop checks push the loop marker before and pop it after the body visit, break/continue reject exactly when the marker stack is empty; (5) LOAD-CHECKS: ParseScript/ParseV2 accept a script only on the nil-error arm of Check, and Check runs the statement-list visitor on the whole script. Not decided: that the per-builtin shape rules are *right* (never reject a valid call) beyond the frozen shape table; where the error points (C17). Also included (shared with C19): the rules on the v2 argument-shape helpers CheckFnParamDef/CheckPassParam/GetParam (REJECTS, PLACEMENT, DEAD-GUARD, GETTERS), through which a v2 function table enforces arity and named-argument rules at load time."
	k2s, s2k := kindTable(t)
	r.FloorN("node kinds with Wrap constructor", len(k2s), 24)
	written := parserWrittenFields(t)
	for _, rtp := range []string{pRT, pRT2} {
		c08Pass(c, rtp, k2s, s2k, written)
	}
	c08Registry(c)
	c08LoadChecks(c)
	// v2: a call's argument shape is enforced by the library helpers the host checkers call
	c19Rules(c)
}

func c08Pass(c *Ctx, rtp string, k2s map[int64]string, s2k map[string]int64, written map[string]bool) {
	r, t := c.R, c.T
	pk := t.SSA[rtp]
	tag := pk.Pkg.Name()
	stmtV := pkgFunc(pk, "RunStmtCheck")
	listV := pkgFunc(pk, "RunStmtsCheck")
	if stmtV == nil || listV == nil {
		r.Undecided("ANCHOR", tag+".RunStmtCheck/RunStmtsCheck", "", "visitor functions not found")
		return
	}
	r.Fn(relName(stmtV), relName(listV))
	// check functions = static callees of the dispatcher taking a *ast.S
	checkFns := map[string]*ssa.Function{} // struct name -> fn
	dispatchCall := map[string]*ssa.Call{}
	allInstrs(stmtV, func(in ssa.Instruction) {
		call, ok := in.(*ssa.Call)
		if !ok {
			return
		}
		f := call.Call.StaticCallee()
		if f == nil || f.Pkg != pk || len(f.Params) == 0 {
			return
		}
		last := f.Params[len(f.Params)-1]
		sn := namedOf(last.Type())
		if strings.HasPrefix(sn, "ast.") && sn != "ast.Node" {
			checkFns[strings.TrimPrefix(sn, "ast.")] = f
			dispatchCall[strings.TrimPrefix(sn, "ast.")] = call
		}
	})
	// list visitor: ranges nodes and visits each, returning the first error
	{
		ok := false
		allInstrs(listV, func(in ssa.Instruction) {
			if call, ok2 := in.(*ssa.Call); ok2 && call.Call.StaticCallee() == stmtV {
				if p := path(call.Call.Args[len(call.Call.Args)-1]); strings.HasSuffix(p, "[*]") && strings.HasPrefix(p, pname(listV.Params[len(listV.Params)-1])) {
					ok = true
				}
			}
		})
		if !ok {
			// … or hands its list to a helper of the package that does (one level; generic helpers included)
			lp := listV.Params[len(listV.Params)-1]
			allInstrs(listV, func(in ssa.Instruction) {
				call, ok2 := in.(*ssa.Call)
				if !ok2 {
					return
				}
				h := call.Call.StaticCallee()
				if h == nil || pkgOf(h) != pk || len(h.Blocks) == 0 || len(controlling(call.Block())) != 0 {
					return
				}
				for k, a := range call.Call.Args {
					if ct, isCT := a.(*ssa.ChangeType); isCT {
						a = ct.X
					}
					if a != ssa.Value(lp) || k >= len(h.Params) {
						continue
					}
					allInstrs(h, func(i2 ssa.Instruction) {
						if c2, isC := i2.(*ssa.Call); isC && c2.Call.StaticCallee() == stmtV {
							if p := path(c2.Call.Args[len(c2.Call.Args)-1]); strings.HasSuffix(p, "[*]") && strings.HasPrefix(p, pname(h.Params[k])) {
								ok = true
							}
						}
					})
				}
			})
		}
		r.Ob("CHILD-VISIT", tag+".RunStmtsCheck visits nodes[*]", t.Pos(listV.Pos()), ok, "the list visitor must visit every element")
	}
	astPkg := t.ByPath[pAst].Types
	var structs []string
	for _, n := range astPkg.Scope().Names() {
		if tn, ok := astPkg.Scope().Lookup(n).(*types.TypeName); ok {
			if _, ok := tn.Type().Underlying().(*types.Struct); ok {
				structs = append(structs, n)
			}
		}
	}
	sort.Strings(structs)
	nChild := 0
	for _, sn := range structs {
		if sn == "Node" || sn == "BlockStmt" || sn == "IfStmtElem" {
			continue
		}
		st := astPkg.Scope().Lookup(sn).Type().Underlying().(*types.Struct)
		var want []string
		for i := 0; i < st.NumFields(); i++ {
			f := st.Field(i)
			if !written[sn+"."+f.Name()] {
				continue // never filled by the parser (e.g. CallExpr.ParamNormalized)
			}
			for _, p := range childPaths(f.Type(), 0) {
				want = append(want, f.Name()+p)
			}
		}
		if len(want) == 0 {
			continue
		}
		kind, hasKind := s2k[sn]
		if !hasKind {
			continue
		}
		fn := checkFns[sn]
		key := fmt.Sprintf("%s dispatch %s", tag, sn)
		if fn == nil {
			r.Ob("DISPATCH", key, t.Pos(stmtV.Pos()), false, fmt.Sprintf("RunStmtCheck has no arm for node kind %s, whose struct has child positions %v", sn, want))
			continue
		}
		// dispatch arm: controlled by node.NodeType == kind, argument is node.<S>()
		dc := dispatchCall[sn]
		okArm := false
		for _, ec := range controlling(dc.Block()) {
			if bo, ok := ec.Cond.(*ssa.BinOp); ok && bo.Op == token.EQL && ec.Pol {
				if v, ok := constInt(bo.Y); ok && v == kind && strings.HasSuffix(path(bo.X), ".NodeType") {
					okArm = true
				}
			}
		}
		argOK := strings.HasSuffix(path(dc.Call.Args[len(dc.Call.Args)-1]), "."+sn+"()")
		r.Ob("DISPATCH", key, t.Pos(dc.Pos()), okArm && argOK, fmt.Sprintf("arm must be `NodeType == %d` passing node.%s(); arg is %s", kind, sn, path(dc.Call.Args[len(dc.Call.Args)-1])))
		r.Fn(relName(fn))
		// visits inside fn
		prm := fn.Params[len(fn.Params)-1]
		visits := collectVisits(fn, prm, stmtV, listV, checkFns)
		for _, w := range want {
			nChild++
			key := fmt.Sprintf("%s.%s child %s.%s", tag, fn.Name(), sn, w)
			var hit *visit
			for i := range visits {
				v := &visits[i]
				vp := v.path
				if v.whole {
					vp += "[*]"
				}
				if vp == w {
					hit = v
				}
			}
			if hit == nil {
				// ForInStmt.Varb idiom: constrained to a leaf kind by a rejecting test instead of a visit
				if leafConstrained(fn, prm, w) {
					r.Ob("CHILD-VISIT", key, t.Pos(fn.Pos()), true, "position is constrained to a leaf node kind by a rejecting NodeType test")
					continue
				}
				var got []string
				for _, v := range visits {
					got = append(got, v.path)
				}
				r.Ob("CHILD-VISIT", key, t.Pos(fn.Pos()), false, fmt.Sprintf("the check pass never visits this child position (visited: %v): an invalid call placed there is accepted at load time", got))
				continue
			}
			// classify the controlling conditions
			var foreign, facts []string
			for _, ec := range controlling(hit.call.Block()) {
				if hit.neutral[ec.Cond] {
					continue
				}
				if bo, isB := ec.Cond.(*ssa.BinOp); isB && isNilConst(bo.Y) && len(hit.call.Call.Args) > 0 && bo.X == hit.call.Call.Args[len(hit.call.Call.Args)-1] &&
					((bo.Op == token.NEQ && ec.Pol) || (bo.Op == token.EQL && !ec.Pol)) {
					continue // a nil test of the very value that is visited (an element of the local array of children)
				}
				cls := classifyGuard(ec, prm, w, stmtV, listV)
				facts = append(facts, ec.String()+" ["+cls+"]")
				if cls == "foreign" {
					foreign = append(foreign, ec.String())
				}
			}
			r.Ob("CHILD-VISIT", key, t.Pos(hit.call.Pos()), len(foreign) == 0,
				fmt.Sprintf("visit is controlled by a condition unrelated to this child: %v — when it is false the child is skipped and an invalid call there is accepted", foreign), facts...)
		}
	}
	if rtp == pRT {
		r.FloorN("child positions v1", nChild, 28)
	} else {
		r.FloorN("child positions v2", nChild, 28)
	}

	// CALL-CHECK
	if cf := checkFns["CallExpr"]; cf != nil {
		c08CallCheck(c, tag, cf, listV)
	} else {
		r.Undecided("CALL-CHECK", tag+" RunCallExprCheck", "", "no check function for CallExpr")
	}
	// LOOP-DEPTH
	for _, sn := range []string{"ForStmt", "ForInStmt"} {
		if fn := checkFns[sn]; fn != nil {
			c08LoopDepth(c, tag, fn, listV)
		}
	}
	for _, sn := range []string{"BreakStmt", "ContinueStmt"} {
		fn := checkFns[sn]
		if fn == nil {
			// no children: resolve through the dispatcher by struct name
			allInstrs(stmtV, func(in ssa.Instruction) {
				if call, ok := in.(*ssa.Call); ok {
					if f := call.Call.StaticCallee(); f != nil && f.Pkg == pk && len(f.Params) > 0 && namedOf(f.Params[len(f.Params)-1].Type()) == "ast."+sn {
						fn = f
					}
				}
			})
		}
		if fn == nil {
			r.Ob("LOOP-DEPTH", tag+" "+sn+" check", "", false, "no check function dispatched for "+sn)
			continue
		}
		r.Fn(relName(fn))
		// exactly: if len(ctxCheck.forstmt) == 0 -> reject; else accept — decided on the function's outcomes (helpers
		// and methods of the check context inlined): every error outcome requires the marker stack to be empty,
		// every accepting outcome requires it to be non-empty
		ok := false
		{
			cfg := &specCfg{MaxLoop: 2, MaxDepth: 3, Call: stdErrCall}
			var args []sval
			for _, p := range fn.Params {
				args = append(args, symv(pname(p)))
			}
			outs, ab := cfg.run(fn, args)
			nErr, nOK, bad := 0, 0, false
			for _, o := range outs {
				if len(o.Vals) != 1 {
					bad = true
					continue
				}
				empty, nonEmpty := false, false
				for _, cd := range condsOnly(o.Cond) {
					if z, known := markerEmptyLit(canonLit(cd)); known {
						if z {
							empty = true
						} else {
							nonEmpty = true
						}
					}
				}
				switch errClass(o.Vals[0]) {
				case "error":
					nErr++
					if !empty || nonEmpty {
						bad = true
					}
				case "nil":
					nOK++
					if !nonEmpty || empty {
						bad = true
					}
				default:
					bad = true
				}
			}
			ok = ab == "" && !bad && nErr > 0 && nOK > 0
		}
		r.Ob("LOOP-DEPTH", tag+" "+fn.Name()+" rejects iff no enclosing loop", t.Pos(fn.Pos()), ok, "must return an error exactly when the loop-marker stack is empty")
	}
}

// leafConstrained: fn tests prm.<w>.NodeType and every non-identifier arm rejects.
func leafConstrained(fn *ssa.Function, prm *ssa.Parameter, w string) bool {
	for _, b := range fn.Blocks {
		iff, ok := b.Instrs[len(b.Instrs)-1].(*ssa.If)
		if !ok {
			continue
		}
		bo, ok := iff.Cond.(*ssa.BinOp)
		if !ok || (bo.Op != token.EQL && bo.Op != token.NEQ) {
			continue
		}
		rej := b.Succs[1] // the arm taken when the kind differs
		if bo.Op == token.NEQ {
			rej = b.Succs[0]
		}
		if path(bo.X) == pname(prm)+"."+w+".NodeType" && rejecting(rej) {
			return true
		}
	}
	return false
}

func classifyGuard(ec edgeCond, prm *ssa.Parameter, w string, stmtV, listV *ssa.Function) string {
	other := ec.If.Succs[1]
	if !ec.Pol {
		other = ec.If.Succs[0]
	}
	if rejecting(other) {
		return "other-arm-rejects"
	}
	switch cnd := ec.Cond.(type) {
	case *ssa.BinOp:
		x, y := path(cnd.X), path(cnd.Y)
		// self nil test: path is a prefix of prm.w
		full := pname(prm) + "." + w
		if y == "nil" && (cnd.Op == token.NEQ && ec.Pol || cnd.Op == token.EQL && !ec.Pol) {
			if strings.HasPrefix(stripIdx(full), stripIdx(x)) && strings.HasPrefix(x, pname(prm)+".") {
				return "self-nil-test"
			}
		}
		// earlier visit's error exit: `err != nil` false edge, err a call result
		if y == "nil" && (cnd.Op == token.NEQ && !ec.Pol || cnd.Op == token.EQL && ec.Pol) {
			if call, ok := cnd.X.(*ssa.Call); ok {
				if f := call.Call.StaticCallee(); f != nil && (f == stmtV || f == listV) {
					return "earlier-visit-ok"
				}
			}
		}
		// range loop bound: rangeindex < len
		if cnd.Op == token.LSS && strings.Contains(x, "phi:") && strings.HasPrefix(y, "len(") {
			return "range-loop"
		}
		if ph, ok := cnd.X.(*ssa.BinOp); ok && cnd.Op == token.LSS {
			if p, ok := ph.X.(*ssa.Phi); ok && p.Comment == "rangeindex" && strings.HasPrefix(y, "len(") {
				return "range-loop"
			}
		}
	case *ssa.Extract:
		if _, ok := cnd.Tuple.(*ssa.Next); ok {
			return "range-loop"
		}
	}
	return "foreign"
}

func stripIdx(s string) string {
	s = strings.ReplaceAll(s, "[*]", "")
	return s
}

func c08CallCheck(c *Ctx, tag string, cf, listV *ssa.Function) {
	r, t := c.R, c.T
	prm := cf.Params[len(cf.Params)-1]
	var getCall, getCheck, dyn *ssa.Call
	var visitParams *ssa.Call
	elementLoop := false
	allInstrs(cf, func(in ssa.Instruction) {
		call, ok := in.(*ssa.Call)
		if !ok {
			return
		}
		if f := call.Call.StaticCallee(); f != nil {
			switch f.Name() {
			case "GetFuncCall", "GetFn":
				getCall = call
			case "GetFuncCheck", "GetFnCheck":
				getCheck = call
			}
			if f == listV && path(call.Call.Args[len(call.Call.Args)-1]) == pname(prm)+".Param" {
				visitParams = call
			}
			// or the element visitor applied to every expr.Param[*] in a loop over the whole list
			if f != listV && f.Pkg == cf.Pkg && f.Name() == "RunStmtCheck" && path(call.Call.Args[len(call.Call.Args)-1]) == pname(prm)+".Param[*]" {
				visitParams, elementLoop = call, true
			}
		} else if !call.Call.IsInvoke() {
			if _, isB := call.Call.Value.(*ssa.Builtin); !isB {
				dyn = call
			}
		}
	})
	key := tag + "." + cf.Name()
	missRejects := func(get *ssa.Call) bool {
		if get == nil {
			return false
		}
		// the `ok` result (#1) false edge rejects
		for _, b := range cf.Blocks {
			iff, isIf := b.Instrs[len(b.Instrs)-1].(*ssa.If)
			if !isIf {
				continue
			}
			if ex, ok := iff.Cond.(*ssa.Extract); ok && ex.Tuple == ssa.Value(get) && ex.Index == 1 {
				return rejecting(b.Succs[1]) && !rejecting(b.Succs[0])
			}
		}
		return false
	}
	nameArg := func(get *ssa.Call) bool {
		return get != nil && path(get.Call.Args[len(get.Call.Args)-1]) == pname(prm)+".Name"
	}
	// the same four facts decided on the function's outcomes (phases split into helpers are inlined)
	sp := c08CallCheckSpec(cf, prm, listV)
	r.Ob("CALL-CHECK", key+" rejects unknown function", t.Pos(cf.Pos()), (missRejects(getCall) && nameArg(getCall)) || sp.unknown, "a call whose name is not in the function table must be rejected")
	r.Ob("CALL-CHECK", key+" rejects missing checker", t.Pos(cf.Pos()), (missRejects(getCheck) && nameArg(getCheck)) || sp.missing, "a call without a registered checker must be rejected")
	okv := visitParams != nil
	if okv {
		for _, ec := range controlling(visitParams.Block()) {
			other := ec.If.Succs[1]
			if !ec.Pol {
				other = ec.If.Succs[0]
			}
			if elementLoop {
				// the loop's own continuation test over the same list is not a condition on the visit
				cs := ec.String()
				if strings.Contains(cs, "< len("+pname(prm)+".Param)") || strings.Contains(cs, "rangeindex") {
					continue
				}
			}
			if !rejecting(other) {
				okv = false
			}
		}
	}
	r.Ob("CALL-CHECK", key+" visits arguments", t.Pos(cf.Pos()), okv || sp.visits, "expr.Param must be visited unconditionally (after the unknown-function rejection)")
	// the dynamic call is the looked-up checker applied to (ctx, expr) and its result is returned
	okd := false
	if dyn != nil && getCheck != nil {
		if ex, ok := dyn.Call.Value.(*ssa.Extract); ok && ex.Tuple == ssa.Value(getCheck) && ex.Index == 0 {
			if len(dyn.Call.Args) == 2 && dyn.Call.Args[1] == ssa.Value(prm) {
				for _, ref := range *dyn.Referrers() {
					if ret, ok := ref.(*ssa.Return); ok && ret.Results[0] == ssa.Value(dyn) {
						okd = true
					}
				}
			}
		}
	}
	r.Ob("CALL-CHECK", key+" returns the checker's verdict", t.Pos(cf.Pos()), okd || sp.verdict, "the registered checker must be applied to this call expression and its result returned")
}

// markerStoreEffect: +1 for `x.forstmt = append(x.forstmt, …)`, -1 for `x.forstmt = x.forstmt[:len-1]`, else 0.
func markerStoreEffect(in ssa.Instruction) int {
	s, ok := in.(*ssa.Store)
	if !ok {
		return 0
	}
	fa, ok := s.Addr.(*ssa.FieldAddr)
	if !ok || fieldName(fa) != "forstmt" {
		return 0
	}
	switch v := s.Val.(type) {
	case *ssa.Call:
		if builtinName(v) == "append" {
			return 1
		}
	case *ssa.Slice:
		if v.High != nil {
			return -1
		}
	}
	return 0
}

// markerCallEffect: net effect of calling an in-package helper on the loop-marker stack (depth 1):
// the helper must contain exactly one marker store for the effect to be attributed.
func markerCallEffect(cc *ssa.CallCommon, pk *ssa.Package) int {
	f := cc.StaticCallee()
	if f == nil || f.Pkg != pk || len(f.Blocks) == 0 {
		return 0
	}
	eff, n := 0, 0
	allInstrs(f, func(in ssa.Instruction) {
		if e := markerStoreEffect(in); e != 0 {
			eff += e
			n++
		}
	})
	if n == 1 {
		return eff
	}
	return 0
}

// c08LoopDepth: the loop-marker stack is exactly one deeper while the body is visited and exactly balanced at
// every success return (pushes/pops directly, through one-level helpers, and through defers).
func c08LoopDepth(c *Ctx, tag string, fn, listV *ssa.Function) {
	r, t := c.R, c.T
	prm := fn.Params[len(fn.Params)-1]
	var body *ssa.Call // the body visit, in fn
	var via *ssa.Call  // or: fn's call to a helper that (itself or through further helpers) visits the body …
	var chain []*ssa.Call
	var bodyChain func(f *ssa.Function, isBody func(ssa.Value) bool, depth int) []*ssa.Call
	bodyChain = func(f *ssa.Function, isBody func(ssa.Value) bool, depth int) []*ssa.Call {
		var found []*ssa.Call
		allInstrs(f, func(in ssa.Instruction) {
			x, ok := in.(*ssa.Call)
			if !ok || found != nil {
				return
			}
			h := x.Call.StaticCallee()
			if h == nil {
				return
			}
			if h == listV {
				if isBody(x.Call.Args[len(x.Call.Args)-1]) {
					found = []*ssa.Call{x}
				}
				return
			}
			if h.Pkg != fn.Pkg || len(h.Blocks) == 0 || depth >= 3 || h == f {
				return
			}
			for k, a := range x.Call.Args {
				if k >= len(h.Params) || !isBody(a) {
					continue
				}
				hp := h.Params[k]
				if sub := bodyChain(h, func(v ssa.Value) bool { return rootOf(v) == ssa.Value(hp) }, depth+1); sub != nil {
					found = append([]*ssa.Call{x}, sub...)
					return
				}
			}
		})
		return found
	}
	chain = bodyChain(fn, func(v ssa.Value) bool { return strings.HasPrefix(path(v), pname(prm)+".Body") }, 0)
	switch {
	case len(chain) == 1:
		body = chain[0]
	case len(chain) > 1:
		via = chain[0]
	}
	key := tag + "." + fn.Name()
	if body == nil && via == nil {
		r.Ob("LOOP-DEPTH", key+" marker around body", t.Pos(fn.Pos()), false, "body visit not found")
		return
	}
	// state = (delta+2)*3 + deferredPops, delta in -2..2, deferredPops in 0..2
	enc := func(delta, def int) int {
		if delta < -2 {
			delta = -2
		}
		if delta > 2 {
			delta = 2
		}
		if def > 2 {
			def = 2
		}
		return (delta+2)*3 + def
	}
	dec := func(st int) (int, int) { return st/3 - 2, st % 3 }
	// net effect of a helper on every one of its success returns, when it is the same on all of them
	var flow func(f *ssa.Function, depth int) map[ssa.Instruction]uint16
	helperEffect := func(cc *ssa.CallCommon, depth int) int {
		h := cc.StaticCallee()
		if h == nil || h.Pkg != fn.Pkg || len(h.Blocks) == 0 || depth > 1 {
			return 0
		}
		bf := flow(h, depth+1)
		eff, set := 0, false
		okAll := true
		allInstrs(h, func(in ssa.Instruction) {
			ret, ok := in.(*ssa.Return)
			if !ok || ret.Block() == h.Recover || (len(ret.Results) > 0 && retError(ret) == "nonnil") {
				return
			}
			for st := 0; st < 15; st++ {
				if bf[ret]&(1<<uint(st)) != 0 {
					d, _ := dec(st)
					if set && d != eff {
						okAll = false
					}
					eff, set = d, true
				}
			}
		})
		if okAll && set {
			return eff
		}
		return 0
	}
	flow = func(f *ssa.Function, depth int) map[ssa.Instruction]uint16 {
		ts := &typestate{fn: f, nstate: 15, init: enc(0, 0), successOnly: true}
		ts.trans = func(in ssa.Instruction, st int) int {
			delta, def := dec(st)
			switch x := in.(type) {
			case *ssa.Store:
				delta += markerStoreEffect(in)
			case *ssa.Call:
				delta += helperEffect(&x.Call, depth)
			case *ssa.Defer:
				if e := helperEffect(&x.Call, depth); e < 0 {
					def += -e
				} else if mc, ok := x.Call.Value.(*ssa.MakeClosure); ok {
					allInstrs(mc.Fn.(*ssa.Function), func(in2 ssa.Instruction) {
						if markerStoreEffect(in2) < 0 {
							def++
						}
					})
				}
			case *ssa.RunDefers:
				delta -= def
				def = 0
			}
			return enc(delta, def)
		}
		return ts.run()
	}
	before := flow(fn, 0)
	if body == nil {
		// the body is visited inside helpers: depth at the helper call + depth inside each helper before the next call
		sets := [][]int{}
		collect := func(m uint16) []int {
			var ds []int
			for s := 0; s < 15; s++ {
				if m&(1<<uint(s)) != 0 {
					d, _ := dec(s)
					ds = append(ds, d)
				}
			}
			return ds
		}
		sets = append(sets, collect(before[via]))
		for i := 1; i < len(chain); i++ {
			hf := chain[i-1].Call.StaticCallee()
			sets = append(sets, collect(flow(hf, 1)[chain[i]]))
		}
		okBody := true
		var sum func(i, acc int)
		sum = func(i, acc int) {
			if i == len(sets) {
				if acc != 1 {
					okBody = false
				}
				return
			}
			if len(sets[i]) == 0 {
				okBody = false
				return
			}
			for _, d := range sets[i] {
				sum(i+1, acc+d)
			}
		}
		sum(0, 0)
		r.Ob("LOOP-DEPTH", key+" pushes the loop marker before the body visit", t.Pos(via.Pos()), okBody,
			"while the body is checked (inside "+fnName(via.Call.StaticCallee())+") the marker stack must be exactly one deeper than at entry")
		body = via
	} else {
		okBody := true
		for st := 0; st < 15; st++ {
			if before[body]&(1<<uint(st)) != 0 {
				if d, _ := dec(st); d != 1 {
					okBody = false
				}
			}
		}
		r.Ob("LOOP-DEPTH", key+" pushes the loop marker before the body visit", t.Pos(body.Pos()), okBody,
			"while the body is checked the marker stack must be exactly one deeper than at entry")
	}
	describe := func(m uint16) string {
		var ds []string
		for st := 0; st < 15; st++ {
			if m&(1<<uint(st)) != 0 {
				d, f := dec(st)
				ds = append(ds, fmt.Sprintf("depth%+d/deferred-pops=%d", d, f))
			}
		}
		return strings.Join(ds, ", ")
	}
	// at every success return: exactly 0
	okRet := true
	var where ssa.Instruction
	allInstrs(fn, func(in ssa.Instruction) {
		ret, ok := in.(*ssa.Return)
		if !ok || ret.Block() == fn.Recover || retError(ret) == "nonnil" {
			return
		}
		for st := 0; st < 15; st++ {
			if before[ret]&(1<<uint(st)) != 0 {
				if d, _ := dec(st); d != 0 {
					okRet = false
					where = ret
				}
			}
		}
	})
	pos := t.Pos(body.Pos())
	detail := "balanced at every success return"
	if where != nil {
		pos = t.Pos(where.Pos())
		detail = "at this success return the marker stack is not back at its entry depth (" + describe(before[where]) + "): a marker left behind makes a break/continue after the loop look valid, a marker popped twice makes a valid break/continue of the enclosing loop look invalid"
	}
	r.Ob("LOOP-DEPTH", key+" pops the loop marker after the body visit", pos, okRet, detail)
}

// c08Registry: FuncsMap and FuncsCheckMap have equal key sets; every checker has a rejecting path or is in the frozen accept-all list.
func c08Registry(c *Ctx) {
	r, t := c.R, c.T
	run, chk := registryMaps(t)
	if len(run) == 0 || len(chk) == 0 {
		r.Undecided("REGISTRY", "funcs.FuncsMap/FuncsCheckMap", "pkg/inimpl/guancecloud/funcs/all.go", "registry maps not resolved")
		return
	}
	for _, k := range sortedKeys(run) {
		_, ok := chk[k]
		r.Ob("REGISTRY", "builtin "+k+" has a checker", t.Pos(run[k].Pos()), ok, "every callable builtin needs a load-time checker")
	}
	for _, k := range sortedKeys(chk) {
		_, ok := run[k]
		r.Ob("REGISTRY", "checker "+k+" has a builtin", t.Pos(chk[k].Pos()), ok, "a checker without runner means the call is accepted at load time and fails at run time")
		if ok {
			r.Fn(relName(chk[k]))
		}
	}
	r.Floor("REGISTRY", 46)
	// distinct functions: no two names share a checker unless they share the runner too
	byChk := map[*ssa.Function][]string{}
	for k, f := range chk {
		byChk[f] = append(byChk[f], k)
	}
	for f, ks := range byChk {
		if len(ks) > 1 {
			sort.Strings(ks)
			same := true
			for _, k := range ks[1:] {
				if run[k] != run[ks[0]] {
					same = false
				}
			}
			r.Ob("REGISTRY", fmt.Sprintf("checker %s shared by %v", f.Name(), ks), t.Pos(f.Pos()), same, "a shape checker shared between different builtins validates one of them with the other's rules")
		}
	}
	// every checker validates arity: has a non-nil return guarded by a len(Param) comparison
	arity := checkerSummaries(t)
	for _, k := range sortedKeys(chk) {
		f := chk[k]
		hasLen := false
		hasReject := false
		allInstrs(f, func(in ssa.Instruction) {
			if ret, ok := in.(*ssa.Return); ok && retError(ret) == "nonnil" {
				hasReject = true
			}
			if iff, ok := in.(*ssa.If); ok {
				if strings.Contains(condStr(iff.Cond), "len(") && strings.Contains(condStr(iff.Cond), ".Param") {
					hasLen = true
				}
			}
		})
		if !hasLen || !hasReject {
			// the tests may sit in a validation helper: the checker's arity summary (length dataflow through helpers'
			// nil-error returns) then still excludes some argument counts, and some return hands on an error
			if m, ok := arity[k]; ok && m != lenAll {
				hasLen = true
			}
			allInstrs(f, func(in ssa.Instruction) {
				if ret, ok := in.(*ssa.Return); ok && len(ret.Results) > 0 && retError(ret) != "nil" {
					hasReject = true
				}
			})
		}
		detail := ""
		if !hasLen || !hasReject {
			// … or in a helper that takes the bounds as arguments: the checker specialised for each argument count
			// 0..8 must reject at least one of them on every path
			if rej, acc, ok := checkerArityBySpec(f); ok {
				detail = fmt.Sprintf(" (specialised per argument count: rejects %v, may accept %v)", rej, acc)
				if len(rej) > 0 {
					hasLen, hasReject = true, true
				}
			}
		}
		r.Ob("CHECKER-ARITY", "checker of "+k, t.Pos(f.Pos()), hasLen && hasReject, "a builtin's checker must test len(funcExpr.Param) and be able to reject"+detail)
	}
	r.Floor("CHECKER-ARITY", 23)
}

// checkedOnNilArm: instruction `at` is controlled by the nil arm of script.Check(...) for this very script value.
func checkedOnNilArm(at ssa.Instruction, script ssa.Value) bool {
	for _, ec := range controlling(at.Block()) {
		if bo, ok := ec.Cond.(*ssa.BinOp); ok && isNilConst(bo.Y) {
			if call, ok := bo.X.(*ssa.Call); ok && call.Call.StaticCallee() != nil && fnName(call.Call.StaticCallee()) == "Check" {
				if (bo.Op == token.NEQ && !ec.Pol) || (bo.Op == token.EQL && ec.Pol) {
					if call.Call.Args[0] == script {
						return true
					}
				}
			}
		}
	}
	return false
}

func c08LoadChecks(c *Ctx) {
	r, t := c.R, c.T
	// ParseScript: retMap[name] = p only on the nil arm of p.Check(check)
	ps := t.Func(pEngine, "ParseScript")
	if ps == nil {
		r.Undecided("LOAD-CHECKS", "engine.ParseScript", "", "not found")
	} else {
		r.Fn(relName(ps))
		n := 0
		allInstrs(ps, func(in ssa.Instruction) {
			mu, ok := in.(*ssa.MapUpdate)
			if !ok || !strings.HasSuffix(mu.Value.Type().String(), "runtime.Script") {
				return
			}
			n++
			okk := checkedOnNilArm(mu, mu.Value)
			// or the script comes out of a helper (value, error) whose error was tested nil here and whose every
			// nil-error return hands out a script checked on the nil arm inside the helper
			if ex, isE := mu.Value.(*ssa.Extract); isE && !okk {
				if hc, isC := ex.Tuple.(*ssa.Call); isC && hc.Call.StaticCallee() != nil && len(hc.Call.StaticCallee().Blocks) > 0 {
					h := hc.Call.StaticCallee()
					nres := h.Signature.Results().Len()
					tested := false
					for _, ec := range controlling(mu.Block()) {
						if bo, ok := ec.Cond.(*ssa.BinOp); ok && isNilConst(bo.Y) {
							if e2, ok := bo.X.(*ssa.Extract); ok && e2.Tuple == ex.Tuple && e2.Index == nres-1 {
								if (bo.Op == token.NEQ && !ec.Pol) || (bo.Op == token.EQL && ec.Pol) {
									tested = true
								}
							}
						}
					}
					all, nret := true, 0
					allInstrs(h, func(i2 ssa.Instruction) {
						ret, ok := i2.(*ssa.Return)
						if !ok || ret.Block() == h.Recover || len(ret.Results) != nres || retError(ret) == "nonnil" {
							return
						}
						nret++
						if !checkedOnNilArm(ret, ret.Results[ex.Index]) {
							all = false
						}
					})
					okk = tested && all && nret > 0
				}
			}
			r.Ob("LOAD-CHECKS", "ParseScript accepts a script", t.Pos(mu.Pos()), okk, "a parsed script enters the accepted set only on the nil-error arm of its own Check")
		})
		r.FloorN("ParseScript accept sites", n, 1)
	}
	pv2 := t.Func(pEngine, "ParseV2")
	if pv2 == nil {
		r.Undecided("LOAD-CHECKS", "engine.ParseV2", "", "not found")
	} else {
		r.Fn(relName(pv2))
		allInstrs(pv2, func(in ssa.Instruction) {
			ret, ok := in.(*ssa.Return)
			if !ok || retError(ret) != "nil" {
				return
			}
			okk := false
			for _, ec := range controlling(ret.Block()) {
				if bo, ok := ec.Cond.(*ssa.BinOp); ok && isNilConst(bo.Y) {
					if call, ok := bo.X.(*ssa.Call); ok && call.Call.StaticCallee() != nil && fnName(call.Call.StaticCallee()) == "Check" {
						if (bo.Op == token.NEQ && !ec.Pol) || (bo.Op == token.EQL && ec.Pol) {
							okk = true
						}
					}
				}
			}
			r.Ob("LOAD-CHECKS", "ParseV2 accepts a script", t.Pos(ret.Pos()), okk, "ParseV2 returns a script only on the nil-error arm of Check")
		})
	}
	// Script.Check: runs the list visitor over the whole script and returns its error
	for _, pp := range []string{pRT, pRT2} {
		ck := t.Method(pp, "Script", "Check")
		if ck == nil {
			r.Undecided("LOAD-CHECKS", pp+" Script.Check", "", "not found")
			continue
		}
		r.Fn(relName(ck))
		listV := t.SSA[pp].Func("RunStmtsCheck")
		var visit *ssa.Call
		allInstrs(ck, func(in ssa.Instruction) {
			if call, ok := in.(*ssa.Call); ok && call.Call.StaticCallee() == listV {
				p := path(call.Call.Args[len(call.Call.Args)-1])
				if strings.HasSuffix(p, ".Ast") || strings.HasSuffix(p, ".Stmts") {
					visit = call
				}
			}
		})
		okk := visit != nil
		if okk {
			// a nil-receiver guard (`s == nil -> return nil`) is the only admissible condition
			for _, ec := range controlling(visit.Block()) {
				s := ec.String()
				if !(strings.Contains(s, "== nil") || strings.Contains(s, "!= nil")) {
					okk = false
				}
			}
			// every success return after the visit is on the nil arm of its result
			allInstrs(ck, func(in ssa.Instruction) {
				ret, ok := in.(*ssa.Return)
				if !ok || ret.Block() == ck.Recover || retError(ret) != "nil" || !reachableFrom(visit, ret) {
					return
				}
				g := false
				for _, ec := range controlling(ret.Block()) {
					if bo, ok := ec.Cond.(*ssa.BinOp); ok && bo.X == ssa.Value(visit) && isNilConst(bo.Y) {
						g = true
					}
				}
				if !g {
					okk = false
				}
			})
		}
		r.Ob("LOAD-CHECKS", t.SSA[pp].Pkg.Name()+".Script.Check runs the visitor on the whole script", t.Pos(ck.Pos()), okk, "Check must visit every top-level statement and report the visitor's error")
	}
}

// hvisit: a helper visits <param>.<suffix> ("" the parameter itself, ".Stmts", "[*]" every element of a list
// parameter) on every path that is not cut short by an earlier visit's error.
type hvisit struct {
	param  int
	suffix string
	whole  bool
}

var hvisitMemo = map[*ssa.Function][]hvisit{}

// helperVisitSummary: the positions, relative to its own parameters, that the helper h hands to the element visitor
// or the list visitor — itself or through further helpers (three levels). A visit counts only if every branch
// condition on the way to it is: a nil test of the parameter or of the visited value itself (inside a loop, only if
// the nil arm goes on with the loop — leaving it would skip the remaining elements), the control of a loop over the
// list, a comma-ok, or a test whose other arm rejects.
func helperVisitSummary(h *ssa.Function, stmtV, listV *ssa.Function, isCheckFn map[*ssa.Function]bool, depth int) []hvisit {
	if s, ok := hvisitMemo[h]; ok {
		return s
	}
	hvisitMemo[h] = nil
	loops := naturalLoops(h)
	paramRel := func(v ssa.Value) (int, string, bool) {
		p := path(v)
		for j, prm := range h.Params {
			n := pname(prm)
			if p == n {
				return j, "", true
			}
			if strings.HasPrefix(p, n+".") || strings.HasPrefix(p, n+"[") {
				return j, p[len(n):], true
			}
		}
		return 0, "", false
	}
	admissible := func(c2 *ssa.Call, visited ssa.Value, pj int) bool {
		for _, ec := range controlling(c2.Block()) {
			if bo, isB := ec.Cond.(*ssa.BinOp); isB && isNilConst(bo.Y) && (bo.Op == token.EQL || bo.Op == token.NEQ) {
				nonNil := (bo.Op == token.NEQ && ec.Pol) || (bo.Op == token.EQL && !ec.Pol)
				if nonNil && (bo.X == ssa.Value(h.Params[pj]) || bo.X == visited || path(bo.X) == path(visited)) {
					// the nil arm must not leave a loop the visit sits in
					nilArm := ec.If.Succs[1]
					if !ec.Pol {
						nilArm = ec.If.Succs[0]
					}
					leaves := false
					for _, l := range loops {
						if l.Blocks[c2.Block()] && !l.Blocks[nilArm] {
							leaves = true
						}
					}
					if !leaves {
						continue
					}
					return false
				}
			}
			if strings.HasSuffix(condStr(ec.Cond), "#1") || strings.Contains(ec.String(), "rangeindex") || strings.Contains(ec.String(), "< len(") {
				continue
			}
			if rejectingOther(ec) {
				continue
			}
			return false
		}
		return true
	}
	var out []hvisit
	allInstrs(h, func(in ssa.Instruction) {
		c2, ok := in.(*ssa.Call)
		if !ok {
			return
		}
		g := c2.Call.StaticCallee()
		if g == nil {
			return
		}
		if g == stmtV || g == listV {
			arg := c2.Call.Args[len(c2.Call.Args)-1]
			if j, suf, ok := paramRel(arg); ok && admissible(c2, arg, j) {
				out = append(out, hvisit{j, suf, g == listV})
			}
			return
		}
		if g.Pkg != h.Pkg || len(g.Blocks) == 0 || isCheckFn[g] || depth >= 3 || g == h {
			return
		}
		for _, sv := range helperVisitSummary(g, stmtV, listV, isCheckFn, depth+1) {
			if sv.param >= len(c2.Call.Args) {
				continue
			}
			a := c2.Call.Args[sv.param]
			if j, suf, ok := paramRel(a); ok {
				if admissible(c2, a, j) {
					out = append(out, hvisit{j, suf + sv.suffix, sv.whole})
				}
				continue
			}
			if strings.HasPrefix(sv.suffix, "[*]") {
				for _, el := range variadicElems(a) {
					if j, suf, ok := paramRel(el); ok && admissible(c2, el, j) {
						out = append(out, hvisit{j, suf + sv.suffix[3:], sv.whole})
					}
				}
			}
		}
	})
	hvisitMemo[h] = out
	return out
}

// variadicElems: v is the slice the compiler builds for `f(a, b, c)` on a variadic parameter (a fresh array, one
// store per element, sliced whole): the element values in order.
func variadicElems(v ssa.Value) []ssa.Value {
	sl, ok := v.(*ssa.Slice)
	if !ok || sl.Low != nil || sl.High != nil {
		return nil
	}
	arr, ok := sl.X.(*ssa.Alloc)
	if !ok || arrayLen(arr.Type()) < 0 || arr.Referrers() == nil {
		return nil
	}
	els := map[int64]ssa.Value{}
	for _, ref := range *arr.Referrers() {
		ia, isI := ref.(*ssa.IndexAddr)
		if !isI {
			continue
		}
		k, isC := constInt(ia.Index)
		if !isC || ia.Referrers() == nil {
			return nil
		}
		for _, rr := range *ia.Referrers() {
			if st, isS := rr.(*ssa.Store); isS && st.Addr == ssa.Value(ia) {
				els[k] = st.Val
			}
		}
	}
	var out []ssa.Value
	for k := int64(0); k < arrayLen(arr.Type()); k++ {
		if els[k] == nil {
			return nil
		}
		out = append(out, els[k])
	}
	return out
}

// markerEmptyLit: the literal (canonLit form) says the loop-marker stack is empty (true) or non-empty (false).
func markerEmptyLit(lit string) (empty bool, known bool) {
	pos := lit[0] == '+'
	atom := lit[1:]
	if !strings.Contains(atom, ".forstmt)") || !strings.Contains(atom, "len(") {
		return false, false
	}
	for _, f := range []struct {
		re    string
		empty bool
	}{
		{`^0 == len\([^()]*\.forstmt\)$`, true}, {`^len\([^()]*\.forstmt\) == 0$`, true},
		{`^len\([^()]*\.forstmt\) <= 0$`, true}, {`^len\([^()]*\.forstmt\) < 1$`, true},
		{`^len\([^()]*\.forstmt\) > 0$`, false}, {`^len\([^()]*\.forstmt\) >= 1$`, false},
		{`^0 < len\([^()]*\.forstmt\)$`, false}, {`^len\([^()]*\.forstmt\) != 0$`, false},
	} {
		if regexp.MustCompile(f.re).MatchString(atom) {
			return f.empty == pos, true
		}
	}
	return false, false
}

// c08CallCheckSpec: RunCallExprCheck specialised with the two table lookups, the argument visit and the checker's
// verdict as symbols. unknown: every outcome with the function lookup missing is an error; missing: likewise for
// the checker lookup; visits: every outcome that is not an error of the two lookups ran the argument visit on
// expr.Param; verdict: the outcome with both lookups found and the arguments accepted returns what the looked-up
// checker returned for (ctx, expr), and nothing else is ever returned as success.
type c08CallSpec struct{ unknown, missing, visits, verdict bool }

func c08CallCheckSpec(cf *ssa.Function, prm *ssa.Parameter, listV *ssa.Function) c08CallSpec {
	var res c08CallSpec
	cfg := &specCfg{MaxLoop: 2, MaxDepth: 3, MaxVisits: 100000}
	cfg.Call = func(fn *ssa.Function, call *ssa.Call, nth int, args []sval) (sval, bool) {
		cal := call.Call.StaticCallee()
		if cal == nil {
			return sval{}, false
		}
		last := ""
		if len(args) > 0 {
			last = args[len(args)-1].String()
		}
		switch fnName(cal) {
		case "GetFuncCall", "GetFn":
			if last == pname(prm)+".Name" {
				return sval{tup: []sval{symv("fn"), symv("hasFn")}}, true
			}
			return sval{tup: []sval{symv("fn?"), symv("hasOtherFn")}}, true
		case "GetFuncCheck", "GetFnCheck":
			if last == pname(prm)+".Name" {
				return sval{tup: []sval{symv("checker"), symv("hasChk")}}, true
			}
			return sval{tup: []sval{symv("checker?"), symv("hasOtherChk")}}, true
		case "ChainAppend":
			return errValue("chained"), true
		}
		if cal == listV {
			if last == pname(prm)+".Param" {
				return symv("effect:visit-args"), true
			}
			return symv("effect:visit-other"), true
		}
		return stdErrCall(fn, call, nth, args)
	}
	cfg.DynCall = func(fn *ssa.Function, call *ssa.Call, callee sval, args []sval) (sval, bool) {
		if callee.String() == "checker" && len(args) == 2 && args[1].String() == pname(prm) {
			return symv("verdict"), true
		}
		return symv("effect:other-dynamic-call"), true
	}
	var args []sval
	for _, p := range cf.Params {
		args = append(args, symv(pname(p)))
	}
	outs, ab := cfg.run(cf, args)
	if ab != "" || len(outs) == 0 {
		return res
	}
	res = c08CallSpec{true, true, true, true}
	nVerdict := 0
	for _, o := range outs {
		if len(o.Vals) != 1 {
			return c08CallSpec{}
		}
		lits := map[string]bool{}
		visited := false
		for _, cd := range o.Cond {
			if cd == "effect:visit-args" {
				visited = true
			}
			if !strings.HasPrefix(cd, "effect:") {
				lits[canonLit(cd)] = true
			}
		}
		v := o.Vals[0]
		cls := errClass(v)
		// the visit's own result: `effect:visit-args` compared with nil decides whether the arguments were accepted
		argsRejected := lits["-effect:visit-args == nil"] || lits["-nil == effect:visit-args"]
		if lits["-hasFn"] && cls != "error" {
			res.unknown = false
		}
		if lits["-hasChk"] && cls != "error" {
			res.missing = false
		}
		if !lits["-hasFn"] && !visited {
			res.visits = false
		}
		switch {
		case v.String() == "verdict":
			nVerdict++
			if !(lits["+hasFn"] && lits["+hasChk"] && visited && !argsRejected) {
				res.verdict = false
			}
		case cls == "error":
		default:
			res.verdict = false // something else than an error or the checker's verdict is returned
		}
	}
	if nVerdict == 0 {
		res.verdict = false
	}
	return res
}

// checkerArityBySpec: the checker evaluated with len(funcExpr.Param) fixed to n = 0..8 (helpers inlined with their
// constant arguments): the counts for which every outcome is an error, and those for which some outcome is not.
func checkerArityBySpec(f *ssa.Function) (rejects, accepts []int, ok bool) {
	if len(f.Params) < 2 {
		return nil, nil, false
	}
	for n := 0; n <= 8; n++ {
		cfg := &specCfg{MaxLoop: 2, MaxDepth: 3, MaxVisits: 40000, Call: stdErrCall}
		cfg.Paths = map[string]sval{"len(" + pname(f.Params[1]) + ".Param)": constv(constant.MakeInt64(int64(n)))}
		var args []sval
		for _, p := range f.Params {
			args = append(args, symv(pname(p)))
		}
		outs, ab := cfg.run(f, args)
		if ab != "" || len(outs) == 0 {
			return nil, nil, false
		}
		allErr := true
		for _, o := range outs {
			if len(o.Vals) == 0 || errClass(o.Vals[len(o.Vals)-1]) != "error" {
				allErr = false
			}
		}
		if allErr {
			rejects = append(rejects, n)
		} else {
			accepts = append(accepts, n)
		}
	}
	return rejects, accepts, true
}
