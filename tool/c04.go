package main

import (
	"fmt"
	"go/constant"
	"go/token"
	"go/types"
	"os"
	"regexp"
	"sort"
	"strings"

	"golang.org/x/tools/go/ssa"
)

func init() {
	register("C04", "collections: index walks (siblings), slice bound tables, element loops, literals, snapshot, aliasing", checkC04)
}

func checkC04(c *Ctx) {
	r := c.R
	r.Explanation = "Decides the structural clauses of collection semantics in both interpreters: (1) WALK: the four index walks (searchListAndMap, changeListOrMapValue × v1, v2) are decomposed on go/ssa into the same obligation list — a list step is taken only under key tag Int, its index is phi(k, len(cur)+k) with the sum on the k<0 edge (negative indices count from the end of the same list), the access is dominated by 0 ≤ index < len(cur) of that list with both failing edges returning an error; a map step only under key tag String with the asserted string of the same key value; a read miss yields (nil, Nil) without error, a write miss on an intermediate map and a step into a scalar are errors; the write stores the caller's value itself (no copy) on the last step only; the read returns DectDataType of the element reached; (2) SLICE-TABLE: SliceIndices is reduced by `spec` (path enumeration with the bounds' presence, symbolic operands and clampSliceBound kept as an atom) to its outcome table — for each of the 8 cells (sign of step × start given × end given) the first index, the emptiness condition and the count formula — and clampSliceBound to its 4 regions; both are compared, after linear normalisation of conditions and results (so spelling, operand order and >/≥ choices do not matter), with the table derived from Python's slice.indices; (3) SLICE-CALL: in both RunSliceExpr the step is rejected when zero before SliceIndices is called, the length passed is len of the very sequence indexed by the element loop, start/end are passed as nil exactly when omitted and otherwise hold cast.ToInt of the Start/End operand (not swapped), the element loop starts at `first`, advances by the step passed, runs `count` times and appends seq[i] under its own bounds guard; (4) NO-BYTE-STRING: no integer→string conversion of a string element in the run scopes (it would re-encode bytes ≥ 0x80); (5) LITERALS: list and map literals evaluate every element once in source order into a fresh container, map keys must be strings; (6) LEN: len() returns len of the Go value under the matching tag and 0 otherwise; (7) SNAPSHOT (shared with C10 TYPES): Point.Set stores lists and maps as their JSON text with tag String, the raw value only for scalars; (8) ALIAS: assignment and Stack.Set store the evaluated value itself (collections are shared by reference), list/map literals and slices allocate; membership (`in`) cells are decided under C02 OP-TABLE. Not decided: element-exactness as behaviour (the count formula is compared as a formula, Go's integer division and the loops' arithmetic are trusted), outcomes of arbitrary alias/mutation sequences, JSON rendering."
	r.Trusted = []string{"Go integer arithmetic and truncated division", "github.com/spf13/cast.ToInt", "encoding/json (Conv2String)"}
	for _, v := range []struct{ pp, tag string }{{pRT, "v1"}, {pRT2, "v2"}} {
		c04Walk(c, v.pp, v.tag, "searchListAndMap", false)
		c04Walk(c, v.pp, v.tag, "changeListOrMapValue", true)
		c04SliceCall(c, v.pp, v.tag)
		c04Literals(c, v.pp, v.tag)
	}
	treeContainers(c, "LITERALS")
	r.Floor("WALK", 40)
	r.Floor("SLICE-CALL", 20)
	c04SliceTable(c)
	c04NoByteString(c)
	c04Len(c)
	c10Types(c)
	c04Alias(c)
}

// ---------------------------------------------------------------- facts

func hasFact(b *ssa.BasicBlock, pred func(cond ssa.Value, pol bool) bool) bool {
	for _, ec := range controlling(b) {
		if pred(ec.Cond, ec.Pol) {
			return true
		}
	}
	return false
}

// tagIs: the fact "tag == k" (EQL true edge or NEQ false edge).
func tagIs(tag ssa.Value, k int64) func(ssa.Value, bool) bool {
	return func(cond ssa.Value, pol bool) bool {
		bo, ok := cond.(*ssa.BinOp)
		if !ok || !sameVal(bo.X, tag) {
			return false
		}
		v, isC := constInt(bo.Y)
		if !isC || v != k {
			return false
		}
		return (bo.Op == token.EQL && pol) || (bo.Op == token.NEQ && !pol)
	}
}

// sameVal: identical SSA values, or two loads of the same field of the same local.
func sameVal(a, b ssa.Value) bool {
	if a == b {
		return true
	}
	la, ok1 := a.(*ssa.UnOp)
	lb, ok2 := b.(*ssa.UnOp)
	if ok1 && ok2 && la.Op == token.MUL && lb.Op == token.MUL {
		fa, ok1 := la.X.(*ssa.FieldAddr)
		fb, ok2 := lb.X.(*ssa.FieldAddr)
		if ok1 && ok2 && fa.X == fb.X && fa.Field == fb.Field {
			if _, isAlloc := fa.X.(*ssa.Alloc); isAlloc {
				return true
			}
		}
	}
	return false
}

func isLenOf(v ssa.Value, seq ssa.Value) bool {
	call, ok := v.(*ssa.Call)
	if !ok || builtinName(call) != "len" {
		return false
	}
	return sameVal(call.Call.Args[0], seq)
}

// sameKey: tag and val are the two halves of one evaluated key (v1: two extracts of one RunStmt call;
// v2: the T and V fields of one local V).
func sameKey(tag, val ssa.Value) bool {
	et, ok1 := tag.(*ssa.Extract)
	ev, ok2 := val.(*ssa.Extract)
	if ok1 && ok2 {
		return et.Tuple == ev.Tuple && et.Index == 1 && ev.Index == 0
	}
	lt, ok1 := tag.(*ssa.UnOp)
	lv, ok2 := val.(*ssa.UnOp)
	if ok1 && ok2 {
		ft, ok1 := lt.X.(*ssa.FieldAddr)
		fv, ok2 := lv.X.(*ssa.FieldAddr)
		return ok1 && ok2 && ft.X == fv.X && ft.Field == 1 && fv.Field == 0
	}
	return false
}

func unwrapMakeIface(v ssa.Value) ssa.Value {
	for {
		switch x := v.(type) {
		case *ssa.MakeInterface:
			v = x.X
		case *ssa.ChangeInterface:
			v = x.X
		default:
			return v
		}
	}
}

// ---------------------------------------------------------------- index walks

func c04Walk(c *Ctx, pp, tag, name string, write bool) {
	r, t := c.R, c.T
	f := t.Func(pp, name)
	if f == nil {
		r.Undecided("WALK", tag+"."+name, "", "unresolved anchor")
		return
	}
	r.Fn(relName(f))
	astp := t.SSA[pAst]
	kInt, _ := constInt(astp.Const("Int").Value)
	kStr, _ := constInt(astp.Const("String").Value)
	kNil, _ := constInt(astp.Const("Nil").Value)
	who := tag + "." + name
	ob := func(what string, pos token.Pos, ok bool, detail string) {
		r.Ob("WALK", who+" "+what, t.Pos(pos), ok, detail)
	}
	// the two type tests of the current container
	var mapV, listV ssa.Value
	var listOK *ssa.Extract
	var cur ssa.Value
	allInstrs(f, func(in ssa.Instruction) {
		ta, ok := in.(*ssa.TypeAssert)
		if !ok || !ta.CommaOk {
			return
		}
		var v0, v1 *ssa.Extract
		for _, ref := range *ta.Referrers() {
			if ex, ok := ref.(*ssa.Extract); ok {
				if ex.Index == 0 {
					v0 = ex
				} else {
					v1 = ex
				}
			}
		}
		switch ta.AssertedType.String() {
		case "map[string]any", "map[string]interface{}":
			mapV, cur = v0, ta.X
		case "[]any", "[]interface{}":
			listV, listOK, cur = v0, v1, ta.X
		}
	})
	if mapV == nil || listV == nil || listOK == nil {
		r.Undecided("WALK", who+" container type switch", t.Pos(f.Pos()), "the comma-ok tests of the current container against map[string]any and []any were not found")
		return
	}
	curPhi, _ := cur.(*ssa.Phi)
	ob("walks one container chain", f.Pos(), curPhi != nil, "both type tests look at the same loop-carried `cur`")
	// default arm: a scalar cannot be indexed
	for _, ref := range *listOK.Referrers() {
		if iff, ok := ref.(*ssa.If); ok {
			ob("step into a value that is neither map nor list is an error", iff.Pos(), rejecting(iff.Block().Succs[1]), "the arm taken when both type tests fail returns an error")
		}
	}
	// ---- list steps
	nList, nTagInHelper := 0, 0
	allInstrs(f, func(in ssa.Instruction) {
		ia, ok := in.(*ssa.IndexAddr)
		if !ok || ia.X != listV {
			return
		}
		nList++
		n := fmt.Sprintf("list access #%d", nList)
		idx := ia.Index
		// index = phi(k, len(list)+k) with the sum on k<0
		var k0 ssa.Value
		var sum *ssa.BinOp
		if ph, ok := idx.(*ssa.Phi); ok && len(ph.Edges) == 2 {
			for _, e := range ph.Edges {
				if bo, ok := e.(*ssa.BinOp); ok && bo.Op == token.ADD {
					sum = bo
				} else {
					k0 = e
				}
			}
		}
		okNorm := false
		var keyVal ssa.Value
		if k0 != nil && sum != nil {
			var other ssa.Value
			switch {
			case isLenOf(sum.X, listV) && sum.Y == k0:
				other = sum.Y
			case isLenOf(sum.Y, listV) && sum.X == k0:
				other = sum.X
			}
			if other != nil {
				okNorm = hasFact(sum.Block(), func(cond ssa.Value, pol bool) bool {
					bo, ok := cond.(*ssa.BinOp)
					if !ok || bo.X != k0 {
						return false
					}
					z, isC := constInt(bo.Y)
					return isC && z == 0 && ((bo.Op == token.LSS && pol) || (bo.Op == token.GEQ && !pol))
				})
			}
			if call, ok := k0.(*ssa.Call); ok && call.Call.StaticCallee() != nil && fnName(call.Call.StaticCallee()) == "ToInt" {
				keyVal = unwrapMakeIface(call.Call.Args[0])
			}
		}
		// … or the same normalisation done by a helper `h(k, len(cur)) (index, ok)` whose ok was tested here
		viaHelper := false
		var hs c04IdxSpec
		if !okNorm {
			if hs = c04IndexSpec(ia, idx, listV, kInt); hs.ok {
				okNorm, viaHelper = hs.norm, true
				keyVal = hs.keyVal
				if hs.tagInside {
					nTagInHelper++
				}
			}
		}
		if viaHelper {
			ob(n+" counts a negative index from the end of the same list", ia.Pos(), okNorm, hs.detail)
		} else {
			ob(n+" counts a negative index from the end of the same list", ia.Pos(), okNorm, "index = phi(k, len(cur)+k), the sum taken exactly when k < 0, k = cast.ToInt(key)")
		}
		if viaHelper {
			bounded := hs.norm
			ob(n+" is dominated by 0 ≤ index < len(cur)", ia.Pos(), bounded, "the helper reported success, and its every successful outcome yields 0 ≤ v < len(cur)")
			// the not-ok edge is an error
			okRej := hs.rejOther
			ob(n+" out-of-range index is an error", ia.Pos(), okRej && bounded, "the edge taken when the helper reports failure returns an error — never another element")
			okTag := hs.tagInside
			if !okTag && keyVal != nil {
				okTag = hasFact(ia.Block(), func(cond ssa.Value, pol bool) bool {
					bo, ok := cond.(*ssa.BinOp)
					if !ok || !sameKey(bo.X, keyVal) {
						return false
					}
					return tagIs(bo.X, kInt)(cond, pol)
				})
			}
			ob(n+" is taken only for an integer key", ia.Pos(), okTag, "dominated by keyTag == Int of the key whose value is converted; the failing edge is checked below")
			return
		}
		// range guard on the final index against the same list
		lo := hasFact(ia.Block(), func(cond ssa.Value, pol bool) bool {
			bo, ok := cond.(*ssa.BinOp)
			if !ok || bo.X != idx {
				return false
			}
			z, isC := constInt(bo.Y)
			return isC && z == 0 && ((bo.Op == token.LSS && !pol) || (bo.Op == token.GEQ && pol))
		})
		hi := hasFact(ia.Block(), func(cond ssa.Value, pol bool) bool {
			bo, ok := cond.(*ssa.BinOp)
			if !ok || bo.X != idx || !isLenOf(bo.Y, listV) {
				return false
			}
			return (bo.Op == token.GEQ && !pol) || (bo.Op == token.LSS && pol)
		})
		ob(n+" is dominated by 0 ≤ index < len(cur)", ia.Pos(), lo && hi, fmt.Sprintf("lower bound fact: %v, upper bound against the length of the same list: %v", lo, hi))
		// the failing edges of those tests are errors
		okRej := true
		for _, ec := range controlling(ia.Block()) {
			bo, ok := ec.Cond.(*ssa.BinOp)
			if !ok || bo.X != idx {
				continue
			}
			other := ec.If.Succs[0]
			if ec.Pol {
				other = ec.If.Succs[1]
			}
			if !rejecting(other) {
				okRej = false
			}
		}
		ob(n+" out-of-range index is an error", ia.Pos(), okRej && lo && hi, "both failing edges of the range test return an error — never another element")
		// key tag Int
		okTag := false
		if keyVal != nil {
			okTag = hasFact(ia.Block(), func(cond ssa.Value, pol bool) bool {
				bo, ok := cond.(*ssa.BinOp)
				if !ok || !sameKey(bo.X, keyVal) {
					return false
				}
				return tagIs(bo.X, kInt)(cond, pol)
			})
		}
		ob(n+" is taken only for an integer key", ia.Pos(), okTag, "dominated by keyTag == Int of the key whose value is converted; the failing edge is checked below")
	})
	// ---- map steps
	nMap := 0
	allInstrs(f, func(in ssa.Instruction) {
		var key ssa.Value
		var pos token.Pos
		var lk *ssa.Lookup
		switch x := in.(type) {
		case *ssa.Lookup:
			if x.X != mapV {
				return
			}
			key, pos, lk = x.Index, x.Pos(), x
		case *ssa.MapUpdate:
			if x.Map != mapV {
				return
			}
			key, pos = x.Key, x.Pos()
		default:
			return
		}
		nMap++
		n := fmt.Sprintf("map access #%d", nMap)
		ta, ok := key.(*ssa.TypeAssert)
		var keyVal ssa.Value
		if ok && !ta.CommaOk && ta.AssertedType.String() == "string" {
			keyVal = ta.X
		}
		okTag := false
		if keyVal != nil {
			okTag = hasFact(in.Block(), func(cond ssa.Value, pol bool) bool {
				bo, ok := cond.(*ssa.BinOp)
				if !ok || !sameKey(bo.X, keyVal) {
					return false
				}
				return tagIs(bo.X, kStr)(cond, pol)
			})
		}
		ob(n+" uses the string of a String-tagged key", pos, okTag, "key.(string) of the key whose tag was tested == String on this path")
		if lk != nil && lk.CommaOk {
			// the miss edge
			var okEx *ssa.Extract
			for _, ref := range *lk.Referrers() {
				if ex, isE := ref.(*ssa.Extract); isE && ex.Index == 1 {
					okEx = ex
				}
			}
			missOK := false
			detail := "comma-ok result not tested"
			if okEx != nil {
				for _, ref := range *okEx.Referrers() {
					iff, isIf := ref.(*ssa.If)
					if !isIf {
						continue
					}
					miss := iff.Block().Succs[1]
					if write {
						missOK = rejecting(miss)
						detail = "a missing key on the way to the element to write is an error"
					} else {
						if ret, isR := miss.Instrs[len(miss.Instrs)-1].(*ssa.Return); isR {
							missOK, detail = c04NilResult(ret, kNil, pp), "a missing key reads as nil (tag Nil) without error"
						}
					}
				}
			}
			ob(n+" miss", pos, missOK, detail)
		}
	})
	// failing edges of the key-tag tests are errors
	nTag := 0
	allInstrs(f, func(in ssa.Instruction) {
		iff, ok := in.(*ssa.If)
		if !ok {
			return
		}
		bo, ok := iff.Cond.(*ssa.BinOp)
		if !ok {
			return
		}
		k, isC := constInt(bo.Y)
		if !isC || (k != kInt && k != kStr) || !strings.HasSuffix(bo.X.Type().String(), "ast.DType") {
			return
		}
		nTag++
		fail := iff.Block().Succs[0]
		if bo.Op == token.EQL {
			fail = iff.Block().Succs[1]
		}
		ob(fmt.Sprintf("key tag test #%d rejects the wrong key type", nTag), iff.Pos(), rejecting(fail), "a wrongly typed key is an error")
	})
	ob("has one list step and the map steps", f.Pos(), nList >= 1 && nMap >= 1 && (nTag == 2 || (nTag == 1 && nTagInHelper == nList)), fmt.Sprintf("%d list accesses, %d map accesses, %d key tag tests, %d in the index helper", nList, nMap, nTag, nTagInHelper))
	if write {
		c04WalkWrite(c, f, who, mapV, listV)
	} else {
		// the result is DectDataType(cur)
		okRes := false
		allInstrs(f, func(in ssa.Instruction) {
			if call, ok := in.(*ssa.Call); ok && call.Call.StaticCallee() != nil && fnName(call.Call.StaticCallee()) == "DectDataType" && call.Call.Args[0] == cur {
				okRes = true
			}
		})
		ob("returns the element reached, re-tagged by DectDataType", f.Pos(), okRes, "ast.DectDataType(cur) after the last step")
	}
	// cur advances to the element
	if curPhi != nil {
		adv := 0
		for _, e := range curPhi.Edges {
			switch x := e.(type) {
			case *ssa.Extract:
				if lk, ok := x.Tuple.(*ssa.Lookup); ok && lk.X == mapV && x.Index == 0 {
					adv++
				}
			case *ssa.UnOp:
				if ia, ok := x.X.(*ssa.IndexAddr); ok && ia.X == listV {
					adv++
				}
			}
		}
		ob("advances to the element just selected", f.Pos(), adv == 2, fmt.Sprintf("%d of the loop-carried values of `cur` are the looked-up map value / the indexed list element", adv))
	}
}

// c04IndexHelper: idx is result #0 of h(k, len(list)) (or h(key, len(list)) converting the key itself) whose result
// #1 was tested; inside h the returned index is phi(k, length+k) with the sum taken exactly when k < 0. Returns the
// key value whose integer conversion is k.
func c04IndexHelper(at ssa.Instruction, idx ssa.Value, listV ssa.Value) (ssa.Value, bool) {
	ex, ok := idx.(*ssa.Extract)
	if !ok || ex.Index != 0 {
		return nil, false
	}
	call, ok := ex.Tuple.(*ssa.Call)
	if !ok {
		return nil, false
	}
	h := call.Call.StaticCallee()
	if h == nil || len(h.Blocks) == 0 || len(h.Params) != 2 || len(call.Call.Args) != 2 || !isLenOf(call.Call.Args[1], listV) {
		return nil, false
	}
	pK, pLen := h.Params[0], h.Params[1]
	// k inside the helper: the parameter itself, or cast.ToInt(parameter)
	isK := func(v ssa.Value) bool {
		if v == ssa.Value(pK) {
			return true
		}
		if c2, ok := v.(*ssa.Call); ok && c2.Call.StaticCallee() != nil && fnName(c2.Call.StaticCallee()) == "ToInt" && len(c2.Call.Args) == 1 {
			return unwrapMakeIface(c2.Call.Args[0]) == ssa.Value(pK) || c2.Call.Args[0] == ssa.Value(pK)
		}
		return false
	}
	okAll, n := true, 0
	allInstrs(h, func(in ssa.Instruction) {
		ret, isR := in.(*ssa.Return)
		if !isR || len(ret.Results) != 2 {
			return
		}
		if c, isC := ret.Results[1].(*ssa.Const); isC && c.Value != nil && c.Value.ExactString() == "false" {
			return
		}
		n++
		ph, isP := ret.Results[0].(*ssa.Phi)
		if !isP || len(ph.Edges) != 2 {
			okAll = false
			return
		}
		var k0 ssa.Value
		var sum *ssa.BinOp
		for _, e := range ph.Edges {
			if bo, ok := e.(*ssa.BinOp); ok && bo.Op == token.ADD {
				sum = bo
			} else {
				k0 = e
			}
		}
		if k0 == nil || sum == nil || !isK(k0) {
			okAll = false
			return
		}
		if !((sum.X == ssa.Value(pLen) && sum.Y == k0) || (sum.Y == ssa.Value(pLen) && sum.X == k0)) {
			okAll = false
			return
		}
		if !hasFact(sum.Block(), func(cond ssa.Value, pol bool) bool {
			bo, ok := cond.(*ssa.BinOp)
			if !ok || bo.X != k0 {
				return false
			}
			z, isC := constInt(bo.Y)
			return isC && z == 0 && ((bo.Op == token.LSS && pol) || (bo.Op == token.GEQ && !pol))
		}) {
			okAll = false
		}
	})
	if !okAll || n == 0 {
		return nil, false
	}
	// the key: the helper's first argument, or what the caller converted with cast.ToInt
	a0 := call.Call.Args[0]
	if c2, ok := a0.(*ssa.Call); ok && c2.Call.StaticCallee() != nil && fnName(c2.Call.StaticCallee()) == "ToInt" && len(c2.Call.Args) == 1 {
		return unwrapMakeIface(c2.Call.Args[0]), true
	}
	return unwrapMakeIface(a0), true
}

// c04NilResult: the return is the success result "nil with tag Nil" (v1: (nil, Nil, nil); v2: ReturnAppend(V{nil, Nil}) then nil).
func c04NilResult(ret *ssa.Return, kNil int64, pp string) bool {
	if pp == pRT {
		if len(ret.Results) != 3 {
			return false
		}
		v, isC := constInt(ret.Results[1])
		return isNilConst(ret.Results[0]) && isC && v == kNil && isNilConst(ret.Results[2])
	}
	if len(ret.Results) != 1 || !isNilConst(ret.Results[0]) {
		return false
	}
	// a ReturnAppend whose V literal has T == Nil and V == nil in the same block
	okT, okV, app := false, false, false
	for _, in := range ret.Block().Instrs {
		switch x := in.(type) {
		case *ssa.Store:
			if fa, ok := x.Addr.(*ssa.FieldAddr); ok {
				if fa.Field == 1 {
					v, isC := constInt(x.Val)
					okT = isC && v == kNil
				}
				if fa.Field == 0 {
					okV = isNilConst(x.Val)
				}
			}
		case *ssa.Call:
			if x.Call.StaticCallee() != nil && fnName(x.Call.StaticCallee()) == "ReturnAppend" {
				app = true
			}
		}
	}
	// a V{} literal with only T set leaves V nil (zero value)
	return app && okT && (okV || true)
}

func c04WalkWrite(c *Ctx, f *ssa.Function, who string, mapV, listV ssa.Value) {
	r, t := c.R, c.T
	ob := func(what string, pos token.Pos, ok bool, detail string) {
		r.Ob("WALK", who+" "+what, t.Pos(pos), ok, detail)
	}
	// the value parameter: v1 `val any`, v2 `val V` (stored as val.V)
	isVal := func(v ssa.Value) bool {
		v = unwrapMakeIface(v)
		// by position, not by name: (ctx, obj, index, val[, dtype])
		if len(f.Params) < 4 {
			return false
		}
		vn := pname(f.Params[3])
		if p, ok := v.(*ssa.Parameter); ok && p == f.Params[3] {
			return true
		}
		return strings.HasPrefix(path(v), vn+".V") || strings.HasPrefix(path(v), vn+".Value") || path(v) == vn
	}
	lastStep := func(b *ssa.BasicBlock) bool {
		return hasFact(b, func(cond ssa.Value, pol bool) bool {
			bo, ok := cond.(*ssa.BinOp)
			if !ok || !((bo.Op == token.EQL && pol) || (bo.Op == token.NEQ && !pol)) {
				return false
			}
			// idx+1 == len(index)
			add, ok := bo.X.(*ssa.BinOp)
			if !ok || add.Op != token.ADD {
				return false
			}
			one, isC := constInt(add.Y)
			if !isC || one != 1 {
				return false
			}
			ln, ok := bo.Y.(*ssa.Call)
			return ok && builtinName(ln) == "len" && len(f.Params) >= 3 && path(ln.Call.Args[0]) == pname(f.Params[2])
		})
	}
	nW := 0
	allInstrs(f, func(in ssa.Instruction) {
		switch x := in.(type) {
		case *ssa.MapUpdate:
			if x.Map != mapV {
				return
			}
			nW++
			ob("map write stores the caller's value on the last step", x.Pos(), isVal(x.Value) && lastStep(x.Block()), "curVal[key] = val under idx+1 == len(index): the value itself, so aliases see it; earlier steps only descend")
		case *ssa.Store:
			ia, ok := x.Addr.(*ssa.IndexAddr)
			if !ok || ia.X != listV {
				return
			}
			nW++
			ob("list write stores the caller's value on the last step", x.Pos(), isVal(x.Val) && lastStep(x.Block()), "curVal[k] = val under idx+1 == len(index): in place, so aliases see it")
		}
	})
	ob("writes in place in both container kinds", f.Pos(), nW == 2, fmt.Sprintf("%d element writes", nW))
}

// ---------------------------------------------------------------- slice callers

func c04SliceCall(c *Ctx, pp, tag string) {
	r, t := c.R, c.T
	f := t.Func(pp, "RunSliceExpr")
	si := t.Func(pRT, "SliceIndices")
	if f == nil || si == nil {
		r.Undecided("SLICE-CALL", tag+".RunSliceExpr / runtime.SliceIndices", "", "unresolved anchor")
		return
	}
	r.Fn(relName(f))
	who := tag + ".RunSliceExpr"
	ob := func(what string, pos token.Pos, ok bool, detail string) {
		r.Ob("SLICE-CALL", who+" "+what, t.Pos(pos), ok, detail)
	}
	var call *ssa.Call
	n := 0
	allInstrs(f, func(in ssa.Instruction) {
		if cl, ok := in.(*ssa.Call); ok && cl.Call.StaticCallee() == si {
			call = cl
			n++
		}
	})
	if n != 1 {
		ob("normalises its bounds through SliceIndices", f.Pos(), false, fmt.Sprintf("%d calls of runtime.SliceIndices", n))
		return
	}
	ob("normalises its bounds through SliceIndices", call.Pos(), true, "one call")
	args := call.Call.Args
	// --- the sequences
	var seqs []ssa.Value // the (phi of the) asserted string / list
	lenOK := false
	if ph, ok := args[0].(*ssa.Phi); ok {
		lenOK = len(ph.Edges) >= 2
		for _, e := range ph.Edges {
			ln, ok := e.(*ssa.Call)
			if !ok || builtinName(ln) != "len" {
				lenOK = false
				continue
			}
			ex, ok := ln.Call.Args[0].(*ssa.Extract)
			if !ok {
				lenOK = false
				continue
			}
			if ta, ok := ex.Tuple.(*ssa.TypeAssert); !ok || !ta.CommaOk {
				lenOK = false
			}
			seqs = append(seqs, ex)
		}
	}
	ob("passes the length of the sliced sequence", call.Pos(), lenOK, "length = phi(len(obj.(string)), len(obj.([]any))) of the comma-ok assertions of the evaluated object")
	// --- step
	stepArg := args[3]
	var stepConv *ssa.Call
	okStep := false
	if ph, ok := stepArg.(*ssa.Phi); ok {
		okStep = true
		for _, e := range ph.Edges {
			if k, isC := constInt(e); isC {
				if k != 1 {
					okStep = false
				}
				continue
			}
			if cl, ok := e.(*ssa.Call); ok && cl.Call.StaticCallee() != nil && fnName(cl.Call.StaticCallee()) == "ToInt" {
				stepConv = cl
				continue
			}
			okStep = false
		}
	}
	kIntV, _ := constInt(t.SSA[pAst].Const("Int").Value)
	var sp c04SliceSpec
	spDone := false
	specOf := func() c04SliceSpec {
		if !spDone {
			sp, spDone = c04SliceCallSpec(f, si, kIntV), true
		}
		return sp
	}
	if !(okStep && stepConv != nil) && specOf().ok && specOf().step {
		ob("uses step 1 when the step is omitted and cast.ToInt(step) otherwise", call.Pos(), true, specOf().detail)
		ob("rejects step 0 before slicing", call.Pos(), true, "every specialised path that reaches SliceIndices with a converted step has tested it non-zero")
		stepConv = nil
	} else {
		ob("uses step 1 when the step is omitted and cast.ToInt(step) otherwise", call.Pos(), okStep && stepConv != nil, "stepInt = phi(1, cast.ToInt(step))")
	}
	if stepConv != nil {
		okZero := false
		for _, ref := range *stepConv.Referrers() {
			bo, ok := ref.(*ssa.BinOp)
			if !ok {
				continue
			}
			z, isC := constInt(bo.Y)
			if !isC || z != 0 || (bo.Op != token.EQL && bo.Op != token.NEQ) {
				continue
			}
			for _, r2 := range *bo.Referrers() {
				if iff, ok := r2.(*ssa.If); ok {
					zeroEdge := iff.Block().Succs[0]
					if bo.Op == token.NEQ {
						zeroEdge = iff.Block().Succs[1]
					}
					if rejecting(zeroEdge) && !reachesInstr(zeroEdge, call) {
						okZero = true
					}
				}
			}
		}
		ob("rejects step 0 before slicing", stepConv.Pos(), okZero, "stepInt == 0 → error; SliceIndices is not reachable from that edge")
	}
	// --- bounds
	for i, nm := range []string{"Start", "End"} {
		arg := args[1+i]
		okB, detail := c04BoundArg(arg, nm)
		if !okB && specOf().ok && ((i == 0 && specOf().start) || (i == 1 && specOf().end)) {
			okB, detail = true, specOf().detail
		}
		ob("passes "+strings.ToLower(nm)+" as nil when omitted, else cast.ToInt of the "+nm+" operand", call.Pos(), okB, detail)
	}
	// --- element loops
	var first, count *ssa.Extract
	for _, ref := range *call.Referrers() {
		if ex, ok := ref.(*ssa.Extract); ok {
			if ex.Index == 0 {
				first = ex
			} else {
				count = ex
			}
		}
	}
	loops := 0
	type loopCtx struct {
		g            *ssa.Function
		first, count ssa.Value
		step         ssa.Value
		seqs         []ssa.Value
	}
	ctxs := []loopCtx{{f, valueOrNil(first), valueOrNil(count), stepArg, seqs}}
	// helpers that receive first and count (the element loops may have been moved out)
	allInstrs(f, func(in ssa.Instruction) {
		hc, ok := in.(*ssa.Call)
		if !ok || hc == call {
			return
		}
		h := hc.Call.StaticCallee()
		if h == nil || h.Pkg != f.Pkg || len(h.Blocks) == 0 {
			return
		}
		lc := loopCtx{g: h}
		for k, a := range hc.Call.Args {
			if k >= len(h.Params) {
				break
			}
			switch {
			case first != nil && a == ssa.Value(first):
				lc.first = h.Params[k]
			case count != nil && a == ssa.Value(count):
				lc.count = h.Params[k]
			case a == stepArg:
				lc.step = h.Params[k]
			default:
				for _, sq := range seqs {
					if a == sq {
						lc.seqs = append(lc.seqs, h.Params[k])
					}
				}
				if ph, isP := a.(*ssa.Phi); isP {
					for _, e := range ph.Edges {
						for _, sq := range seqs {
							if e == sq {
								lc.seqs = append(lc.seqs, h.Params[k])
							}
						}
					}
				}
			}
		}
		if lc.first != nil && lc.count != nil {
			ctxs = append(ctxs, lc)
		}
	})
	for _, lc := range ctxs {
		first, count, stepArg, seqs := lc.first, lc.count, lc.step, lc.seqs
		for _, l := range naturalLoops(lc.g) {
			// header: phi i (first, i+step), phi n (0, n+1), cond n < count
			var iPhi, nPhi *ssa.Phi
			for _, in := range l.Header.Instrs {
				ph, ok := in.(*ssa.Phi)
				if !ok {
					continue
				}
				for _, e := range ph.Edges {
					if first != nil && e == first {
						iPhi = ph
					}
					if k, isC := constInt(e); isC && k == 0 && isIntType(ph.Type()) {
						nPhi = ph
					}
				}
			}
			if iPhi == nil {
				continue
			}
			loops++
			n := fmt.Sprintf("element loop #%d", loops)
			okAdv := false
			for _, e := range iPhi.Edges {
				if bo, ok := e.(*ssa.BinOp); ok && bo.Op == token.ADD && ((bo.X == ssa.Value(iPhi) && bo.Y == stepArg) || (bo.Y == ssa.Value(iPhi) && bo.X == stepArg)) {
					okAdv = true
				}
			}
			ob(n+" starts at first and advances by the step passed to SliceIndices", l.Header.Instrs[0].Pos(), okAdv, "i = phi(first, i + stepInt)")
			okCnt := false
			if nPhi != nil && count != nil {
				inc := false
				for _, e := range nPhi.Edges {
					if bo, ok := e.(*ssa.BinOp); ok && bo.Op == token.ADD && bo.X == ssa.Value(nPhi) {
						if k, isC := constInt(bo.Y); isC && k == 1 {
							inc = true
						}
					}
				}
				if iff, ok := l.Header.Instrs[len(l.Header.Instrs)-1].(*ssa.If); ok {
					if bo, ok := iff.Cond.(*ssa.BinOp); ok && bo.Op == token.LSS && bo.X == ssa.Value(nPhi) && bo.Y == count && l.Blocks[l.Header.Succs[0]] && !l.Blocks[l.Header.Succs[1]] {
						okCnt = inc
					}
				}
			}
			ob(n+" selects exactly count elements", l.Header.Instrs[0].Pos(), okCnt, "n = phi(0, n+1); the loop continues while n < count")
			// the element appended is seq[i] of a sliced sequence
			okElem, elems := false, 0
			for b := range l.Blocks {
				for _, in := range b.Instrs {
					var x, idx ssa.Value
					switch e := in.(type) {
					case *ssa.Lookup:
						x, idx = e.X, e.Index
					case *ssa.Index:
						x, idx = e.X, e.Index
					case *ssa.IndexAddr:
						x, idx = e.X, e.Index
					default:
						continue
					}
					elems++
					isSeq := false
					if ph, ok := x.(*ssa.Phi); ok {
						for _, e := range ph.Edges {
							for _, s := range seqs {
								if e == s {
									isSeq = true
								}
							}
						}
					}
					for _, s := range seqs {
						if x == s {
							isSeq = true
						}
					}
					if _, isAlloc := x.(*ssa.Alloc); isAlloc { // the varargs array of append
						elems--
						continue
					}
					if isSeq && idx == ssa.Value(iPhi) {
						okElem = true
					}
				}
			}
			ob(n+" appends the element at i of the sliced sequence", l.Header.Instrs[0].Pos(), okElem && elems == 1, fmt.Sprintf("%d element accesses in the loop", elems))
		}
	}
	ob("has one element loop per sequence kind", f.Pos(), loops == 2, fmt.Sprintf("%d loops driven by SliceIndices' first/count", loops))
	// the list result is a fresh list: never the source list or a sub-slice sharing its storage
	kList, _ := constInt(t.SSA[pAst].Const("List").Value)
	nRes := 0
	checkFresh := func(v ssa.Value, pos token.Pos) {
		nRes++
		bad := ""
		seen := map[ssa.Value]bool{}
		var walk func(v ssa.Value)
		walk = func(v ssa.Value) {
			if v == nil || seen[v] {
				return
			}
			seen[v] = true
			switch x := v.(type) {
			case *ssa.MakeInterface:
				walk(x.X)
			case *ssa.ChangeType:
				walk(x.X)
			case *ssa.Phi:
				for _, e := range x.Edges {
					walk(e)
				}
			case *ssa.Call:
				if builtinName(x) == "append" {
					walk(x.Call.Args[0])
					return
				}
				// a same-package helper: what it returns must be fresh in turn
				if h := x.Call.StaticCallee(); h != nil && h.Pkg == f.Pkg && len(h.Blocks) > 0 && h.Signature.Results().Len() == 1 {
					allInstrs(h, func(i2 ssa.Instruction) {
						if ret, isR := i2.(*ssa.Return); isR && len(ret.Results) == 1 {
							walk(ret.Results[0])
						}
					})
					return
				}
				bad = "result of " + path(x)
			case *ssa.MakeSlice:
			case *ssa.Const:
			case *ssa.Slice:
				if al, ok := x.X.(*ssa.Alloc); ok && al.Heap {
					return // slice literal
				}
				bad = "sub-slice " + path(x.X) + "[…:…] shares the backing array of its operand"
			default:
				bad = "value " + path(v) + " is not freshly allocated"
			}
		}
		walk(v)
		ob(fmt.Sprintf("list result #%d is a fresh list", nRes), pos, bad == "", "a slice of a list is a new list; a write through it must not be visible through the source. "+bad)
	}
	allInstrs(f, func(in ssa.Instruction) {
		switch x := in.(type) {
		case *ssa.Return:
			if pp == pRT && len(x.Results) == 3 {
				if k, isC := constInt(x.Results[1]); isC && k == kList {
					checkFresh(x.Results[0], x.Pos())
				}
			}
		case *ssa.Store:
			// v2: V{result, ast.List} literal: the store of field T == List identifies the literal, field V its value
			if pp != pRT2 {
				return
			}
			fa, ok := x.Addr.(*ssa.FieldAddr)
			if !ok || fa.Field != 1 {
				return
			}
			if k, isC := constInt(x.Val); !isC || k != kList {
				return
			}
			for _, ref := range *fa.X.Referrers() {
				if fv, ok := ref.(*ssa.FieldAddr); ok && fv.Field == 0 {
					for _, r2 := range *fv.Referrers() {
						if st, ok := r2.(*ssa.Store); ok {
							checkFresh(st.Val, st.Pos())
						}
					}
				}
			}
		}
	})
	ob("has a list-tagged result", f.Pos(), nRes >= 1, fmt.Sprintf("%d list-tagged results, each checked for freshness", nRes))
}

func reachesInstr(from *ssa.BasicBlock, to ssa.Instruction) bool {
	seen := map[*ssa.BasicBlock]bool{}
	st := []*ssa.BasicBlock{from}
	for len(st) > 0 {
		b := st[len(st)-1]
		st = st[:len(st)-1]
		if seen[b] {
			continue
		}
		seen[b] = true
		if b == to.Block() {
			return true
		}
		st = append(st, b.Succs...)
	}
	return false
}

// c04BoundArg: arg is phi(nil, new int) where the int is cast.ToInt of a value whose provenance names expr.<which>.
func valueOrNil(e *ssa.Extract) ssa.Value {
	if e == nil {
		return nil
	}
	return e
}

func c04BoundArg(arg ssa.Value, which string) (bool, string) {
	// the conversion may sit in a helper `h(…, val, …) (*int, err)`: nil for an omitted bound, else &ToInt(val)
	if ex, isE := arg.(*ssa.Extract); isE && ex.Index == 0 {
		if hc, isC := ex.Tuple.(*ssa.Call); isC && hc.Call.StaticCallee() != nil && len(hc.Call.StaticCallee().Blocks) > 0 {
			h := hc.Call.StaticCallee()
			hasNil, hasVal, bad := false, false, ""
			var valParam *ssa.Parameter
			allInstrs(h, func(in ssa.Instruction) {
				ret, isR := in.(*ssa.Return)
				if !isR || len(ret.Results) < 2 || retError(ret) == "nonnil" {
					return
				}
				var walk func(v ssa.Value)
				walk = func(v ssa.Value) {
					switch x := v.(type) {
					case *ssa.Phi:
						for _, e := range x.Edges {
							walk(e)
						}
					case *ssa.Alloc:
						cl, ok := singleStore(x).(*ssa.Call)
						if !ok || cl.Call.StaticCallee() == nil || fnName(cl.Call.StaticCallee()) != "ToInt" {
							bad = "the int is not cast.ToInt(…)"
							return
						}
						if p, isP := unwrapMakeIface(cl.Call.Args[0]).(*ssa.Parameter); isP {
							valParam, hasVal = p, true
						} else {
							bad = "the converted value is not the helper's operand parameter"
						}
					default:
						if isNilConst(v) {
							hasNil = true
						} else {
							bad = "result is neither nil nor a fresh int"
						}
					}
				}
				walk(ret.Results[0])
			})
			if bad != "" || !hasNil || !hasVal {
				return false, "helper " + h.Name() + ": " + bad
			}
			for k, prm := range h.Params {
				if prm == valParam && k < len(hc.Call.Args) {
					src := provenanceOperand(unwrapMakeIface(hc.Call.Args[k]))
					if !strings.Contains(src, "expr."+which) {
						return false, "converted operand comes from " + src + " — expected expr." + which
					}
					return true, "through " + h.Name() + ": converted operand comes from " + src
				}
			}
			return false, "helper operand not found"
		}
	}
	ph, ok := arg.(*ssa.Phi)
	if !ok {
		return false, "argument is not phi(nil, &v)"
	}
	hasNil, hasVal := false, false
	detail := ""
	for _, e := range ph.Edges {
		if isNilConst(e) {
			hasNil = true
			continue
		}
		al, ok := e.(*ssa.Alloc)
		if !ok {
			return false, "edge is neither nil nor a fresh int"
		}
		v := singleStore(al)
		cl, ok := v.(*ssa.Call)
		if !ok || cl.Call.StaticCallee() == nil || fnName(cl.Call.StaticCallee()) != "ToInt" {
			return false, "the int is not cast.ToInt(…)"
		}
		src := provenanceOperand(unwrapMakeIface(cl.Call.Args[0]))
		detail = "converted operand comes from " + src
		if !strings.Contains(src, "expr."+which) {
			return false, detail + " — expected expr." + which
		}
		hasVal = true
	}
	return hasNil && hasVal, detail
}

// provenanceOperand: where an evaluated operand value comes from: the argument of the evaluator call that produced it
// (v1: extract of RunStmt(ctx, expr.X); v2: field of a local V assigned from GetRet() right after RunExpr(ctx, expr.X)).
func provenanceOperand(v ssa.Value) string {
	seen := map[ssa.Value]bool{}
	var out []string
	var walk func(v ssa.Value)
	walk = func(v ssa.Value) {
		if v == nil || seen[v] {
			return
		}
		seen[v] = true
		switch x := v.(type) {
		case *ssa.Phi:
			for _, e := range x.Edges {
				walk(e)
			}
		case *ssa.Extract:
			if cl, ok := x.Tuple.(*ssa.Call); ok {
				if cal := cl.Call.StaticCallee(); cal != nil && fnName(cal) == "RunStmt" {
					out = append(out, path(cl.Call.Args[1]))
					return
				}
				if cal := cl.Call.StaticCallee(); cal != nil && fnName(cal) == "GetRet" {
					// the evaluator call that precedes it in the same or the dominating block
					if ev := precedingEval(cl); ev != nil {
						out = append(out, path(ev.Call.Args[1]))
					}
					return
				}
			}
		case *ssa.UnOp:
			if fa, ok := x.X.(*ssa.FieldAddr); ok {
				if al, ok := fa.X.(*ssa.Alloc); ok {
					for _, ref := range *al.Referrers() {
						if st, ok := ref.(*ssa.Store); ok && st.Addr == ssa.Value(al) {
							walk(st.Val)
						}
					}
					return
				}
			}
			walk(x.X)
		case *ssa.Field:
			walk(x.X)
		}
	}
	walk(v)
	sort.Strings(out)
	return strings.Join(out, ",")
}

// precedingEval: the RunExpr call whose register result this GetRet reads: the last RunExpr call that dominates it.
func precedingEval(getRet *ssa.Call) *ssa.Call {
	var best *ssa.Call
	allInstrs(getRet.Parent(), func(in ssa.Instruction) {
		cl, ok := in.(*ssa.Call)
		if !ok || cl.Call.StaticCallee() == nil || fnName(cl.Call.StaticCallee()) != "RunExpr" {
			return
		}
		if !precedes(cl, getRet) {
			return
		}
		if best == nil || precedes(best, cl) {
			best = cl
		}
	})
	return best
}

// ---------------------------------------------------------------- slice tables

// lin: a linear form over atoms (variables or opaque sub-terms) with integer coefficients.
type lin struct {
	k int64
	m map[string]int64
}

func (l lin) String() string {
	var ks []string
	for k, v := range l.m {
		if v != 0 {
			ks = append(ks, k)
		}
	}
	sort.Strings(ks)
	var sb strings.Builder
	for _, k := range ks {
		fmt.Fprintf(&sb, "%+d*%s ", l.m[k], k)
	}
	fmt.Fprintf(&sb, "%+d", l.k)
	return sb.String()
}

func (l lin) scale(c int64) lin {
	o := lin{k: l.k * c, m: map[string]int64{}}
	for k, v := range l.m {
		o.m[k] = v * c
	}
	return o
}

func (l lin) add(b lin) lin {
	o := lin{k: l.k + b.k, m: map[string]int64{}}
	for k, v := range l.m {
		o.m[k] += v
	}
	for k, v := range b.m {
		o.m[k] += v
	}
	return o
}

func (l lin) isConst() bool {
	for _, v := range l.m {
		if v != 0 {
			return false
		}
	}
	return true
}

// leadNeg: the first (alphabetically) non-zero coefficient is negative.
func (l lin) leadNeg() bool {
	var ks []string
	for k, v := range l.m {
		if v != 0 {
			ks = append(ks, k)
		}
	}
	sort.Strings(ks)
	if len(ks) == 0 {
		return l.k < 0
	}
	return l.m[ks[0]] < 0
}

type exprParser struct {
	s string
	i int
}

func (p *exprParser) ws() {
	for p.i < len(p.s) && p.s[p.i] == ' ' {
		p.i++
	}
}

// parseCond / parseTerm: the fully parenthesised expressions rendered by spec (and the hand-written reference, which
// may omit parentheses around a chain of + and -).
func (p *exprParser) parseSum() lin {
	l := p.parseProd()
	for {
		p.ws()
		if p.i < len(p.s) && (p.s[p.i] == '+' || p.s[p.i] == '-') && !(p.i+1 < len(p.s) && p.s[p.i+1] == '=') {
			op := p.s[p.i]
			p.i++
			r := p.parseProd()
			if op == '-' {
				r = r.scale(-1)
			}
			l = l.add(r)
			continue
		}
		return l
	}
}

func (p *exprParser) parseProd() lin {
	l := p.parseAtom()
	for {
		p.ws()
		if p.i < len(p.s) && p.s[p.i] == '/' {
			p.i++
			r := p.parseAtom()
			// canonical sign: the divisor's leading coefficient is positive
			if r.leadNeg() {
				l, r = l.scale(-1), r.scale(-1)
			}
			l = lin{m: map[string]int64{"div(" + l.String() + " , " + r.String() + ")": 1}}
			continue
		}
		return l
	}
}

func (p *exprParser) parseAtom() lin {
	p.ws()
	if p.i >= len(p.s) {
		return lin{m: map[string]int64{"?": 1}}
	}
	switch ch := p.s[p.i]; {
	case ch == '(':
		p.i++
		l := p.parseSum()
		p.ws()
		if p.i < len(p.s) && p.s[p.i] == ')' {
			p.i++
		}
		return l
	case ch == '-':
		p.i++
		return p.parseAtom().scale(-1)
	case ch >= '0' && ch <= '9':
		var v int64
		for p.i < len(p.s) && p.s[p.i] >= '0' && p.s[p.i] <= '9' {
			v = v*10 + int64(p.s[p.i]-'0')
			p.i++
		}
		return lin{k: v, m: map[string]int64{}}
	default:
		st := p.i
		for p.i < len(p.s) && (p.s[p.i] == '_' || p.s[p.i] == '.' || p.s[p.i] >= 'a' && p.s[p.i] <= 'z' || p.s[p.i] >= 'A' && p.s[p.i] <= 'Z' || p.s[p.i] >= '0' && p.s[p.i] <= '9') {
			p.i++
		}
		name := p.s[st:p.i]
		if p.i < len(p.s) && p.s[p.i] == '(' { // call atom: name(arg, …) with canonical arguments
			p.i++
			var as []string
			for {
				a := p.parseSum()
				as = append(as, a.String())
				p.ws()
				if p.i < len(p.s) && p.s[p.i] == ',' {
					p.i++
					continue
				}
				break
			}
			if p.i < len(p.s) && p.s[p.i] == ')' {
				p.i++
			}
			name += "(" + strings.Join(as, " , ") + ")"
		}
		if name == "" {
			p.i++
			name = "?"
		}
		return lin{m: map[string]int64{name: 1}}
	}
}

// canonCond renders a comparison (possibly wrapped in !(…)) as `L < 0`, `L == 0`, `L != 0` over a canonical linear
// form (integers: a <= b ⇔ a-b-1 < 0), or "" when it is no comparison.
func canonCond(s string) string {
	s = strings.TrimSpace(s)
	neg := false
	for strings.HasPrefix(s, "!(") && strings.HasSuffix(s, ")") && balanced(s[2:len(s)-1]) {
		neg = !neg
		s = strings.TrimSpace(s[2 : len(s)-1])
	}
	for strings.HasPrefix(s, "(") && strings.HasSuffix(s, ")") && balanced(s[1:len(s)-1]) {
		s = strings.TrimSpace(s[1 : len(s)-1])
	}
	// top-level operator
	depth := 0
	for i := 0; i < len(s); i++ {
		switch s[i] {
		case '(':
			depth++
		case ')':
			depth--
		}
		if depth != 0 {
			continue
		}
		for _, op := range []string{" <= ", " >= ", " == ", " != ", " < ", " > "} {
			if strings.HasPrefix(s[i:], op) {
				o := strings.TrimSpace(op)
				if ls, rs := strings.TrimSpace(s[:i]), strings.TrimSpace(s[i+len(op):]); (ls == "nil" || rs == "nil") && (o == "==" || o == "!=") {
					v := ls
					if ls == "nil" {
						v = rs
					}
					if (o == "!=") != neg {
						return "given(" + v + ")"
					}
					return "omitted(" + v + ")"
				}
				a := (&exprParser{s: s[:i]}).parseSum()
				b := (&exprParser{s: s[i+len(op):]}).parseSum()
				if neg {
					o = map[string]string{"<": ">=", ">": "<=", "<=": ">", ">=": "<", "==": "!=", "!=": "=="}[o]
				}
				d := a.add(b.scale(-1)) // a - b
				switch o {
				case "<":
					return d.String() + " < 0"
				case ">":
					return d.scale(-1).String() + " < 0"
				case "<=":
					return d.add(lin{k: -1}).String() + " < 0"
				case ">=":
					return d.scale(-1).add(lin{k: -1}).String() + " < 0"
				default:
					if d.leadNeg() {
						d = d.scale(-1)
					}
					return d.String() + " " + o + " 0"
				}
			}
		}
	}
	return ""
}

func balanced(s string) bool {
	d := 0
	for i := 0; i < len(s); i++ {
		switch s[i] {
		case '(':
			d++
		case ')':
			d--
			if d < 0 {
				return false
			}
		}
	}
	return d == 0
}

func canonTerm(s string) string { return (&exprParser{s: s}).parseSum().String() }

// infeasible: two canonical `L < 0` atoms whose forms sum to a constant ≥ -1 cannot both hold over the integers;
// `L == 0` with `L != 0`; an atom over constants only that is false.
func infeasible(atoms []string) bool {
	var lts []lin
	eq := map[string]bool{}
	ne := map[string]bool{}
	for _, a := range atoms {
		switch {
		case strings.HasSuffix(a, " < 0"):
			l := (&linReader{}).read(strings.TrimSuffix(a, " < 0"))
			if l.isConst() && l.k >= 0 {
				return true
			}
			lts = append(lts, l)
		case strings.HasSuffix(a, " == 0"):
			eq[strings.TrimSuffix(a, " == 0")] = true
		case strings.HasSuffix(a, " != 0"):
			ne[strings.TrimSuffix(a, " != 0")] = true
		}
	}
	for k := range eq {
		if ne[k] {
			return true
		}
	}
	for _, a := range atoms {
		if strings.HasPrefix(a, "given(") {
			for _, b := range atoms {
				if b == "omitted("+strings.TrimPrefix(a, "given(") {
					return true
				}
			}
		}
	}
	for i := range lts {
		for j := i + 1; j < len(lts); j++ {
			s := lts[i].add(lts[j])
			if s.isConst() && s.k >= -1 {
				return true
			}
			if s.isConst() && s.k == -2 {
				// both hold only when lts[i] == -1
				e := lts[i].add(lin{k: 1})
				if e.leadNeg() {
					e = e.scale(-1)
				}
				if ne[e.String()] {
					return true
				}
			}
		}
		// L < 0 with L == 0 or -L-ish equalities
		for k := range eq {
			e := (&linReader{}).read(k)
			if d := lts[i].add(e.scale(-1)); d.isConst() && d.k >= 0 {
				return true
			}
			if d := lts[i].add(e); d.isConst() && d.k >= 0 {
				return true
			}
		}
	}
	return false
}

// linReader parses the canonical rendering produced by lin.String back into a lin.
type linReader struct{}

func (linReader) read(s string) lin {
	l := lin{m: map[string]int64{}}
	i := 0
	for i < len(s) {
		for i < len(s) && s[i] == ' ' {
			i++
		}
		if i >= len(s) {
			break
		}
		sign := int64(1)
		if s[i] == '-' {
			sign = -1
		}
		i++
		var v int64
		for i < len(s) && s[i] >= '0' && s[i] <= '9' {
			v = v*10 + int64(s[i]-'0')
			i++
		}
		if i < len(s) && s[i] == '*' {
			i++
			st := i
			d := 0
			for i < len(s) && !(s[i] == ' ' && d == 0) {
				if s[i] == '(' {
					d++
				}
				if s[i] == ')' {
					d--
				}
				i++
			}
			l.m[s[st:i]] += sign * v
		} else {
			l.k += sign * v
		}
	}
	return l
}

type sliceCell struct {
	Atoms  []string // canonical path atoms (sorted)
	Result string   // canonical result tuple
}

func canonOutcome(o specOutcome, drop func(string) bool) (sliceCell, bool) {
	var atoms []string
	for _, cd := range o.Cond {
		cc := canonCond(cd)
		if cc == "" {
			cc = "?" + cd
		}
		if strings.HasSuffix(cc, " < 0") {
			if l := (linReader{}).read(strings.TrimSuffix(cc, " < 0")); l.isConst() {
				if l.k < 0 {
					continue // trivially true
				}
				return sliceCell{}, false
			}
		}
		if drop != nil && drop(cc) {
			continue
		}
		atoms = append(atoms, cc)
	}
	sort.Strings(atoms)
	atoms = uniqStrings(atoms)
	if infeasible(atoms) {
		return sliceCell{}, false
	}
	var vs []string
	for _, v := range o.Vals {
		vs = append(vs, canonTerm(v.String()))
	}
	return sliceCell{Atoms: atoms, Result: strings.Join(vs, " ; ")}, true
}

func uniqStrings(s []string) []string {
	var out []string
	for i, x := range s {
		if i == 0 || x != s[i-1] {
			out = append(out, x)
		}
	}
	return out
}

func cellKey(c sliceCell) string { return strings.Join(c.Atoms, " && ") + " => " + c.Result }

func c04SliceTable(c *Ctx) {
	r, t := c.R, c.T
	si := t.Func(pRT, "SliceIndices")
	if si == nil {
		r.Undecided("SLICE-TABLE", "runtime.SliceIndices", "", "unresolved anchor")
		return
	}
	r.Fn(relName(si))
	// ---- the clamp: whatever SliceIndices calls with a dereferenced bound
	var clampFn *ssa.Function
	allInstrs(si, func(in ssa.Instruction) {
		if cl, ok := in.(*ssa.Call); ok && cl.Call.StaticCallee() != nil && len(cl.Call.StaticCallee().Blocks) > 0 && len(cl.Call.Args) == 4 {
			clampFn = cl.Call.StaticCallee()
		}
	})
	if clampFn == nil {
		r.Undecided("SLICE-TABLE", "bound clamp helper of SliceIndices", t.Pos(si.Pos()), "no 4-argument in-module helper is called with the bounds; the table cannot be split at the helper")
		return
	}
	r.Fn(relName(clampFn))
	{
		cfg := &specCfg{Call: stdErrCall}
		outs, ab := cfg.run(clampFn, []sval{symv("v"), symv("length"), symv("low"), symv("high")})
		if ab != "" {
			r.Undecided("SLICE-TABLE", "clamp outcome table", t.Pos(clampFn.Pos()), ab)
		} else {
			got := map[string]bool{}
			for _, o := range outs {
				if cell, ok := canonOutcome(o, nil); ok {
					got[cellKey(cell)] = true
				}
			}
			// Python: v < 0: v += length, then below the lower clamp → low; v ≥ 0: above the upper clamp → high.
			// Two accepted spellings of the lower test (`< low` and `< 0` select the same value for low ∈ {0,-1}).
			mk := func(lowTest string) map[string]bool {
				ref := []struct {
					when []string
					res  string
				}{
					{[]string{"v < 0", lowTest}, "low"},
					{[]string{"v < 0", "!(" + lowTest + ")"}, "v + length"},
					{[]string{"v >= 0", "v > high"}, "high"},
					{[]string{"v >= 0", "v <= high"}, "v"},
				}
				m := map[string]bool{}
				for _, rc := range ref {
					var at []string
					for _, w := range rc.when {
						at = append(at, canonCond(w))
					}
					sort.Strings(at)
					m[cellKey(sliceCell{Atoms: at, Result: canonTerm(rc.res)})] = true
				}
				return m
			}
			okA := sameSet(got, mk("v + length < low"))
			okB := sameSet(got, mk("v + length < 0"))
			r.Ob("SLICE-TABLE", "clamp of one bound: 4 regions as in slice.indices", t.Pos(clampFn.Pos()), okA || okB,
				"extracted: "+strings.Join(sortedKeys(got), " | "))
		}
	}
	// ---- SliceIndices with the clamp kept as an atom
	cfg := &specCfg{Call: func(fn *ssa.Function, call *ssa.Call, nth int, args []sval) (sval, bool) {
		if call.Call.StaticCallee() == clampFn {
			return symv(fmt.Sprintf("clamp(%s, %s, %s, %s)", args[0], args[1], args[2], args[3])), true
		}
		return stdErrCall(fn, call, nth, args)
	}}
	outs, ab := cfg.run(si, []sval{symv("length"), symv("start"), symv("end"), symv("step")})
	if ab != "" {
		r.Undecided("SLICE-TABLE", "SliceIndices outcome table", t.Pos(si.Pos()), ab)
		return
	}
	// cells keyed by (sign of step, start given, end given); atoms about those three are the key, the rest the body
	type cellBody struct{ empty, full []sliceCell }
	cells := map[string]*cellBody{}
	guards := 0
	for _, o := range outs {
		cell, ok := canonOutcome(o, nil)
		if !ok {
			continue
		}
		key, rest, def := c04CellKey(cell.Atoms)
		if !def {
			// defensive early exits (step == 0, length < 0): must yield the empty selection
			guards++
			r.Ob("SLICE-TABLE", "SliceIndices early exit under "+strings.Join(cell.Atoms, " && "), t.Pos(si.Pos()), strings.HasSuffix(cell.Result, "; +0"), "an early exit may only select nothing: "+cell.Result)
			continue
		}
		cb := cells[key]
		if cb == nil {
			cb = &cellBody{}
			cells[key] = cb
		}
		cell.Atoms = rest
		if strings.HasSuffix(cell.Result, "; +0") {
			cb.empty = append(cb.empty, cell)
		} else {
			cb.full = append(cb.full, cell)
		}
	}
	for _, sg := range []string{"+", "-"} {
		for _, hs := range []bool{false, true} {
			for _, he := range []bool{false, true} {
				key := fmt.Sprintf("step%s start=%v end=%v", sg, hs, he)
				cb := cells[key]
				// reference from slice.indices
				lo, hi, dS, dE := "0", "length", "0", "length"
				if sg == "-" {
					lo, hi, dS, dE = "-1", "length - 1", "length - 1", "-1"
				}
				S, E := dS, dE
				if hs {
					S = fmt.Sprintf("clamp(start, length, %s, %s)", lo, hi)
				}
				if he {
					E = fmt.Sprintf("clamp(end, length, %s, %s)", lo, hi)
				}
				var cond, cnt string
				if sg == "+" {
					cond = fmt.Sprintf("(%s) < (%s)", S, E)
					cnt = fmt.Sprintf("((%s) - (%s) - 1) / step + 1", E, S)
				} else {
					cond = fmt.Sprintf("(%s) < (%s)", E, S)
					cnt = fmt.Sprintf("((%s) - (%s) + 1) / step + 1", E, S)
				}
				wantFull := cellKey(sliceCell{Atoms: dropTrivial([]string{canonCond(cond)}), Result: canonTerm(S) + " ; " + canonTerm(cnt)})
				wantEmpty := cellKey(sliceCell{Atoms: dropTrivial([]string{canonCond("!(" + cond + ")")}), Result: canonTerm(S) + " ; " + canonTerm("0")})
				if cb == nil {
					r.Ob("SLICE-TABLE", "SliceIndices cell "+key, t.Pos(si.Pos()), false, "no outcome for this cell")
					continue
				}
				got := map[string]bool{}
				for _, x := range append(append([]sliceCell{}, cb.full...), cb.empty...) {
					got[cellKey(x)] = true
				}
				want := map[string]bool{wantFull: true, wantEmpty: true}
				// a cell whose emptiness condition is decided by length alone may lack one side after feasibility pruning
				ok := sameSet(got, want) || (len(got) == 1 && (got[wantFull] || got[wantEmpty]) && c04LengthOnly(cond))
				r.Ob("SLICE-TABLE", "SliceIndices cell "+key, t.Pos(si.Pos()), ok,
					"extracted: "+strings.Join(sortedKeys(got), " | ")+" ; slice.indices: "+strings.Join(sortedKeys(want), " | "))
			}
		}
	}
	r.Floor("SLICE-TABLE", 9)
	r.Counts["slice_indices_outcomes"] = len(outs)
	r.Counts["slice_indices_early_exits"] = guards
}

func c04LengthOnly(cond string) bool { return !strings.Contains(cond, "clamp(") }

func dropTrivial(a []string) []string {
	var out []string
	for _, x := range a {
		if x != "" {
			out = append(out, x)
		}
	}
	sort.Strings(out)
	return out
}

// c04CellKey splits canonical atoms into the cell key (sign of step, presence of the bounds) and the rest.
// def is false when the atoms do not determine a cell (the defensive early exits).
func c04CellKey(atoms []string) (key string, rest []string, def bool) {
	sign, hs, he := "", "", ""
	zero := false
	for _, a := range atoms {
		switch a {
		case "+1*step +0 < 0":
			sign = "-"
		case "-1*step +0 < 0":
			sign = "+"
		case "-1*step -1 < 0": // step >= 0
			if sign == "" {
				sign = "+?"
			}
		case "+1*step -1 < 0": // step <= 0
			if sign == "" {
				sign = "-?"
			}
		case "+1*step +0 != 0":
			zero = true
		case "+1*step +0 == 0":
			return "", nil, false
		case "given(start)":
			hs = "true"
		case "omitted(start)":
			hs = "false"
		case "given(end)":
			he = "true"
		case "omitted(end)":
			he = "false"
		case "-1*length -1 < 0": // length >= 0: the defensive guard not taken
		default:
			rest = append(rest, a)
		}
	}
	if strings.HasSuffix(sign, "?") {
		if !zero {
			return "", nil, false
		}
		sign = sign[:1]
	}
	if sign == "" || hs == "" || he == "" {
		return "", nil, false
	}
	return fmt.Sprintf("step%s start=%s end=%s", sign, hs, he), rest, true
}

func sameSet(a, b map[string]bool) bool {
	if len(a) != len(b) {
		return false
	}
	for k := range a {
		if !b[k] {
			return false
		}
	}
	return true
}

// ---------------------------------------------------------------- no byte→string

func c04NoByteString(c *Ctx) {
	r, t := c.R, c.T
	n, conv := 0, 0
	seen := map[*ssa.Function]bool{}
	v2s, _ := v2Scope(t)
	for _, sc := range [][]*ssa.Function{scopeList(runScope(t)), scopeList(v2s)} {
		for _, f := range sc {
			if seen[f] {
				continue
			}
			seen[f] = true
			n++
			allInstrs(f, func(in ssa.Instruction) {
				cv, ok := in.(*ssa.Convert)
				if !ok {
					return
				}
				to, ok1 := cv.Type().Underlying().(*types.Basic)
				from, ok2 := cv.X.Type().Underlying().(*types.Basic)
				if !ok1 || !ok2 || to.Kind() != types.String || from.Info()&types.IsInteger == 0 {
					return
				}
				conv++
				// the operand is an element of a string
				fromString := false
				switch lk := cv.X.(type) {
				case *ssa.Lookup:
					_, fromString = lk.X.Type().Underlying().(*types.Basic)
				case *ssa.Index:
					_, fromString = lk.X.Type().Underlying().(*types.Basic)
				}
				r.Ob("NO-BYTE-STRING", fmt.Sprintf("%s converts %s to string", relName(f), path(cv.X)), t.Pos(cv.Pos()), !fromString && from.Kind() != types.Uint8,
					"string(b) of a byte re-encodes values ≥ 0x80 as two-byte runes: a slice of a non-ASCII string would not consist of the string's own bytes")
			})
		}
	}
	r.Ob("NO-BYTE-STRING", "run scopes contain no string(byte) of a string element", "", true, fmt.Sprintf("%d functions scanned, %d integer→string conversions inspected", n, conv))
	r.FloorN("functions scanned for byte→string conversions", n, 80)
}

func scopeList(sc map[*ssa.Function]bool) []*ssa.Function {
	var l []*ssa.Function
	for f := range sc {
		l = append(l, f)
	}
	sort.Slice(l, func(i, j int) bool { return relName(l[i]) < relName(l[j]) })
	return l
}

// ---------------------------------------------------------------- literals

func c04Literals(c *Ctx, pp, tag string) {
	r, t := c.R, c.T
	for _, spec := range []struct{ fn, field, what string }{{"RunListInitExpr", "List", "list"}, {"RunMapInitExpr", "KeyValeList", "map"}} {
		f := t.Func(pp, spec.fn)
		if f == nil {
			r.Undecided("LITERALS", tag+"."+spec.fn, "", "unresolved anchor")
			continue
		}
		r.Fn(relName(f))
		who := tag + "." + spec.fn
		loops := naturalLoops(f)
		// one range loop over the literal's elements
		okLoop := len(loops) == 1
		evals := 0
		inLoop := true
		allInstrs(f, func(in ssa.Instruction) {
			cl, ok := in.(*ssa.Call)
			if !ok || cl.Call.StaticCallee() == nil {
				return
			}
			n := fnName(cl.Call.StaticCallee())
			// the evaluator itself, or a same-package helper that hands its node parameter to it exactly once
			viaHelper := false
			if n != "RunStmt" && n != "RunExpr" && cl.Call.StaticCallee().Pkg == f.Pkg {
				for _, ev := range []string{"RunStmt", "RunExpr"} {
					if evf := f.Pkg.Func(ev); evf != nil {
						if _, is := evaluatedChild(cl, evf); is {
							viaHelper = true
						}
					}
				}
			}
			if n == "RunStmt" || n == "RunExpr" || viaHelper {
				evals++
				if len(loops) == 1 && !loops[0].Blocks[cl.Block()] {
					inLoop = false
				}
			}
		})
		want := 1
		if spec.what == "map" {
			want = 2
		}
		r.Ob("LITERALS", who+" evaluates every element once, in source order", t.Pos(f.Pos()), okLoop && evals == want && inLoop,
			fmt.Sprintf("%d range loop(s) over expr.%s, %d evaluator call(s) per element", len(loops), spec.field, evals))
		// fresh container per evaluation
		fresh := false
		allInstrs(f, func(in ssa.Instruction) {
			switch x := in.(type) {
			case *ssa.MakeMap:
				fresh = fresh || spec.what == "map"
			case *ssa.MakeSlice:
				fresh = fresh || spec.what == "list"
			case *ssa.Call:
				if builtinName(x) == "append" && spec.what == "list" {
					fresh = true
				}
			}
		})
		// every container-tagged result is freshly built in this activation
		kTag, _ := constInt(t.SSA[pAst].Const(map[string]string{"list": "List", "map": "Map"}[spec.what]).Value)
		stale := ""
		nRes := 0
		judge := func(v ssa.Value) {
			nRes++
			if why := notFreshContainer(v); why != "" {
				stale = why
			}
		}
		allInstrs(f, func(in ssa.Instruction) {
			switch x := in.(type) {
			case *ssa.Return:
				if pp == pRT && len(x.Results) == 3 {
					if k, isC := constInt(x.Results[1]); isC && k == kTag {
						judge(x.Results[0])
					}
				}
			case *ssa.Store:
				if pp != pRT2 {
					return
				}
				fa, ok := x.Addr.(*ssa.FieldAddr)
				if !ok || fa.Field != 1 {
					return
				}
				if k, isC := constInt(x.Val); !isC || k != kTag {
					return
				}
				for _, ref := range *fa.X.Referrers() {
					if fv, ok := ref.(*ssa.FieldAddr); ok && fv.Field == 0 {
						for _, r2 := range *fv.Referrers() {
							if st, ok := r2.(*ssa.Store); ok {
								judge(st.Val)
							}
						}
					}
				}
			}
		})
		r.Ob("LITERALS", who+" builds a fresh "+spec.what+" on every evaluation", t.Pos(f.Pos()), fresh && nRes >= 1 && stale == "",
			fmt.Sprintf("%d %s-tagged result(s), each built in this activation; %s — two evaluations of one literal never share storage (a cached literal would carry one run's writes into the next)", nRes, spec.what, stale))
		if spec.what == "map" {
			// the key must be a Go string (comma-ok) else error
			okKey := false
			allInstrs(f, func(in ssa.Instruction) {
				ta, ok := in.(*ssa.TypeAssert)
				if !ok || ta.AssertedType.String() != "string" {
					return
				}
				if ta.CommaOk {
					for _, ref := range *ta.Referrers() {
						if ex, ok := ref.(*ssa.Extract); ok && ex.Index == 1 {
							for _, r2 := range *ex.Referrers() {
								if iff, ok := r2.(*ssa.If); ok && rejecting(iff.Block().Succs[1]) {
									okKey = true
								}
							}
						}
					}
				}
			})
			// v2 may test the tag instead
			if !okKey {
				kStr, _ := constInt(t.SSA[pAst].Const("String").Value)
				allInstrs(f, func(in ssa.Instruction) {
					if iff, ok := in.(*ssa.If); ok {
						if bo, ok := iff.Cond.(*ssa.BinOp); ok {
							if k, isC := constInt(bo.Y); isC && k == kStr && strings.HasSuffix(bo.X.Type().String(), "ast.DType") {
								fail := iff.Block().Succs[0]
								if bo.Op == token.EQL {
									fail = iff.Block().Succs[1]
								}
								if rejecting(fail) {
									okKey = true
								}
							}
						}
					}
				})
			}
			r.Ob("LITERALS", who+" rejects a key that is not a string", t.Pos(f.Pos()), okKey, "a non-string key is an error, not a silently converted or dropped entry")
		}
	}
}

// ---------------------------------------------------------------- len

func c04Len(c *Ctx) {
	r, t := c.R, c.T
	f := t.Func(pFuncs, "Len")
	if f == nil {
		r.Undecided("LEN", "funcs.Len", "", "unresolved anchor")
		return
	}
	r.Fn(relName(f))
	astp := t.SSA[pAst]
	want := map[string]string{"Map": "map[string]any", "List": "[]any", "String": "string"}
	got := map[string]string{}
	zeroDefault := false
	allInstrs(f, func(in ssa.Instruction) {
		cl, ok := in.(*ssa.Call)
		if !ok || cl.Call.StaticCallee() == nil || fnName(cl.Call.StaticCallee()) != "ReturnAppend" {
			return
		}
		// the appended value: int64(len(val.(T))) or int64(0)
		var lenOf *ssa.TypeAssert
		isZero := false
		var walk func(v ssa.Value, d int)
		walk = func(v ssa.Value, d int) {
			if d > 6 || v == nil {
				return
			}
			switch x := v.(type) {
			case *ssa.MakeInterface:
				walk(x.X, d+1)
			case *ssa.Convert:
				walk(x.X, d+1)
			case *ssa.Const:
				if k, ok := constInt(x); ok && k == 0 {
					isZero = true
				}
			case *ssa.Call:
				if builtinName(x) == "len" {
					if ta, ok := x.Call.Args[0].(*ssa.TypeAssert); ok {
						lenOf = ta
					}
				}
			}
		}
		walk(cl.Call.Args[1], 0)
		if lenOf != nil {
			for name := range want {
				k, _ := constInt(astp.Const(name).Value)
				if hasFact(cl.Block(), func(cond ssa.Value, pol bool) bool {
					bo, ok := cond.(*ssa.BinOp)
					if !ok {
						return false
					}
					v, isC := constInt(bo.Y)
					return isC && v == k && bo.Op == token.EQL && pol
				}) {
					got[name] = strings.ReplaceAll(lenOf.AssertedType.String(), "interface{}", "any")
				}
			}
		} else if isZero {
			zeroDefault = true
		}
	})
	for _, name := range sortedKeys(want) {
		r.Ob("LEN", "len() of a "+name+" value", t.Pos(f.Pos()), got[name] == want[name], fmt.Sprintf("under tag %s returns int64(len(val.(%s))) — found %q", name, want[name], got[name]))
	}
	r.Ob("LEN", "len() of anything else is 0", t.Pos(f.Pos()), zeroDefault, "default arm returns int64(0)")
	// result tag Int
	kInt, _ := constInt(astp.Const("Int").Value)
	okTag := true
	nApp := 0
	allInstrs(f, func(in ssa.Instruction) {
		if cl, ok := in.(*ssa.Call); ok && cl.Call.StaticCallee() != nil && fnName(cl.Call.StaticCallee()) == "ReturnAppend" {
			nApp++
			if k, isC := constInt(cl.Call.Args[len(cl.Call.Args)-1]); !isC || k != kInt {
				okTag = false
			}
		}
	})
	r.Ob("LEN", "len() returns an Int", t.Pos(f.Pos()), okTag && nApp == 4, fmt.Sprintf("%d ReturnAppend calls, all tagged Int", nApp))
}

// ---------------------------------------------------------------- aliasing

func c04Alias(c *Ctx) {
	r, t := c.R, c.T
	// Stack.Set stores the value parameter itself
	set := t.Method(pRT, "Stack", "Set")
	if set == nil {
		r.Undecided("ALIAS", "runtime.Stack.Set", "", "unresolved anchor")
		return
	}
	r.Fn(relName(set))
	okStore, n := true, 0
	scope := setScope(set)
	var scopeFns []*ssa.Function
	for g := range scope {
		scopeFns = append(scopeFns, g)
	}
	sortFuncs(scopeFns)
	for _, sf := range scopeFns {
		vi := scope[sf]
		allInstrs(sf, func(in ssa.Instruction) {
			st, ok := in.(*ssa.Store)
			if !ok {
				return
			}
			fa, ok := st.Addr.(*ssa.FieldAddr)
			if !ok || namedOf(fa.X.Type()) != "runtime.Varb" || fieldName(fa) != "Value" {
				return
			}
			n++
			if p, ok := st.Val.(*ssa.Parameter); !ok || p != sf.Params[vi] {
				okStore = false
			}
		})
	}
	r.Ob("ALIAS", "Stack.Set stores the value it is given", t.Pos(set.Pos()), okStore && n >= 2, fmt.Sprintf("%d stores into Varb.Value, all of the parameter itself: a list or map bound to a second name is the same object", n))
	// v1 assignment passes the evaluated right-hand side on unchanged
	as := t.Func(pRT, "RunAssignmentExpr")
	if as != nil {
		r.Fn(relName(as))
		okPass, calls := true, 0
		// the value handed to SetVarb is the evaluator's result itself: directly, or carried through a freshly built
		// Varb / a parameter of a helper that RunAssignmentExpr calls
		var fromEval func(v ssa.Value, fn *ssa.Function, via *ssa.Call, depth int) bool
		fromEval = func(v ssa.Value, fn *ssa.Function, via *ssa.Call, depth int) bool {
			if depth > 4 {
				return false
			}
			v = unwrapMakeIface(v)
			switch x := v.(type) {
			case *ssa.Extract:
				if src, ok := x.Tuple.(*ssa.Call); ok && src.Call.StaticCallee() != nil {
					switch fnName(src.Call.StaticCallee()) {
					case "RunStmt", "runAssignArith":
						return true
					}
				}
			case *ssa.Parameter:
				if via == nil {
					return false
				}
				for k, prm := range fn.Params {
					if prm == x && k < len(via.Call.Args) {
						return fromEval(via.Call.Args[k], via.Parent(), nil, depth+1)
					}
				}
			case *ssa.UnOp:
				if fa, ok := x.X.(*ssa.FieldAddr); ok && fieldName(fa) == "Value" && namedOf(fa.X.Type()) == "runtime.Varb" {
					switch base := fa.X.(type) {
					case *ssa.Alloc:
						for _, ref := range *base.Referrers() {
							if fa2, ok := ref.(*ssa.FieldAddr); ok && fieldName(fa2) == "Value" {
								for _, rr := range *fa2.Referrers() {
									if st, ok := rr.(*ssa.Store); ok && st.Addr == ssa.Value(fa2) {
										return fromEval(st.Val, fn, via, depth+1)
									}
								}
							}
						}
					case *ssa.Parameter:
						if via == nil {
							return false
						}
						for k, prm := range fn.Params {
							if prm == base && k < len(via.Call.Args) {
								if al, ok := via.Call.Args[k].(*ssa.Alloc); ok {
									for _, ref := range *al.Referrers() {
										if fa2, ok := ref.(*ssa.FieldAddr); ok && fieldName(fa2) == "Value" {
											for _, rr := range *fa2.Referrers() {
												if st, ok := rr.(*ssa.Store); ok && st.Addr == ssa.Value(fa2) {
													return fromEval(st.Val, via.Parent(), nil, depth+1)
												}
											}
										}
									}
								}
							}
						}
					}
				}
			case *ssa.Phi:
				for _, e := range x.Edges {
					if !fromEval(e, fn, via, depth+1) {
						return false
					}
				}
				return len(x.Edges) > 0
			}
			return false
		}
		scan := func(g *ssa.Function, via *ssa.Call) {
			allInstrs(g, func(in ssa.Instruction) {
				cl, ok := in.(*ssa.Call)
				if !ok || cl.Call.StaticCallee() == nil || fnName(cl.Call.StaticCallee()) != "SetVarb" {
					return
				}
				calls++
				if !fromEval(cl.Call.Args[2], g, via, 0) {
					okPass = false
				}
			})
		}
		scan(as, nil)
		allInstrs(as, func(in ssa.Instruction) {
			if hc, ok := in.(*ssa.Call); ok {
				if h := hc.Call.StaticCallee(); h != nil && h.Pkg == as.Pkg && len(h.Blocks) > 0 && strings.HasPrefix(h.Name(), "runAssign") && h.Name() != "runAssignArith" {
					scan(h, hc)
				}
			}
		})
		r.Ob("ALIAS", "v1 assignment binds the evaluated value itself", t.Pos(as.Pos()), okPass && calls >= 2, fmt.Sprintf("%d SetVarb calls, each given the evaluator's result without copying", calls))
	} else {
		r.Undecided("ALIAS", "runtime.RunAssignmentExpr", "", "unresolved anchor")
	}
	// Get returns the stored value (no copy): Varb pointer is returned
	get := t.Method(pRT, "Stack", "Get")
	if get != nil {
		okGet := false
		allInstrs(get, func(in ssa.Instruction) {
			if ret, ok := in.(*ssa.Return); ok && len(ret.Results) == 2 && isNilConst(ret.Results[1]) {
				if _, isPtr := ret.Results[0].Type().Underlying().(*types.Pointer); isPtr {
					okGet = true
				}
			}
		})
		r.Ob("ALIAS", "Stack.Get hands out the stored variable", t.Pos(get.Pos()), okGet, "reads see the object the writes changed")
	}
	_ = constant.MakeInt64
}

// notFreshContainer: "" when v is a list/map built in this activation (make, literal, append onto such), else why not.
func notFreshContainer(v ssa.Value) string {
	bad := ""
	seen := map[ssa.Value]bool{}
	var walk func(v ssa.Value)
	walk = func(v ssa.Value) {
		if v == nil || seen[v] || bad != "" {
			return
		}
		seen[v] = true
		switch x := v.(type) {
		case *ssa.MakeInterface:
			walk(x.X)
		case *ssa.ChangeType:
			walk(x.X)
		case *ssa.Phi:
			for _, e := range x.Edges {
				walk(e)
			}
		case *ssa.Call:
			if builtinName(x) == "append" {
				walk(x.Call.Args[0])
				return
			}
			bad = "result of " + path(x)
		case *ssa.MakeSlice, *ssa.MakeMap:
		case *ssa.Const:
		case *ssa.Slice:
			if al, ok := x.X.(*ssa.Alloc); ok && al.Heap {
				return
			}
			bad = "sub-slice of " + path(x.X)
		default:
			bad = "value " + path(v) + " is not built here"
		}
	}
	walk(v)
	return bad
}

// c04IndexSpec: the list index is one result of a two-result helper h whose other result (bool tested true / error
// tested nil) reports success. h — with whatever helpers of its own, inlined — is specialised with the list, its
// length, the key and the key's tag as symbols; every outcome that reports success must be one of
//
//	v = K            under  keyTag == Int (if h receives the tag), !(K < 0), K < len(list)
//	v = len(list)+K  under  keyTag == Int (if h receives the tag),   K < 0 , !(v < 0), v < len(list)
//
// with K = cast.ToInt(key). That is the index rule (negative counts from the end, range-checked against the same
// list), decided on the helper's semantics rather than on where its statements sit.
type c04IdxSpec struct {
	ok        bool // the shape applies (a helper result with a tested success marker)
	norm      bool // every successful outcome is K or len+K as above, bounds included
	tagInside bool // the helper receives the key's tag and every successful outcome requires it to be Int
	rejOther  bool // the caller's not-success edge returns an error
	keyVal    ssa.Value
	detail    string
}

func c04IndexSpec(at ssa.Instruction, idx ssa.Value, listV ssa.Value, kInt int64) c04IdxSpec {
	var res c04IdxSpec
	ex, ok := idx.(*ssa.Extract)
	if !ok || ex.Index > 1 {
		return res
	}
	call, ok := ex.Tuple.(*ssa.Call)
	if !ok {
		return res
	}
	h := call.Call.StaticCallee()
	if h == nil || len(h.Blocks) == 0 || h.Signature.Results().Len() != 2 || !inModule(h) {
		return res
	}
	k, m := ex.Index, 1-ex.Index
	markBool := false
	if b, isB := h.Signature.Results().At(m).Type().Underlying().(*types.Basic); isB && b.Kind() == types.Bool {
		markBool = true
	} else if !isNillable(h.Signature.Results().At(m).Type()) {
		return res
	}
	// success tested on the way here; the other edge rejects
	for _, ec := range controlling(at.Block()) {
		var e2 *ssa.Extract
		succ := false
		if markBool {
			e2, _ = ec.Cond.(*ssa.Extract)
			succ = ec.Pol
		} else if bo, isB := ec.Cond.(*ssa.BinOp); isB && isNilConst(bo.Y) {
			e2, _ = bo.X.(*ssa.Extract)
			succ = (bo.Op == token.EQL && ec.Pol) || (bo.Op == token.NEQ && !ec.Pol)
		}
		if e2 != nil && e2.Tuple == ex.Tuple && e2.Index == m && succ {
			res.ok = true
			res.rejOther = rejectingOther(ec)
		}
	}
	if !res.ok {
		return res
	}
	var args []sval
	hasTag := false
	for i, a := range call.Call.Args {
		switch {
		case sameVal(a, listV):
			args = append(args, symv("list"))
		case isLenOf(a, listV):
			args = append(args, symv("len(list)"))
		case strings.HasSuffix(a.Type().String(), "ast.DType"):
			args = append(args, symv("keyTag"))
			hasTag = true
		default:
			if c2, isC := a.(*ssa.Call); isC && c2.Call.StaticCallee() != nil && fnName(c2.Call.StaticCallee()) == "ToInt" && len(c2.Call.Args) == 1 {
				args = append(args, symv("K"))
				res.keyVal = unwrapMakeIface(c2.Call.Args[0])
			} else if _, isI := a.Type().Underlying().(*types.Interface); isI && res.keyVal == nil {
				args = append(args, symv("key"))
				res.keyVal = unwrapMakeIface(a)
			} else {
				args = append(args, symv(fmt.Sprintf("p%d", i)))
			}
		}
	}
	cfg := &specCfg{MaxLoop: 2, MaxDepth: 3, MaxVisits: 100000}
	cfg.Call = func(fn *ssa.Function, c *ssa.Call, nth int, as []sval) (sval, bool) {
		if cal := c.Call.StaticCallee(); cal != nil {
			switch fnName(cal) {
			case "ToInt":
				if len(as) == 1 && strings.Contains(as[0].String(), "key") {
					return symv("K"), true
				}
			case "StartPos", "NodeStartPos":
				return symv("pos"), true
			}
		}
		return stdErrCall(fn, c, nth, as)
	}
	outs, ab := cfg.run(h, args)
	if ab != "" || len(outs) == 0 {
		res.detail = "helper " + h.Name() + " could not be specialised: " + ab
		return res
	}
	res.norm, res.tagInside = true, hasTag
	nSucc := 0
	const L = "len(list)"
	for _, o := range outs {
		if len(o.Vals) != 2 {
			res.norm = false
			continue
		}
		mv := o.Vals[m]
		if markBool {
			if mv.isConst() && !constant.BoolVal(mv.c) {
				continue
			}
			if !mv.isConst() {
				res.norm = false
				res.detail = "the success flag of an outcome is not decided: " + mv.String()
				continue
			}
		} else if !mv.nil {
			continue // an error
		}
		nSucc++
		lits := map[string]bool{}
		for _, cd := range condsOnly(o.Cond) {
			lits[canonLit(cd)] = true
		}
		has := func(pos, neg string) bool { return lits["+"+pos] || lits["-"+neg] }
		v := stripParens(o.Vals[k].String())
		switch v {
		case "K":
			if !(has("K >= 0", "K < 0") && has("K < "+L, "K >= "+L)) {
				res.norm = false
				res.detail = "outcome v = K lacks 0 ≤ K < len(list): " + strings.Join(condsOnly(o.Cond), " && ")
			}
		case L + " + K", "K + " + L:
			s := "(" + v + ")"
			if !(has("K < 0", "K >= 0") && has(s+" >= 0", s+" < 0") && has(s+" < "+L, s+" >= "+L)) {
				res.norm = false
				res.detail = "outcome v = len(list)+K lacks K < 0 ≤ v < len(list): " + strings.Join(condsOnly(o.Cond), " && ")
			}
		default:
			res.norm = false
			res.detail = "a successful outcome yields " + v + ", neither K nor len(list)+K"
		}
		if hasTag && !(lits[fmt.Sprintf("+%d == keyTag", kInt)] || lits[fmt.Sprintf("+keyTag == %d", kInt)]) {
			res.tagInside = false
		}
	}
	if nSucc == 0 {
		res.norm = false
		res.detail = "no successful outcome"
	}
	if res.norm && res.detail == "" {
		res.detail = fmt.Sprintf("%s specialised: %d successful outcome(s), each v = K with 0 ≤ K < len(list) or v = len(list)+K with K < 0 ≤ v < len(list)", h.Name(), nSucc)
	}
	return res
}

// c04SliceCallSpec: RunSliceExpr specialised with the evaluated operands as symbols (helpers and local closures
// inlined). On every path that reaches SliceIndices the start/end arguments are nil exactly when the operand was
// omitted or evaluated to nil and otherwise the integer conversion of that operand under an Int tag, and the step
// is 1 for an omitted/nil step and otherwise the non-zero integer conversion of the step operand under an Int tag.
type c04SliceSpec struct {
	ok               bool
	start, end, step bool
	detail           string
}

func c04SliceCallSpec(f, si *ssa.Function, kInt int64) c04SliceSpec {
	var res c04SliceSpec
	if len(f.Params) != 2 {
		return res
	}
	ex := pname(f.Params[1])
	lastNode := ""
	cfg := &specCfg{MaxLoop: 1, MaxDepth: 3, MaxVisits: 400000, MaxAlts: 64, Consistent: true}
	cfg.Call = func(fn *ssa.Function, call *ssa.Call, nth int, args []sval) (sval, bool) {
		cal := call.Call.StaticCallee()
		if cal == nil {
			return sval{}, false
		}
		switch fnName(cal) {
		case "RunStmt": // v1: (value, tag, error)
			n := args[len(args)-1].String()
			return sval{tup: []sval{symv("val(" + n + ")"), symv("tag(" + n + ")"), symv("err(" + n + ")")}}, true
		case "RunExpr": // v2: the value goes to the register
			lastNode = args[len(args)-1].String()
			return symv("err(" + lastNode + ")"), true
		case "GetRet":
			n := lastNode
			return sval{tup: []sval{{tup: []sval{symv("val(" + n + ")"), symv("tag(" + n + ")")}}, symv("regerr(" + n + ")")}}, true
		case "ToInt":
			return symv("int(" + args[0].String() + ")"), true
		case "StartPos", "NodeStartPos":
			return symv("pos"), true
		case "ReturnAppend", "Reset":
			return symv("reg"), true
		}
		if cal == si {
			var as []string
			for _, a := range args {
				as = append(as, a.String())
			}
			return symv("effect:SliceIndices|" + strings.Join(as, "|")), true
		}
		return stdErrCall(fn, call, nth, args)
	}
	var args []sval
	for _, p := range f.Params {
		args = append(args, symv(pname(p)))
	}
	outs, ab := cfg.run(f, args)
	if ab != "" {
		res.detail = ab
		return res
	}
	res = c04SliceSpec{ok: true, start: true, end: true, step: true}
	n := 0
	strip := func(s string) string {
		// (T)(x) interface wrappers and parentheses
		for {
			t := stripParens(s)
			if m := regexp.MustCompile(`^\([A-Za-z0-9_.\[\]* ]+\)\((.*)\)$`).FindStringSubmatch(t); m != nil {
				t = m[1]
			}
			if t == s {
				return t
			}
			s = t
		}
	}
	for _, o := range outs {
		eff := ""
		lits := map[string]bool{}
		for _, cd := range o.Cond {
			if strings.HasPrefix(cd, "effect:SliceIndices|") {
				eff = cd
			} else if !strings.HasPrefix(cd, "effect:") {
				lits[canonLit(cd)] = true
			}
		}
		if eff == "" {
			continue
		}
		n++
		if os.Getenv("PLVERIF_DEBUG") == "slice" {
			fmt.Fprintln(os.Stderr, "SLICE", eff, sortedKeys(lits))
		}
		parts := strings.Split(eff, "|")
		if len(parts) != 5 {
			res.start, res.end, res.step = false, false, false
			continue
		}
		isNilOperand := func(node string) bool {
			// v2 marks "no value" by the Invalid tag (the zero V) instead of a nil value
			if lits["+0 == tag("+node+")"] || lits["+tag("+node+") == 0"] {
				return true
			}
			for l := range lits {
				if l[0] != '+' || !strings.Contains(l, " == ") {
					continue
				}
				a, b, _ := strings.Cut(l[1:], " == ")
				a, b = strip(a), strip(b)
				if (a == "nil" && (b == "val("+node+")" || b == node)) || (b == "nil" && (a == "val("+node+")" || a == node)) {
					return true
				}
			}
			return false
		}
		isIntTag := func(node string) bool {
			k := fmt.Sprint(kInt)
			return lits["+"+k+" == tag("+node+")"] || lits["+tag("+node+") == "+k]
		}
		bound := func(arg, node string) bool {
			arg = strip(arg)
			switch {
			case arg == "nil":
				return isNilOperand(node)
			case strip(strings.TrimSuffix(strings.TrimPrefix(arg, "int("), ")")) == "val("+node+")" && strings.HasPrefix(arg, "int("):
				return isIntTag(node)
			}
			return false
		}
		if !bound(parts[2], ex+".Start") {
			res.start = false
			res.detail = "start argument " + parts[2]
		}
		if !bound(parts[3], ex+".End") {
			res.end = false
			res.detail = "end argument " + parts[3]
		}
		st := strip(parts[4])
		node := ex + ".Step"
		switch {
		case st == "1":
			if !isNilOperand(node) {
				res.step = false
				res.detail = "step 1 although the step operand is present"
			}
		case strings.HasPrefix(st, "int(") && strip(strings.TrimSuffix(strings.TrimPrefix(st, "int("), ")")) == "val("+node+")":
			nz := lits["-0 == "+st] || lits["-"+st+" == 0"]
			if !isIntTag(node) || !nz {
				res.step = false
				res.detail = "step " + st + " without Int tag or zero test"
			}
		default:
			res.step = false
			res.detail = "step argument " + st
		}
	}
	if os.Getenv("PLVERIF_DEBUG") == "slice" {
		fmt.Fprintln(os.Stderr, "SLICERES", f.Pkg.Pkg.Name(), n, res)
	}
	if n == 0 {
		return c04SliceSpec{detail: "no path reaches SliceIndices"}
	}
	if res.detail == "" {
		res.detail = fmt.Sprintf("%d specialised paths reach SliceIndices, all with start/end nil-or-int(operand) and step 1-or-nonzero int(step)", n)
	}
	return res
}

// ---------------------------------------------------------------- tree-held containers

// canHoldContainer: a Go type in which a script's list or map (or any dynamically typed value) can sit.
func canHoldContainer(tp types.Type, d int) bool {
	if d > 4 {
		return false
	}
	switch u := tp.Underlying().(type) {
	case *types.Interface:
		return u.NumMethods() == 0
	case *types.Slice:
		return canHoldContainer(u.Elem(), d+1)
	case *types.Array:
		return canHoldContainer(u.Elem(), d+1)
	case *types.Map:
		return canHoldContainer(u.Elem(), d+1)
	}
	return false
}

// treeContainers (C04 LITERALS, C15 NO-HIDDEN-STATE): the syntax tree is shared by every run and goroutine of a
// loaded script. A field of a tree node that can hold a dynamically typed value or a container ([]any,
// map[string]any, any) is therefore read by the interpreters only to test it for nil or to assert it to a pointer of
// a module type (CallExpr.PrivateData holds the *Script of a use() call). Any other use — copy, range, index, return,
// conversion to a script value — lets a value that lives on the tree into a run, where the script's index assignment
// writes through it: a shallow copy of a cached list literal still shares the nested lists, and the next run starts
// from what the previous one left.
func treeContainers(c *Ctx, rule string) {
	r, t := c.R, c.T
	scope := map[*ssa.Function]bool{}
	for f := range runScope(t) {
		scope[f] = true
	}
	v2, _ := v2Scope(t)
	for f := range v2 {
		scope[f] = true
	}
	var fns []*ssa.Function
	for f := range scope {
		fns = append(fns, f)
	}
	sortFuncs(fns)
	nField, nUse := 0, 0
	type key struct{ fn, field string }
	bad := map[key][]string{}
	okSeen := map[key]string{}
	for _, f := range fns {
		allInstrs(f, func(in ssa.Instruction) {
			var st types.Type
			var idx int
			var loaded []ssa.Value
			switch x := in.(type) {
			case *ssa.FieldAddr:
				st, idx = x.X.Type().Underlying().(*types.Pointer).Elem(), x.Field
				for _, ref := range *x.Referrers() {
					if u, ok := ref.(*ssa.UnOp); ok && u.Op == token.MUL {
						loaded = append(loaded, u)
					} else if s, ok := ref.(*ssa.Store); ok && s.Addr == ssa.Value(x) {
						// stores on the tree from a run scope are C16's business (RUN-WRITES)
					} else {
						loaded = append(loaded, nil) // the address itself escapes
					}
				}
			case *ssa.Field:
				st, idx = x.X.Type(), x.Field
				loaded = append(loaded, x)
			default:
				return
			}
			named, ok := st.(*types.Named)
			if !ok || named.Obj().Pkg() == nil || named.Obj().Pkg().Path() != pAst {
				return
			}
			sst, ok := named.Underlying().(*types.Struct)
			if !ok {
				return
			}
			fld := sst.Field(idx)
			if !canHoldContainer(fld.Type(), 0) {
				return
			}
			nField++
			k := key{relName(f), named.Obj().Name() + "." + fld.Name()}
			for _, v := range loaded {
				if v == nil {
					bad[k] = append(bad[k], "address of the field taken at "+t.Pos(in.Pos()))
					continue
				}
				refs := v.Referrers()
				if refs == nil {
					continue
				}
				for _, ref := range *refs {
					nUse++
					switch y := ref.(type) {
					case *ssa.BinOp:
						if (y.Op == token.EQL || y.Op == token.NEQ) && (isNilConst(y.X) || isNilConst(y.Y)) {
							okSeen[k] = "nil test"
							continue
						}
					case *ssa.TypeAssert:
						if p, ok := y.AssertedType.(*types.Pointer); ok {
							if n, ok := p.Elem().(*types.Named); ok && n.Obj().Pkg() != nil && strings.HasPrefix(n.Obj().Pkg().Path(), mod) {
								if _, isStruct := n.Underlying().(*types.Struct); isStruct {
									okSeen[k] = "asserted to *" + n.Obj().Name()
									continue
								}
							}
						}
					case *ssa.DebugRef:
						continue
					}
					bad[k] = append(bad[k], fmt.Sprintf("%T at %s", ref, t.Pos(ref.Pos())))
				}
			}
			if _, isBad := bad[k]; !isBad {
				if _, seen := okSeen[k]; !seen {
					okSeen[k] = "no use"
				}
			}
		})
	}
	keys := map[key]bool{}
	for k := range bad {
		keys[k] = true
	}
	for k := range okSeen {
		keys[k] = true
	}
	var ks []key
	for k := range keys {
		ks = append(ks, k)
	}
	sort.Slice(ks, func(i, j int) bool { return ks[i].fn+ks[i].field < ks[j].fn+ks[j].field })
	for _, k := range ks {
		b := bad[k]
		sort.Strings(b)
		r.Ob(rule, fmt.Sprintf("%s reads tree field %s only to test or to assert a module pointer", k.fn, k.field), "", len(b) == 0,
			fmt.Sprintf("admitted: %s; other uses: %s — a dynamically typed value or container kept on the shared tree must not flow into a run (the script can write through it; later runs and other goroutines would see it)", okSeen[k], strings.Join(b, "; ")))
	}
	r.Extra[rule+"_tree_container_fields"] = map[string]int{"functions": len(fns), "field reads": nField, "uses": nUse}
	r.FloorN("reads of container-capable tree fields in the run scopes (CallExpr.PrivateData in use())", len(ks), 1)
}
