package main

import (
	"fmt"
	"go/types"
	"strings"

	"golang.org/x/tools/go/ssa"
)

func init() {
	register("C09", "use() linking: Push/Pop pairing, fresh path per root, binding, copy-before-append", checkC09)
}

func checkC09(c *Ctx) {
	r, t := c.R, c.T
	r.Explanation = "Decides the structural determinants of the use() linker in pkg/engine/callref.go on every path of the code: (1) PUSH-POP: in every function that calls (*searchPath).Push, each success return reached after a Push passes through Pop (typestate over the CFG, defer-aware, error returns excluded) — a leaked path entry makes a later visit of the same name look like a cycle; Push undoes its own append on its failure path and records the name only on success; Pop removes from nodeMap the very name it drops from path; (2) FRESH-PATH: the driver creates a new search path inside the per-root loop and passes that one to the DFS; (3) BIND: on the found-callee arm CallExpr.PrivateData is assigned the result of the allNg[name] lookup before the recursive call, and nothing else in the module writes PrivateData; (4) COPY-APPEND: every ChainAppend in pkg/engine has a receiver freshly produced by Copy()/NewErr (appending to a shared stored error would alter it); (5) CALLSITE-POS: the position appended for a use() call site is the NamePos of the CallExpr of the current loop iteration, not a field that the recursive call may have overwritten; (3b) BIND-ALL: every use() call site accepted by the checker is recorded (UseChecking → SetCallRef appends unconditionally → Check publishes Script.CallRef), so that the linker binds every call site, not one per callee name; (6) RESOLVED-ONLY: retMap is added to only after all callees resolved and in the driver only on the nil-error arm. Not decided: the iff-characterisation over all script sets as behaviour."
	eng := t.SSA[pEngine]
	sp := eng.Type("searchPath")
	if sp == nil {
		r.Undecided("ANCHOR", "engine.searchPath", "pkg/engine/callref.go", "type not found")
		return
	}
	push := t.Method(pEngine, "searchPath", "Push")
	pop := t.Method(pEngine, "searchPath", "Pop")
	if push == nil || pop == nil {
		r.Undecided("ANCHOR", "searchPath.Push/Pop", "pkg/engine/callref.go", "methods not found")
		return
	}
	isPush := func(cc *ssa.CallCommon) bool { return cc.StaticCallee() == push }
	isPop := func(cc *ssa.CallCommon) bool { return cc.StaticCallee() == pop }

	// (1) pairing in every caller of Push
	var walkers []*ssa.Function
	for _, f := range t.PkgFuncs(pEngine) {
		uses := false
		allInstrs(f, func(in ssa.Instruction) {
			if ci, ok := in.(ssa.CallInstruction); ok && isPush(ci.Common()) {
				uses = true
			}
		})
		if uses {
			walkers = append(walkers, f)
		}
	}
	for _, f := range walkers {
		r.Fn(relName(f))
		bad, good, acq := pairing(f, isPush, isPop)
		for _, ret := range good {
			r.Ob("PUSH-POP", fmt.Sprintf("%s success return #%d", relName(f), retOrdinal(f, ret)), t.Pos(ret.Pos()), true, fmt.Sprintf("no path entry pushed by this activation is still on the search path here (%d Push sites)", acq))
		}
		for _, ret := range bad {
			r.Ob("PUSH-POP", fmt.Sprintf("%s success return #%d", relName(f), retOrdinal(f, ret)), t.Pos(ret.Pos()), false,
				"success return reachable after sPath.Push(name) without sPath.Pop(): the name stays on the search path, so reaching the same script again (diamond, double use) is reported as a circular dependency")
		}
	}
	// … and pops nothing else: exact balance. State = (net depth −1…2, deferred pops 0…2). A second Pop (a deferred
	// one added next to the explicit one) removes the *caller's* entry: the caller is then no longer on the path and a
	// cycle through it is found a lap late, with a chain that starts at the wrong script.
	for _, f := range walkers {
		enc := func(d, k int) int { return (d+1)*3 + k }
		dec := func(s int) (int, int) { return s/3 - 1, s % 3 }
		clampD := func(d int) int {
			if d < -1 {
				return -1
			}
			if d > 2 {
				return 2
			}
			return d
		}
		ts := &typestate{fn: f, nstate: 12, init: enc(0, 0)}
		ts.trans = func(in ssa.Instruction, st int) int {
			d, k := dec(st)
			switch x := in.(type) {
			case *ssa.Defer:
				if isPop(&x.Call) || isDeferredClosureCalling(&x.Call, isPop) {
					if k < 2 {
						k++
					}
				}
			case *ssa.RunDefers:
				d = clampD(d - k)
				k = 0
			case *ssa.Call:
				if isPush(&x.Call) {
					d = clampD(d + 1)
				}
				if isPop(&x.Call) {
					d = clampD(d - 1)
				}
			}
			return enc(d, k)
		}
		before := ts.run()
		allInstrs(f, func(in ssa.Instruction) {
			ret, ok := in.(*ssa.Return)
			if !ok || ret.Block() == f.Recover || retError(ret) == "nonnil" {
				return
			}
			under := false
			for s := 0; s < 12; s++ {
				if before[in]&(1<<uint(s)) != 0 {
					if d, _ := dec(s); d < 0 {
						under = true
					}
				}
			}
			r.Ob("PUSH-POP", fmt.Sprintf("%s success return #%d pops only its own entry", relName(f), retOrdinal(f, ret)), t.Pos(ret.Pos()), !under,
				"on no path to this return are more entries popped than this activation pushed (explicit and deferred Pop calls counted): an extra Pop drops the caller's entry from the search path")
		})
	}
	r.Floor("PUSH-POP", 1)
	r.FloorN("functions calling searchPath.Push", len(walkers), 1)

	// Push: failure path restores path; nodeMap updated only on the success path
	r.Fn(relName(push), relName(pop))
	{
		var storesPath, mapUpd []ssa.Instruction
		deferRestore := false
		allInstrs(push, func(in ssa.Instruction) {
			switch x := in.(type) {
			case *ssa.Store:
				if fa, ok := x.Addr.(*ssa.FieldAddr); ok && fieldName(fa) == "path" {
					storesPath = append(storesPath, in)
				}
			case *ssa.MapUpdate:
				mapUpd = append(mapUpd, in)
			case *ssa.Defer:
				if mc, ok := x.Call.Value.(*ssa.MakeClosure); ok {
					allInstrs(mc.Fn.(*ssa.Function), func(in2 ssa.Instruction) {
						if s, ok := in2.(*ssa.Store); ok {
							if fa, ok := s.Addr.(*ssa.FieldAddr); ok && fieldName(fa) == "path" {
								if _, isSl := s.Val.(*ssa.Slice); isSl {
									deferRestore = true
								}
							}
						}
					})
				}
			}
		})
		// each non-nil return: either no path store precedes it, or a restoring defer was registered on its path
		allInstrs(push, func(in ssa.Instruction) {
			ret, ok := in.(*ssa.Return)
			if !ok || ret.Block() == push.Recover {
				return
			}
			switch retError(ret) {
			case "nonnil":
				preceded := false
				for _, s := range storesPath {
					if reachableFrom(s, ret) {
						preceded = true
					}
				}
				restored := false
				if preceded && deferRestore {
					allInstrs(push, func(d ssa.Instruction) {
						if df, ok := d.(*ssa.Defer); ok && precedes(df, ret) {
							if _, ok := df.Call.Value.(*ssa.MakeClosure); ok {
								restored = true
							}
						}
					})
				}
				// … or by an explicit truncation that lies between the append and this return on every path
				if preceded && !restored {
					for _, s := range storesPath {
						st := s.(*ssa.Store)
						if _, isSl := st.Val.(*ssa.Slice); !isSl || !precedes(st, ret) {
							continue
						}
						afterAppend := false
						for _, a := range storesPath {
							if _, isCall := a.(*ssa.Store).Val.(*ssa.Call); isCall && precedes(a, st) {
								afterAppend = true
							}
						}
						if afterAppend {
							restored = true
						}
					}
				}
				r.Ob("PUSH-UNDO", "searchPath.Push failure return", t.Pos(ret.Pos()), !preceded || restored, "a failed Push must leave path as it found it (append undone by a deferred or explicit truncation)")
				for _, mu := range mapUpd {
					r.Ob("PUSH-UNDO", "searchPath.Push failure return leaves nodeMap alone", t.Pos(ret.Pos()), !reachableFrom(mu, ret), "nodeMap must be updated only when Push succeeds")
				}
			case "nil":
				okm := false
				for _, mu := range mapUpd {
					if precedes(mu, ret) {
						okm = true
					}
				}
				r.Ob("PUSH-UNDO", "searchPath.Push success return records the name", t.Pos(ret.Pos()), okm, "nodeMap[name] must be set on the success path")
			}
		})
		r.Floor("PUSH-UNDO", 3)
	}
	// Pop: delete(nodeMap, path[len-1]) and path = path[:len-1]
	{
		delOK, truncOK := false, false
		allInstrs(pop, func(in ssa.Instruction) {
			if builtinName(in) == "delete" {
				args := in.(ssa.CallInstruction).Common().Args
				k := path(args[1])
				lastIdx := false
				if u, ok := args[1].(*ssa.UnOp); ok {
					if ia, ok := u.X.(*ssa.IndexAddr); ok {
						ix := path(ia.Index)
						lastIdx = strings.Contains(ix, "len(") && strings.HasSuffix(ix, "-1)")
					}
				}
				if strings.Contains(path(args[0]), ".nodeMap") && strings.Contains(k, ".path[") && lastIdx {
					delOK = true
				}
			}
			if s, ok := in.(*ssa.Store); ok {
				if fa, ok := s.Addr.(*ssa.FieldAddr); ok && fieldName(fa) == "path" {
					if sl, ok := s.Val.(*ssa.Slice); ok && sl.High != nil && strings.Contains(path(sl.High), "len(") && strings.Contains(path(sl.High), "-1") {
						truncOK = true
					}
				}
			}
		})
		r.Ob("POP-SAME-NAME", "searchPath.Pop deletes path[len-1] from nodeMap", t.Pos(pop.Pos()), delOK, "Pop must remove from nodeMap the name it drops from path")
		r.Ob("POP-SAME-NAME", "searchPath.Pop truncates path by one", t.Pos(pop.Pos()), truncOK, "Pop must drop exactly the last path element")
	}

	// (2) fresh path per root
	driver := t.Func(pEngine, "EngineCallRefLinkAndCheck")
	newSP := t.Func(pEngine, "newSearchPath")
	if driver == nil || newSP == nil {
		r.Undecided("ANCHOR", "EngineCallRefLinkAndCheck/newSearchPath", "pkg/engine/callref.go", "not found")
		return
	}
	r.Fn(relName(driver))
	loops := naturalLoops(driver)
	inLoop := func(b *ssa.BasicBlock) bool {
		for _, l := range loops {
			if l.Blocks[b] {
				return true
			}
		}
		return false
	}
	nDfs := 0
	allInstrs(driver, func(in ssa.Instruction) {
		call, ok := in.(*ssa.Call)
		if !ok {
			return
		}
		callee := call.Call.StaticCallee()
		isWalker := false
		for _, w := range walkers {
			if callee == w {
				isWalker = true
			}
		}
		if !isWalker {
			return
		}
		nDfs++
		var spArg ssa.Value
		for _, a := range call.Call.Args {
			if p, ok := a.Type().(*types.Pointer); ok && namedOf(p) == "engine.searchPath" {
				spArg = a
			}
		}
		fresh := false
		if spArg != nil {
			if mk, ok := spArg.(*ssa.Call); ok && mk.Call.StaticCallee() == newSP && inLoop(mk.Block()) && inLoop(call.Block()) {
				fresh = true
			}
		}
		if !fresh && inLoop(call.Block()) {
			// the path travels inside a per-root walk state: an object built in the loop one of whose fields is the
			// result of a newSearchPath() call made in the loop (and nothing else)
			for _, a := range call.Call.Args {
				al, isA := a.(*ssa.Alloc)
				if !isA || !inLoop(al.Block()) || al.Referrers() == nil {
					continue
				}
				for _, ref := range *al.Referrers() {
					fa, isF := ref.(*ssa.FieldAddr)
					if !isF || fa.Referrers() == nil {
						continue
					}
					if p, ok := fa.Type().(*types.Pointer); !ok || !strings.Contains(p.Elem().String(), "engine.searchPath") {
						continue
					}
					n, okAll := 0, true
					for _, r2 := range *fa.Referrers() {
						if st, isS := r2.(*ssa.Store); isS && st.Addr == ssa.Value(fa) {
							n++
							mk, isC := st.Val.(*ssa.Call)
							if !isC || mk.Call.StaticCallee() != newSP || !inLoop(mk.Block()) {
								okAll = false
							}
						}
					}
					if n > 0 && okAll {
						fresh = true
					}
				}
			}
		}
		r.Ob("FRESH-PATH", "EngineCallRefLinkAndCheck -> "+callee.Name(), t.Pos(call.Pos()), fresh, "each root's DFS must start from a search path created inside the per-root loop")
	})
	r.Floor("FRESH-PATH", 1)
	// driver verdict arms
	allInstrs(driver, func(in ssa.Instruction) {
		mu, ok := in.(*ssa.MapUpdate)
		if !ok {
			return
		}
		ecs := controlling(mu.Block())
		var facts []string
		for _, e := range ecs {
			facts = append(facts, e.String())
		}
		valT := mu.Value.Type().String()
		if strings.HasSuffix(valT, "runtime.Script") {
			ok := false
			for _, e := range ecs {
				if s := e.String(); strings.Contains(s, "== nil") && !strings.HasPrefix(s, "!(") || (strings.Contains(s, "!= nil") && strings.HasPrefix(s, "!(")) {
					ok = true
				}
			}
			r.Ob("RESOLVED-ONLY", "driver adds a script to the accepted set", t.Pos(mu.Pos()), ok, "only on the arm where the DFS returned no error", facts...)
		}
	})

	// (3)-(6) inside each walker
	ast := t.ByPath[pAst]
	_ = ast
	for _, f := range walkers {
		var recCalls []*ssa.Call
		allInstrs(f, func(in ssa.Instruction) {
			if call, ok := in.(*ssa.Call); ok && call.Call.StaticCallee() == f {
				recCalls = append(recCalls, call)
			}
		})
		// BIND
		for _, rc := range recCalls {
			bound := false
			allInstrs(f, func(in ssa.Instruction) {
				s, ok := in.(*ssa.Store)
				if !ok {
					return
				}
				fa, ok := s.Addr.(*ssa.FieldAddr)
				if !ok || fieldName(fa) != "PrivateData" {
					return
				}
				// value: MakeInterface of the script passed to the recursive call, which is the allNg lookup
				v := s.Val
				if mi, ok := v.(*ssa.MakeInterface); ok {
					v = mi.X
				}
				same := false
				for _, a := range rc.Call.Args {
					if a == v {
						same = true
					}
				}
				if same && strings.Contains(path(v), ".allNg[") && precedes(s, rc) {
					bound = true
				}
			})
			r.Ob("BIND", relName(f)+" recursive descent", t.Pos(rc.Pos()), bound, "before descending into a callee, the use() CallExpr's PrivateData must be set to the allNg[name] entry that is then visited")
		}
		// CALLSITE-POS + COPY-APPEND
		walkerChainRules(c, f, recCalls, "COPY-APPEND", "CALLSITE-POS")
		// RESOLVED-ONLY inside the walker: the retMap update is not inside the callee loop and lies behind its exhaustion
		lps := naturalLoops(f)
		allInstrs(f, func(in ssa.Instruction) {
			mu, ok := in.(*ssa.MapUpdate)
			if !ok || !strings.Contains(path(mu.Map), ".retMap") {
				return
			}
			okk := len(lps) > 0
			for _, l := range lps {
				if l.Blocks[mu.Block()] {
					okk = false
				}
				if !l.Header.Dominates(mu.Block()) {
					okk = false
				}
			}
			r.Ob("RESOLVED-ONLY", relName(f)+" marks the script resolved", t.Pos(mu.Pos()), okk, "retMap[name] may be set only after the loop over the script's use() calls ran to completion (every failing arm returns)")
		})
	}
	copyFreshObligation(c, "COPY-APPEND")
	callRefComplete(c, "BIND-ALL")
	r.Floor("BIND", 1)
	r.Floor("COPY-APPEND", 3)
	r.Floor("CALLSITE-POS", 2)
	r.Floor("RESOLVED-ONLY", 2)

	// PrivateData writers, module-wide
	nw := 0
	for _, pp := range sortedKeys(t.SSA) {
		for _, f := range t.PkgFuncs(pp) {
			allInstrs(f, func(in ssa.Instruction) {
				if s, ok := in.(*ssa.Store); ok {
					if fa, ok := s.Addr.(*ssa.FieldAddr); ok && fieldName(fa) == "PrivateData" && namedOf(fa.X.Type()) == "ast.CallExpr" {
						nw++
						isW := false
						for _, w := range walkers {
							if f == w {
								isW = true
							}
						}
						r.Ob("BIND-OWNER", "CallExpr.PrivateData written in "+relName(f), t.Pos(s.Pos()), isW, "only the linker binds use() call sites")
					}
				}
			})
		}
	}
	r.FloorN("PrivateData writers", nw, 1)
}

func retOrdinal(f *ssa.Function, r *ssa.Return) int {
	n := 0
	for _, b := range f.Blocks {
		for _, in := range b.Instrs {
			if x, ok := in.(*ssa.Return); ok {
				n++
				if x == r {
					return n
				}
			}
		}
	}
	return n
}

// checkCallSitePos: the position reported for a use() call site must be the NamePos of the current
// CallExpr. If it is read from a field of a shared object (p.namePos), no recursive call — which
// overwrites that field — may lie between the field's assignment and this read.
func checkCallSitePos(c *Ctx, f *ssa.Function, site *ssa.Call, posArg ssa.Value, recCalls []*ssa.Call) {
	r, t := c.R, c.T
	pp := path(posArg)
	key := fmt.Sprintf("%s %s position argument", relName(f), fnName(site.Call.StaticCallee()))
	if strings.Contains(pp, ".NamePos") && !strings.Contains(pp, "phi:") {
		r.Ob("CALLSITE-POS", key+" #"+fmt.Sprint(retOrdinalInstr(f, site)), t.Pos(site.Pos()), true, "position is "+pp)
		return
	}
	// a load of a field: find the load instruction and the stores to the same path
	ld, ok := posArg.(*ssa.UnOp)
	if !ok {
		r.Ob("CALLSITE-POS", key+" #"+fmt.Sprint(retOrdinalInstr(f, site)), t.Pos(site.Pos()), false, "position argument "+pp+" is not the NamePos of the use() call expression")
		return
	}
	stale := false
	detail := "position read from " + pp
	for _, rc := range recCalls {
		// the callee is f itself: does f store to that path?
		writes := false
		allInstrs(f, func(in ssa.Instruction) {
			if s, ok := in.(*ssa.Store); ok && path(s.Addr) == pp {
				writes = true
			}
		})
		if writes && reachAvoid(rc, ld, func(in ssa.Instruction) bool {
			s, ok := in.(*ssa.Store)
			return ok && path(s.Addr) == pp
		}) {
			stale = true
			detail = fmt.Sprintf("position is read from %s after the recursive call at %s, which assigns %s for the callee's own use() sites: the outer call site is reported at the inner script's position", pp, t.Pos(rc.Pos()), pp)
		}
	}
	r.Ob("CALLSITE-POS", key+" #"+fmt.Sprint(retOrdinalInstr(f, site)), t.Pos(site.Pos()), !stale, detail)
}

func retOrdinalInstr(f *ssa.Function, x ssa.Instruction) int {
	n := 0
	for _, b := range f.Blocks {
		for _, in := range b.Instrs {
			if c, ok := in.(*ssa.Call); ok && c.Call.StaticCallee() == x.(*ssa.Call).Call.StaticCallee() {
				n++
				if in == x {
					return n
				}
			}
		}
	}
	return n
}

// callRefComplete: every use() call site that passes the checker is recorded for the linker — UseChecking calls
// SetCallRef(funcExpr) before accepting, SetCallRef appends its argument on every path, Script.Check publishes
// the recorded list as Script.CallRef. A call site that is not recorded is never bound, and an unbound use()
// silently does nothing at run time.
func callRefComplete(c *Ctx, rule string) {
	r, t := c.R, c.T
	uc := t.Func(pFuncs, "UseChecking")
	scr := t.Method(pRT, "Task", "SetCallRef")
	chk := t.Method(pRT, "Script", "Check")
	if uc == nil || scr == nil || chk == nil {
		r.Undecided(rule, "UseChecking / Task.SetCallRef / Script.Check", "", "unresolved anchor")
		return
	}
	r.Fn(relName(uc), relName(scr), relName(chk))
	// (a) every accepting return of UseChecking is dominated by SetCallRef(funcExpr)
	var reg []*ssa.Call
	allInstrs(uc, func(in ssa.Instruction) {
		if call, ok := in.(*ssa.Call); ok && call.Call.StaticCallee() == scr && call.Call.Args[1] == ssa.Value(uc.Params[1]) {
			reg = append(reg, call)
		}
	})
	okA := len(reg) > 0
	allInstrs(uc, func(in ssa.Instruction) {
		ret, ok := in.(*ssa.Return)
		if !ok || retError(ret) == "nonnil" {
			return
		}
		dom := false
		for _, rc := range reg {
			if precedes(rc, ret) {
				dom = true
			}
		}
		if !dom {
			okA = false
		}
	})
	r.Ob(rule, "UseChecking records every accepted use() call site", t.Pos(uc.Pos()), okA, "ctx.SetCallRef(funcExpr) must precede every accepting return")
	// (b) SetCallRef appends its argument on every path
	var app ssa.Instruction
	allInstrs(scr, func(in ssa.Instruction) {
		if s, ok := in.(*ssa.Store); ok && strings.HasSuffix(path(s.Addr), ".callRef") {
			if call, ok := s.Val.(*ssa.Call); ok && builtinName(call) == "append" {
				// the appended slice contains the parameter
				if setStr(provOf(call.Call.Args[1])) == pname(scr.Params[1]) {
					app = in
				}
			}
		}
	})
	okB := app != nil
	if app != nil {
		first := scr.Blocks[0].Instrs[0]
		allInstrs(scr, func(in ssa.Instruction) {
			if ret, ok := in.(*ssa.Return); ok {
				if first == ssa.Instruction(ret) || reachAvoid(first, ret, func(x ssa.Instruction) bool { return x == app }) {
					okB = false
				}
			}
		})
	}
	r.Ob(rule, "Task.SetCallRef appends its argument on every path", t.Pos(scr.Pos()), okB, "a path that returns without appending (de-duplication, a size limit …) leaves that call site unbound: the linker binds exactly the recorded call expressions")
	// (c) Check publishes the list
	okC := false
	allInstrs(chk, func(in ssa.Instruction) {
		if s, ok := in.(*ssa.Store); ok && strings.HasSuffix(path(s.Addr), ".CallRef") && strings.HasSuffix(path(s.Val), ".callRef") {
			okC = true
		}
	})
	r.Ob(rule, "Script.Check publishes the recorded call sites as Script.CallRef", t.Pos(chk.Pos()), okC, "s.CallRef = ctx.callRef")
}

// walkerChainRules: the error-chain obligations inside a use() walker f (and the in-package helpers it calls):
// ChainAppend is applied to a fresh copy, and the position appended / reported is the current call site's.
func walkerChainRules(c *Ctx, f *ssa.Function, recCalls []*ssa.Call, ruleCopy, rulePos string) {
	r, t := c.R, c.T
	visit := func(g *ssa.Function, viaCall *ssa.Call) {
		allInstrs(g, func(in ssa.Instruction) {
			call, ok := in.(*ssa.Call)
			if !ok {
				return
			}
			cal := call.Call.StaticCallee()
			if cal == nil {
				return
			}
			var posArg ssa.Value
			switch {
			case funcIs(cal, pErr, "PlError.ChainAppend"):
				recv := call.Call.Args[0]
				fresh := false
				if rc, ok := recv.(*ssa.Call); ok {
					if fn := rc.Call.StaticCallee(); fn != nil && (funcIs(fn, pErr, "PlError.Copy") || funcIs(fn, pErr, "NewErr")) {
						fresh = true
					}
				}
				if ruleCopy != "" {
					r.Ob(ruleCopy, relName(g)+" ChainAppend receiver", t.Pos(call.Pos()), fresh, "ChainAppend must be applied to a fresh copy (Copy()/NewErr), never to an error object that is stored and shared: receiver is "+path(recv))
				}
				posArg = call.Call.Args[2]
			case funcIs(cal, pErr, "NewErr") && len(recCalls) > 0 && (strings.Contains(path(call.Call.Args[0]), ".Name") || func() bool { _, in := inCallRefLoop(g, call); return in }()):
				posArg = call.Call.Args[1]
			default:
				return
			}
			if viaCall == nil {
				checkCallSitePos(c, f, call, posArg, recCalls)
				checkCallSiteName(c, f, call, rulePos)
				return
			}
			// inside a helper: translate the helper's parameter to the walker's argument and judge at the call
			pp := path(posArg)
			mapped := ""
			for k, prm := range g.Params {
				if k < len(viaCall.Call.Args) && (pp == pname(prm) || strings.HasPrefix(pp, pname(prm)+".")) {
					mapped = path(viaCall.Call.Args[k]) + strings.TrimPrefix(pp, pname(prm))
				}
			}
			key := fmt.Sprintf("%s %s position argument (through helper %s)", relName(f), cal.Name(), g.Name())
			if mapped == "" {
				r.Ob(rulePos, key+" #"+fmt.Sprint(retOrdinalInstr(f, viaCall)), t.Pos(viaCall.Pos()), false, "position "+pp+" inside the helper does not come from the walker")
				return
			}
			if strings.Contains(mapped, ".NamePos") && !strings.Contains(mapped, "phi:") {
				r.Ob(rulePos, key+" #"+fmt.Sprint(retOrdinalInstr(f, viaCall)), t.Pos(viaCall.Pos()), true, "position is "+mapped)
				return
			}
			stale := false
			detail := "position read from " + mapped + " when the helper is called"
			for _, rc := range recCalls {
				writes := false
				allInstrs(f, func(in ssa.Instruction) {
					if s, ok := in.(*ssa.Store); ok && path(s.Addr) == mapped {
						writes = true
					}
				})
				if writes && reachAvoid(rc, viaCall, func(in ssa.Instruction) bool {
					s, ok := in.(*ssa.Store)
					return ok && path(s.Addr) == mapped
				}) {
					stale = true
					detail = fmt.Sprintf("the helper reads %s after the recursive call at %s, which assigns %s for the callee's own use() sites: the outer call site is reported at the inner script's position", mapped, t.Pos(rc.Pos()), mapped)
				}
			}
			r.Ob(rulePos, key+" #"+fmt.Sprint(retOrdinalInstr(f, viaCall)), t.Pos(viaCall.Pos()), !stale, detail)
		})
	}
	visit(f, nil)
	// one level of in-package helpers
	allInstrs(f, func(in ssa.Instruction) {
		call, ok := in.(*ssa.Call)
		if !ok {
			return
		}
		g := call.Call.StaticCallee()
		if g == nil || g == f || g.Pkg != f.Pkg || len(g.Blocks) == 0 {
			return
		}
		visit(g, call)
	})
}

// checkCallSiteName: inside the loop over <script>.CallRef, a call site is reported under the name of the script
// whose CallRef is being walked — the script that contains the use() call — not under the name of the root being
// linked or any other name the walker carries along.
func checkCallSiteName(c *Ctx, f *ssa.Function, site *ssa.Call, rule string) {
	r, t := c.R, c.T
	owner, inLoop := inCallRefLoop(f, site)
	if owner == nil || !inLoop {
		return // not a walker over Script.CallRef, or e.g. the cycle report issued before the loop
	}
	cal := site.Call.StaticCallee()
	var nameArg ssa.Value
	if funcIs(cal, pErr, "PlError.ChainAppend") {
		nameArg = site.Call.Args[1]
	} else {
		nameArg = site.Call.Args[0]
	}
	want := pname(owner) + ".Name"
	r.Ob(rule, fmt.Sprintf("%s %s script-name argument #%d", relName(f), cal.Name(), retOrdinalInstr(f, site)), t.Pos(site.Pos()), path(nameArg) == want,
		fmt.Sprintf("name is %s; the call site lies in the script whose CallRef is walked (%s) — any other name reports an intermediate call site in the wrong script", path(nameArg), want))
}

// inCallRefLoop: the parameter whose CallRef list f walks, and whether site lies inside that loop. "Inside" =
// dominated by the block that fetches the current element (error exits leave the natural loop, so membership in
// it would miss exactly the reporting blocks).
func inCallRefLoop(f *ssa.Function, site ssa.Instruction) (*ssa.Parameter, bool) {
	var owner *ssa.Parameter
	allInstrs(f, func(in ssa.Instruction) {
		if fa, ok := in.(*ssa.FieldAddr); ok && fieldName(fa) == "CallRef" {
			if p, isP := fa.X.(*ssa.Parameter); isP {
				owner = p
			}
		}
	})
	if owner == nil {
		return nil, false
	}
	inLoop := false
	allInstrs(f, func(in ssa.Instruction) {
		if ia, ok := in.(*ssa.IndexAddr); ok && strings.HasSuffix(path(ia.X), pname(owner)+".CallRef") && ia.Block().Dominates(site.Block()) {
			inLoop = true
		}
	})
	return owner, inLoop
}
