package main

import (
	"flag"
	"fmt"
	"go/constant"
	"golang.org/x/tools/go/ssa"
	"os"
	"strings"
)

var extraDumps = map[string]func(t *Tree, name string){}

// cmdDump prints internal tables for debugging and for writing reference files.
func cmdDump(args []string) int {
	fs := flag.NewFlagSet("dump", flag.ExitOnError)
	what := fs.String("w", "ctors", "ctors|flow|prods|fn")
	name := fs.String("n", "", "name filter")
	fs.Parse(args)
	t, err := LoadTree(repoDir(), nil, "")
	if err != nil {
		fmt.Fprintln(os.Stderr, err)
		return 2
	}
	if f, ok := extraDumps[*what]; ok {
		f(t, *name)
		return 0
	}
	switch *what {
	case "ctors":
		cs := parserCtors(t, nil)
		for _, k := range sortedKeys(cs) {
			fmt.Print(cs[k])
		}
	case "flow", "prods":
		g, err := LoadGram(t.Dir, nil)
		if err != nil {
			fmt.Fprintln(os.Stderr, err)
			return 2
		}
		fmt.Println("sync:", g.SyncOK, g.SyncDetail, g.Conflicts)
		cs := parserCtors(t, nil)
		for _, p := range g.Prods[1:] {
			if *name != "" && !strings.Contains(p.LHS, *name) {
				continue
			}
			fmt.Printf("%3d %s: %s   [%s]\n", p.Num, p.LHS, strings.Join(p.RHS, " "), p.Prec)
			if *what == "flow" {
				ai := g.Actions[p.Num]
				for _, c := range ai.Calls {
					var as []string
					for _, a := range c.Args {
						as = append(as, a.Text)
					}
					fmt.Printf("      call %s(%s) toResult=%v\n", c.Name, strings.Join(as, " | "), c.ToResult)
				}
				if len(ai.PassThru) > 0 {
					fmt.Printf("      passthru %v\n", ai.PassThru)
				}
				ff, probs := g.FieldFlow(p, cs)
				for _, f := range sortedKeys(ff) {
					fmt.Printf("        %-26s <- %s\n", f, setStr(ff[f]))
				}
				for _, pr := range probs {
					fmt.Println("      PROBLEM", pr)
				}
			}
		}
	case "fn":
		parts := strings.SplitN(*name, ":", 2)
		for pp, sp := range t.SSA {
			if !strings.HasSuffix(pp, parts[0]) {
				continue
			}
			for _, f := range t.PkgFuncs(pp) {
				if f.Name() == parts[1] {
					f.WriteTo(os.Stdout)
				}
			}
			_ = sp
		}
	}
	return 0
}

func init() {
	extraDumps["rejects"] = func(t *Tree, name string) {
		parts := strings.SplitN(name, ":", 2)
		for pp := range t.SSA {
			if !strings.HasSuffix(pp, parts[0]) {
				continue
			}
			for _, f := range t.PkgFuncs(pp) {
				if f.Name() == parts[1] {
					for _, s := range rejectSites(f) {
						fmt.Println(t.Pos(s.ret.Pos()))
						for _, ec := range controlling(s.ret.Block()) {
							other := ec.If.Succs[1]
							if !ec.Pol {
								other = ec.If.Succs[0]
							}
							fmt.Printf("    %-70s otherRejects=%v\n", condDesc(ec), rejecting(other))
						}
					}
				}
			}
		}
	}
}

func init() {
	extraDumps["errpos"] = func(t *Tree, name string) {
		scopes := map[string]map[*ssa.Function]bool{"run": runScope(t), "check": checkScope(t)}
		v2, _ := v2Scope(t)
		scopes["v2"] = v2
		for _, sn := range []string{"run", "check", "v2"} {
			cnt := map[string]int{}
			for f := range scopes[sn] {
				allInstrs(f, func(in ssa.Instruction) {
					call, ok := in.(*ssa.Call)
					if !ok {
						return
					}
					cal := call.Call.StaticCallee()
					if cal == nil {
						return
					}
					var posArg ssa.Value
					switch {
					case fnName(cal) == "NewRunError" && len(call.Call.Args) == 3:
						posArg = call.Call.Args[2]
					case funcIs(cal, pErr, "NewErr"):
						posArg = call.Call.Args[1]
					default:
						return
					}
					rt := rootOf(posArg)
					p := fmt.Sprintf("%T:%s", rt, path(posArg))
					if prm, ok := rt.(*ssa.Parameter); ok {
						p = fmt.Sprintf("param(%s ast=%v)", pname(prm), isAstTyped(prm.Type()))
					}
					cnt[p]++
					if name != "" && strings.Contains(p, name) {
						fmt.Println("   ", sn, relName(f), t.Pos(call.Pos()), p)
					}
				})
			}
			fmt.Println("==", sn, len(scopes[sn]), "functions")
			for _, k := range sortedKeys(cnt) {
				fmt.Printf("  %4d %s\n", cnt[k], k)
			}
		}
	}
}

func init() {
	extraDumps["effects"] = func(t *Tree, name string) {
		var fns map[*ssa.Function]bool
		switch name {
		case "run":
			fns = runScope(t)
		case "check":
			fns = checkScope(t)
		case "parse":
			fns, _ = parseScope(t)
		case "v2":
			fns, _ = v2Scope(t)
		}
		var list []*ssa.Function
		for f := range fns {
			list = append(list, f)
		}
		sortFuncs(list)
		for _, f := range list {
			for _, w := range writesOf(f) {
				rk := rootKind(w.Root)
				if rk == "local" || (rk == "new" && len(w.Through) == 0) {
					continue
				}
				fmt.Printf("%-50s %-9s %-40s root=%-22s through=%v\n", relName(f), w.Kind, path(w.Addr), rk, w.Through)
			}
		}
	}
}

func init() {
	extraDumps["globals"] = func(t *Tree, name string) {
		for _, pp := range sortedKeys(t.SSA) {
			for _, f := range t.PkgFuncs(pp) {
				for _, w := range writesOf(f) {
					if g, ok := w.Root.(*ssa.Global); ok {
						fmt.Printf("%-60s %-9s %s.%s  %s\n", relName(f), w.Kind, g.Pkg.Pkg.Name(), g.Name(), t.Pos(w.In.Pos()))
					}
				}
			}
		}
	}
}

func init() {
	extraDumps["spec"] = func(t *Tree, name string) {
		astp := t.SSA[pAst]
		dt := func(n string) sval { return constv(astp.Const(n).Value.Value) }
		rt := t.SSA[pRT]
		switch name {
		case "condOp":
			f := rt.Func("condOp")
			for _, op := range []string{"EQEQ", "NEQ", "LT", "AND", "OR"} {
				for _, l := range []string{"Nil", "Bool", "Int", "Float", "String", "List", "Map"} {
					for _, r := range []string{"Nil", "Bool", "Int", "Float", "String", "List", "Map"} {
						cfg := &specCfg{Call: stdErrCall}
						outs, ab := cfg.run(f, []sval{symv("lhs"), symv("rhs"), dt(l), dt(r), dt(op)})
						fmt.Printf("%-5s %-7s %-7s -> %s %s\n", op, l, r, outcomeSet(outs, func(o specOutcome) string { return fmt.Sprint(o.Vals) }), ab)
					}
				}
			}
		case "clamp":
			f := rt.Func("clampSliceBound")
			cfg := &specCfg{Call: stdErrCall}
			outs, ab := cfg.run(f, []sval{symv("v"), symv("length"), symv("low"), symv("high")})
			for _, o := range outs {
				fmt.Println(o.Vals, o.Cond)
			}
			fmt.Println(ab)
		case "sliceidx":
			f := rt.Func("SliceIndices")
			for _, st := range []sval{symv("step")} {
				cfg := &specCfg{Call: func(fn *ssa.Function, call *ssa.Call, nth int, args []sval) (sval, bool) {
					if cal := call.Call.StaticCallee(); cal != nil && fnName(cal) == "clampSliceBound" {
						return symv(fmt.Sprintf("clamp(%s, %s, %s, %s)", args[0], args[1], args[2], args[3])), true
					}
					return stdErrCall(fn, call, nth, args)
				}}
				outs, ab := cfg.run(f, []sval{symv("length"), symv("start"), symv("end"), st})
				for _, o := range outs {
					fmt.Println(o.Vals, o.Cond)
				}
				fmt.Println(ab)
			}
		case "condTrue":
			f := rt.Func("condTrue")
			for _, l := range []string{"Invalid", "Void", "Nil", "Bool", "Int", "Float", "String", "List", "Map"} {
				cfg := &specCfg{Call: stdErrCall}
				outs, ab := cfg.run(f, []sval{symv("val"), dt(l)})
				fmt.Printf("condTrue %-7s -> %s %s\n", l, outcomeSet(outs, func(o specOutcome) string { return fmt.Sprint(o.Vals, o.Cond) }), ab)
			}
		}
	}
}

func init() {
	extraDumps["spec2"] = func(t *Tree, name string) {
		astp := t.SSA[pAst]
		dt := func(n string) sval { return constv(astp.Const(n).Value.Value) }
		rt := t.SSA[pRT]
		f := rt.Func(name)
		runStmt := rt.Func("RunStmt")
		for _, op := range []string{"ADD", "DIV", "MOD"} {
			for _, l := range []string{"Nil", "Bool", "Int", "Float", "String", "List"} {
				for _, r := range []string{"Bool", "Int", "Float", "String"} {
					cfg := &specCfg{Paths: map[string]sval{"expr.Op": dt(op)}}
					cfg.Call = func(fn *ssa.Function, call *ssa.Call, nth int, args []sval) (sval, bool) {
						if call.Call.StaticCallee() == runStmt && fn == f {
							if nth == 1 {
								return sval{tup: []sval{symv("L"), dt(l), {nil: true}}}, true
							}
							return sval{tup: []sval{symv("R"), dt(r), {nil: true}}}, true
						}
						return stdErrCall(fn, call, nth, args)
					}
					outs, ab := cfg.run(f, []sval{symv("ctx"), symv("expr")})
					fmt.Printf("%-4s %-7s %-7s -> %s %s\n", op, l, r, outcomeSet(outs, func(o specOutcome) string { return fmt.Sprint(o.Vals, o.Cond) }), ab)
				}
			}
		}
	}
}

func init() {
	extraDumps["optables"] = func(t *Tree, name string) {
		pkg := pRT
		if strings.HasPrefix(name, "v2") {
			pkg = pRT2
			name = strings.TrimPrefix(name, "v2")
		}
		ot := extractOpTables(t, pkg)
		for _, k := range sortedKeys(ot.Cells) {
			if name == "" || strings.HasPrefix(k, name) {
				fmt.Printf("%-34s %s\n", k, ot.Cells[k])
			}
		}
		fmt.Println("aborts:", ot.Abort)
	}
}

func init() {
	extraDumps["escapes"] = func(t *Tree, name string) {
		f := t.Func(pParser, "unquoteChar")
		for _, c := range []int{'a', 'n', 'x', 'u', 'U', '0', '7', '8', '\\', '"', '\'', 'z', 0, 200} {
			cfg := &specCfg{Paths: map[string]sval{"s[0]": constv(constant.MakeInt64('\\')), "s[1]": constv(constant.MakeInt64(int64(c)))}, Call: stdErrCall, MaxVisits: 200000}
			outs, ab := cfg.run(f, []sval{symv("s"), constv(constant.MakeInt64('"')), constv(constant.MakeBool(false))})
			fmt.Printf("\\%q -> %s %s\n", rune(c), outcomeSet(outs, func(o specOutcome) string {
				if len(o.Vals) < 4 {
					return fmt.Sprint(o.Vals, o.Cond)
				}
				return fmt.Sprint(o.Vals[0], o.Vals[1], o.Vals[3], o.Cond)
			}), ab)
		}
	}
}

func init() {
	extraDumps["effsig"] = func(t *Tree, name string) {
		run, _ := registryMaps(t)
		for _, k := range sortedKeys(run) {
			fmt.Printf("%-16s %s\n", k, effectSignature(t, run[k]))
		}
	}
}
