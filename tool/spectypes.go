package main

import (
	"go/types"
)

func dynWith(m map[string]types.Type, k string, t types.Type) map[string]types.Type {
	n := map[string]types.Type{}
	for a, b := range m {
		n[a] = b
	}
	n[k] = t
	return n
}

func basicType(t *Tree, name string) types.Type {
	switch name {
	case "bool":
		return types.Typ[types.Bool]
	case "int64":
		return types.Typ[types.Int64]
	case "int":
		return types.Typ[types.Int]
	case "float64":
		return types.Typ[types.Float64]
	case "string":
		return types.Typ[types.String]
	case "[]any":
		return types.NewSlice(types.Universe.Lookup("any").Type())
	case "map[string]any":
		return types.NewMap(types.Typ[types.String], types.Universe.Lookup("any").Type())
	}
	return nil
}
