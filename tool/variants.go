package main

import (
	"encoding/json"
	"flag"
	"fmt"
	"os"
	"os/exec"
	"path/filepath"
	"sort"
	"strings"
	"sync"
)

// A Variant is a seeded one-construct change of the repository, applied as an in-memory overlay
// (nothing is written to /repo). It is used only to test the checker: the property's rules must
// report a violation naming ExpectRule (and a construct containing ExpectConstruct).
type Variant struct {
	ID              string `json:"id"`
	Property        string `json:"property"`
	ExpectRule      string `json:"expect_rule"`
	ExpectConstruct string `json:"expect_construct,omitempty"`
	Note            string `json:"note,omitempty"`
	Edits           []Edit `json:"edits"`
	RegenGrammar    bool   `json:"regen_grammar,omitempty"`
	Patch           string `json:"patch,omitempty"` // unified diff, path relative to /verif (a seeded change of /verif/seeded)
	// ExpectSilent marks a behaviour-preserving refactoring: the property's check must report nothing on it.
	ExpectSilent bool `json:"expect_silent,omitempty"`
	path         string
}

type Edit struct {
	File    string `json:"file"`
	Find    string `json:"find"`
	Replace string `json:"replace"`
	Nth     int    `json:"nth,omitempty"` // 1-based occurrence; 0 = must be unique
}

func loadVariant(path string) (*Variant, error) {
	b, err := os.ReadFile(path)
	if err != nil {
		return nil, err
	}
	v := &Variant{}
	if err := json.Unmarshal(b, v); err != nil {
		return nil, fmt.Errorf("%s: %w", path, err)
	}
	v.path = path
	return v, nil
}

// Overlay builds the overlay map for this variant against the tree in dir.
func (v *Variant) Overlay(dir string) (map[string][]byte, error) {
	ov := map[string][]byte{}
	if v.Patch != "" {
		if err := v.applyPatch(dir, ov); err != nil {
			return nil, err
		}
	}
	for _, e := range v.Edits {
		full := filepath.Join(dir, e.File)
		src, ok := ov[full]
		if !ok {
			b, err := os.ReadFile(full)
			if err != nil {
				return nil, err
			}
			src = b
		}
		s := string(src)
		n := strings.Count(s, e.Find)
		if n == 0 {
			return nil, fmt.Errorf("%s: text to replace not found in %s", v.ID, e.File)
		}
		if e.Nth == 0 {
			if n != 1 {
				return nil, fmt.Errorf("%s: text to replace occurs %d times in %s", v.ID, n, e.File)
			}
			s = strings.Replace(s, e.Find, e.Replace, 1)
		} else {
			if n < e.Nth {
				return nil, fmt.Errorf("%s: occurrence %d of text not found in %s", v.ID, e.Nth, e.File)
			}
			idx, from := -1, 0
			for k := 0; k < e.Nth; k++ {
				i := strings.Index(s[from:], e.Find)
				idx = from + i
				from = idx + len(e.Find)
			}
			s = s[:idx] + e.Replace + s[idx+len(e.Find):]
		}
		ov[full] = []byte(s)
	}
	if v.RegenGrammar {
		gy := filepath.Join(dir, "pkg/parser/gram.y")
		src, ok := ov[gy]
		if !ok {
			return nil, fmt.Errorf("%s: regen_grammar without an edit of gram.y", v.ID)
		}
		out, _, err := runGoyacc(src)
		if err != nil {
			return nil, err
		}
		ov[filepath.Join(dir, "pkg/parser/gram_y.go")] = out
	}
	return ov, nil
}

func variantFiles(prop string) []string {
	fs, _ := filepath.Glob(filepath.Join(verifDir(), "variants", prop, "*.json"))
	sort.Strings(fs)
	return fs
}

type selfResult struct {
	Variant string `json:"variant"`
	Outcome string `json:"outcome"` // detected | missed | skipped
	Detail  string `json:"detail,omitempty"`
}

// runSelftest applies each seeded variant of prop in a sub-process (one load each; memory is
// returned to the OS between variants) and checks that the expected rule fires.
func runSelftest(prop string, par int) []selfResult {
	files := variantFiles(prop)
	res := make([]selfResult, len(files))
	sem := make(chan struct{}, par)
	var wg sync.WaitGroup
	self, _ := os.Executable()
	for i, f := range files {
		wg.Add(1)
		go func(i int, f string) {
			defer wg.Done()
			sem <- struct{}{}
			defer func() { <-sem }()
			v, err := loadVariant(f)
			if err != nil {
				res[i] = selfResult{filepath.Base(f), "missed", err.Error()}
				return
			}
			tmp, _ := os.MkdirTemp("", "plverif-self-")
			defer os.RemoveAll(tmp)
			cmd := exec.Command(self, "check", "-p", prop, "-tier", "quick", "-overlay", f, "-evidence", tmp, "-q")
			cmd.Env = os.Environ()
			out, err := cmd.CombinedOutput()
			code := 0
			if ee, ok := err.(*exec.ExitError); ok {
				code = ee.ExitCode()
			} else if err != nil {
				res[i] = selfResult{v.ID, "missed", err.Error()}
				return
			}
			if code == 3 {
				res[i] = selfResult{v.ID, "skipped", strings.TrimSpace(string(out))}
				return
			}
			rfs, _ := filepath.Glob(filepath.Join(tmp, "replay", prop+"-*.json"))
			if v.ExpectSilent {
				if code == 0 && len(rfs) == 0 {
					res[i] = selfResult{v.ID, "silent", "behaviour-preserving refactoring: no report"}
				} else {
					var seen []string
					for _, rf := range rfs {
						b, _ := os.ReadFile(rf)
						var r replayFile
						json.Unmarshal(b, &r)
						seen = append(seen, r.Ob.Rule+":"+r.Ob.Key)
					}
					res[i] = selfResult{v.ID, "missed", fmt.Sprintf("FALSE ALARM on a behaviour-preserving refactoring: exit %d; reported %v; %s", code, seen, lastLines(string(out), 3))}
				}
				return
			}
			// read replay files for the expected rule
			hit := false
			var seen []string
			for _, rf := range rfs {
				b, _ := os.ReadFile(rf)
				var r replayFile
				json.Unmarshal(b, &r)
				seen = append(seen, r.Ob.Rule+":"+r.Ob.Key)
				if r.Ob.Rule == v.ExpectRule && strings.Contains(r.Ob.Key, v.ExpectConstruct) {
					hit = true
				}
			}
			if hit {
				res[i] = selfResult{v.ID, "detected", fmt.Sprintf("%s %s", v.ExpectRule, v.ExpectConstruct)}
			} else {
				res[i] = selfResult{v.ID, "missed", fmt.Sprintf("exit %d; expected %s/%s; reported %v; %s", code, v.ExpectRule, v.ExpectConstruct, seen, lastLines(string(out), 3))}
			}
		}(i, f)
	}
	wg.Wait()
	return res
}

func lastLines(s string, n int) string {
	ls := strings.Split(strings.TrimSpace(s), "\n")
	if len(ls) > n {
		ls = ls[len(ls)-n:]
	}
	return strings.Join(ls, " | ")
}

// thorough adds to the quick rules: the 32-bit configuration, and the seeded-variant self-test.
func thorough(prop string, r *Report) {
	// (a) second configuration: GOARCH=386 (build-tagged files, 32-bit int)
	r2, err := runProp(prop, "thorough", nil, "386")
	if err != nil {
		r.Undecided("CONFIG-386", "load", "", err.Error())
	} else {
		nbad := 0
		for _, o := range r2.Obls {
			if o.Status != stOK {
				nbad++
				// only report obligations that are not already reported on the default configuration
				dup := false
				for _, p := range r.Obls {
					if p.Rule == o.Rule && p.Key == o.Key && p.Status == o.Status {
						dup = true
					}
				}
				if !dup {
					o.Key = o.Key + " [GOARCH=386]"
					r.Obls = append(r.Obls, o)
				}
			}
		}
		r.Extra["config_386"] = map[string]any{"obligations": len(r2.Obls), "not_discharged": nbad}
	}
	// (b) seeded variants
	res := runSelftest(prop, 6)
	det, miss, skip, silent := 0, 0, 0, 0
	for _, s := range res {
		switch s.Outcome {
		case "silent":
			silent++
		case "detected":
			det++
		case "missed":
			miss++
			r.Undecided("SELFTEST", s.Variant, "", "self-test variant: expected verdict not obtained (a seeded change not reported by its rule, or a report on a behaviour-preserving refactoring): "+s.Detail)
		default:
			skip++
		}
	}
	r.Extra["selftest"] = map[string]any{"variants": len(res), "detected": det, "silent_on_refactorings": silent, "missed": miss, "skipped": skip, "results": res}
}

func cmdSelftest(args []string) int {
	fs := flag.NewFlagSet("selftest", flag.ExitOnError)
	p := fs.String("p", "", "property id (empty = all)")
	par := fs.Int("j", 6, "parallel variants")
	fs.Parse(args)
	var ids []string
	if *p != "" {
		ids = []string{*p}
	} else {
		for id := range registry {
			ids = append(ids, id)
		}
		sort.Strings(ids)
	}
	bad := 0
	for _, id := range ids {
		for _, s := range runSelftest(id, *par) {
			fmt.Printf("%s %-40s %s %s\n", id, s.Variant, s.Outcome, s.Detail)
			if s.Outcome == "missed" {
				bad++
			}
		}
	}
	if bad > 0 {
		return 1
	}
	return 0
}

// applyPatch applies the unified diff to scratch copies of the files it names and puts the results in ov.
func (v *Variant) applyPatch(dir string, ov map[string][]byte) error {
	pf := v.Patch
	if !filepath.IsAbs(pf) {
		pf = filepath.Join(verifDir(), pf)
	}
	diff, err := os.ReadFile(pf)
	if err != nil {
		return err
	}
	var files []string
	for _, ln := range strings.Split(string(diff), "\n") {
		if strings.HasPrefix(ln, "+++ b/") {
			files = append(files, strings.TrimSpace(strings.TrimPrefix(ln, "+++ b/")))
		}
	}
	if len(files) == 0 {
		return fmt.Errorf("%s: patch names no file", v.ID)
	}
	tmp, err := os.MkdirTemp("", "plverif-patch-")
	if err != nil {
		return err
	}
	defer os.RemoveAll(tmp)
	for _, f := range files {
		dst := filepath.Join(tmp, f)
		os.MkdirAll(filepath.Dir(dst), 0o755)
		if b, err := os.ReadFile(filepath.Join(dir, f)); err == nil {
			os.WriteFile(dst, b, 0o644)
		}
	}
	cmd := exec.Command("patch", "-p1", "-s", "-f", "--no-backup-if-mismatch", "-d", tmp, "-i", pf)
	if out, err := cmd.CombinedOutput(); err != nil {
		return fmt.Errorf("%s: patch does not apply: %s", v.ID, strings.TrimSpace(string(out)))
	}
	for _, f := range files {
		b, err := os.ReadFile(filepath.Join(tmp, f))
		if err != nil {
			return err
		}
		ov[filepath.Join(dir, f)] = b
	}
	return nil
}
