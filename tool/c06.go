package main

import (
	"fmt"
	"go/token"
	"sort"
	"strings"

	"golang.org/x/tools/go/ssa"
)

type precRef struct {
	Levels []struct {
		Level  float64  `json:"level"`
		Assoc  string   `json:"assoc"`
		Tokens []string `json:"tokens"`
		Frozen bool     `json:"frozen"`
	} `json:"levels"`
	Binary []string `json:"binary"`
	Assign []string `json:"assign"`
	Unary  []string `json:"unary"`
}

func (p *precRef) levelOf(tok string) (float64, string, bool) {
	for _, l := range p.Levels {
		for _, t := range l.Tokens {
			if t == tok {
				return l.Level, l.Assoc, true
			}
		}
	}
	return 0, "", false
}

func init() {
	register("C06", "precedence, associativity, layout: LALR matrix + action flow", checkC06)
}

// binaryProds returns productions of shape `X: a OP SPACE_EOLS b` for OP in ops.
func binaryProds(g *Gram, ops map[string]bool) []*Production {
	var out []*Production
	for _, p := range g.Prods[1:] {
		if len(p.RHS) == 4 && ops[p.RHS[1]] && p.RHS[2] == "SPACE_EOLS" {
			out = append(out, p)
		}
	}
	return out
}

func stateWithCompleted(g *Gram, rule int) []*LRState {
	var out []*LRState
	for _, s := range g.States {
		if _, ok := s.Completed()[rule]; ok {
			out = append(out, s)
		}
	}
	return out
}

func actKind(a string) string {
	switch {
	case strings.HasPrefix(a, "shift"):
		return "shift"
	case strings.HasPrefix(a, "reduce"):
		return a
	}
	return a
}

func checkC06(c *Ctx) {
	r := c.R
	r.Explanation = "Decides the grouping clause exhaustively for the operator set on the LALR automaton regenerated from pkg/parser/gram.y (goyacc -v), after proving that the committed gram_y.go is token-for-token the parser generated from that grammar: (1) precedence/associativity matrix: for every binary operator T1 the state holding the completed item `expr T1 SPACE_EOLS expr .` must reduce on look-ahead T2 iff prec(T1)>prec(T2) or equal and left-associative, per reference/precedence.json (spec §Operator); unary states reduce before every binary operator; assignment rows shift on every binary operator; 0 conflicts. (2) tree construction: the grammar action-flow composed with the SSA field provenance of each parser constructor gives, per production, which RHS symbol lands in which AST field; binary/unary/paren/slice/for/index/call shapes are compared with the operand layout the production's own shape prescribes; every node-valued RHS symbol must reach the result. (3) layout: every infix operator, COMMA, COLON and opening bracket in a right-hand side is followed by the nullable SPACE_EOLS, no action reads a layout symbol, the lexer never emits SPACE and parser.Lex skips COMMENT. (4) CTOR-TOTAL: the binary-expression constructor, specialised with symbolic operands, builds no node only for an operand that is already nil or for `/`, `%` with a literal zero as the right operand — every other well-formed operand pair yields the tree. Not decided: nothing value-level is involved; index/attr/call chains are covered by action-flow only."
	r.Trusted = []string{"goyacc (golang.org/x/tools v0.29.0) LALR construction and its y.output listing", "the goyacc-generated driver yyParserImpl.Parse"}
	g := c.requireGram()
	if g == nil {
		return
	}
	var ref precRef
	if !mustRef(c, "precedence.json", &ref) {
		return
	}
	r.Exhaustive = true

	// ---- 0 conflicts
	r.Ob("GRAM-CONFLICTS", "pkg/parser/gram.y", "pkg/parser/gram.y", strings.HasPrefix(g.Conflicts, "0 shift/reduce, 0 reduce/reduce"), "goyacc reports: "+g.Conflicts+" (a conflict is resolved silently by yacc defaults and changes grouping)")

	// ---- declared precedence equals the reference (drift in %left/%right lines)
	for _, tok := range append(append([]string{}, ref.Binary...), ref.Assign...) {
		lv, assoc, ok := ref.levelOf(tok)
		gl, gok := g.PrecOf[tok]
		if !ok {
			continue
		}
		_ = lv
		r.Ob("PREC-DECL", "token "+tok, "pkg/parser/gram.y", gok && g.AssocOf[tok] == assoc, fmt.Sprintf("declared: level %d %s; reference associativity %s", gl, g.AssocOf[tok], assoc))
	}

	// ---- precedence matrix
	binset := map[string]bool{}
	for _, t := range ref.Binary {
		binset[t] = true
	}
	asgset := map[string]bool{}
	for _, t := range ref.Assign {
		asgset[t] = true
	}
	seenOp := map[string]bool{}
	for _, p := range binaryProds(g, binset) {
		t1 := p.RHS[1]
		if p.RHS[0] != "expr" || p.RHS[3] != "expr" {
			continue
		}
		seenOp[t1] = true
		sts := stateWithCompleted(g, p.Num)
		if len(sts) != 1 {
			r.Undecided("PREC-MATRIX", fmt.Sprintf("row %s", t1), "pkg/parser/gram.y", fmt.Sprintf("expected exactly one state with the completed item of rule %d, found %d", p.Num, len(sts)))
			continue
		}
		st := sts[0]
		l1, _, _ := ref.levelOf(t1)
		for _, t2 := range ref.Binary {
			l2, a2, _ := ref.levelOf(t2)
			want := "shift"
			if l1 > l2 || (l1 == l2 && a2 == "left") {
				want = fmt.Sprintf("reduce %d", p.Num)
			}
			got := actKind(st.ActionOn(t2))
			r.Ob("PREC-MATRIX", fmt.Sprintf("a %s b . %s", t1, t2), fmt.Sprintf("pkg/parser/gram.y:%d", p.Line), got == want,
				fmt.Sprintf("state %d on look-ahead %s: %s, reference says %s (levels %v vs %v)", st.Num, t2, got, want, l1, l2))
		}
	}
	// ---- the same matrix by driving the automaton: `ID T1 ID T2 ID` must group as the reference says, whatever shape
	// the productions have (operator classes folded into non-terminals, precedence-climbing non-terminals, %prec …)
	simOK := map[string]bool{}
	nSim := 0
	for _, t1 := range ref.Binary {
		l1, _, _ := ref.levelOf(t1)
		rowOK := true
		for _, t2 := range ref.Binary {
			l2, a2, _ := ref.levelOf(t2)
			want := "right"
			if l1 > l2 || (l1 == l2 && a2 == "left") {
				want = "left"
			}
			for _, layout := range []bool{false, true} {
				toks := []string{"START_STMTS", "ID", t1, "ID", t2, "ID", "EOF"}
				o1, o2 := 2, 4
				name := fmt.Sprintf("parse of `a %s b %s c`", t1, t2)
				if layout {
					toks = []string{"START_STMTS", "ID", t1, "EOL", "ID", t2, "EOL", "EOL", "ID", "EOF"}
					o1, o2 = 2, 5
					name = fmt.Sprintf("parse of `a %s⏎ b %s⏎⏎ c`", t1, t2)
				}
				reds, err := g.simulate(toks)
				got := ""
				if err != nil {
					got = "error: " + err.Error()
				} else {
					got = groupingOf(reds, o1, o2)
				}
				nSim++
				if got != want {
					rowOK = false
				}
				r.Ob("PREC-SIM", name, "pkg/parser/gram.y", got == want,
					fmt.Sprintf("the LALR automaton of gram.y groups it %s; the reference says %s (levels %v vs %v)", got, want, l1, l2))
			}
		}
		simOK[t1] = rowOK
	}
	for _, u := range ref.Unary {
		for _, t2 := range ref.Binary {
			toks := []string{"START_STMTS", u, "ID", t2, "ID", "EOF"}
			reds, err := g.simulate(toks)
			got := "none"
			if err != nil {
				got = "error: " + err.Error()
			} else {
				// the smallest reduction that covers the unary operator token and an operand: its span must end before T2
				best := [2]int{0, 1 << 30}
				for _, rd := range reds {
					if rd.Span[0] <= 1 && rd.Span[1] > 2 && rd.Span[1]-rd.Span[0] < best[1]-best[0] {
						best = rd.Span
					}
				}
				if best[1] == 3 {
					got = "tight"
				} else {
					got = fmt.Sprintf("operand spans tokens [%d,%d)", best[0], best[1])
				}
			}
			nSim++
			r.Ob("PREC-SIM", fmt.Sprintf("parse of `%s a %s b`", u, t2), "pkg/parser/gram.y", got == "tight",
				"the unary operator must apply to `a` alone: "+got)
		}
	}
	r.Floor("PREC-SIM", 2*196+3*14)
	for _, t := range ref.Binary {
		if !seenOp[t] {
			// the operator is not listed in a plain `expr T SPACE_EOLS expr` production (folded into an operator class, say):
			// its row is then decided by the simulation alone
			r.Ob("PREC-MATRIX", "row "+t, "pkg/parser/gram.y", simOK[t], "no production `expr "+t+" SPACE_EOLS expr`; the row is decided by PREC-SIM (every `a "+t+" b T2 c` parsed on the automaton)")
		}
	}
	// unary rows
	unset := map[string]bool{}
	for _, t := range ref.Unary {
		unset[t] = true
	}
	nun := 0
	for _, p := range g.Prods[1:] {
		if len(p.RHS) == 2 && unset[p.RHS[0]] && p.RHS[1] == "expr" {
			nun++
			sts := stateWithCompleted(g, p.Num)
			if len(sts) != 1 {
				r.Undecided("PREC-UNARY", "row unary "+p.RHS[0], "pkg/parser/gram.y", "state not found")
				continue
			}
			for _, t2 := range ref.Binary {
				got := actKind(sts[0].ActionOn(t2))
				want := fmt.Sprintf("reduce %d", p.Num)
				r.Ob("PREC-UNARY", fmt.Sprintf("%s a . %s", p.RHS[0], t2), fmt.Sprintf("pkg/parser/gram.y:%d", p.Line), got == want,
					fmt.Sprintf("state %d on look-ahead %s: %s, want %s (unary operators bind tighter than any binary operator)", sts[0].Num, t2, got, want))
			}
		}
	}
	r.FloorN("unary productions", nun, 3)
	// assignment rows: the right operand of an assignment / named argument extends over every binary operator
	for _, p := range g.Prods[1:] {
		isAsg := len(p.RHS) == 4 && asgset[p.RHS[1]] && p.RHS[2] == "SPACE_EOLS"
		if !isAsg {
			continue
		}
		// the state after the right operand: completed item, or for comma_params the state where `comma_params: expr.` competes
		for _, st := range g.States {
			comp := st.Completed()
			_, has := comp[p.Num]
			if !has {
				// right operand is comma_params: look for states whose items include this rule with the dot at the end of an inner expr
				continue
			}
			for _, t2 := range ref.Binary {
				got := actKind(st.ActionOn(t2))
				// A completed assignment whose last symbol is `expr` must shift binary operators.
				if p.RHS[3] == "expr" {
					r.Ob("PREC-ASSIGN", fmt.Sprintf("a %s b . %s", p.RHS[1], t2), fmt.Sprintf("pkg/parser/gram.y:%d", p.Line), got == "shift",
						fmt.Sprintf("state %d on look-ahead %s: %s, want shift (assignment has the lowest priority)", st.Num, t2, got))
				}
			}
		}
	}
	// comma_params: expr.  -> must shift on binary operators (covers `a = b + c` and `a, b = c, d + e`)
	for _, p := range g.Prods[1:] {
		if p.LHS == "comma_params" && p.RHS[len(p.RHS)-1] == "expr" {
			for _, st := range stateWithCompleted(g, p.Num) {
				for _, t2 := range ref.Binary {
					got := actKind(st.ActionOn(t2))
					r.Ob("PREC-ASSIGN", fmt.Sprintf("comma_params(rule %d, state %d) . %s", p.Num, st.Num, t2), fmt.Sprintf("pkg/parser/gram.y:%d", p.Line), got == "shift",
						fmt.Sprintf("state %d on look-ahead %s: %s, want shift", st.Num, t2, got))
				}
			}
		}
	}
	r.FloorN("PREC-MATRIX rows (state-based or simulated)", len(ref.Binary), 14)
	r.Floor("PREC-UNARY", 42)
	r.Floor("PREC-ASSIGN", 5*14)

	// ---- tree construction
	treeFlowRules(c, g, &ref, "TREE-FLOW")
	// ---- layout
	layoutRules(c, g, &ref)
	// ---- constructors refuse nothing but a literal zero divisor (shared with C02 FOLD)
	if n := arithRejectRule(c, "CTOR-TOTAL"); n < 1 {
		r.FloorN("parse-time rejections in newArithmeticExpr", n, 1)
	}
}

// treeFlowRules checks, per production, that RHS symbols land in the AST fields their position prescribes.
func treeFlowRules(c *Ctx, g *Gram, ref *precRef, rule string) {
	r := c.R
	called := map[string]bool{}
	for _, cl := range g.AllCalls() {
		called[cl.Name] = true
	}
	ctors := parserCtors(c.T, called)
	for _, cs := range ctors {
		c.R.Fn(relName(cs.Fn))
	}
	for name := range called {
		if ctors[name] == nil {
			r.Undecided(rule, "constructor "+name, "pkg/parser/parser.go", "grammar action calls (*parser)."+name+" which was not found (unresolved anchor)")
		}
	}
	opset := map[string]bool{}
	for _, t := range append(append([]string{}, ref.Binary...), ref.Assign...) {
		opset[t] = true
	}
	unset := map[string]bool{}
	for _, t := range ref.Unary {
		unset[t] = true
	}
	want := func(p *Production, ff map[string]map[string]bool, field, src string) {
		// field is a suffix like ".LHS"; find the struct field with that suffix
		var keys []string
		for k := range ff {
			if strings.HasSuffix(k, field) {
				keys = append(keys, k)
			}
		}
		key := fmt.Sprintf("rule %d `%s: %s` field *%s", p.Num, p.LHS, strings.Join(p.RHS, " "), field)
		pos := fmt.Sprintf("pkg/parser/gram.y:%d", p.Line)
		if len(keys) == 0 {
			r.Ob(rule, key, pos, false, "no field "+field+" is set by the action of this production")
			return
		}
		sort.Strings(keys)
		for _, k := range keys {
			got := setStr(ff[k])
			r.Ob(rule, key, pos, got == src, fmt.Sprintf("%s <- {%s}, the production's shape prescribes {%s}", k, got, src))
		}
	}
	nbin, nslice, nfor := 0, 0, 0
	// optional[N] = X when N is exactly `N: X | ε` with the ε alternative yielding nil: a position holding N is a
	// position holding X or nothing (a grammar may fold its with/without alternatives this way)
	optional := map[string]string{}
	{
		byLHS := map[string][]*Production{}
		for _, p := range g.Prods[1:] {
			byLHS[p.LHS] = append(byLHS[p.LHS], p)
		}
		for n, ps := range byLHS {
			if len(ps) != 2 {
				continue
			}
			var one, eps *Production
			for _, p := range ps {
				switch len(p.RHS) {
				case 0:
					eps = p
				case 1:
					one = p
				}
			}
			if one == nil || eps == nil {
				continue
			}
			ai1, ai0 := g.Actions[one.Num], g.Actions[eps.Num]
			if ai1 == nil || len(ai1.Calls) != 0 || len(ai1.PassIdx) != 1 || ai0 == nil || ai0.Body == nil {
				continue
			}
			if txt := exprText(g.Fset, ai0.Body); strings.Contains(txt, "yyVAL."+g.TypeOf[n]+" = nil") {
				optional[n] = one.RHS[0]
			}
		}
	}
	for _, p := range g.Prods[1:] {
		ai := g.Actions[p.Num]
		ff, probs := g.FieldFlow(p, ctors)
		for _, pr := range probs {
			r.Undecided(rule, fmt.Sprintf("rule %d %s", p.Num, p.LHS), fmt.Sprintf("pkg/parser/gram.y:%d", p.Line), pr)
		}
		switch {
		case len(p.RHS) == 4 && p.RHS[2] == "SPACE_EOLS" && allIn(g.tokenClass(p.RHS[1]), opset):
			nbin += len(g.tokenClass(p.RHS[1])) // an operator class counts once per operator it stands for
			want(p, ff, ".LHS", "$1")
			want(p, ff, ".RHS", "$4")
			want(p, ff, ".OpPos", "$2.Pos")
			if p.RHS[1] == "IN" {
				want(p, ff, ".Op", `const:"in"`)
			} else {
				want(p, ff, ".Op", "$2.Typ")
			}
		case len(p.RHS) == 2 && unset[p.RHS[0]] && p.RHS[1] == "expr":
			want(p, ff, "UnaryExpr.RHS", "$2")
			want(p, ff, "UnaryExpr.Op", "$1.Typ")
			want(p, ff, "UnaryExpr.OpPos", "$1.Pos")
		case p.LHS == "paren_expr":
			want(p, ff, ".Param", "$3")
		case p.LHS == "slice_expr":
			nslice++
			// segments after LEFT_BRACKET separated by COLON
			seg, ncolon := 0, 0
			exprAt := map[int]string{}
			lb, rb := 0, 0
			for i, s := range p.RHS {
				switch s {
				case "LEFT_BRACKET":
					lb = i + 1
				case "RIGHT_BRACKET":
					rb = i + 1
				case "COLON":
					seg++
					ncolon++
				case "expr":
					exprAt[seg] = fmt.Sprintf("$%d", i+1)
				}
			}
			get := func(i int) string {
				if s, ok := exprAt[i]; ok {
					return s
				}
				return "nil"
			}
			want(p, ff, "SliceExpr.Obj", "$1")
			want(p, ff, "SliceExpr.Start", get(0))
			want(p, ff, "SliceExpr.End", get(1))
			want(p, ff, "SliceExpr.Step", get(2))
			want(p, ff, "SliceExpr.Colon2", fmt.Sprintf("const:%v", ncolon == 2))
			want(p, ff, "SliceExpr.LBracket", fmt.Sprintf("$%d.Pos", lb))
			want(p, ff, "SliceExpr.RBracket", fmt.Sprintf("$%d.Pos", rb))
		case p.LHS == "for_stmt":
			weight := 1
			seg := 0
			at := map[int]string{}
			body := ""
			for i, s := range p.RHS {
				if x := optional[s]; x == "for_stmt_elem" || x == "expr" {
					s = x
					weight *= 2 // stands for the alternative with and the one without this clause
				}
				switch s {
				case "SEMICOLON":
					seg++
				case "for_stmt_elem", "expr":
					at[seg] = fmt.Sprintf("$%d", i+1)
				case "stmt_block":
					body = fmt.Sprintf("$%d", i+1)
				}
			}
			nfor += weight
			get := func(i int) string {
				if s, ok := at[i]; ok {
					return s
				}
				return "nil"
			}
			want(p, ff, "ForStmt.Init", get(0))
			want(p, ff, "ForStmt.Cond", get(1))
			want(p, ff, "ForStmt.Loop", get(2))
			want(p, ff, "ForStmt.Body", body)
		case p.LHS == "for_in_stmt":
			want(p, ff, "ForInStmt.Varb", "$2.InExpr().LHS")
			want(p, ff, "ForInStmt.Iter", "$2.InExpr().RHS")
			want(p, ff, "ForInStmt.Body", "$3")
		case p.LHS == "if_elem" || p.LHS == "elif_elem":
			want(p, ff, "IfStmtElem.Condition", "$2")
			want(p, ff, "IfStmtElem.Block", "$3")
		case p.LHS == "ifelse_stmt":
			want(p, ff, "IfelseStmt.IfList", "$1")
			if len(p.RHS) == 3 {
				want(p, ff, "IfelseStmt.Else", "$3")
			}
		case p.LHS == "index_expr":
			idx := 0
			for i, s := range p.RHS {
				if s == "expr" {
					idx = i + 1
				}
			}
			// the new index is appended after the object's existing ones
			for k, v := range ff {
				if k == "IndexExpr.Index" {
					ok := v[fmt.Sprintf("$%d", idx)]
					r.Ob(rule, fmt.Sprintf("rule %d `%s: %s` field *.Index", p.Num, p.LHS, strings.Join(p.RHS, " ")), fmt.Sprintf("pkg/parser/gram.y:%d", p.Line), ok, fmt.Sprintf("IndexExpr.Index <- {%s}, must contain $%d", setStr(v), idx))
				}
			}
			if p.RHS[0] == "DOT" {
				want(p, ff, "IndexExpr.Obj", "nil.Identifier()")
			} else {
				want(p, ff, "IndexExpr.Obj", "$1.Identifier()")
			}
		case p.LHS == "attr_expr":
			want(p, ff, "AttrExpr.Obj", "$1")
			want(p, ff, "AttrExpr.Attr", "$3")
		case p.LHS == "call_expr":
			want(p, ff, "CallExpr.Name", "$1.Identifier().Name")
			args := "nil"
			for i, s := range p.RHS {
				if s == "function_args" {
					args = fmt.Sprintf("$%d", i+1)
				}
			}
			want(p, ff, "CallExpr.Param", args)
		case p.LHS == "map_literal_start":
			// key then value, in that order
			var es []int
			for i, s := range p.RHS {
				if s == "expr" {
					es = append(es, i+1)
				}
			}
			if len(es) == 2 {
				got := ff["MapLiteral.KeyValeList"]
				ok := got[fmt.Sprintf("$%d@0", es[0])] && got[fmt.Sprintf("$%d@1", es[1])]
				r.Ob(rule, fmt.Sprintf("rule %d `%s: %s` field *.KeyValeList", p.Num, p.LHS, strings.Join(p.RHS, " ")), fmt.Sprintf("pkg/parser/gram.y:%d", p.Line), ok,
					fmt.Sprintf("MapLiteral.KeyValeList <- {%s}, want key $%d at [0] and value $%d at [1]", setStr(got), es[0], es[1]))
			}
		case p.LHS == "list_literal_start":
			for i, s := range p.RHS {
				if s == "expr" {
					got := ff["ListLiteral.List"]
					r.Ob(rule, fmt.Sprintf("rule %d `%s: %s` field *.List", p.Num, p.LHS, strings.Join(p.RHS, " ")), fmt.Sprintf("pkg/parser/gram.y:%d", p.Line), got[fmt.Sprintf("$%d", i+1)],
						fmt.Sprintf("ListLiteral.List <- {%s}, must contain $%d", setStr(got), i+1))
				}
			}
		}
		// generic: every tree-valued RHS symbol must reach the result (field flow, pass-through, or list append)
		if ai == nil {
			continue
		}
		used := map[int]bool{}
		for _, srcs := range ff {
			for s := range srcs {
				var k int
				if n, _ := fmt.Sscanf(s, "$%d", &k); n == 1 {
					used[k] = true
				}
			}
		}
		for _, k := range ai.PassIdx {
			used[k] = true
		}
		for _, cl := range ai.Calls {
			for _, a := range cl.Args {
				for _, k := range a.Dollars {
					used[k] = true
				}
			}
		}
		// local alias idiom: `s := $1; s = append(s, $2); $$ = s`
		if ai.Body != nil {
			txt := exprText(g.Fset, ai.Body)
			for i := range p.RHS {
				if strings.Contains(txt, fmt.Sprintf("s := yyDollar[%d].", i+1)) || strings.Contains(txt, fmt.Sprintf("s = append(s, yyDollar[%d].", i+1)) {
					if strings.Contains(txt, " = s") {
						used[i+1] = true
					}
				}
			}
		}
		for i, s := range p.RHS {
			tag := g.TypeOf[s]
			if tag == "" || tag == "item" || p.LHS == "start" {
				continue
			}
			ok := used[i+1]
			r.Ob("TREE-CHILD-KEPT", fmt.Sprintf("rule %d `%s: %s` symbol $%d %s", p.Num, p.LHS, strings.Join(p.RHS, " "), i+1, s), fmt.Sprintf("pkg/parser/gram.y:%d", p.Line), ok,
				"a tree-valued right-hand-side symbol must flow into the production's result")
		}
	}
	r.FloorN("binary-shaped productions", nbin, 20)
	r.FloorN("slice productions", nslice, 24)
	r.FloorN("for clause combinations covered by productions", nfor, 8)
	r.Floor(rule, 250)
	r.Floor("TREE-CHILD-KEPT", 100)

	// list order: `function_args`/`comma_params`/`stmts` append their new element at the end
	for _, p := range g.Prods[1:] {
		ai := g.Actions[p.Num]
		if ai == nil || ai.Body == nil || len(p.RHS) < 2 || p.RHS[0] != p.LHS {
			continue
		}
		tag := g.TypeOf[p.LHS]
		if tag != "nodes" && tag != "aststmts" && tag != "iflist" {
			continue
		}
		txt := exprText(g.Fset, ai.Body)
		last := 0
		for i, s := range p.RHS {
			if t := g.TypeOf[s]; t == "node" || t == "ifitem" {
				last = i + 1
			}
		}
		ok := strings.Contains(txt, fmt.Sprintf("append(yyVAL.%s, yyDollar[%d].", tag, last)) ||
			strings.Contains(txt, fmt.Sprintf("append(yyDollar[1].%s, yyDollar[%d].", tag, last)) ||
			(strings.Contains(txt, fmt.Sprintf("s := yyDollar[1].%s", tag)) && strings.Contains(txt, fmt.Sprintf("s = append(s, yyDollar[%d].", last)) && strings.Contains(txt, "= s"))
		r.Ob("LIST-ORDER", fmt.Sprintf("rule %d `%s: %s`", p.Num, p.LHS, strings.Join(p.RHS, " ")), fmt.Sprintf("pkg/parser/gram.y:%d", p.Line), ok,
			"left-recursive list production must append its new element after the existing ones: "+txt)
	}
	r.Floor("LIST-ORDER", 5)
}

func layoutRules(c *Ctx, g *Gram, ref *precRef) {
	r := c.R
	infix := map[string]bool{"COMMA": true, "COLON": true, "LEFT_PAREN": true, "LEFT_BRACKET": true, "LEFT_BRACE": true}
	for _, t := range append(append([]string{}, ref.Binary...), ref.Assign...) {
		infix[t] = true
	}
	unset := map[string]bool{}
	for _, t := range ref.Unary {
		unset[t] = true
	}
	for _, p := range g.Prods[1:] {
		for i, s := range p.RHS {
			if !infix[s] {
				continue
			}
			if i == 0 && unset[s] && len(p.RHS) == 2 {
				continue // prefix operator: the spec gives no layout freedom after a sign
			}
			ok := i+1 < len(p.RHS) && p.RHS[i+1] == "SPACE_EOLS"
			if !ok && i == len(p.RHS)-1 && len(p.RHS) == 1 {
				// an operator-class non-terminal (`cmp_op: LT | GT …`): the layout follows the class where it is used
				uses, okUses := 0, true
				for _, q := range g.Prods[1:] {
					for j, sym := range q.RHS {
						if sym == p.LHS {
							uses++
							if !(j+1 < len(q.RHS) && q.RHS[j+1] == "SPACE_EOLS") {
								okUses = false
							}
						}
					}
				}
				ok = uses > 0 && okUses
			}
			r.Ob("LAYOUT-AFTER", fmt.Sprintf("`%s: %s` after $%d %s", p.LHS, strings.Join(p.RHS, " "), i+1, s), fmt.Sprintf("pkg/parser/gram.y:%d", p.Line), ok,
				"an infix operator, comma, colon or opening bracket must be followed by the nullable SPACE_EOLS so that blanks, comments and line breaks are admitted there")
		}
		// no action reads a layout symbol
		if ai := g.Actions[p.Num]; ai != nil && ai.Body != nil {
			txt := exprText(g.Fset, ai.Body)
			for i, s := range p.RHS {
				if s == "SPACE_EOLS" || s == "EOLS" || s == "sep" || s == "sem" || s == "EOL" {
					r.Ob("LAYOUT-INERT", fmt.Sprintf("`%s: %s` $%d %s", p.LHS, strings.Join(p.RHS, " "), i+1, s), fmt.Sprintf("pkg/parser/gram.y:%d", p.Line), !strings.Contains(txt, fmt.Sprintf("yyDollar[%d]", i+1)),
						"a layout symbol must not contribute to the tree")
				}
			}
		}
	}
	r.Floor("LAYOUT-AFTER", 100)
	r.Floor("LAYOUT-INERT", 100)
	// the layout nonterminals themselves
	has := func(lhs string, rhs ...string) bool {
		for _, p := range g.Prods[1:] {
			if p.LHS == lhs && strings.Join(p.RHS, " ") == strings.Join(rhs, " ") {
				return true
			}
		}
		return false
	}
	for _, w := range [][]string{{"SPACE_EOLS", "EOLS"}, {"SPACE_EOLS"}, {"EOLS", "EOL"}, {"EOLS", "EOLS", "EOL"},
		{"sep", "SEMICOLON"}, {"sep", "EOL"}, {"sep", "sep", "SEMICOLON"}, {"sep", "sep", "EOL"}} {
		r.Ob("LAYOUT-NT", fmt.Sprintf("%s: %s", w[0], strings.Join(w[1:], " ")), "pkg/parser/gram.y", has(w[0], w[1:]...), "layout nonterminal must keep this alternative (any run of line breaks / separators)")
	}
	// statements separated by sep: `stmts_list: stmts_list stmt sep`
	r.Ob("LAYOUT-NT", "stmts_list: stmts_list stmt sep", "pkg/parser/gram.y", has("stmts_list", "stmts_list", "stmt", "sep"), "statement lists are separated by sep")

	// lexer side: SPACE never emitted, COMMENT skipped by parser.Lex
	lexRulesLayout(c)
}

// lexRulesLayout: (a) no call emit(SPACE) anywhere in the lexer, (b) parser.Lex loops while the item type is COMMENT.
func lexRulesLayout(c *Ctx) {
	r := c.R
	t := c.T
	pp := t.SSA[pParser]
	spaceC := pp.Const("SPACE")
	commentC := pp.Const("COMMENT")
	if spaceC == nil || commentC == nil {
		r.Undecided("LEX-LAYOUT", "token constants SPACE/COMMENT", "pkg/parser/gram_y.go", "unresolved anchor")
		return
	}
	spaceV, _ := constInt(spaceC.Value)
	commentV, _ := constInt(commentC.Value)
	nEmit := 0
	for _, f := range t.PkgFuncs(pParser) {
		allInstrs(f, func(in ssa.Instruction) {
			if isCallTo(in, pParser, "Lexer.emit") {
				nEmit++
				call := in.(ssa.CallInstruction).Common()
				if v, ok := constInt(call.Args[1]); ok && v == spaceV {
					r.Ob("LEX-LAYOUT", "emit(SPACE) in "+relName(f), t.Pos(in.Pos()), false, "the lexer must skip blanks (ignore), never emit them: the grammar has no production that accepts SPACE")
				}
			}
		})
	}
	r.FloorN("emit call sites", nEmit, 20)
	r.Ob("LEX-LAYOUT", "no emit(SPACE) in pkg/parser", "pkg/parser/lex.go", true, fmt.Sprintf("%d emit call sites inspected", nEmit))
	// parser.Lex: the NextItem call sits in a loop whose exit condition is typ != COMMENT
	lex := t.Method(pParser, "parser", "Lex")
	if lex == nil {
		r.Undecided("LEX-LAYOUT", "(*parser).Lex", "pkg/parser/parser.go", "unresolved anchor")
		return
	}
	ok := false
	// the token loop may sit in Lex or in a same-package helper Lex calls to fetch the next token
	lexFns := []*ssa.Function{lex}
	allInstrs(lex, func(in ssa.Instruction) {
		if call, isC := in.(*ssa.Call); isC {
			if h := call.Call.StaticCallee(); h != nil && h.Pkg == lex.Pkg && len(h.Blocks) > 0 && h != lex {
				lexFns = append(lexFns, h)
			}
		}
	})
	for _, lex := range lexFns {
		for _, l := range naturalLoops(lex) {
			hasNext := false
			for b := range l.Blocks {
				for _, in := range b.Instrs {
					if isCallTo(in, pParser, "Lexer.NextItem") {
						hasNext = true
					}
				}
			}
			if !hasNext {
				continue
			}
			// every edge leaving the loop must be the `typ != COMMENT` edge
			exits, good := 0, 0
			for b := range l.Blocks {
				for si, sc := range b.Succs {
					if l.Blocks[sc] {
						continue
					}
					exits++
					iff, isIf := b.Instrs[len(b.Instrs)-1].(*ssa.If)
					if !isIf {
						continue
					}
					bo, isB := iff.Cond.(*ssa.BinOp)
					if !isB {
						continue
					}
					if v, isC := constInt(bo.Y); isC && v == commentV {
						if (bo.Op.String() == "!=" && si == 0) || (bo.Op.String() == "==" && si == 1) {
							good++
						}
					}
				}
			}
			if exits > 0 && exits == good {
				ok = true
			}
		}
	}
	lexCommentExtent(c, commentV)
	r.Ob("LEX-LAYOUT", "(*parser).Lex skips COMMENT items", t.Pos(lex.Pos()), ok, "the token loop in parser.Lex must continue exactly while the item type is COMMENT")
}

// lexCommentExtent: a COMMENT item ends before the first line terminator after its marker (or at the end of the
// input) — otherwise inserting a comment removes the text that follows it from the token stream. Two idioms are
// recognised in the state that emits COMMENT: (A) a next() loop every exit of which is `isEOL(r)` or `r == eof`,
// followed by backup(); (B) position arithmetic with the result n of a strings.Index* search for the line
// terminators in the rest of the input: `pos += n` only under n ≥ 0 and `pos = len(input)` only under n < 0.
func lexCommentExtent(c *Ctx, commentV int64) {
	r, t := c.R, c.T
	n := 0
	for _, f := range t.PkgFuncs(pParser) {
		var emitC *ssa.Call
		allInstrs(f, func(in ssa.Instruction) {
			if isCallTo(in, pParser, "Lexer.emit") {
				call := in.(*ssa.Call)
				if v, ok := constInt(call.Call.Args[1]); ok && v == commentV {
					emitC = call
				}
			}
		})
		if emitC == nil {
			continue
		}
		n++
		who := relName(f)
		loops := naturalLoops(f)
		okA := false
		detail := ""
		if len(loops) == 1 {
			l := loops[0]
			okExits, exits := true, 0
			for b := range l.Blocks {
				for si, sc := range b.Succs {
					if l.Blocks[sc] {
						continue
					}
					exits++
					iff, isIf := b.Instrs[len(b.Instrs)-1].(*ssa.If)
					if !isIf {
						okExits = false
						continue
					}
					good := false
					switch cd := iff.Cond.(type) {
					case *ssa.Call:
						if cd.Call.StaticCallee() != nil && fnName(cd.Call.StaticCallee()) == "isEOL" && si == 0 {
							good = true
						}
					case *ssa.BinOp:
						if k, isC := constInt(cd.Y); isC && k == -1 && ((cd.Op == token.EQL && si == 0) || (cd.Op == token.NEQ && si == 1)) {
							good = true
						}
					}
					if !good {
						okExits = false
					}
				}
			}
			backs := false
			allInstrs(f, func(in ssa.Instruction) {
				if isCallTo(in, pParser, "Lexer.backup") && !l.Blocks[in.Block()] && precedes(in, emitC) {
					backs = true
				}
			})
			okA = okExits && exits > 0 && backs
			detail = fmt.Sprintf("idiom A: %d loop exits, all on isEOL(r) / r == eof: %v, backup() before emit: %v", exits, okExits, backs)
		}
		okB := false
		if !okA {
			// idiom B
			var idx ssa.Value
			allInstrs(f, func(in ssa.Instruction) {
				call, ok := in.(*ssa.Call)
				if !ok || call.Call.StaticCallee() == nil || call.Call.StaticCallee().Pkg == nil || call.Call.StaticCallee().Pkg.Pkg.Path() != "strings" || !strings.HasPrefix(fnName(call.Call.StaticCallee()), "Index") {
					return
				}
				if len(call.Call.Args) == 2 {
					if cst, ok := call.Call.Args[1].(*ssa.Const); ok && cst.Value != nil && strings.Contains(cst.Value.ExactString(), `\n`) {
						idx = call
					}
				}
			})
			if idx != nil {
				okStores, stores := true, 0
				factOn := func(b *ssa.BasicBlock, wantFound bool) bool {
					return hasFact(b, func(cond ssa.Value, pol bool) bool {
						bo, ok := cond.(*ssa.BinOp)
						if !ok || bo.X != idx {
							return false
						}
						k, isC := constInt(bo.Y)
						if !isC {
							return false
						}
						// found: n >= 0, n > -1, n != -1 ; not found: n < 0, n == -1, n <= -1
						found := (bo.Op == token.GEQ && k == 0) || (bo.Op == token.GTR && k == -1) || (bo.Op == token.NEQ && k == -1)
						notFound := (bo.Op == token.LSS && k == 0) || (bo.Op == token.EQL && k == -1) || (bo.Op == token.LEQ && k == -1)
						if wantFound {
							return (found && pol) || (notFound && !pol)
						}
						return (notFound && pol) || (found && !pol)
					})
				}
				allInstrs(f, func(in ssa.Instruction) {
					st, ok := in.(*ssa.Store)
					if !ok || !strings.HasSuffix(path(st.Addr), ".pos") {
						return
					}
					stores++
					vp := path(st.Val)
					switch {
					case strings.Contains(vp, "Index"):
						if !factOn(st.Block(), true) {
							okStores = false
						}
					case strings.Contains(vp, "len("):
						if strings.Contains(vp, ".input") && !factOn(st.Block(), false) {
							okStores = false
						}
					}
				})
				okB = okStores && stores >= 2
				detail += fmt.Sprintf("; idiom B: %d position stores, each under the matching found / not-found fact of the terminator search: %v", stores, okStores)
			}
		}
		r.Ob("LEX-LAYOUT", who+" ends a COMMENT item before the next line terminator", t.Pos(emitC.Pos()), okA || okB, detail)
	}
	r.FloorN("states that emit COMMENT", n, 1)
}

func allIn(xs []string, set map[string]bool) bool {
	if len(xs) == 0 {
		return false
	}
	for _, x := range xs {
		if !set[x] {
			return false
		}
	}
	return true
}
