package main

import (
	"fmt"
	"go/constant"
	"go/token"
	"sort"
	"strings"

	"golang.org/x/tools/go/ssa"
)

func init() {
	register("C05", "parsing ends with a tree or a positioned diagnostic: constructor nil-safety via grammar flow, error-before-nil, lexer contract and progress", checkC05)
}

// gramNil computes, over the grammar actions and the constructor bodies, which grammar symbols may carry a nil
// semantic value after an error was recorded, and which node kinds a symbol may carry.
type gramNil struct {
	mayNil          map[string]bool           // symbol -> its value may be nil
	kinds           map[string]map[int64]bool // symbol -> node kinds it may carry
	ctorNilFeasible map[string]bool           // constructor -> has a feasible `return nil`
	why             map[string]string
}

// ctorResultKinds: kinds of nodes a constructor returns through ast.Wrap* calls; returnsParam: indices of
// parameters it may return as is.
func ctorResult(fn *ssa.Function, s2k map[string]int64) (kinds map[int64]bool, retParams map[int]bool, nilRets []*ssa.Return) {
	kinds, retParams = map[int64]bool{}, map[int]bool{}
	allInstrs(fn, func(in ssa.Instruction) {
		ret, ok := in.(*ssa.Return)
		if !ok || len(ret.Results) != 1 {
			return
		}
		var walk func(v ssa.Value, seen map[ssa.Value]bool)
		walk = func(v ssa.Value, seen map[ssa.Value]bool) {
			if seen[v] {
				return
			}
			seen[v] = true
			switch x := v.(type) {
			case *ssa.Const:
				if x.Value == nil {
					nilRets = append(nilRets, ret)
				}
			case *ssa.Parameter:
				for i, p := range fn.Params {
					if p == x {
						retParams[i] = true
					}
				}
			case *ssa.Phi:
				for _, e := range x.Edges {
					walk(e, seen)
				}
			case *ssa.Call:
				if f := x.Call.StaticCallee(); f != nil && strings.HasPrefix(f.Name(), "Wrap") && len(x.Call.Args) == 1 {
					sn := strings.TrimPrefix(namedOf(x.Call.Args[0].Type()), "ast.")
					if k, ok := s2k[sn]; ok {
						kinds[k] = true
					}
				}
			case *ssa.Alloc:
				// &ast.BlockStmt{…}, &ast.IfStmtElem{…}: non-node results
			}
		}
		walk(ret.Results[0], map[ssa.Value]bool{})
	})
	return
}

func computeGramNil(c *Ctx, g *Gram, ctors map[string]*CtorSummary) *gramNil {
	t := c.T
	_, s2k := kindTable(t)
	gn := &gramNil{mayNil: map[string]bool{}, kinds: map[string]map[int64]bool{}, ctorNilFeasible: map[string]bool{}, why: map[string]string{}}
	type cres struct {
		kinds     map[int64]bool
		retParams map[int]bool
		nilRets   []*ssa.Return
	}
	res := map[string]cres{}
	for n, cs := range ctors {
		k, rp, nr := ctorResult(cs.Fn, s2k)
		res[n] = cres{k, rp, nr}
	}
	addKinds := func(sym string, ks map[int64]bool) bool {
		ch := false
		if gn.kinds[sym] == nil {
			gn.kinds[sym] = map[int64]bool{}
		}
		for k := range ks {
			if !gn.kinds[sym][k] {
				gn.kinds[sym][k] = true
				ch = true
			}
		}
		return ch
	}
	// argument symbols of each constructor parameter (receiver excluded): param index (in fn.Params) -> symbols / literal nil
	argSyms := func(call CtorCall, p *Production, i int) (syms []string, litNil bool) {
		if i >= len(call.Args) {
			return nil, false
		}
		a := call.Args[i]
		if a.Nil {
			return nil, true
		}
		for _, k := range a.Dollars {
			if a.Sel == "" { // the node itself, not a field of an item
				syms = append(syms, p.RHS[k-1])
			}
		}
		if a.Self {
			syms = append(syms, "$$"+p.LHS)
		}
		return syms, false
	}
	// nil-return feasibility of a constructor under the current kind sets
	feasible := func(name string) bool {
		cr := res[name]
		cs := ctors[name]
		for _, ret := range cr.nilRets {
			ok := true // feasible unless proven otherwise
			for _, ec := range controlling(ret.Block()) {
				bo, isB := ec.Cond.(*ssa.BinOp)
				if !isB {
					continue
				}
				kv, isC := constInt(bo.Y)
				if !isC || !strings.HasSuffix(path(bo.X), ".NodeType") {
					continue
				}
				prm, isP := rootOf(bo.X).(*ssa.Parameter)
				if !isP {
					continue
				}
				idx := paramIndex(cs.Fn, prm) - 1
				// kinds that may reach this parameter over all call sites
				reach := map[int64]bool{}
				known := true
				for _, cl := range g.AllCalls() {
					if cl.Name != name {
						continue
					}
					syms, litNil := argSyms(cl, cl.Prod, idx)
					if litNil {
						continue
					}
					// a local of the action holding another constructor's result: that constructor's kinds
					if idx < len(cl.Args) && cl.Args[idx].FromCtor != "" {
						if cr2, has := res[cl.Args[idx].FromCtor]; has && len(cr2.retParams) == 0 {
							for k := range cr2.kinds {
								reach[k] = true
							}
							continue
						}
						known = false
					}
					for _, s := range syms {
						s = strings.TrimPrefix(s, "$$")
						if gn.kinds[s] == nil {
							known = false
						}
						for k := range gn.kinds[s] {
							reach[k] = true
						}
					}
				}
				if !known {
					continue
				}
				// edge says NodeType != K (true) or NodeType == K (false): infeasible when every reaching kind is K
				isNeq := (bo.Op == token.NEQ && ec.Pol) || (bo.Op == token.EQL && !ec.Pol)
				if isNeq && len(reach) == 1 && reach[kv] {
					ok = false
				}
			}
			if ok {
				return true
			}
		}
		return false
	}
	for iter := 0; iter < 20; iter++ {
		changed := false
		for _, p := range g.Prods[1:] {
			ai := g.Actions[p.Num]
			if ai == nil {
				continue
			}
			// pass-through
			for _, s := range ai.PassThru {
				if g.TypeOf[s] == "node" || g.TypeOf[p.LHS] == "node" {
					if addKinds(p.LHS, gn.kinds[s]) {
						changed = true
					}
					if gn.mayNil[s] && !gn.mayNil[p.LHS] {
						gn.mayNil[p.LHS] = true
						gn.why[p.LHS] = "from " + s
						changed = true
					}
				}
			}
			for _, cl := range ai.Calls {
				if !cl.ToResult {
					continue
				}
				cr, ok := res[cl.Name]
				if !ok {
					continue
				}
				if addKinds(p.LHS, cr.kinds) {
					changed = true
				}
				for pi := range cr.retParams {
					syms, _ := argSyms(cl, p, pi-1)
					for _, s := range syms {
						s = strings.TrimPrefix(s, "$$")
						if addKinds(p.LHS, gn.kinds[s]) {
							changed = true
						}
						if gn.mayNil[s] && !gn.mayNil[p.LHS] {
							gn.mayNil[p.LHS] = true
							gn.why[p.LHS] = "from " + s + " through " + cl.Name
							changed = true
						}
					}
				}
				if feasible(cl.Name) {
					if !gn.ctorNilFeasible[cl.Name] {
						gn.ctorNilFeasible[cl.Name] = true
						changed = true
					}
					if !gn.mayNil[p.LHS] {
						gn.mayNil[p.LHS] = true
						gn.why[p.LHS] = cl.Name + " may return nil"
						changed = true
					}
				}
			}
		}
		if !changed {
			break
		}
	}
	return gn
}

func checkC05(c *Ctx) {
	r, t := c.R, c.T
	r.Explanation = "Decides on the grammar (proved in sync with the compiled parser), the constructors and the lexer: (1) CTOR-NIL: a fixpoint over the grammar actions computes which grammar symbols may carry a nil value after an error was recorded (a constructor's `return nil` is feasible unless it is guarded by a NodeType test that every producer of that argument satisfies) and which AST fields may therefore hold nil; every dereference of such a parameter or field inside a constructor must be dominated by a nil test — otherwise the parser panics and the recovered panic is reported as the position-less `unexpected error`; (2) NIL-WITH-ERR: every `return nil` of a constructor is preceded by addParseErr*, and ParsePipeline returns the converted first error whenever any was recorded, that test dominating the success return — so `neither tree nor error` is impossible; (3) LEX-CONTRACT: emit and errorf mark an item as scanned on all paths, every `return nil` of a state function is preceded by emit or errorf, NextItem emits EOF when no state is left, parser.Lex turns an ERROR item into a recorded error and ends the token stream; (4) LEX-PROGRESS: in the graph of state functions (edge = returned state) every edge is classified by a typestate (a rune consumed and not backed up, or an item emitted) and the sub-graph of non-progressing edges is acyclic, so the lexer cannot spin; (5) LEX-COVER: Lexer.start is written only by emit (to pos) and ignore, ignore is called only when skipping blanks, every item's text is input[start:pos] and its position start; (6) positions of parse errors come from the lexer's start or the look-ahead item and are converted by the parse's own PosCache. Not decided: termination of the goyacc driver (generated, trusted); run-time bounds of the string slicing in lex.go/strutil.go (listed as not covered). Also LEX-SKIP: a state function that advances the position by a constant without reading (the comment state) is entered only where strings.HasPrefix(input[pos:], S) with len(S) equal to that constant (or a peek of a one-byte rune) holds and the position has not moved since."
	r.Trusted = []string{"goyacc-generated driver yyParserImpl.Parse (terminates, calls Lex once per token)", "unicode/utf8 decoding"}
	g := c.requireGram()
	if g == nil {
		return
	}
	called := map[string]bool{}
	for _, cl := range g.AllCalls() {
		called[cl.Name] = true
	}
	ctors := parserCtors(t, called)
	gn := computeGramNil(c, g, ctors)
	var nilSyms []string
	for s := range gn.mayNil {
		nilSyms = append(nilSyms, s+" ("+gn.why[s]+")")
	}
	sort.Strings(nilSyms)
	r.Extra["symbols_that_may_be_nil"] = nilSyms
	r.Extra["constructors_with_feasible_nil_return"] = sortedKeys(gn.ctorNilFeasible)

	// nilable constructor parameters and nilable fields
	nilParam := map[string]map[int]string{} // ctor -> param index (in fn.Params) -> reason
	for _, cl := range g.AllCalls() {
		cs := ctors[cl.Name]
		if cs == nil {
			continue
		}
		for i, a := range cl.Args {
			reason := ""
			if a.Nil {
				reason = fmt.Sprintf("literal nil in rule %d", cl.Prod.Num)
			}
			if a.Sel == "" {
				for _, k := range a.Dollars {
					if s := cl.Prod.RHS[k-1]; gn.mayNil[s] {
						reason = fmt.Sprintf("symbol %s may be nil (%s), rule %d", s, gn.why[s], cl.Prod.Num)
					}
				}
			}
			if reason != "" {
				if nilParam[cl.Name] == nil {
					nilParam[cl.Name] = map[int]string{}
				}
				nilParam[cl.Name][i+1] = reason
			}
		}
	}
	nilField := map[string]string{}
	for _, p := range g.Prods[1:] {
		ff, _ := g.FieldFlow(p, ctors)
		for f, srcs := range ff {
			for s := range srcs {
				if s == "nil" || strings.HasPrefix(s, "nil.") {
					nilField[f] = fmt.Sprintf("rule %d passes nil", p.Num)
				}
				if m := reDollar.FindStringSubmatch(s); m != nil && m[2] == "" {
					var k int
					fmt.Sscan(m[1], &k)
					if sym := p.RHS[k-1]; gn.mayNil[sym] {
						nilField[f] = fmt.Sprintf("rule %d feeds it from %s, which may be nil (%s)", p.Num, sym, gn.why[sym])
					}
				}
			}
		}
	}
	r.Extra["fields_that_may_be_nil_after_an_error"] = nilField
	nDeref := 0
	for _, name := range sortedKeys(ctors) {
		cs := ctors[name]
		r.Fn(relName(cs.Fn))
		// parameter dereferences
		for pi, why := range nilParam[name] {
			if pi >= len(cs.Fn.Params) {
				continue
			}
			prm := cs.Fn.Params[pi]
			if !isAstTyped(prm.Type()) || strings.HasPrefix(prm.Type().String(), "[]") {
				continue
			}
			allInstrs(cs.Fn, func(in ssa.Instruction) {
				deref := false
				switch x := in.(type) {
				case *ssa.FieldAddr:
					deref = x.X == ssa.Value(prm)
				case *ssa.Call:
					if f := x.Call.StaticCallee(); f != nil && f.Signature.Recv() != nil && len(x.Call.Args) > 0 && x.Call.Args[0] == ssa.Value(prm) {
						if f.Name() != "StartPos" && f.Name() != "String" {
							deref = true
						}
					}
				}
				if !deref {
					return
				}
				nDeref++
				guarded := false
				for _, ec := range controlling(in.Block()) {
					if bo, ok := ec.Cond.(*ssa.BinOp); ok && isNilConst(bo.Y) && bo.X == ssa.Value(prm) {
						if (bo.Op == token.NEQ && ec.Pol) || (bo.Op == token.EQL && !ec.Pol) {
							guarded = true
						}
					}
				}
				r.Ob("CTOR-NIL", fmt.Sprintf("%s dereferences parameter %s #%d", name, pname(prm), ordinalDeref(cs.Fn, in, pname(prm))), t.Pos(in.Pos()), guarded,
					fmt.Sprintf("the argument may be nil (%s) and is dereferenced without a nil test: the parser panics and reports the position-less `unexpected error`", why))
			})
		}
		nDeref += nilDerefRule(c, "CTOR-NIL", cs.Fn, nilField)
	}
	r.FloorN("nil-sensitive dereferences in constructors", nDeref, 8)

	// (2) error before nil
	nNil := 0
	for _, name := range sortedKeys(ctors) {
		cs := ctors[name]
		allInstrs(cs.Fn, func(in ssa.Instruction) {
			ret, ok := in.(*ssa.Return)
			if !ok || len(ret.Results) != 1 || !isNilConst(ret.Results[0]) {
				return
			}
			nNil++
			pre := exitReported(cs.Fn, ret, 0)
			r.Ob("NIL-WITH-ERR", fmt.Sprintf("%s nil return #%d", name, retOrdinal(cs.Fn, ret)), t.Pos(ret.Pos()), pre, "a constructor that gives up must have recorded a parse error first, otherwise the parse ends with neither tree nor error")
		})
	}
	r.FloorN("nil returns of constructors", nNil, 10)
	c05ParsePipeline(c)
	c05Lexer(c)
}

func c05ParsePipeline(c *Ctx) {
	r, t := c.R, c.T
	pp := t.Func(pParser, "ParsePipeline")
	if pp == nil {
		r.Undecided("PARSE-RESULT", "parser.ParsePipeline", "", "unresolved anchor")
		return
	}
	r.Fn(relName(pp))
	// the `len(p.errs) != 0` test: its true arm stores the converted error; success returns are on its false arm. It
	// sits in ParsePipeline or in a same-package function ParsePipeline calls (two levels) whose results it returns.
	var test *ssa.BasicBlock
	ppOuter := pp
	cands := []*ssa.Function{pp}
	for i := 0; i < len(cands) && i < 12; i++ {
		allInstrs(cands[i], func(in ssa.Instruction) {
			if call, ok := in.(*ssa.Call); ok {
				if g := call.Call.StaticCallee(); g != nil && g.Pkg == pp.Pkg && len(g.Blocks) > 0 && g.Signature.Results().Len() == pp.Signature.Results().Len() {
					dup := false
					for _, c0 := range cands {
						if c0 == g {
							dup = true
						}
					}
					if !dup {
						cands = append(cands, g)
					}
				}
			}
		})
	}
	// errsTest: the condition asks whether errors were recorded — len(p.errs) compared with 0, possibly negated, or
	// a one-line predicate on the error list (`func (e ParseErrors) empty() bool { return len(e) == 0 }`)
	var errsTest func(cond ssa.Value) (isTest, presentOnTrue bool)
	errsTest = func(cond ssa.Value) (bool, bool) {
		switch x := cond.(type) {
		case *ssa.UnOp:
			if x.Op == token.NOT {
				is, on := errsTest(x.X)
				return is, !on
			}
		case *ssa.BinOp:
			if s := condStr(x); strings.Contains(s, "len(") && strings.Contains(s, ".errs") {
				return true, x.Op != token.EQL
			}
		case *ssa.Call:
			g := x.Call.StaticCallee()
			if g == nil || g.Pkg == nil || g.Pkg != ppOuter.Pkg || len(g.Blocks) != 1 || len(x.Call.Args) != 1 || !strings.HasSuffix(path(x.Call.Args[0]), ".errs") {
				return false, false
			}
			if ret, ok := g.Blocks[0].Instrs[len(g.Blocks[0].Instrs)-1].(*ssa.Return); ok && len(ret.Results) == 1 {
				if bo, ok := ret.Results[0].(*ssa.BinOp); ok {
					if _, isLen := lenOf(bo.X); isLen || strings.HasPrefix(path(bo.X), "len(") {
						if k, isK := constInt(bo.Y); isK && k == 0 {
							return true, bo.Op != token.EQL
						}
					}
				}
			}
		}
		return false, false
	}
	presentOnTrue := true
	for _, g := range cands {
		for _, b := range g.Blocks {
			if iff, ok := b.Instrs[len(b.Instrs)-1].(*ssa.If); ok && test == nil {
				if is, on := errsTest(iff.Cond); is {
					test = b
					pp = g
					presentOnTrue = on
				}
			}
		}
	}
	if pp != ppOuter {
		// the outer function must hand on what the inner one decided
		handsOn := false
		allInstrs(ppOuter, func(in ssa.Instruction) {
			if ret, ok := in.(*ssa.Return); ok && len(ret.Results) > 0 {
				if ex, isE := ret.Results[0].(*ssa.Extract); isE {
					if call, isC := ex.Tuple.(*ssa.Call); isC && call.Call.StaticCallee() == pp {
						handsOn = true
					}
				}
			}
			if s, ok := in.(*ssa.Store); ok {
				if ex, isE := s.Val.(*ssa.Extract); isE {
					if call, isC := ex.Tuple.(*ssa.Call); isC && call.Call.StaticCallee() == pp {
						handsOn = true
					}
				}
			}
		})
		if !handsOn {
			test = nil
		}
		r.Fn(relName(pp))
	}
	// which arm is "errors present": len(errs) != 0 / > 0 → true arm; len(errs) == 0 → false arm
	if test == nil {
		r.Undecided("PARSE-RESULT", "ParsePipeline's test of the recorded errors", t.Pos(ppOuter.Pos()), "no branch on len(p.errs) (or a predicate of the error list) found in ParsePipeline or the functions it hands its result on from")
		return
	}
	errArm, okArm := test.Succs[0], test.Succs[1]
	if !presentOnTrue {
		errArm, okArm = test.Succs[1], test.Succs[0]
	}
	conv := false
	var convInline *ssa.Call
	allInstrs(pp, func(in ssa.Instruction) {
		if call, ok := in.(*ssa.Call); ok && call.Call.StaticCallee() != nil && (errArm.Dominates(call.Block()) || errArm == call.Block()) {
			switch fnName(call.Call.StaticCallee()) {
			case "conv2PlError":
				conv = true
			case "NewErr": // the conversion written out: the first recorded error, positioned by the parse's own cache
				if len(call.Call.Args) == 3 && strings.Contains(path(call.Call.Args[2]), "errs[0]") {
					conv, convInline = true, call
				}
			}
		}
	})
	r.Ob("PARSE-RESULT", "ParsePipeline converts the first recorded error", t.Pos(pp.Pos()), conv, "conv2PlError(name, p.errs, &p.posCache) on the errors-present arm")
	// the parse result is read only on the no-error arm
	okRes := true
	allInstrs(pp, func(in ssa.Instruction) {
		if u, ok := in.(*ssa.UnOp); ok && strings.HasSuffix(path(u), ".parseResult") {
			if !okArm.Dominates(u.Block()) && u.Block() != okArm {
				okRes = false
			}
		}
	})
	r.Ob("PARSE-RESULT", "ParsePipeline hands out the tree only when no error was recorded", t.Pos(pp.Pos()), okRes, "p.parseResult is read only on the len(p.errs) == 0 arm")
	// recover installed
	rec := false
	allInstrs(ppOuter, func(in ssa.Instruction) {
		if d, ok := in.(*ssa.Defer); ok && d.Call.StaticCallee() != nil {
			// the deferred function (method, function or literal of the package) is the one that calls recover()
			g := d.Call.StaticCallee()
			allInstrs(g, func(i2 ssa.Instruction) {
				if builtinName(i2) == "recover" {
					rec = true
				}
			})
		}
	})
	r.Ob("PARSE-RESULT", "ParsePipeline recovers internal panics", t.Pos(pp.Pos()), rec, "defer p.recover(&err)")
	// conv2PlError position
	cv := t.Func(pParser, "conv2PlError")
	okPos := false
	if cv != nil {
		allInstrs(cv, func(in ssa.Instruction) {
			if call, ok := in.(*ssa.Call); ok && call.Call.StaticCallee() != nil && fnName(call.Call.StaticCallee()) == "LnCol" {
				if strings.Contains(path(call.Call.Args[1]), "errs[0].Pos.Start") {
					okPos = true
				}
			}
		})
	}
	if convInline != nil {
		if lc, ok := convInline.Call.Args[1].(*ssa.Call); ok && lc.Call.StaticCallee() != nil && fnName(lc.Call.StaticCallee()) == "LnCol" && strings.Contains(path(lc.Call.Args[len(lc.Call.Args)-1]), "errs[0].Pos.Start") {
			okPos = true
		}
	}
	r.Ob("PARSE-RESULT", "conv2PlError positions the error at the first recorded error's start", "pkg/parser/parser.go", okPos, "posCache.LnCol(errs[0].Pos.Start)")
}

func c05Lexer(c *Ctx) {
	r, t := c.R, c.T
	emit := t.Method(pParser, "Lexer", "emit")
	errorf := t.Method(pParser, "Lexer", "errorf")
	next := t.Method(pParser, "Lexer", "next")
	backup := t.Method(pParser, "Lexer", "backup")
	ignore := t.Method(pParser, "Lexer", "ignore")
	nextItem := t.Method(pParser, "Lexer", "NextItem")
	lex := t.Method(pParser, "parser", "Lex")
	if emit == nil || errorf == nil || next == nil || backup == nil || ignore == nil || nextItem == nil || lex == nil {
		r.Undecided("LEX-CONTRACT", "Lexer methods", "pkg/parser/lex.go", "unresolved anchor")
		return
	}
	r.Fn(relName(emit), relName(errorf), relName(next), relName(nextItem), relName(lex))
	setsScanned := func(f *ssa.Function) bool {
		ok := false
		allInstrs(f, func(in ssa.Instruction) {
			if s, isS := in.(*ssa.Store); isS && strings.HasSuffix(path(s.Addr), ".scannedItem") && len(controlling(s.Block())) == 0 {
				if cv, isC := s.Val.(*ssa.Const); isC && cv.Value != nil && cv.Value.ExactString() == "true" {
					ok = true
				}
			}
		})
		return ok
	}
	r.Ob("LEX-CONTRACT", "Lexer.emit marks an item as scanned", t.Pos(emit.Pos()), setsScanned(emit), "scannedItem = true on every path")
	r.Ob("LEX-CONTRACT", "Lexer.errorf marks an item as scanned", t.Pos(errorf.Pos()), setsScanned(errorf), "scannedItem = true on every path")
	// state functions
	var states []*ssa.Function
	for _, f := range t.PkgFuncs(pParser) {
		if f.Signature.Recv() == nil && f.Signature.Results().Len() == 1 && strings.HasSuffix(f.Signature.Results().At(0).Type().String(), "parser.stateFn") && len(f.Params) == 1 {
			states = append(states, f)
		}
	}
	r.FloorN("lexer state functions", len(states), 9)
	isState := map[*ssa.Function]bool{}
	for _, s := range states {
		isState[s] = true
		r.Fn(relName(s))
	}
	// progress typestate: 0 none, 1 tentative (one rune read, may be backed up), 2 progress
	type edge = lexEdge
	var edges []edge
	for _, f := range states {
		ts := &typestate{fn: f, nstate: 3, init: 0}
		ts.trans = func(in ssa.Instruction, st int) int {
			switch x := in.(type) {
			case *ssa.Call:
				switch x.Call.StaticCallee() {
				case next:
					if st == 0 {
						return 1
					}
					return 2
				case backup:
					if st == 1 {
						return 0
					}
				case emit, errorf:
					return 2
				}
			case *ssa.Store:
				if strings.HasSuffix(path(x.Addr), ".pos") {
					if bo, ok := x.Val.(*ssa.BinOp); ok && bo.Op == token.ADD {
						return 2
					}
				}
			}
			return st
		}
		before := ts.run()
		// consumption only: an item that is emitted without a net consumed rune does not move the scanner
		tc := &typestate{fn: f, nstate: 3, init: 0}
		tc.trans = func(in ssa.Instruction, st int) int {
			switch x := in.(type) {
			case *ssa.Call:
				switch x.Call.StaticCallee() {
				case next:
					if st == 0 {
						return 1
					}
					return 2
				case backup:
					if st == 1 {
						return 0
					}
				case errorf:
					return 2 // parser.Lex ends the stream on an ERROR item
				}
			case *ssa.Store:
				if strings.HasSuffix(path(x.Addr), ".pos") {
					if bo, ok := x.Val.(*ssa.BinOp); ok && bo.Op == token.ADD {
						return 2
					}
				}
			}
			return st
		}
		beforeC := tc.run()
		allInstrs(f, func(in ssa.Instruction) {
			ret, ok := in.(*ssa.Return)
			if !ok {
				return
			}
			// nil return must be preceded by emit/errorf (state 2 on all paths, through emit/errorf specifically)
			var targets []*ssa.Function
			isNil := false
			var walk func(v ssa.Value, seen map[ssa.Value]bool)
			walk = func(v ssa.Value, seen map[ssa.Value]bool) {
				if seen[v] {
					return
				}
				seen[v] = true
				switch x := v.(type) {
				case *ssa.Const:
					isNil = isNil || x.Value == nil
				case *ssa.Function:
					targets = append(targets, x)
				case *ssa.ChangeType:
					walk(x.X, seen)
				case *ssa.MakeClosure:
					if fn, ok := x.Fn.(*ssa.Function); ok {
						targets = append(targets, fn)
					}
				case *ssa.Phi:
					for _, e := range x.Edges {
						walk(e, seen)
					}
				case *ssa.Call:
					// `return l.errorf(...)`: errorf returns nil
					if x.Call.StaticCallee() == errorf {
						isNil = true
					}
				}
			}
			walk(ret.Results[0], map[ssa.Value]bool{})
			m := before[ret]
			if call, ok := ret.Results[0].(*ssa.Call); ok && call.Call.StaticCallee() == errorf {
				m = 1 << 2 // the errorf call itself is the progress
			}
			if isNil {
				r.Ob("LEX-CONTRACT", fmt.Sprintf("%s end-of-scan return #%d delivers an item", f.Name(), retOrdinal(f, ret)), t.Pos(ret.Pos()), m == 1<<2,
					"a state function may stop the scanner (return nil) only after emit or errorf put an item in place, otherwise NextItem loops on a nil state")
			}
			mc := beforeC[ret]
			if call, ok := ret.Results[0].(*ssa.Call); ok && call.Call.StaticCallee() == errorf {
				mc = 1 << 2
			}
			for _, tg := range targets {
				edges = append(edges, edge{f, tg, m&1 == 0, ret.Pos(), mc == 1<<2, ret})
			}
		})
	}
	// non-progress edges must be acyclic
	adj := map[*ssa.Function][]*ssa.Function{}
	for _, e := range edges {
		if !e.prog {
			adj[e.from] = append(adj[e.from], e.to)
		}
	}
	var cyc []string
	color := map[*ssa.Function]int{}
	var dfs func(f *ssa.Function, stack []string)
	dfs = func(f *ssa.Function, stack []string) {
		color[f] = 1
		for _, g := range adj[f] {
			if color[g] == 1 {
				cyc = append(cyc, strings.Join(append(stack, f.Name(), g.Name()), " -> "))
			} else if color[g] == 0 {
				dfs(g, append(stack, f.Name()))
			}
		}
		color[f] = 2
	}
	for _, s := range states {
		if color[s] == 0 {
			dfs(s, nil)
		}
	}
	nprog := 0
	for _, e := range edges {
		if e.prog {
			nprog++
		}
		r.Ob("LEX-PROGRESS", fmt.Sprintf("edge %s -> %s (return at line-independent ordinal %d)", e.from.Name(), e.to.Name(), edgeOrdinal(edges, e)), t.Pos(e.pos), true,
			fmt.Sprintf("progress on every path to this transition: %v (net rune consumed on every path: %v)", e.prog, e.consumed))
	}
	r.Ob("LEX-PROGRESS", "state transitions without progress form no cycle", "pkg/parser/lex.go", len(cyc) == 0, fmt.Sprintf("cycles of transitions that neither consume a rune nor emit an item: %v — the lexer would spin forever on some input", cyc))
	// consumption: abstract interpretation over rune classes — no cycle of states without a consumed rune, even
	// when every state on it emits an item (an endless stream of empty tokens never reaches EOF)
	{
		var entry *ssa.Function
		for _, s := range states {
			if s.Name() == "lexStatements" {
				entry = s
			}
		}
		if entry == nil {
			r.Undecided("LEX-CONSUME", "entry state lexStatements", "pkg/parser/lex.go", "unresolved anchor")
		} else {
			aedges, entryCls, ex := lexAbstract(t, states, entry)
			if ex.aborted != "" {
				r.Undecided("LEX-CONSUME", "abstract interpretation of the state functions", "pkg/parser/lex.go", ex.aborted)
			} else {
				zadj := map[*ssa.Function][]lexAbsEdge{}
				for _, e := range aedges {
					detail := "consumes at least one rune on every path"
					if e.zero {
						detail = "can be taken with the rune " + e.cls.String() + " still unread"
						zadj[e.from] = append(zadj[e.from], e)
					}
					r.Ob("LEX-CONSUME", fmt.Sprintf("transition %s -> %s", e.from.Name(), e.to.Name()), t.Pos(e.from.Pos()), true, detail+fmt.Sprintf(" (entry class of %s: %s)", e.from.Name(), entryCls[e.from]))
				}
				var zc []string
				col := map[*ssa.Function]int{}
				var walk func(f *ssa.Function, stack []string)
				walk = func(f *ssa.Function, stack []string) {
					col[f] = 1
					for _, e := range zadj[f] {
						hop := f.Name() + " -[" + e.cls.String() + " unread]-> "
						if col[e.to] == 1 {
							zc = append(zc, strings.Join(append(stack, hop), "")+e.to.Name())
						} else if col[e.to] == 0 {
							walk(e.to, append(stack, hop))
						}
					}
					col[f] = 2
				}
				for _, s := range states {
					if col[s] == 0 {
						walk(s, nil)
					}
				}
				r.Ob("LEX-CONSUME", "no cycle of states leaves the next rune unread", "pkg/parser/lex.go", len(zc) == 0,
					fmt.Sprintf("%d transitions, %d of them possible without consumption; cycles: %v — on such a rune the lexer emits tokens forever without advancing, and the parser never sees EOF", len(aedges), len(zadj), zc))
				r.FloorN("abstract lexer transitions", len(aedges), 15)
				r.Counts["lexabs_steps"] = ex.steps
				if len(ex.unknownPreds) > 0 {
					r.Extra["lexabs_unmodelled_predicates"] = sortedKeys(ex.unknownPreds)
				}
			}
		}
	}
	r.FloorN("state transitions", len(edges), 25)
	// NextItem: nil state -> emit(EOF)
	okEOF := false
	eofV, _ := constInt(t.SSA[pParser].Const("EOF").Value)
	allInstrs(nextItem, func(in ssa.Instruction) {
		if call, ok := in.(*ssa.Call); ok && call.Call.StaticCallee() == emit {
			if v, ok := constInt(call.Call.Args[1]); ok && v == eofV {
				for _, ec := range controlling(call.Block()) {
					if strings.Contains(ec.String(), ".state != nil") && strings.HasPrefix(ec.String(), "!(") || strings.Contains(ec.String(), ".state == nil") && !strings.HasPrefix(ec.String(), "!(") {
						okEOF = true
					}
				}
			}
		}
	})
	r.Ob("LEX-CONTRACT", "NextItem delivers EOF once the state machine has stopped", t.Pos(nextItem.Pos()), okEOF, "l.state == nil → emit(EOF)")
	// parser.Lex: ERROR -> addParseErr + return 0
	errV, _ := constInt(t.SSA[pParser].Const("ERROR").Value)
	okErr, nErr := true, 0
	// parser.Lex itself, or the function whose verdict it returns (the bookkeeping phase moved out of Lex)
	lexFns := []*ssa.Function{lex}
	allInstrs(lex, func(in ssa.Instruction) {
		if ret, ok := in.(*ssa.Return); ok && len(ret.Results) == 1 {
			if call, isC := ret.Results[0].(*ssa.Call); isC {
				if g := call.Call.StaticCallee(); g != nil && g.Pkg == lex.Pkg && len(g.Blocks) > 0 {
					lexFns = append(lexFns, g)
				}
			}
		}
	})
	for _, lex := range lexFns {
		allInstrs(lex, func(in ssa.Instruction) {
			ret, ok := in.(*ssa.Return)
			if !ok {
				return
			}
			under := false
			for _, ec := range controlling(ret.Block()) {
				if bo, ok := ec.Cond.(*ssa.BinOp); ok && bo.Op == token.EQL && ec.Pol {
					if v, ok := constInt(bo.Y); ok && v == errV {
						under = true
					}
				}
			}
			if !under {
				return
			}
			nErr++
			added := false
			allInstrs(lex, func(i2 ssa.Instruction) {
				call, ok := i2.(*ssa.Call)
				if !ok || call.Call.StaticCallee() == nil || !precedes(call, ret) {
					return
				}
				h := call.Call.StaticCallee()
				if h.Name() == "addParseErr" {
					added = true
					return
				}
				// a same-package helper that records the error on every path
				if h.Pkg == lex.Pkg && len(h.Blocks) > 0 {
					allInstrs(h, func(i3 ssa.Instruction) {
						if c3, ok := i3.(*ssa.Call); ok && c3.Call.StaticCallee() != nil && fnName(c3.Call.StaticCallee()) == "addParseErr" && len(controlling(c3.Block())) == 0 {
							added = true
						}
					})
				}
			})
			v, isC := constInt(ret.Results[0])
			if !added || !isC || v != 0 {
				okErr = false
			}
		})
	}
	okErr = okErr && nErr > 0
	r.Ob("LEX-CONTRACT", "parser.Lex records a lexer error and ends the token stream", t.Pos(lex.Pos()), okErr, "case ERROR: addParseErr(...); return 0")
	// coverage: writers of Lexer.start
	nStart := 0
	for _, f := range t.PkgFuncs(pParser) {
		allInstrs(f, func(in ssa.Instruction) {
			s, ok := in.(*ssa.Store)
			if !ok {
				return
			}
			fa, ok := s.Addr.(*ssa.FieldAddr)
			if !ok || fieldName(fa) != "start" || namedOf(fa.X.Type()) != "parser.Lexer" {
				return
			}
			nStart++
			ok2 := (f == emit || f == ignore) && strings.HasSuffix(path(s.Val), ".pos")
			if z, isZ := constInt(s.Val); isZ && z == 0 {
				// re-initialisation: start and pos go back to 0 together (a reset method for reuse in place)
				allInstrs(f, func(i2 ssa.Instruction) {
					if s2, ok := i2.(*ssa.Store); ok && s2.Block() == s.Block() {
						if fa2, ok := s2.Addr.(*ssa.FieldAddr); ok && fieldName(fa2) == "pos" && fa2.X == fa.X {
							if z2, isZ2 := constInt(s2.Val); isZ2 && z2 == 0 {
								ok2 = true
							}
						}
					}
				})
			}
			r.Ob("LEX-COVER", fmt.Sprintf("%s writes Lexer.start", relName(f)), t.Pos(s.Pos()), ok2, "the start of the next item may only move to the current position, by emit (after delivering the text) or ignore (skipping blanks)")
		})
	}
	r.FloorN("writers of Lexer.start", nStart, 2)
	// ignore called only from the blank-skipping state
	for _, f := range t.PkgFuncs(pParser) {
		allInstrs(f, func(in ssa.Instruction) {
			if call, ok := in.(*ssa.Call); ok && call.Call.StaticCallee() == ignore {
				// everything consumed before ignore() on this path satisfied isSpaceNotEOL
				okBlank := false
				for _, l := range naturalLoops(f) {
					for b := range l.Blocks {
						if iff, ok := b.Instrs[len(b.Instrs)-1].(*ssa.If); ok {
							if cc, ok := iff.Cond.(*ssa.Call); ok && cc.Call.StaticCallee() != nil && fnName(cc.Call.StaticCallee()) == "isSpaceNotEOL" {
								okBlank = true
							}
						}
					}
				}
				r.Ob("LEX-COVER", fmt.Sprintf("%s skips input with ignore()", relName(f)), t.Pos(call.Pos()), okBlank, "only runs of blanks may be dropped from the token stream")
			}
		})
	}
	// blind skips: `l.pos += K` with a constant K advances over K bytes nobody has read. That is sound only when the
	// function is entered knowing that those K bytes are there: every reference to the function (a state function
	// returned to the driver, or a call) is controlled by strings.HasPrefix(l.input[l.pos:], S) with len(S) == K, and
	// nothing moves the position between that test and the hand-over. Otherwise the position can leave the input
	// (a slice panic in next/emit) or a byte is dropped from the token stream.
	posWrites := func(f *ssa.Function) bool { return false }
	{
		memo := map[*ssa.Function]int{} // 1 = no, 2 = yes, 3 = in progress
		var pw func(f *ssa.Function) bool
		pw = func(f *ssa.Function) bool {
			if f == nil || len(f.Blocks) == 0 || f.Pkg == nil || f.Pkg.Pkg.Path() != pParser {
				return false
			}
			switch memo[f] {
			case 1, 3:
				return false
			case 2:
				return true
			}
			memo[f] = 3
			res := false
			allInstrs(f, func(in ssa.Instruction) {
				if s, ok := in.(*ssa.Store); ok {
					if fa, ok := s.Addr.(*ssa.FieldAddr); ok && fieldName(fa) == "pos" && namedOf(fa.X.Type()) == "parser.Lexer" {
						res = true
					}
				}
				if cal := calleeOf(in); cal != nil && pw(cal) {
					res = true
				}
			})
			if res {
				memo[f] = 2
			} else {
				memo[f] = 1
			}
			return res
		}
		posWrites = pw
	}
	// peekLike: one next() followed by one backup() and no other position change — the position is where it was
	peekLike := func(f *ssa.Function) bool {
		if f == nil || len(f.Blocks) != 1 {
			return false
		}
		var seq []*ssa.Function
		other := false
		allInstrs(f, func(in ssa.Instruction) {
			if cal := calleeOf(in); cal != nil && posWrites(cal) {
				seq = append(seq, cal)
			}
			if st, ok := in.(*ssa.Store); ok && strings.HasSuffix(path(st.Addr), ".pos") {
				other = true
			}
		})
		return !other && len(seq) == 2 && seq[0] == next && seq[1] == backup
	}
	nSkip := 0
	for _, f := range t.PkgFuncs(pParser) {
		f := f
		allInstrs(f, func(in ssa.Instruction) {
			s, ok := in.(*ssa.Store)
			if !ok {
				return
			}
			fa, ok := s.Addr.(*ssa.FieldAddr)
			if !ok || fieldName(fa) != "pos" || namedOf(fa.X.Type()) != "parser.Lexer" {
				return
			}
			bo, ok := s.Val.(*ssa.BinOp)
			if !ok || bo.Op != token.ADD {
				return
			}
			k, isK := constInt(bo.Y)
			if !isK {
				k, isK = constInt(bo.X)
			}
			if !isK || k <= 0 {
				return
			}
			nSkip++
			// every reference to f
			nRef, bad := 0, ""
			for _, g := range t.PkgFuncs(pParser) {
				var ops []*ssa.Value
				allInstrs(g, func(site ssa.Instruction) {
					ops = site.Operands(ops[:0])
					uses := false
					for _, o := range ops {
						if o != nil && *o == ssa.Value(f) {
							uses = true
						}
					}
					if !uses {
						return
					}
					nRef++
					justified := false
					for _, ec := range controlling(site.Block()) {
						var hp *ssa.Call
						if c1, isCall := ec.Cond.(*ssa.Call); isCall && ec.Pol && isCallTo(c1, "strings", "HasPrefix") && len(c1.Call.Args) == 2 {
							pc, isC := c1.Call.Args[1].(*ssa.Const)
							sl, isSl := c1.Call.Args[0].(*ssa.Slice)
							if isC && pc.Value != nil && pc.Value.Kind() == constant.String && int64(len(constant.StringVal(pc.Value))) == k && isSl && sl.Low != nil && sl.High == nil &&
								strings.HasSuffix(path(sl.X), ".input") && strings.HasSuffix(path(sl.Low), ".pos") {
								hp = c1
							}
						}
						// or: the next rune, looked at without consuming it, is a one-byte rune and one byte is skipped
						if bo, isB := ec.Cond.(*ssa.BinOp); isB && ec.Pol && bo.Op == token.EQL && k == 1 {
							for _, pair := range [][2]ssa.Value{{bo.X, bo.Y}, {bo.Y, bo.X}} {
								if c1, isCall := pair[0].(*ssa.Call); isCall && peekLike(c1.Call.StaticCallee()) {
									if cv, isK := constInt(pair[1]); isK && cv > 0 && cv < 0x80 {
										hp = c1
									}
								}
							}
						}
						if hp == nil {
							continue
						}
						moved := false
						allInstrs(g, func(w ssa.Instruction) {
							if w == site || w == ssa.Instruction(hp) {
								return
							}
							isW := false
							if cal := calleeOf(w); cal != nil && posWrites(cal) && !peekLike(cal) {
								isW = true
							}
							if st, ok := w.(*ssa.Store); ok && strings.HasSuffix(path(st.Addr), ".pos") {
								isW = true
							}
							none := func(ssa.Instruction) bool { return false }
							if isW && reachAvoid(hp, w, none) && reachAvoid(w, site, none) {
								moved = true
							}
						})
						if !moved {
							justified = true
						}
					}
					if !justified {
						bad += fmt.Sprintf(" %s at %s", relName(g), t.Pos(site.Pos()))
					}
				})
			}
			why := fmt.Sprintf("%d references, each under strings.HasPrefix(input[pos:], S) with len(S) = %d and no position change in between", nRef, k)
			if bad != "" {
				why = "entered without knowing that the skipped bytes are there:" + bad
			}
			r.Ob("LEX-SKIP", fmt.Sprintf("%s advances the position by %d unread bytes", relName(f), k), t.Pos(s.Pos()), bad == "" && nRef > 0, why)
		})
	}
	r.Extra["blind_skips"] = nSkip
	// emit: text is input[start:pos], position is start
	okTxt := false
	allInstrs(emit, func(in ssa.Instruction) {
		if sl, ok := in.(*ssa.Slice); ok && strings.HasSuffix(path(sl.X), ".input") && sl.Low != nil && sl.High != nil &&
			strings.HasSuffix(path(sl.Low), ".start") && strings.HasSuffix(path(sl.High), ".pos") {
			okTxt = true
		}
	})
	// parsing keeps no state between (or across concurrent) calls: no package-level variable is written
	{
		ps, _ := parseScope(t)
		sharedWriteObligations(c, "PARSE-STATE", "parse", ps, false)
		r.Floor("PARSE-STATE", 100)
		posCacheReinit(c, "PARSE-STATE")
		c05ArrayIndex(c, ps)
	}
	r.Ob("LEX-COVER", "Lexer.emit delivers exactly input[start:pos]", t.Pos(emit.Pos()), okTxt, "consecutive items tile the input")
}

type lexEdge struct {
	from, to *ssa.Function
	prog     bool
	pos      token.Pos
	consumed bool // at least one rune consumed (net) on every path to the transition
	ret      *ssa.Return
}

func edgeOrdinal(edges []lexEdge, e lexEdge) int {
	n := 0
	for _, x := range edges {
		if x.from == e.from && x.to == e.to {
			n++
			if x.pos == e.pos {
				return n
			}
		}
	}
	return n
}

// exitReported: on the way to this exit of f a parse error was recorded — by a call of addParseErr* or of a helper
// that reports on all its paths (reportsParseErr), or because the exit is taken on the verdict of a helper (a
// validation function or local closure returning a bool, alone or beside a value) whose every return with that
// verdict is itself reported (two levels).
func exitReported(f *ssa.Function, at ssa.Instruction, depth int) bool {
	found := false
	allInstrs(f, func(i2 ssa.Instruction) {
		if call, ok := i2.(*ssa.Call); ok && call.Call.StaticCallee() != nil && reportsParseErr(call.Call.StaticCallee(), 0) && precedes(call, at) {
			found = true
		}
	})
	if found || depth >= 2 {
		return found
	}
	for _, ec := range controlling(at.Block()) {
		if verdictReported(ec.Cond, ec.Pol, depth) {
			return true
		}
	}
	// a short-circuit chain (`!ok(a) || !ok(b) || …`): every edge into the exit's block is such a verdict
	if b := at.Block(); len(b.Preds) >= 2 {
		all := true
		for _, p := range b.Preds {
			iff, isIf := p.Instrs[len(p.Instrs)-1].(*ssa.If)
			if !isIf || !verdictReported(iff.Cond, p.Succs[0] == b, depth) {
				all = false
			}
		}
		return all
	}
	return false
}

func verdictReported(cond ssa.Value, pol bool, depth int) bool {
	if u, ok := cond.(*ssa.UnOp); ok && u.Op == token.NOT {
		cond, pol = u.X, !pol
	}
	idx := 0
	var call *ssa.Call
	switch x := cond.(type) {
	case *ssa.Call:
		call = x
	case *ssa.Extract:
		call, _ = x.Tuple.(*ssa.Call)
		idx = x.Index
	}
	if call == nil {
		return false
	}
	h := call.Call.StaticCallee()
	if h == nil || len(h.Blocks) == 0 || !inModule(h) {
		return false
	}
	okAll, n := true, 0
	allInstrs(h, func(i2 ssa.Instruction) {
		ret, isR := i2.(*ssa.Return)
		if !isR || idx >= len(ret.Results) {
			return
		}
		if c, isC := ret.Results[idx].(*ssa.Const); isC && c.Value != nil && c.Value.Kind() == constant.Bool {
			if constant.BoolVal(c.Value) != pol {
				return // the other verdict
			}
		}
		n++
		if !exitReported(h, ret, depth+1) {
			okAll = false
		}
	})
	return okAll && n > 0
}

// c05ArrayIndex (PANIC-ARRAY): an index into a fixed-size array with a computed index inside the lexer / parser
// (the goyacc driver excepted) panics when the index reaches the array length; parser.recover turns that into a
// position-less "unexpected error", and through the exported lexer the panic reaches the caller. Each such site needs
// 0 ≤ i and i < K ≤ len(array) from dominating facts — directly, or i < len(s) together with len(s) ≤ K established
// in the function or at every call site of it (a *byte* length: a rune count bounds nothing about bytes).
func c05ArrayIndex(c *Ctx, scope map[*ssa.Function]bool) {
	r, t := c.R, c.T
	callers := callersOf(t)
	var fns []*ssa.Function
	for f := range scope {
		fns = append(fns, f)
	}
	sortFuncs(fns)
	// len(s) ≤ K at instruction `at` for the value s (same SSA value or same access path)
	lenAtMost := func(at ssa.Instruction, s ssa.Value) int64 {
		best := int64(-1)
		for _, ec := range factsAt(at) {
			bo, ok := ec.Cond.(*ssa.BinOp)
			if !ok {
				continue
			}
			op, x, y := bo.Op, bo.X, bo.Y
			if _, isC := x.(*ssa.Const); isC {
				x, y = y, x
				op = map[token.Token]token.Token{token.LSS: token.GTR, token.GTR: token.LSS, token.LEQ: token.GEQ, token.GEQ: token.LEQ, token.EQL: token.EQL, token.NEQ: token.NEQ}[op]
			}
			lp, isLen := lenOf(x)
			k, isC := constInt(y)
			if !isLen || !isC || lp != path(s) {
				continue
			}
			if !ec.Pol {
				op = negOp(op)
			}
			var ub int64 = -1
			switch op {
			case token.LEQ:
				ub = k
			case token.LSS:
				ub = k - 1
			case token.EQL:
				ub = k
			}
			if ub >= 0 && (best < 0 || ub < best) {
				best = ub
			}
		}
		return best
	}
	n := 0
	for _, f := range fns {
		if fn := t.Fset.Position(f.Pos()).Filename; strings.HasSuffix(fn, "gram_y.go") || strings.HasSuffix(fn, "yaccpar") || strings.HasPrefix(f.Name(), "yy") || strings.Contains(relName(f), ".yy") {
			continue // the goyacc driver and its tables: trusted (C06 proves gram_y.go is the regeneration of gram.y)
		}
		allInstrs(f, func(in ssa.Instruction) {
			var base, idx ssa.Value
			switch x := in.(type) {
			case *ssa.IndexAddr:
				base, idx = x.X, x.Index
			case *ssa.Index:
				base, idx = x.X, x.Index
			default:
				return
			}
			alen := arrayLen(base.Type())
			if alen < 0 {
				return
			}
			if k, ok := constInt(idx); ok {
				if k >= 0 && k < alen {
					return
				}
			}
			n++
			why := ""
			if isRangeIndex(idx) {
				why = "range index"
			}
			if why == "" && nonNegative(in, idx) {
				for _, ec := range factsAt(in) {
					bo, ok := ec.Cond.(*ssa.BinOp)
					if !ok || !sameValue(bo.X, idx, in) {
						continue
					}
					if !((bo.Op == token.LSS && ec.Pol) || (bo.Op == token.GEQ && !ec.Pol)) {
						continue
					}
					if k, isC := constInt(bo.Y); isC && k <= alen {
						why = fmt.Sprintf("0 ≤ i < %d", k)
						break
					}
					// i < len(s): need len(s) ≤ alen
					if call, ok := bo.Y.(*ssa.Call); ok && builtinName(call) == "len" {
						s := call.Call.Args[0]
						if arrayLen(s.Type()) >= 0 && arrayLen(s.Type()) <= alen {
							why = "i < len of an array no longer than this one"
							break
						}
						if ub := lenAtMost(in, s); ub >= 0 && ub <= alen {
							why = fmt.Sprintf("i < len(%s) ≤ %d here", path(s), ub)
							break
						}
						if p, isParam := s.(*ssa.Parameter); isParam {
							pi := -1
							for k, q := range f.Params {
								if q == p {
									pi = k
								}
							}
							cs := callers[f]
							okAll := pi >= 0 && len(cs) > 0
							for _, cl := range cs {
								if pi >= len(cl.Call.Args) {
									okAll = false
									break
								}
								if ub := lenAtMost(cl, cl.Call.Args[pi]); ub < 0 || ub > alen {
									okAll = false
								}
							}
							if okAll {
								why = fmt.Sprintf("i < len(%s) and every one of the %d call sites passes a string of at most %d bytes", p.Name(), len(cs), alen)
								break
							}
						}
					}
				}
			}
			r.Ob("PANIC-ARRAY", fmt.Sprintf("%s %s[%s]", relName(f), path(base), path(idx)), t.Pos(in.Pos()), why != "",
				fmt.Sprintf("array of %d elements, computed index: %s — needs 0 ≤ i < K ≤ %d, or i < len(s) with len(s) ≤ %d in bytes proved here or at every call site", alen, why, alen, alen))
		})
	}
	r.Extra["PANIC-ARRAY_sites"] = n
}
