package main

import (
	"sort"
	"strings"
)

// canonTable brings an outcome table ("v : T if c1 && c2 | …") into a form that does not depend on how the source
// spells a function: a boolean result given as an expression E is the two outcomes true-if-E / false-if-!E;
// conjuncts are a set (sorted, negated comparisons flipped, redundant parentheses removed); two outcomes with the
// same value whose conditions differ in the polarity of exactly one conjunct are one outcome without it; outcomes
// are sorted. Applied to both sides of every table comparison (extracted cell, reference cell, sibling cell).
func canonTable(s string) string {
	if strings.HasPrefix(s, "LOOP{") || s == "" {
		return s
	}
	type outcome struct {
		val  string
		lits map[string]bool // literal -> true (positive) ; stored as atom with polarity prefix "+"/"-"
	}
	var outs []outcome
	for _, o := range splitTop(s, " | ") {
		val, cond := o, ""
		if i := indexTop(o, " if "); i >= 0 {
			val, cond = o[:i], o[i+4:]
		}
		lits := map[string]bool{}
		contradictory := false
		if cond != "" {
			for _, c := range splitTop(cond, " && ") {
				l := canonLit(c)
				if l == "+true" || l == "-false" {
					continue
				}
				if lits[negLit(l)] {
					contradictory = true
				}
				lits[l] = true
			}
		}
		if contradictory {
			continue
		}
		// boolean-valued results given as an expression
		if pre, e, post, ok := boolExprValue(val); ok {
			l := canonLit(e)
			for _, pol := range []bool{true, false} {
				m := map[string]bool{}
				for k := range lits {
					m[k] = true
				}
				ll := l
				v := "true"
				if !pol {
					ll = negLit(l)
					v = "false"
				}
				if m[negLit(ll)] {
					continue // excluded by the path condition
				}
				m[ll] = true
				outs = append(outs, outcome{pre + v + post, m})
			}
			continue
		}
		outs = append(outs, outcome{val, lits})
	}
	// merge complementary outcomes
	for changed := true; changed; {
		changed = false
	outer:
		for i := 0; i < len(outs); i++ {
			for j := i + 1; j < len(outs); j++ {
				if outs[i].val != outs[j].val || len(outs[i].lits) != len(outs[j].lits) {
					continue
				}
				diff := ""
				n := 0
				for l := range outs[i].lits {
					if !outs[j].lits[l] {
						n++
						diff = l
					}
				}
				if n == 0 { // identical
					outs = append(outs[:j], outs[j+1:]...)
					changed = true
					break outer
				}
				if n == 1 && outs[j].lits[negLit(diff)] {
					delete(outs[i].lits, diff)
					outs = append(outs[:j], outs[j+1:]...)
					changed = true
					break outer
				}
			}
		}
	}
	var rendered []string
	for _, o := range outs {
		var ls []string
		for l := range o.lits {
			ls = append(ls, renderLit(l))
		}
		sort.Strings(ls)
		r := o.val
		if len(ls) > 0 {
			r += " if " + strings.Join(ls, " && ")
		}
		rendered = append(rendered, r)
	}
	sort.Strings(rendered)
	// drop exact duplicates
	var uniq []string
	for i, r := range rendered {
		if i == 0 || r != rendered[i-1] {
			uniq = append(uniq, r)
		}
	}
	return strings.Join(uniq, " | ")
}

// splitTop splits s at sep occurrences that are outside parentheses/brackets.
func splitTop(s, sep string) []string {
	var out []string
	depth, last := 0, 0
	for i := 0; i < len(s); i++ {
		switch s[i] {
		case '(', '[', '{':
			depth++
		case ')', ']', '}':
			depth--
		}
		if depth == 0 && strings.HasPrefix(s[i:], sep) {
			out = append(out, s[last:i])
			last = i + len(sep)
			i += len(sep) - 1
		}
	}
	return append(out, s[last:])
}

func indexTop(s, sep string) int {
	depth := 0
	for i := 0; i < len(s); i++ {
		switch s[i] {
		case '(', '[', '{':
			depth++
		case ')', ']', '}':
			depth--
		}
		if depth == 0 && strings.HasPrefix(s[i:], sep) {
			return i
		}
	}
	return -1
}

// stripParens removes redundant enclosing parentheses.
func stripParens(s string) string {
	for len(s) >= 2 && s[0] == '(' && s[len(s)-1] == ')' {
		depth, ok := 0, true
		for i := 0; i < len(s)-1; i++ {
			switch s[i] {
			case '(':
				depth++
			case ')':
				depth--
			}
			if depth == 0 {
				ok = false
				break
			}
		}
		if !ok {
			break
		}
		s = s[1 : len(s)-1]
	}
	return s
}

// canonLit: "+atom" or "-atom"; a negated ==/!= comparison is the opposite comparison; a != b is -(a == b).
func canonLit(c string) string {
	c = strings.TrimSpace(c)
	pos := true
	for {
		c = stripParens(c)
		if strings.HasPrefix(c, "!") {
			rest := strings.TrimSpace(c[1:])
			if strings.HasPrefix(rest, "(") && stripParens(rest) != rest || !strings.ContainsAny(rest, " ") {
				pos = !pos
				c = rest
				continue
			}
		}
		break
	}
	if i := indexTop(c, " != "); i >= 0 && indexTop(c, " && ") < 0 && indexTop(c, " || ") < 0 {
		c = c[:i] + " == " + c[i+4:]
		pos = !pos
	}
	// order the operands of an equality
	if i := indexTop(c, " == "); i >= 0 && indexTop(c, " && ") < 0 && indexTop(c, " || ") < 0 {
		a, b := stripParens(c[:i]), stripParens(c[i+4:])
		// an empty string: len(s) == 0 is s == ""
		if a == "0" && strings.HasPrefix(b, "len(") && strings.HasSuffix(b, ")") && strings.Contains(b, "string") {
			a, b = `""`, stripParens(b[3:])
		} else if b == "0" && strings.HasPrefix(a, "len(") && strings.HasSuffix(a, ")") && strings.Contains(a, "string") {
			a, b = `""`, stripParens(a[3:])
		}
		if b < a {
			a, b = b, a
		}
		c = a + " == " + b
	}
	if pos {
		return "+" + c
	}
	return "-" + c
}

func negLit(l string) string {
	if l[0] == '+' {
		return "-" + l[1:]
	}
	return "+" + l[1:]
}

func renderLit(l string) string {
	if l[0] == '+' {
		return "(" + l[1:] + ")"
	}
	return "!(" + l[1:] + ")"
}

// boolExprValue: the value part of an outcome is a boolean given by a non-constant expression:
// "(bool)(E) : Bool", "[E]" (truthiness tables) — returns prefix, E, suffix.
func boolExprValue(val string) (string, string, string, bool) {
	if strings.HasPrefix(val, "(bool)(") {
		rest := val[len("(bool)"):]
		// the parenthesised expression right after (bool)
		depth := 0
		for i := 0; i < len(rest); i++ {
			switch rest[i] {
			case '(':
				depth++
			case ')':
				depth--
				if depth == 0 {
					e := rest[1:i]
					if e == "true" || e == "false" || !looksBoolean(e) {
						return "", "", "", false
					}
					return "(bool)(", e, ")" + rest[i+1:], true
				}
			}
		}
		return "", "", "", false
	}
	if strings.HasPrefix(val, "[") && strings.HasSuffix(val, "]") && !strings.Contains(val, ", ") {
		e := val[1 : len(val)-1]
		if e == "true" || e == "false" || !looksBoolean(e) {
			return "", "", "", false
		}
		return "[", e, "]", true
	}
	return "", "", "", false
}

// looksBoolean: a comparison, a negation, or a has(...) membership atom.
func looksBoolean(e string) bool {
	e = stripParens(e)
	for _, op := range []string{" == ", " != ", " < ", " <= ", " > ", " >= ", " && ", " || "} {
		if indexTop(e, op) >= 0 {
			return true
		}
	}
	return strings.HasPrefix(e, "!") || strings.HasPrefix(e, "has(") || strings.HasPrefix(e, "Contains(") || strings.HasPrefix(e, "strings.Contains(") || strings.HasPrefix(e, "DeepEqual(") || strings.HasPrefix(e, "reflect.DeepEqual(")
}
