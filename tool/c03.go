package main

import (
	"fmt"
	"go/token"
	"os"
	"sort"
	"strings"

	"golang.org/x/tools/go/ssa"
)

func init() {
	register("C03", "control flow and scoping: truthiness, first-true-branch, scope pairing, loop-flag protocol, variable lookup", checkC03)
}

func checkC03(c *Ctx) {
	r, t := c.R, c.T
	r.Explanation = "Decides, for both interpreters: (1) TRUTHY: condTrue specialised for each of the 9 type tags equals the truthiness bullets of spec §Select Statement (reference/operators.json truthy|*); (2) IF-FIRST: in RunIfElseStmt a branch body is entered only on the true edge of condTrue(condition), and once a body ran no other condition, body or the else block can be reached — the else block is reachable only after the branch list is exhausted; (3) SCOPE: StackEnterNew/StackExitCur are exactly balanced at every success return of the three block executors and of their check-pass twins (defer-aware depth typestate), and each body runs one level deeper than its executor's entry; StackExitCur re-points the current scope to its parent; (4) LOOP-FLAGS: a relational dataflow over the pair (loopBreak, loopContinue) ∈ {FF, TF, FT} — body call yields {FF,TF,FT}, branches on the flags, forbreak/forcontinue, StmtRetrun's false edge and stores refine it — shows both flags are false on every back edge and at every success return of each loop executor (so break/continue never leak into an enclosing loop), and only the break/continue statements ever set them; the three-clause loop evaluates its Loop clause on every non-breaking cycle (a `continue` cannot skip it); (5) VARS: Stack.Set updates the first frame of the Before chain that has the key and otherwise inserts into the receiver's own frame; Stack.Get walks the same chain; Task.GetKey consults the variable stack before the input point; an unresolved identifier evaluates to (nil, Nil) in v1; for-in clears its loop scope once per iteration; (6) ITER: each for-in arm is a Go range over the iterated value with exactly one body execution per iteration. Not decided: iteration counts and effect orders of arbitrary nestings as behaviour (every structural determinant of them is). SCOPE also demands that the three-clause loop evaluates init, condition and loop clause at one scope depth and its body one level deeper; the loop rules follow iteration helpers that answer go-on/stop."
	var ref opRef
	if !mustRef(c, "operators.json", &ref) {
		return
	}
	for _, pp := range []string{pRT, pRT2} {
		tag := t.SSA[pp].Pkg.Name()
		ot := extractOpTables(t, pp)
		for _, k := range sortedKeys(ref.Cells) {
			if !strings.HasPrefix(k, "truthy|") {
				continue
			}
			got := ot.Cells[k]
			ok := false
			for _, w := range ref.Cells[k] {
				if canonTable(w) == got {
					ok = true
				}
			}
			r.Ob("TRUTHY", ot.tag+" "+k, evaluatorPos(t, pp, k), ok, fmt.Sprintf("extracted: %s ; reference: %s", got, strings.Join(ref.Cells[k], " OR ")))
		}
		c03If(c, pp, tag)
		c03Scopes(c, pp, tag)
		c03Flags(c, pp, tag)
		c03Iter(c, pp, tag)
	}
	r.Floor("TRUTHY", 18)
	c03Vars(c)
	// premise shared with C13/C15: a run starts with an empty variable stack. A pooled task that kept its root frame
	// would let a name resolve to a previous run's variable instead of the point's key.
	for _, pp := range []string{pRT, pRT2} {
		if gc := t.Func(pp, "GetContext"); gc != nil {
			r.Ob("VARS", t.SSA[pp].Pkg.Name()+".GetContext starts every task with a newly allocated root frame", t.Pos(gc.Pos()), freshRootFrame(gc),
				"stackHeader and stackCur are assigned a new Stack unconditionally: `a name without a variable reads the point` presupposes that no variable survives from an earlier run of the pooled task")
		}
	}
}

func evalFnsOf(t *Tree, pp string) map[*ssa.Function]bool {
	pk := t.SSA[pp]
	out := map[*ssa.Function]bool{}
	for _, n := range []string{"RunStmts", "RunStmt", "RunExpr"} {
		if f := pk.Func(n); f != nil {
			out[f] = true
		}
	}
	return out
}

func c03If(c *Ctx, pp, tag string) {
	r, t := c.R, c.T
	pk := t.SSA[pp]
	f := pkgFunc(pk, "RunIfElseStmt")
	runStmts := pkgFunc(pk, "RunStmts")
	condTrue := pkgFunc(pk, "condTrue")
	if f == nil || runStmts == nil || condTrue == nil {
		r.Undecided("IF-FIRST", tag+".RunIfElseStmt", "", "unresolved anchor")
		return
	}
	r.Fn(relName(f))
	evals := evalFnsOf(t, pp)
	var branchBody, elseBody *ssa.Call
	allInstrs(f, func(in ssa.Instruction) {
		if call, ok := in.(*ssa.Call); ok {
			p, isExec := stmtsExecuted(call, runStmts)
			if !isExec {
				return
			}
			switch {
			case strings.Contains(p, ".IfList[*].Block.Stmts"):
				branchBody = call
			case strings.HasSuffix(p, ".Else.Stmts"):
				elseBody = call
			}
		}
	})
	if branchBody == nil {
		if c03IfSelect(c, f, tag, runStmts, condTrue, evals) {
			return
		}
		r.Ob("IF-FIRST", tag+".RunIfElseStmt branch body", t.Pos(f.Pos()), false, "execution of ifstmt.Block.Stmts not found")
		return
	}
	// entered only under condTrue(...) == true
	g := false
	for _, ec := range controlling(branchBody.Block()) {
		if isTruthTest(ec.Cond, condTrue) && ec.Pol {
			// and the condition evaluated is this branch's
			g = true
		}
	}
	r.Ob("IF-FIRST", tag+".RunIfElseStmt runs a branch only when its condition is truthy", t.Pos(branchBody.Pos()), g, "the body call must sit on the true edge of condTrue(<value of ifstmt.Condition>)")
	// after the body: nothing else is evaluated
	var after []string
	allInstrs(f, func(in ssa.Instruction) {
		if call, ok := in.(*ssa.Call); ok && call != branchBody && evals[call.Call.StaticCallee()] {
			if reachableFrom(branchBody, call) {
				after = append(after, fmt.Sprintf("%s(%s) at %s", fnName(call.Call.StaticCallee()), path(call.Call.Args[1]), t.Pos(call.Pos())))
			}
		}
	})
	r.Ob("IF-FIRST", tag+".RunIfElseStmt stops after the first branch that ran", t.Pos(branchBody.Pos()), len(after) == 0, fmt.Sprintf("reachable after a branch body: %v — exactly one branch of an if/elif/else chain may run", after))
	// a truthy condition ends the chain, whether or not its block has statements: from the truthy edge no
	// further condition and no else body is reachable
	{
		var truthy []*ssa.BasicBlock
		allInstrs(f, func(in ssa.Instruction) {
			iff, ok := in.(*ssa.If)
			if !ok {
				return
			}
			if isTruthTest(iff.Cond, condTrue) {
				truthy = append(truthy, iff.Block().Succs[0])
			}
		})
		var reach []string
		for _, tb := range truthy {
			if len(tb.Instrs) == 0 {
				continue
			}
			first := tb.Instrs[0]
			allInstrs(f, func(in ssa.Instruction) {
				call, ok := in.(*ssa.Call)
				if !ok || call == branchBody {
					return
				}
				_, isExec := stmtsExecuted(call, runStmts)
				_, isEval := evaluatedChild(call, evalFnOf(evals))
				if !(evals[call.Call.StaticCallee()] || isExec || isEval) {
					return
				}
				if in == first || reachableFrom(first, call) {
					reach = append(reach, fmt.Sprintf("%s at %s", fnName(call.Call.StaticCallee()), t.Pos(call.Pos())))
				}
			})
		}
		r.Ob("IF-FIRST", tag+".RunIfElseStmt ends the chain at the first truthy condition", t.Pos(f.Pos()), len(truthy) == 1 && len(reach) == 0,
			fmt.Sprintf("%d truthiness test(s); evaluations reachable from the truthy edge besides that branch's own body: %v — a truthy branch with an empty block must not fall through to a later elif or the else", len(truthy), reach))
	}
	// the condition evaluated belongs to the same list element as the body
	okSame := false
	allInstrs(f, func(in ssa.Instruction) {
		if call, ok := in.(*ssa.Call); ok {
			p, isEval := evaluatedChild(call, evalFnOf(evals))
			if evals[call.Call.StaticCallee()] && len(call.Call.Args) >= 2 {
				p, isEval = path(call.Call.Args[1]), true
			}
			if isEval && strings.Contains(p, ".IfList[*].Condition") && precedes(call, branchBody) {
				okSame = true
			}
		}
	})
	r.Ob("IF-FIRST", tag+".RunIfElseStmt evaluates the branch's own condition first", t.Pos(f.Pos()), okSame, "RunStmt(ifstmt.Condition) dominates the body")
	if elseBody != nil {
		// else only after the loop is exhausted: not inside the branch loop
		inLoop := false
		for _, l := range naturalLoops(f) {
			if l.Blocks[elseBody.Block()] {
				inLoop = true
			}
		}
		r.Ob("IF-FIRST", tag+".RunIfElseStmt runs else only after every condition failed", t.Pos(elseBody.Pos()), !inLoop && !reachableFrom(branchBody, elseBody), "the else block lies behind the exhaustion of the branch list")
	} else {
		r.Ob("IF-FIRST", tag+".RunIfElseStmt else body", t.Pos(f.Pos()), false, "execution of stmt.Else.Stmts not found")
	}
}

// stmtsExecuted: the call runs a statement list — RunStmts(ctx, X.Stmts) itself, or a same-package helper that
// receives a block X and hands X.Stmts to RunStmts; returns the access path of the list ("….Stmts").
func stmtsExecuted(call *ssa.Call, runStmts *ssa.Function) (string, bool) {
	cal := call.Call.StaticCallee()
	if cal == nil {
		return "", false
	}
	if cal == runStmts && len(call.Call.Args) >= 2 {
		return path(call.Call.Args[1]), true
	}
	if cal.Pkg != runStmts.Pkg || len(cal.Blocks) == 0 {
		return "", false
	}
	for k, prm := range cal.Params {
		if k >= len(call.Call.Args) {
			break
		}
		found := false
		allInstrs(cal, func(in ssa.Instruction) {
			if c2, ok := in.(*ssa.Call); ok && c2.Call.StaticCallee() == runStmts && len(c2.Call.Args) >= 2 && path(c2.Call.Args[1]) == pname(prm)+".Stmts" {
				found = true
			}
		})
		if found {
			return path(call.Call.Args[k]) + ".Stmts", true
		}
	}
	return "", false
}

// isTruthTest: v is the truthiness of a condition value: condTrue(…) itself, or result #0 of a same-package helper
// whose every return yields condTrue(…) there (or the constant false next to an error).
func isTruthTest(v ssa.Value, condTrue *ssa.Function) bool {
	if call, ok := v.(*ssa.Call); ok {
		return call.Call.StaticCallee() == condTrue
	}
	ex, ok := v.(*ssa.Extract)
	if !ok || ex.Index != 0 {
		return false
	}
	call, ok := ex.Tuple.(*ssa.Call)
	if !ok {
		return false
	}
	h := call.Call.StaticCallee()
	if h == nil || h.Pkg != condTrue.Pkg || len(h.Blocks) == 0 {
		return false
	}
	n, okAll := 0, true
	allInstrs(h, func(in ssa.Instruction) {
		ret, isR := in.(*ssa.Return)
		if !isR || ret.Block() == h.Recover || len(ret.Results) == 0 {
			return
		}
		switch x := ret.Results[0].(type) {
		case *ssa.Call:
			if x.Call.StaticCallee() == condTrue {
				n++
				return
			}
		case *ssa.Const:
			if x.Value != nil && x.Value.ExactString() == "false" && retError(ret) == "nonnil" {
				return
			}
		}
		okAll = false
	})
	return okAll && n > 0
}

// evalFnOf: the single-node evaluator among the evaluation functions (RunStmt in v1, RunExpr in v2).
func evalFnOf(evals map[*ssa.Function]bool) *ssa.Function {
	var best *ssa.Function
	for f := range evals {
		if f.Name() == "RunStmt" || f.Name() == "RunExpr" {
			if best == nil || f.Name() == "RunExpr" {
				best = f
			}
		}
	}
	return best
}

// scopeDepth runs the Enter/Exit balance typestate; returns states before each instruction (delta encoded).
func scopeDepth(f *ssa.Function) (map[ssa.Instruction]uint16, func(int) (int, int)) {
	enc := func(delta, def int) int {
		if delta < -1 {
			delta = -1
		}
		if delta > 3 {
			delta = 3
		}
		if def > 2 {
			def = 2
		}
		return (delta+1)*3 + def
	}
	dec := func(st int) (int, int) { return st/3 - 1, st % 3 }
	ts := &typestate{fn: f, nstate: 15, init: enc(0, 0), successOnly: true}
	ts.trans = func(in ssa.Instruction, st int) int {
		delta, def := dec(st)
		name := func(cc *ssa.CallCommon) string {
			if cc.StaticCallee() != nil {
				return fnName(cc.StaticCallee())
			}
			return ""
		}
		switch x := in.(type) {
		case *ssa.Call:
			switch name(&x.Call) {
			case "StackEnterNew":
				delta++
			case "StackExitCur":
				delta--
			}
		case *ssa.Defer:
			if name(&x.Call) == "StackExitCur" {
				def++
			}
		case *ssa.RunDefers:
			delta -= def
			def = 0
		}
		return enc(delta, def)
	}
	return ts.run(), dec
}

func c03Scopes(c *Ctx, pp, tag string) {
	r, t := c.R, c.T
	pk := t.SSA[pp]
	bodyCallee := map[string]bool{"RunStmts": true, "RunStmtsCheck": true}
	for _, name := range []string{"RunIfElseStmt", "RunForStmt", "RunForInStmt", "RunIfElseStmtCheck", "RunForStmtCheck", "RunForInStmtCheck"} {
		f := pk.Func(name)
		if f == nil {
			r.Undecided("SCOPE", tag+"."+name, "", "unresolved anchor")
			continue
		}
		r.Fn(relName(f))
		before, dec := scopeDepth(f)
		okRet := true
		var where ssa.Instruction
		allInstrs(f, func(in ssa.Instruction) {
			ret, ok := in.(*ssa.Return)
			if !ok || ret.Block() == f.Recover || retError(ret) == "nonnil" {
				return
			}
			for st := 0; st < 15; st++ {
				if before[ret]&(1<<uint(st)) != 0 {
					if d, _ := dec(st); d != 0 {
						okRet = false
						where = ret
					}
				}
			}
		})
		pos := t.Pos(f.Pos())
		if where != nil {
			pos = t.Pos(where.Pos())
		}
		r.Ob("SCOPE", tag+"."+name+" leaves the scope stack as it found it", pos, okRet, "every StackEnterNew must be matched by a StackExitCur on each success path: a leaked scope keeps block-local variables alive, a missing one lets a block overwrite its parent's frame")
		// bodies run at depth >= 1 and, for loops/branches, exactly entry+2 or +1 consistently (single value)
		allInstrs(f, func(in ssa.Instruction) {
			call, ok := in.(*ssa.Call)
			if !ok || call.Call.StaticCallee() == nil || !bodyCallee[fnName(call.Call.StaticCallee())] {
				return
			}
			depths := map[int]bool{}
			for st := 0; st < 15; st++ {
				if before[call]&(1<<uint(st)) != 0 {
					d, _ := dec(st)
					depths[d] = true
				}
			}
			okD := len(depths) == 1
			for d := range depths {
				if d < 1 {
					okD = false
				}
			}
			r.Ob("SCOPE", fmt.Sprintf("%s.%s body %s runs in its own scope", tag, name, path(call.Call.Args[len(call.Call.Args)-1])), t.Pos(call.Pos()), okD,
				fmt.Sprintf("scope depth relative to entry at the body: %v (must be one definite value ≥ 1; a loop whose depth grows per iteration leaks scopes)", depths))
		})
	}
	// three-clause loop: init, condition and loop clause are evaluated in one and the same scope (the loop's), the
	// body one level deeper — a body scope opened around the whole loop would make the body's variables visible to
	// the condition and the loop clause of the next pass (and clearing it would wipe what they rely on)
	if f := pk.Func("RunForStmt"); f != nil {
		before, dec := scopeDepth(f)
		evals := evalFnsOf(t, pp)
		runStmts := pk.Func("RunStmts")
		depthsAt := func(in ssa.Instruction) map[int]bool {
			ds := map[int]bool{}
			for st := 0; st < 15; st++ {
				if before[in]&(1<<uint(st)) != 0 {
					d, _ := dec(st)
					ds[d] = true
				}
			}
			return ds
		}
		clause := map[string]map[int]bool{}
		body := map[int]bool{}
		allInstrs(f, func(in ssa.Instruction) {
			call, ok := in.(*ssa.Call)
			if !ok || call.Call.StaticCallee() == nil || len(call.Call.Args) < 2 {
				return
			}
			if evals[call.Call.StaticCallee()] {
				for _, cl := range []string{"Init", "Cond", "Loop"} {
					if strings.HasSuffix(path(call.Call.Args[1]), "."+cl) {
						if clause[cl] == nil {
							clause[cl] = map[int]bool{}
						}
						for d := range depthsAt(call) {
							clause[cl][d] = true
						}
					}
				}
			}
			if call.Call.StaticCallee() == runStmts && strings.Contains(path(call.Call.Args[1]), ".Body") {
				for d := range depthsAt(call) {
					body[d] = true
				}
			}
		})
		if len(clause) >= 2 {
			all := map[int]bool{}
			for _, ds := range clause {
				for d := range ds {
					all[d] = true
				}
			}
			okC := len(all) == 1
			d0 := 0
			for d := range all {
				d0 = d
			}
			for d := range body {
				if d <= d0 {
					okC = false
				}
			}
			r.Ob("SCOPE", tag+".RunForStmt evaluates its clauses in the loop's scope and the body one level deeper", t.Pos(f.Pos()), okC,
				fmt.Sprintf("scope depth relative to entry: init %v, condition %v, loop clause %v, body %v — the clauses must share one depth and the body lie deeper", keysInt(clause["Init"]), keysInt(clause["Cond"]), keysInt(clause["Loop"]), keysInt(body)))
		}
	}
	// StackExitCur re-points to the parent
	for _, tn := range []string{"Task"} {
		f := t.Method(pp, tn, "StackExitCur")
		if f == nil {
			r.Undecided("SCOPE", tag+".StackExitCur", "", "unresolved anchor")
			continue
		}
		ok := false
		allInstrs(f, func(in ssa.Instruction) {
			if s, isS := in.(*ssa.Store); isS && strings.HasSuffix(path(s.Addr), ".stackCur") && strings.HasSuffix(path(s.Val), ".stackCur.Before") {
				ok = true
			}
		})
		r.Ob("SCOPE", tag+".StackExitCur returns to the parent scope", t.Pos(f.Pos()), ok, "ctx.stackCur = ctx.stackCur.Before")
		g := t.Method(pp, tn, "StackEnterNew")
		okE := false
		if g != nil {
			allInstrs(g, func(in ssa.Instruction) {
				if s, isS := in.(*ssa.Store); isS {
					if fa, isF := s.Addr.(*ssa.FieldAddr); isF && fieldName(fa) == "Before" && strings.HasSuffix(path(s.Val), ".stackCur") {
						okE = true
					}
				}
			})
		}
		r.Ob("SCOPE", tag+".StackEnterNew chains the new scope to the current one", "", okE, "next.Before = ctx.stackCur")
	}
}

// ---- loop flag protocol: states 0=FF 1=TF(break) 2=FT(continue)
func c03Flags(c *Ctx, pp, tag string) {
	r, t := c.R, c.T
	pk := t.SSA[pp]
	runStmts := pkgFunc(pk, "RunStmts")
	stmtRet := t.Method(pp, "Task", "StmtRetrun")
	forbreak, forcontinue := pkgFunc(pk, "forbreak"), pkgFunc(pk, "forcontinue")
	isFlagLoad := func(v ssa.Value, name string) bool {
		u, ok := v.(*ssa.UnOp)
		if !ok || u.Op != token.MUL {
			return false
		}
		fa, ok := u.X.(*ssa.FieldAddr)
		return ok && fieldName(fa) == name && taskField(fa)
	}
	// flagOf: the address is &ctx.loopBreak (1) / &ctx.loopContinue (2), else 0
	flagOf := func(v ssa.Value) int {
		fa, ok := v.(*ssa.FieldAddr)
		if !ok || !taskField(fa) {
			return 0
		}
		switch fieldName(fa) {
		case "loopBreak":
			return 1
		case "loopContinue":
			return 2
		}
		return 0
	}
	// takeFlag shape: g(p *bool) bool { if *p { *p = false; return true }; return false } — a flag consumed through
	// its address (forbreak / forcontinue with the field handed in instead of the task)
	takeMemo := map[*ssa.Function]bool{}
	isTakeFlag := func(g *ssa.Function) bool {
		if g == nil || len(g.Blocks) == 0 || len(g.Params) != 1 || g.Signature.Results().Len() != 1 {
			return false
		}
		if v, ok := takeMemo[g]; ok {
			return v
		}
		p := g.Params[0]
		ok := g.Signature.Results().At(0).Type().String() == "bool" && p.Type().String() == "*bool"
		nTrue := 0
		allInstrs(g, func(in ssa.Instruction) {
			switch x := in.(type) {
			case *ssa.Store:
				cv, isC := x.Val.(*ssa.Const)
				if x.Addr != ssa.Value(p) || !isC || cv.Value == nil || cv.Value.ExactString() != "false" {
					ok = false
				}
			case *ssa.Call, *ssa.Go, *ssa.Defer:
				ok = false
			case *ssa.Return:
				cv, isC := x.Results[0].(*ssa.Const)
				if !isC || cv.Value == nil {
					ok = false
					return
				}
				under := false
				for _, ec := range controlling(x.Block()) {
					if u, isU := ec.Cond.(*ssa.UnOp); isU && u.Op == token.MUL && u.X == ssa.Value(p) && ec.Pol {
						under = true
					}
				}
				if (cv.Value.ExactString() == "true") != under {
					ok = false
				}
				if under {
					nTrue++
					// the flag is cleared before this return
					cleared := false
					allInstrs(g, func(i2 ssa.Instruction) {
						if st, isS := i2.(*ssa.Store); isS && st.Addr == ssa.Value(p) && precedes(st, x) {
							cleared = true
						}
					})
					if !cleared {
						ok = false
					}
				}
			}
		})
		takeMemo[g] = ok && nTrue > 0
		return takeMemo[g]
	}
	// consumes: the call is forbreak(ctx) / takeFlag(&ctx.loopBreak) (1), forcontinue(ctx) / takeFlag(&ctx.loopContinue) (2)
	consumes := func(call *ssa.Call) int {
		g := call.Call.StaticCallee()
		if g == nil {
			return 0
		}
		if g == forbreak && forbreak != nil {
			return 1
		}
		if g == forcontinue && forcontinue != nil {
			return 2
		}
		if isTakeFlag(g) && len(call.Call.Args) == 1 {
			return flagOf(call.Call.Args[0])
		}
		return 0
	}
	// Summaries of same-package helpers (functions, methods, local closures) that touch the protocol — they run a
	// body, consume or test a flag, poll — computed by the same dataflow on the helper's body, once per entry state:
	// out[state][answer] = set of states after (answer: the helper's bool result, when it has one, else both alike).
	type flagSummary struct {
		out     [3][2]uint16
		boolIdx int // index of the bool result, -1 if none
	}
	summaries := map[*ssa.Function]*flagSummary{}
	relevantMemo := map[*ssa.Function]bool{}
	var flagRelevant func(h *ssa.Function, depth int) bool
	flagRelevant = func(h *ssa.Function, depth int) bool {
		if h == nil || len(h.Blocks) == 0 || depth > 3 {
			return false
		}
		if v, ok := relevantMemo[h]; ok {
			return v
		}
		relevantMemo[h] = false
		rel := false
		allInstrs(h, func(in ssa.Instruction) {
			switch x := in.(type) {
			case *ssa.Call:
				g := x.Call.StaticCallee()
				if g == nil {
					return
				}
				if g == runStmts || g == stmtRet || consumes(x) != 0 {
					rel = true
				} else if g == pkgFunc(pk, "RunStmt") || g == pkgFunc(pk, "RunExpr") {
					// the statement/expression dispatcher: evaluating a complete statement or an expression leaves the
					// flags as they are (what this rule establishes for the loop statements, and only they clear flags)
				} else if (g.Pkg == pk || (g.Parent() != nil && g.Parent().Pkg == pk)) && flagRelevant(g, depth+1) {
					rel = true
				}
			case *ssa.FieldAddr:
				if flagOf(x) != 0 {
					rel = true
				}
			}
		})
		relevantMemo[h] = rel
		return rel
	}
	var transSet func(in ssa.Instruction, st int) uint16
	var edgeSet func(b *ssa.BasicBlock, si int, st int) uint16
	var helperSummary func(h *ssa.Function) (*flagSummary, bool)
	helperSummary = func(h *ssa.Function) (*flagSummary, bool) {
		if h == nil || len(h.Blocks) == 0 || h == forbreak || h == forcontinue || h == stmtRet || h == runStmts || isTakeFlag(h) || h == pkgFunc(pk, "RunStmt") || h == pkgFunc(pk, "RunExpr") {
			return nil, false
		}
		if h.Pkg != pk && (h.Parent() == nil || h.Parent().Pkg != pk) {
			return nil, false
		}
		if sm, ok := summaries[h]; ok {
			return sm, sm != nil
		}
		if !flagRelevant(h, 0) {
			return nil, false
		}
		summaries[h] = nil
		sm := &flagSummary{boolIdx: -1}
		res := h.Signature.Results()
		for i := 0; i < res.Len(); i++ {
			if res.At(i).Type().String() == "bool" && sm.boolIdx < 0 {
				sm.boolIdx = i
			}
		}
		for s0 := 0; s0 < 3; s0++ {
			hts := &typestate{fn: h, nstate: 3, init: s0, transSet: transSet, edgeSet: edgeSet, successOnly: true}
			before := hts.run()
			allInstrs(h, func(in ssa.Instruction) {
				ret, ok := in.(*ssa.Return)
				if !ok || ret.Block() == h.Recover || (len(ret.Results) > 0 && retError(ret) == "nonnil") {
					return
				}
				for st := 0; st < 3; st++ {
					if before[in]&(1<<uint(st)) == 0 {
						continue
					}
					bit := uint16(1) << uint(st)
					if sm.boolIdx < 0 {
						sm.out[s0][0] |= bit
						sm.out[s0][1] |= bit
						continue
					}
					switch v := ret.Results[sm.boolIdx].(type) {
					case *ssa.Const:
						if v.Value != nil && v.Value.ExactString() == "true" {
							sm.out[s0][1] |= bit
						} else {
							sm.out[s0][0] |= bit
						}
					case *ssa.Call:
						if v.Call.StaticCallee() == stmtRet {
							sm.out[s0][1] |= bit
							if st == 0 {
								sm.out[s0][0] |= bit
							}
							break
						}
						sm.out[s0][0] |= bit
						sm.out[s0][1] |= bit
					default:
						sm.out[s0][0] |= bit
						sm.out[s0][1] |= bit
					}
				}
			})
		}
		if os.Getenv("PLVERIF_DEBUG") != "" {
			fmt.Fprintf(os.Stderr, "flag summary %s: %v\n", h.Name(), *sm)
		}
		summaries[h] = sm
		r.Fn(relName(h))
		return sm, true
	}
	// the summarised call behind an If condition: the call itself (bool helper) or the bool member of its tuple
	condCall := func(cond ssa.Value) (*ssa.Call, *flagSummary) {
		var call *ssa.Call
		idx := 0
		switch x := cond.(type) {
		case *ssa.Call:
			call = x
		case *ssa.Extract:
			call, _ = x.Tuple.(*ssa.Call)
			idx = x.Index
		}
		if call == nil {
			return nil, nil
		}
		if sm, has := helperSummary(call.Call.StaticCallee()); has && sm.boolIdx == idx {
			return call, sm
		}
		return call, nil
	}
	usedAsCond := func(call *ssa.Call) bool {
		// a bool helper whose only use is an If condition in the same block: its effect is applied on the edges,
		// where the answer is known
		refs := call.Referrers()
		if refs == nil || len(*refs) != 1 {
			return false
		}
		iff, ok := (*refs)[0].(*ssa.If)
		return ok && iff.Block() == call.Block()
	}
	transSet = func(in ssa.Instruction, st int) uint16 {
		same := uint16(1) << uint(st)
		switch x := in.(type) {
		case *ssa.Store:
			if cv, ok := x.Val.(*ssa.Const); ok && cv.Value != nil && cv.Value.ExactString() == "false" {
				if fl := flagOf(x.Addr); fl != 0 && st == fl {
					return 1
				}
			}
		case *ssa.Call:
			g := x.Call.StaticCallee()
			if g == runStmts && g != nil {
				return 7 // a body may end with either flag raised
			}
			if k := consumes(x); k != 0 && !usedAsCond(x) {
				if st == k {
					return 1
				}
				return same
			}
			if sm, has := helperSummary(g); has {
				if sm.boolIdx == 0 && g.Signature.Results().Len() == 1 && usedAsCond(x) {
					return same
				}
				return sm.out[st][0] | sm.out[st][1]
			}
		}
		return same
	}
	edgeSet = func(b *ssa.BasicBlock, si int, st int) uint16 {
		same := uint16(1) << uint(st)
		iff, ok := b.Instrs[len(b.Instrs)-1].(*ssa.If)
		if !ok {
			return same
		}
		switch {
		case isFlagLoad(iff.Cond, "loopBreak"):
			if (si == 0) != (st == 1) {
				return 0
			}
		case isFlagLoad(iff.Cond, "loopContinue"):
			if (si == 0) != (st == 2) {
				return 0
			}
		default:
			call, sm := condCall(iff.Cond)
			if call == nil {
				return same
			}
			ans := 1 - si // successor 0 is the true edge
			if sm != nil {
				if _, isCall := iff.Cond.(*ssa.Call); isCall && usedAsCond(call) {
					return sm.out[st][ans] // effect applied here, with the entry state known
				}
				// the effect was applied at the call; keep what is compatible with this answer
				var compat uint16
				for s0 := 0; s0 < 3; s0++ {
					compat |= sm.out[s0][ans]
				}
				return same & compat
			}
			if _, isCall := iff.Cond.(*ssa.Call); !isCall {
				return same
			}
			if k := consumes(call); k != 0 && usedAsCond(call) {
				// true iff that flag was set; clears it
				if si == 0 {
					if st != k {
						return 0
					}
					return 1
				}
				if st == k {
					return 0
				}
				return same
			}
			if call.Call.StaticCallee() == stmtRet && stmtRet != nil {
				// false edge: neither flag is set
				if si == 1 && st != 0 {
					return 0
				}
			}
		}
		return same
	}
	for _, name := range []string{"RunForStmt", "RunForInStmt"} {
		f := pk.Func(name)
		if f == nil {
			continue
		}
		ts := &typestate{fn: f, nstate: 3, init: 0, transSet: transSet, edgeSet: edgeSet, successOnly: true}
		merged := ts.run()
		names := []string{"FF", "break set", "continue set"}
		render := func(m uint16) string {
			var s []string
			for st := 0; st < 3; st++ {
				if m&(1<<uint(st)) != 0 {
					s = append(s, names[st])
				}
			}
			return strings.Join(s, "|")
		}
		r.Fn(relName(f))
		// latches and success returns
		for li, l := range naturalLoops(f) {
			for _, la := range l.Latch {
				last := la.Instrs[len(la.Instrs)-1]
				mb := merged[last]
				// state on the back edge itself: the latch's terminator may be the very test that clears the flags
				var m uint16
				for si, sc := range la.Succs {
					if sc != l.Header {
						continue
					}
					for st := 0; st < 3; st++ {
						if mb&(1<<uint(st)) != 0 {
							m |= edgeSet(la, si, st)
						}
					}
				}
				r.Ob("LOOP-FLAGS", fmt.Sprintf("%s.%s loop #%d back edge from block %d", tag, name, li+1, ordinalBlock(f, la)), t.Pos(firstPos(la)), m&^1 == 0,
					"flags possible when the next iteration starts: "+render(m)+" — a flag that survives the iteration it was raised in skips the following iteration's statements")
			}
		}
		allInstrs(f, func(in ssa.Instruction) {
			ret, ok := in.(*ssa.Return)
			if !ok || ret.Block() == f.Recover || retError(ret) == "nonnil" {
				return
			}
			m := merged[ret]
			r.Ob("LOOP-FLAGS", fmt.Sprintf("%s.%s success return #%d", tag, name, retOrdinal(f, ret)), t.Pos(ret.Pos()), m&^1 == 0,
				"flags possible when the loop statement ends: "+render(m)+" — a break/continue that is still set after its loop ended acts on the enclosing loop as well")
		})
	}
	// the summaries of forbreak / forcontinue assumed above are verified on their bodies
	if forbreak != nil {
		okT, okF := true, true
		nT := 0
		allInstrs(forbreak, func(in ssa.Instruction) {
			ret, ok := in.(*ssa.Return)
			if !ok {
				return
			}
			cv, isC := ret.Results[0].(*ssa.Const)
			if !isC || cv.Value == nil {
				okT = false
				return
			}
			under := false // controlled by `ctx.loopBreak` true
			for _, ec := range controlling(ret.Block()) {
				if isFlagLoad(ec.Cond, "loopBreak") && ec.Pol {
					under = true
				}
			}
			if cv.Value.ExactString() == "true" {
				nT++
				cleared := false
				for _, i2 := range ret.Block().Instrs {
					if st, ok := i2.(*ssa.Store); ok {
						if fa, ok := st.Addr.(*ssa.FieldAddr); ok && fieldName(fa) == "loopBreak" {
							if c2, ok := st.Val.(*ssa.Const); ok && c2.Value != nil && c2.Value.ExactString() == "false" {
								cleared = true
							}
						}
					}
				}
				if !under || !cleared {
					okT = false
				}
			} else if under {
				okF = false
			}
		})
		r.Ob("LOOP-FLAGS", tag+".forbreak reports a pending break and clears it", t.Pos(forbreak.Pos()), okT && okF && nT > 0, "`return true` exactly under ctx.loopBreak, after resetting it: a break that stays set also ends the enclosing loop")
	}
	if forcontinue != nil {
		cleared := false
		allInstrs(forcontinue, func(in ssa.Instruction) {
			if st, ok := in.(*ssa.Store); ok {
				if fa, ok := st.Addr.(*ssa.FieldAddr); ok && fieldName(fa) == "loopContinue" {
					if c2, ok := st.Val.(*ssa.Const); ok && c2.Value != nil && c2.Value.ExactString() == "false" {
						// unconditional, or under ctx.loopContinue
						okc := true
						for _, ec := range controlling(st.Block()) {
							if !(isFlagLoad(ec.Cond, "loopContinue") && ec.Pol) {
								okc = false
							}
						}
						cleared = okc
					}
				}
			}
		})
		r.Ob("LOOP-FLAGS", tag+".forcontinue clears a pending continue", t.Pos(forcontinue.Pos()), cleared, "ctx.loopContinue must be reset before the next iteration starts")
	}
	// writers of the flags
	for _, fl := range []string{"loopBreak", "loopContinue"} {
		for _, f := range t.PkgFuncs(pp) {
			allInstrs(f, func(in ssa.Instruction) {
				s, ok := in.(*ssa.Store)
				if !ok {
					return
				}
				fa, ok := s.Addr.(*ssa.FieldAddr)
				if !ok || fieldName(fa) != fl || !taskField(fa) {
					return
				}
				cv, isC := s.Val.(*ssa.Const)
				if isC && cv.Value != nil && cv.Value.ExactString() == "true" {
					want := map[string]string{"loopBreak": "RunBreakStmt", "loopContinue": "RunContinueStmt"}[fl]
					r.Ob("LOOP-FLAGS", fmt.Sprintf("%s.%s sets %s", tag, f.Name(), fl), t.Pos(s.Pos()), f.Name() == want, "only the "+strings.TrimPrefix(fl, "loop")+" statement may raise this flag")
				}
			})
		}
	}
	// three-clause loop: the Loop clause is evaluated on every cycle that reaches the back edge
	if f := pkgFunc(pk, "RunForStmt"); f != nil {
		var loopEval *ssa.Call
		evals := evalFnsOf(t, pp)
		allInstrs(f, func(in ssa.Instruction) {
			if call, ok := in.(*ssa.Call); ok && evals[call.Call.StaticCallee()] && strings.HasSuffix(path(call.Call.Args[1]), ".Loop") {
				loopEval = call
			}
		})
		ok := loopEval != nil
		if loopEval == nil {
			// … or a helper that ends the iteration evaluates it: the helper is called on every cycle (the test of
			// its answer dominates every back edge) and each of its `go on` answers comes after the nil test of
			// stmt.Loop that guards the evaluation
			for _, l := range naturalLoops(f) {
				for _, b := range f.Blocks {
					if !l.Blocks[b] {
						continue
					}
					for _, in := range b.Instrs {
						call, isCall := in.(*ssa.Call)
						if !isCall {
							continue
						}
						h := call.Call.StaticCallee()
						bi := boolResultIdx(h)
						if bi < 0 || h.Pkg != f.Pkg || len(h.Blocks) == 0 {
							continue
						}
						var hev *ssa.Call
						allInstrs(h, func(in2 ssa.Instruction) {
							if c2, isC := in2.(*ssa.Call); isC && evals[c2.Call.StaticCallee()] && len(c2.Call.Args) > 1 && strings.HasSuffix(path(c2.Call.Args[1]), ".Loop") {
								hev = c2
							}
						})
						if hev == nil {
							continue
						}
						ifBlk, contVal, _, found := loopTestOf(l, call, bi)
						if !found {
							continue
						}
						guard := hev.Block()
						for _, ec := range controlling(hev.Block()) {
							if strings.HasSuffix(condStr(ec.Cond), ".Loop != nil") || strings.HasSuffix(condStr(ec.Cond), ".Loop == nil") {
								guard = ec.If
							}
						}
						okH := helperAnswers(h, bi, contVal, func(rb *ssa.BasicBlock) bool { return guard == rb || guard.Dominates(rb) }, nil)
						for _, la := range l.Latch {
							if !ifBlk.Dominates(la) {
								okH = false
							}
						}
						if okH {
							ok = true
						}
					}
				}
			}
		}
		if loopEval != nil {
			// find the nil test of stmt.Loop that guards it; every latch must be dominated by that test block
			var guard *ssa.BasicBlock
			for _, ec := range controlling(loopEval.Block()) {
				if strings.HasSuffix(condStr(ec.Cond), ".Loop != nil") || strings.HasSuffix(condStr(ec.Cond), ".Loop == nil") {
					guard = ec.If
				}
			}
			if guard == nil {
				guard = loopEval.Block()
			}
			for _, l := range naturalLoops(f) {
				if !l.Blocks[loopEval.Block()] {
					continue
				}
				for _, la := range l.Latch {
					if !guard.Dominates(la) {
						ok = false
					}
				}
			}
		}
		r.Ob("LOOP-FLAGS", tag+".RunForStmt evaluates the loop clause on every cycle", t.Pos(f.Pos()), ok, "every back edge of the three-clause loop must pass the evaluation of stmt.Loop (a `continue` must not skip it)")
	}
}

func ordinalBlock(f *ssa.Function, b *ssa.BasicBlock) int { return b.Index }

func firstPos(b *ssa.BasicBlock) token.Pos {
	for _, in := range b.Instrs {
		if in.Pos().IsValid() {
			return in.Pos()
		}
	}
	return token.NoPos
}

func c03Iter(c *Ctx, pp, tag string) {
	r, t := c.R, c.T
	pk := t.SSA[pp]
	f := pkgFunc(pk, "RunForInStmt")
	runStmts := pkgFunc(pk, "RunStmts")
	if f == nil || runStmts == nil {
		r.Undecided("ITER", tag+".RunForInStmt", "", "unresolved anchor")
		return
	}
	loops := naturalLoops(f)
	n := 0
	for li, l := range loops {
		bodies := 0
		clears := 0
		isRange := false
		var body *ssa.Call
		for b := range l.Blocks {
			for _, in := range b.Instrs {
				switch x := in.(type) {
				case *ssa.Call:
					if runsBodyOnce(x.Call.StaticCallee(), runStmts, 0) {
						bodies++
						body = x
					}
					if alwaysClears(x.Call.StaticCallee(), 0) {
						clears++
					}
				case *ssa.Next:
					isRange = true
				case *ssa.Phi:
					if x.Comment == "rangeindex" {
						isRange = true
					}
				}
			}
		}
		n++
		nested := false
		for lj, l2 := range loops {
			if lj != li && l2.Blocks[l.Header] && len(l2.Blocks) > len(l.Blocks) {
				nested = true
			}
		}
		r.Ob("ITER", fmt.Sprintf("%s.RunForInStmt loop #%d runs the body once per element", tag, li+1), t.Pos(firstPos(l.Header)), isRange && bodies == 1 && !nested,
			fmt.Sprintf("range loop=%v, body executions per iteration=%d, nested in another loop=%v", isRange, bodies, nested))
		// path rule: no way from one body execution to the next without passing stackCur.Clear()
		skip := false
		if body != nil && !clearsAfterBody(body.Call.StaticCallee(), runStmts) {
			skip = reachAvoid(body, body, func(in ssa.Instruction) bool {
				call, ok := in.(*ssa.Call)
				return ok && alwaysClears(call.Call.StaticCallee(), 0)
			})
		}
		r.Ob("ITER", fmt.Sprintf("%s.RunForInStmt loop #%d clears the loop scope every iteration", tag, li+1), t.Pos(firstPos(l.Header)), clears >= 1 && body != nil && !skip,
			fmt.Sprintf("%d stackCur.Clear() calls in the loop; a path from one body execution to the next that avoids Clear exists: %v — variables created in one iteration must not be visible in the next, however the iteration ended", clears, skip))
	}
	r.FloorN(tag+" for-in loops", n, 3)
}

func c03Vars(c *Ctx) {
	r, t := c.R, c.T
	set := t.Method(pRT, "Stack", "Set")
	get := t.Method(pRT, "Stack", "Get")
	gk := t.Method(pRT, "Task", "GetKey")
	rs := t.Func(pRT, "RunStmt")
	if set == nil || get == nil || gk == nil || rs == nil {
		r.Undecided("VARS", "runtime.Stack.Set/Get, Task.GetKey, RunStmt", "", "unresolved anchor")
		return
	}
	r.Fn(relName(set), relName(get), relName(gk))
	// Set: insertion targets the receiver's Data; update in place targets the found Varb
	insRecv, upd, helperInsert := false, false, false
	var setFns []*ssa.Function
	for g := range setScope(set) {
		setFns = append(setFns, g)
	}
	sortFuncs(setFns)
	for _, sf := range setFns {
		allInstrs(sf, func(in ssa.Instruction) {
			switch x := in.(type) {
			case *ssa.MapUpdate:
				if sf != set {
					helperInsert = true // creation belongs to Set itself, in the receiver's frame
					return
				}
				if path(x.Map) == pname(set.Params[0])+".Data" {
					insRecv = true
				} else {
					insRecv = false
				}
			case *ssa.Store:
				if fa, ok := x.Addr.(*ssa.FieldAddr); ok && namedOf(fa.X.Type()) == "runtime.Varb" && fieldName(fa) == "Value" {
					if _, isAlloc := fa.X.(*ssa.Alloc); !isAlloc {
						// stored into the looked-up variable, under its ok
						for _, ec := range controlling(x.Block()) {
							if strings.HasPrefix(ec.String(), "phi:") || strings.Contains(ec.String(), "#1") {
								upd = true
							}
						}
					}
				}
			}
		})
	}
	insRecv = insRecv && !helperInsert
	// every successful assignment stores: no success return of the identifier / index arms is reachable from the
	// function entry without passing SetVarb / changeListOrMapValue
	for _, pp := range []string{pRT, pRT2} {
		as := t.Func(pp, "RunAssignmentExpr")
		if as == nil {
			r.Undecided("VARS", t.SSA[pp].Pkg.Name()+".RunAssignmentExpr", "", "unresolved anchor")
			continue
		}
		tag := t.SSA[pp].Pkg.Name()
		_, s2k := kindTable(t)
		directStore := func(in ssa.Instruction) bool {
			call, ok := in.(*ssa.Call)
			if !ok || call.Call.StaticCallee() == nil {
				return false
			}
			n := fnName(call.Call.StaticCallee())
			return n == "SetVarb" || n == "changeListOrMapValue"
		}
		// a helper is as good as a store when none of its success returns can be reached without one
		wrapper := map[*ssa.Function]bool{}
		for _, h := range t.PkgFuncs(pp) {
			if h == as || len(h.Blocks) == 0 {
				continue
			}
			has, all := false, true
			allInstrs(h, func(in ssa.Instruction) {
				if directStore(in) {
					has = true
				}
			})
			if !has {
				continue
			}
			allInstrs(h, func(in ssa.Instruction) {
				ret, ok := in.(*ssa.Return)
				if !ok || ret.Block() == h.Recover || len(ret.Results) == 0 || retError(ret) == "nonnil" {
					return
				}
				if len(ret.Results) > 1 && isNilConst(ret.Results[0]) {
					return // nothing to assign to
				}
				if reachAvoid(h.Blocks[0].Instrs[0], ret, directStore) && !directStore(h.Blocks[0].Instrs[0]) {
					all = false
				}
			})
			if all {
				wrapper[h] = true
			}
		}
		isStore := func(in ssa.Instruction) bool {
			if directStore(in) {
				return true
			}
			call, ok := in.(*ssa.Call)
			return ok && call.Call.StaticCallee() != nil && wrapper[call.Call.StaticCallee()]
		}
		nRet, bad := 0, 0
		allInstrs(as, func(in ssa.Instruction) {
			ret, ok := in.(*ssa.Return)
			if !ok || retError(ret) == "nonnil" {
				return
			}
			// v1: the arm is known from the NodeType fact; v2: the stores sit in a loop over the targets and the
			// success return follows the loop, so the rule is applied to the loop body's arms through the latch
			arm := ""
			for _, ec := range controlling(ret.Block()) {
				if bo, ok := ec.Cond.(*ssa.BinOp); ok && bo.Op == token.EQL && ec.Pol && strings.HasSuffix(path(bo.X), ".NodeType") {
					if k, isC := constInt(bo.Y); isC && (k == s2k["Identifier"] || k == s2k["IndexExpr"]) {
						arm = path(bo.X)
					}
				}
			}
			if arm == "" {
				return
			}
			if len(ret.Results) > 0 && isNilConst(ret.Results[0]) {
				return // `x += 1` with x neither variable nor point key: nothing to assign to (reads as nil), not a store path
			}
			nRet++
			if reachAvoid(as.Blocks[0].Instrs[0], ret, isStore) {
				bad++
				r.Ob("VARS", fmt.Sprintf("%s.RunAssignmentExpr success return #%d stores the assigned value", tag, retOrdinal(as, ret)), t.Pos(ret.Pos()), false,
					"this return of an identifier/index target arm is reachable without SetVarb / changeListOrMapValue: the assignment reports success but changes nothing")
			}
		})
		if pp == pRT {
			r.Ob("VARS", tag+".RunAssignmentExpr stores on every successful target arm", t.Pos(as.Pos()), bad == 0 && nRet >= 2, fmt.Sprintf("%d success returns under an Identifier/IndexExpr target test, %d reachable without a store", nRet, bad))
		} else {
			// v2: each arm of the per-target switch inside the loop must pass a store before the loop latch
			okArms, nArms := true, 0
			// the per-target switch may live in a helper called from the loop: then its arms are judged there, against
			// the helper's success returns, and the helper call must sit in the loop
			for _, l := range naturalLoops(as) {
				for b := range l.Blocks {
					for _, in := range b.Instrs {
						call, ok := in.(*ssa.Call)
						if !ok || call.Call.StaticCallee() == nil || call.Call.StaticCallee().Pkg != as.Pkg || len(call.Call.StaticCallee().Blocks) == 0 {
							continue
						}
						h := call.Call.StaticCallee()
						// only a target dispatcher: it stores both to variables and to list/map elements
						names := map[string]bool{}
						allInstrs(h, func(i2 ssa.Instruction) {
							if c2, ok := i2.(*ssa.Call); ok && c2.Call.StaticCallee() != nil && directStore(i2) {
								names[fnName(c2.Call.StaticCallee())] = true
							}
						})
						if len(names) < 2 || h.Name() == "changeListOrMapValue" {
							continue
						}
						for _, hb := range h.Blocks {
							for _, ec := range controlling(hb) {
								bo, ok := ec.Cond.(*ssa.BinOp)
								if !ok || bo.Op != token.EQL || !ec.Pol || !strings.HasSuffix(path(bo.X), ".NodeType") || ec.If.Succs[0] != hb {
									continue
								}
								k, isC := constInt(bo.Y)
								if !isC || (k != s2k["Identifier"] && k != s2k["IndexExpr"]) {
									continue
								}
								nArms += 2 // stands for the plain and the compound use of the shared arm
								allInstrs(h, func(i2 ssa.Instruction) {
									ret, isR := i2.(*ssa.Return)
									if !isR || retError(ret) == "nonnil" || !reachableFrom(hb.Instrs[0], ret) && ret.Block() != hb {
										return
									}
									if reachAvoid(hb.Instrs[0], ret, directStore) && !directStore(hb.Instrs[0]) {
										okArms = false
									}
								})
							}
						}
					}
				}
			}
			for _, l := range naturalLoops(as) {
				for b := range l.Blocks {
					for _, ec := range controlling(b) {
						bo, ok := ec.Cond.(*ssa.BinOp)
						if !ok || bo.Op != token.EQL || !ec.Pol || !strings.HasSuffix(path(bo.X), ".NodeType") || ec.If.Succs[0] != b {
							continue
						}
						k, isC := constInt(bo.Y)
						if !isC || (k != s2k["Identifier"] && k != s2k["IndexExpr"]) {
							continue
						}
						nArms++
						// from the arm's first instruction, the loop header must not be reachable without a store
						hdr := l.Header.Instrs[0]
						if reachAvoid(b.Instrs[0], hdr, isStore) && !isStore(b.Instrs[0]) {
							okArms = false
						}
					}
				}
			}
			r.Ob("VARS", tag+".RunAssignmentExpr stores on every successful target arm", t.Pos(as.Pos()), okArms && nArms >= 4, fmt.Sprintf("%d Identifier/IndexExpr target arms inside the per-target loop, each passing SetVarb / changeListOrMapValue before the next target", nArms))
		}
	}
	// variables are written through Stack.Set only: a *Varb handed out by a lookup may be a throw-away copy of a
	// point key (Task.GetKey builds one when the name has no variable), so storing into it loses the assignment
	nVW := 0
	var foreign []string
	for _, pp := range []string{pRT, pRT2, pFuncs, pEngine} {
		for _, f := range t.PkgFuncs(pp) {
			allInstrs(f, func(in ssa.Instruction) {
				st, ok := in.(*ssa.Store)
				if !ok {
					return
				}
				fa, ok := st.Addr.(*ssa.FieldAddr)
				if !ok || namedOf(fa.X.Type()) != "runtime.Varb" {
					return
				}
				nVW++
				if _, inSet := setScope(set)[f]; inSet {
					return
				}
				if _, isAlloc := fa.X.(*ssa.Alloc); isAlloc {
					return
				}
				foreign = append(foreign, fmt.Sprintf("%s stores %s.%s at %s", relName(f), path(fa.X), fieldName(fa), t.Pos(st.Pos())))
			})
		}
	}
	sort.Strings(foreign)
	r.Ob("VARS", "variables are written through Stack.Set only", t.Pos(set.Pos()), len(foreign) == 0 && nVW >= 4,
		fmt.Sprintf("%d stores into Varb fields, all in Stack.Set or into a freshly built Varb; others: %v — an assignment (plain or compound) must update the nearest variable or create one in the current block, which only Set does", nVW, foreign))
	r.Ob("VARS", "Stack.Set creates a new variable in the current (receiver's) frame", t.Pos(set.Pos()), insRecv, "stack.Data[key] = … — inserting into the frame the search ended in would create the variable in the outermost scope")
	r.Ob("VARS", "Stack.Set updates the nearest enclosing variable in place", t.Pos(set.Pos()), upd, "the first frame on the Before chain that has the key is updated")
	// both walk the Before chain
	for _, f := range []*ssa.Function{set, get} {
		walks := false
		cands := []*ssa.Function{f}
		allInstrs(f, func(in ssa.Instruction) {
			if call, ok := in.(*ssa.Call); ok {
				if g := call.Call.StaticCallee(); g != nil && pkgOf(g) == f.Pkg && g != f && len(g.Blocks) > 0 && len(call.Call.Args) > 0 && call.Call.Args[0] == ssa.Value(f.Params[0]) {
					cands = append(cands, g) // a search helper (method, function or generic instance) given the same frame
				}
			}
		})
		for _, g := range cands {
			for _, l := range naturalLoops(g) {
				for b := range l.Blocks {
					for _, in := range b.Instrs {
						if u, ok := in.(*ssa.UnOp); ok && strings.HasSuffix(path(u), ".Before") {
							walks = true
						}
					}
				}
			}
			// the recursive form: the search calls itself on the enclosing frame
			allInstrs(g, func(in ssa.Instruction) {
				if call, ok := in.(*ssa.Call); ok && call.Call.StaticCallee() == g && len(call.Call.Args) > 0 && len(g.Params) > 0 &&
					path(call.Call.Args[0]) == pname(g.Params[0])+".Before" {
					walks = true
				}
			})
		}
		r.Ob("VARS", relName(f)+" walks the chain of enclosing scopes", t.Pos(f.Pos()), walks, "cur = cur.Before inside the search loop")
	}
	// GetKey: stack first; input only when the stack lookup failed
	// … in GetKey itself, or in the same-package lookup helper it delegates to (two levels)
	okOrder := false
	gkFns := []*ssa.Function{gk}
	for i := 0; i < len(gkFns) && i < 6; i++ {
		allInstrs(gkFns[i], func(in ssa.Instruction) {
			if call, ok := in.(*ssa.Call); ok {
				if g := call.Call.StaticCallee(); g != nil && g.Pkg == gk.Pkg && len(g.Blocks) > 0 && g != get && len(gkFns) < 6 {
					dup := false
					for _, x := range gkFns {
						if x == g {
							dup = true
						}
					}
					if !dup && g.Signature.Recv() != nil && strings.HasSuffix(namedOf(g.Params[0].Type()), ".Task") {
						gkFns = append(gkFns, g)
					}
				}
			}
		})
	}
	for _, gk := range gkFns {
		var sget, iget *ssa.Call
		allInstrs(gk, func(in ssa.Instruction) {
			if call, ok := in.(*ssa.Call); ok {
				if call.Call.StaticCallee() == get {
					sget = call
				}
				if call.Call.IsInvoke() && call.Call.Method.Name() == "Get" {
					iget = call
				}
			}
		})
		if sget == nil || iget == nil || !precedes(sget, iget) {
			continue
		}
		for _, ec := range controlling(iget.Block()) {
			if bo, ok := ec.Cond.(*ssa.BinOp); ok && isNilConst(bo.Y) {
				if ex, ok := bo.X.(*ssa.Extract); ok && ex.Tuple == ssa.Value(sget) && ((bo.Op == token.EQL && !ec.Pol) || (bo.Op == token.NEQ && ec.Pol)) {
					okOrder = true
				}
			}
		}
	}
	r.Ob("VARS", "Task.GetKey reads the variable before the point key of the same name", t.Pos(gk.Pos()), okOrder, "ctx.input.Get is consulted only on the miss path of ctx.stackCur.Get")
	// `_` alias
	for _, name := range []string{"GetKey", "GetKeyConv2Str", "SetVarb"} {
		f := t.Method(pRT, "Task", name)
		ok, why := aliasBeforeUse(f)
		r.Ob("VARS", "Task."+name+" maps `_` to the message key before any lookup", "pkg/engine/runtime/context.go", ok, "`_` stands for `message`: "+why)
	}
	// identifier miss -> (nil, Nil, nil)
	okMiss := false
	nilTag, _ := constInt(t.SSA[pAst].Const("Nil").Value)
	allInstrs(rs, func(in ssa.Instruction) {
		ret, ok := in.(*ssa.Return)
		if !ok || len(ret.Results) != 3 {
			return
		}
		for _, ec := range controlling(ret.Block()) {
			if bo, ok := ec.Cond.(*ssa.BinOp); ok && isNilConst(bo.Y) && ((bo.Op == token.NEQ && ec.Pol) || (bo.Op == token.EQL && !ec.Pol)) {
				if ex, ok := bo.X.(*ssa.Extract); ok {
					if call, ok := ex.Tuple.(*ssa.Call); ok && call.Call.StaticCallee() == gk {
						v, isC := constInt(ret.Results[1])
						if isNilConst(ret.Results[0]) && isC && v == nilTag && isNilConst(ret.Results[2]) {
							okMiss = true
						}
					}
				}
			}
		}
	})
	r.Ob("VARS", "RunStmt evaluates an unresolved identifier to nil", t.Pos(rs.Pos()), okMiss, "a name with neither variable nor point key reads as (nil, Nil) without error")
}

// aliasBeforeUse: the function compares a string parameter with "_" and replaces it by the message key, and no
// call receives the raw parameter (a lookup made with the un-aliased key misses the variable / field `message`).
// isAliasFn: h(name string) string returns the message key when name == "_" and name itself otherwise.
func isAliasFn(h *ssa.Function) bool {
	if h == nil || len(h.Blocks) == 0 || len(h.Params) != 1 || h.Signature.Results().Len() != 1 {
		return false
	}
	prm := h.Params[0]
	cmp := false
	for _, ref := range *prm.Referrers() {
		if bo, ok := ref.(*ssa.BinOp); ok && (bo.Op == token.EQL || bo.Op == token.NEQ) {
			if cv, isC := bo.Y.(*ssa.Const); isC && cv.Value != nil && cv.Value.ExactString() == `"_"` {
				cmp = true
			}
		}
	}
	if !cmp {
		return false
	}
	msg, self, other := false, false, false
	var visit func(v ssa.Value, depth int)
	visit = func(v ssa.Value, depth int) {
		switch x := v.(type) {
		case *ssa.Const:
			if x.Value != nil && x.Value.ExactString() == `"message"` {
				msg = true
			} else {
				other = true
			}
		case *ssa.Parameter:
			self = x == prm
		case *ssa.Phi:
			if depth < 3 {
				for _, e := range x.Edges {
					visit(e, depth+1)
				}
			}
		default:
			other = true
		}
	}
	allInstrs(h, func(in ssa.Instruction) {
		if ret, ok := in.(*ssa.Return); ok && len(ret.Results) == 1 {
			visit(ret.Results[0], 0)
		}
	})
	return msg && self && !other
}

func aliasBeforeUse(f *ssa.Function) (bool, string) {
	return aliasBeforeUseDepth(f, 0)
}

func aliasBeforeUseDepth(f *ssa.Function, depth int) (bool, string) {
	if f == nil {
		return false, "function not found"
	}
	n := 0
	for _, p := range f.Params {
		aliased, viaFn := false, false
		var raw []string
		for _, ref := range *p.Referrers() {
			switch x := ref.(type) {
			case *ssa.BinOp:
				if cv, isC := x.Y.(*ssa.Const); isC && x.Op == token.EQL && cv.Value != nil && cv.Value.ExactString() == `"_"` {
					aliased = true
				}
			case *ssa.Phi, *ssa.DebugRef:
			case ssa.CallInstruction:
				cal := x.Common().StaticCallee()
				if cal != nil && cal.Pkg != nil && (cal.Pkg.Pkg.Path() == "fmt" || cal.Pkg.Pkg.Path() == "errors") {
					continue
				}
				if isAliasFn(cal) {
					aliased, viaFn = true, true
					continue
				}
				// handed on to a same-package function that itself maps `_` before any lookup (a lookup helper)
				if cal != nil && inModule(cal) && cal.Pkg == f.Pkg && depth < 2 && cal != f {
					if ok, _ := aliasBeforeUseDepth(cal, depth+1); ok {
						aliased, viaFn = true, true
						continue
					}
				}
				nm := "dynamic call"
				if cal != nil {
					nm = cal.Name()
				} else if x.Common().IsInvoke() {
					nm = x.Common().Method.Name()
				}
				raw = append(raw, nm)
			}
		}
		if !aliased {
			continue
		}
		n++
		if len(raw) > 0 {
			return false, fmt.Sprintf("parameter %s is passed un-aliased to %v", p.Name(), raw)
		}
		// the alias value is the message-key constant
		okConst := false
		for _, ref := range *p.Referrers() {
			if ph, ok := ref.(*ssa.Phi); ok {
				for _, e := range ph.Edges {
					if cv, ok := e.(*ssa.Const); ok && cv.Value != nil && cv.Value.ExactString() == `"message"` {
						okConst = true
					}
				}
			}
		}
		if !okConst && !viaFn {
			return false, "parameter " + p.Name() + " is compared with `_` but not replaced by the message key"
		}
	}
	if n == 0 {
		return false, "no parameter is compared with `_`"
	}
	return true, fmt.Sprintf("%d key parameter(s) aliased before every use", n)
}

// runsBodyOnce: g is the statement-list executor itself, or a same-package helper / method / local closure that
// executes a body exactly once per call: it holds exactly one call of the executor (or of such a helper, three
// levels), outside any loop of its own, and the only conditions on the way to that call are nil tests (an absent
// body).
func runsBodyOnce(g, runStmts *ssa.Function, depth int) bool {
	if g == nil {
		return false
	}
	if g == runStmts {
		return true
	}
	if g.Pkg != runStmts.Pkg && (g.Parent() == nil || g.Parent().Pkg != runStmts.Pkg) {
		return false
	}
	if len(g.Blocks) == 0 || depth >= 3 {
		return false
	}
	var sites []*ssa.Call
	allInstrs(g, func(in ssa.Instruction) {
		if c2, ok := in.(*ssa.Call); ok && c2.Call.StaticCallee() != g && runsBodyOnce(c2.Call.StaticCallee(), runStmts, depth+1) {
			sites = append(sites, c2)
		}
	})
	if len(sites) != 1 {
		return false
	}
	for _, l := range naturalLoops(g) {
		if l.Blocks[sites[0].Block()] {
			return false
		}
	}
	for _, ec := range controlling(sites[0].Block()) {
		bo, ok := ec.Cond.(*ssa.BinOp)
		if !ok || !isNilConst(bo.Y) || (bo.Op != token.EQL && bo.Op != token.NEQ) {
			return false
		}
	}
	return true
}

// alwaysClears: g is (*Stack).Clear, or a same-package helper every return of which is dominated by a call that
// always clears (two levels).
func alwaysClears(g *ssa.Function, depth int) bool {
	if g == nil {
		return false
	}
	if g.Name() == "Clear" && g.Signature.Recv() != nil {
		return true
	}
	if len(g.Blocks) == 0 || depth >= 2 || !inModule(g) {
		return false
	}
	var sites []*ssa.BasicBlock
	allInstrs(g, func(in ssa.Instruction) {
		if c2, ok := in.(*ssa.Call); ok && c2.Call.StaticCallee() != g && alwaysClears(c2.Call.StaticCallee(), depth+1) {
			sites = append(sites, c2.Block())
		}
	})
	if len(sites) == 0 {
		return false
	}
	for _, b := range g.Blocks {
		ret, isRet := b.Instrs[len(b.Instrs)-1].(*ssa.Return)
		if !isRet {
			continue
		}
		if len(ret.Results) > 0 && retError(ret) == "nonnil" {
			continue // the loop is left with an error: nothing runs in the scope any more
		}
		ok := false
		for _, s := range sites {
			if s.Dominates(b) {
				ok = true
			}
		}
		if !ok {
			return false
		}
	}
	return true
}

// clearsAfterBody: g runs the body once and then always clears the scope (on every return that is not an error):
// a call of g is one body execution followed by the clearing, so two consecutive calls have a Clear between their
// bodies.
func clearsAfterBody(g, runStmts *ssa.Function) bool {
	if g == nil || g == runStmts || !runsBodyOnce(g, runStmts, 0) || !alwaysClears(g, 0) {
		return false
	}
	var body *ssa.Call
	var clears []*ssa.Call
	allInstrs(g, func(in ssa.Instruction) {
		if c2, ok := in.(*ssa.Call); ok && c2.Call.StaticCallee() != g {
			if runsBodyOnce(c2.Call.StaticCallee(), runStmts, 1) {
				body = c2
			} else if alwaysClears(c2.Call.StaticCallee(), 1) {
				clears = append(clears, c2)
			}
		}
	})
	if body == nil || len(clears) == 0 {
		return false
	}
	for _, cl := range clears {
		if reachableFrom(cl, body) {
			return false
		}
	}
	return true
}

// taskField: the field address is a field of the task — directly, or of a struct embedded in it (the per-run flags
// grouped into a small struct).
func taskField(fa *ssa.FieldAddr) bool {
	if strings.HasSuffix(namedOf(fa.X.Type()), ".Task") {
		return true
	}
	if in, ok := fa.X.(*ssa.FieldAddr); ok {
		return strings.HasSuffix(namedOf(in.X.Type()), ".Task")
	}
	return false
}

// c03IfSelect: the if/elif/else executor split into a selection phase and an execution phase: a same-package
// selector evaluates the conditions in order and returns the block to run (the first truthy branch's, or — either
// returned by the selector after the list is exhausted, or run by the executor when the selector reports "none" —
// the else block); the executor runs what was selected once. The same six facts as for the in-line form.
func c03IfSelect(c *Ctx, f *ssa.Function, tag string, runStmts, condTrue *ssa.Function, evals map[*ssa.Function]bool) bool {
	r, t := c.R, c.T
	var sel *ssa.Call
	allInstrs(f, func(in ssa.Instruction) {
		call, ok := in.(*ssa.Call)
		if !ok {
			return
		}
		h := call.Call.StaticCallee()
		if h == nil || h.Pkg != f.Pkg || len(h.Blocks) == 0 || h.Signature.Results().Len() < 2 {
			return
		}
		if strings.HasSuffix(h.Signature.Results().At(0).Type().String(), "ast.BlockStmt") {
			sel = call
		}
	})
	if sel == nil {
		return false
	}
	h := sel.Call.StaticCallee()
	r.Fn(relName(h))
	// --- the executor: runs the selected block, once, outside any loop; an else run by the executor sits on the
	// selector's "none" answer
	var runSel, runElse []*ssa.Call
	elseByPhi := false
	allInstrs(f, func(in ssa.Instruction) {
		call, ok := in.(*ssa.Call)
		if !ok {
			return
		}
		p, isExec := stmtsExecuted(call, runStmts)
		if !isExec {
			return
		}
		switch {
		case strings.HasPrefix(p, h.Name()+"(") && strings.Contains(p, ")#0"):
			runSel = append(runSel, call)
		case strings.HasSuffix(p, ".Else.Stmts"):
			runElse = append(runElse, call)
		default:
			// `if !found { block = stmt.Else }` then one run of block: the block is the selector's choice or, on the
			// selector's negative answer, the else block
			if blk := blockOfStmts(call, runStmts); blk != nil {
				if ph, isP := blk.(*ssa.Phi); isP && len(ph.Edges) == 2 {
					okSel, okElseEdge := false, false
					for i, e := range ph.Edges {
						if ex, isE := e.(*ssa.Extract); isE && ex.Tuple == ssa.Value(sel) && ex.Index == 0 {
							okSel = true
							continue
						}
						if strings.HasSuffix(path(e), ".Else") {
							for _, ec := range append(controlling(ph.Block().Preds[i]), edgeInto(ph.Block().Preds[i], ph.Block())...) {
								if ex, isE := ec.Cond.(*ssa.Extract); isE && ex.Tuple == ssa.Value(sel) && ex.Index == 1 && !ec.Pol {
									okElseEdge = true
								}
								if u, isU := ec.Cond.(*ssa.UnOp); isU && u.Op == token.NOT {
									if ex, isE := u.X.(*ssa.Extract); isE && ex.Tuple == ssa.Value(sel) && ex.Index == 1 && ec.Pol {
										okElseEdge = true
									}
								}
							}
						}
					}
					if okSel && okElseEdge {
						runSel = append(runSel, call)
						elseByPhi = true
					}
				}
			}
		}
	})
	if len(runSel) != 1 {
		return false
	}
	body := runSel[0]
	inLoop := func(b *ssa.BasicBlock, g *ssa.Function) bool {
		for _, l := range naturalLoops(g) {
			if l.Blocks[b] {
				return true
			}
		}
		return false
	}
	// --- the selector
	var branchRets, elseRets []*ssa.Return
	okTruthy, okElseOut, okCondFirst := true, true, false
	nTruth := 0
	allInstrs(h, func(in ssa.Instruction) {
		switch x := in.(type) {
		case *ssa.Return:
			p := path(x.Results[0])
			switch {
			case strings.Contains(p, "[*].Block"):
				branchRets = append(branchRets, x)
				g := false
				for _, ec := range controlling(x.Block()) {
					if isTruthTest(ec.Cond, condTrue) && ec.Pol {
						g = true
					}
				}
				if !g || !inLoop(x.Block(), h) && false {
					okTruthy = false
				}
			case strings.HasSuffix(p, ".Else"):
				elseRets = append(elseRets, x)
				if inLoop(x.Block(), h) {
					okElseOut = false
				}
			}
		case *ssa.If:
			if isTruthTest(x.Cond, condTrue) {
				nTruth++
				// from the truthy edge nothing more is evaluated
				tb := x.Block().Succs[0]
				allInstrs(h, func(i2 ssa.Instruction) {
					if call, ok := i2.(*ssa.Call); ok && evals[call.Call.StaticCallee()] && len(tb.Instrs) > 0 && (i2.Block() == tb || reachableFrom(tb.Instrs[0], call)) {
						okTruthy = false
					}
				})
			}
		case *ssa.Call:
			if evals[x.Call.StaticCallee()] && len(x.Call.Args) >= 2 && strings.Contains(path(x.Call.Args[1]), "[*].Condition") {
				okCondFirst = true
			}
		}
	})
	if len(branchRets) == 0 {
		return false
	}
	r.Ob("IF-FIRST", tag+".RunIfElseStmt runs a branch only when its condition is truthy", t.Pos(body.Pos()), okTruthy,
		"the selector "+h.Name()+" returns a branch's block only on the true edge of condTrue(<value of that branch's condition>), and the executor runs what the selector returned")
	var after []string
	allInstrs(f, func(in ssa.Instruction) {
		if call, ok := in.(*ssa.Call); ok && call != body && (evals[call.Call.StaticCallee()] || call.Call.StaticCallee() == h) {
			if reachableFrom(body, call) {
				after = append(after, fnName(call.Call.StaticCallee()))
			}
		}
	})
	for _, e := range runElse {
		if reachableFrom(body, e) || reachableFrom(e, body) {
			after = append(after, "else body")
		}
	}
	r.Ob("IF-FIRST", tag+".RunIfElseStmt stops after the first branch that ran", t.Pos(body.Pos()), len(after) == 0 && !inLoop(body.Block(), f), fmt.Sprintf("reachable after the selected block ran: %v — exactly one branch of an if/elif/else chain may run", after))
	r.Ob("IF-FIRST", tag+".RunIfElseStmt ends the chain at the first truthy condition", t.Pos(h.Pos()), nTruth == 1 && okTruthy,
		fmt.Sprintf("%d truthiness test(s) in the selector; from its truthy edge the selector returns without evaluating anything else", nTruth))
	r.Ob("IF-FIRST", tag+".RunIfElseStmt evaluates the branch's own condition first", t.Pos(h.Pos()), okCondFirst, "the selector evaluates ifstmt.Condition of the element whose block it may return")
	// else: returned by the selector after the loop, or run by the executor on the selector's negative answer
	okElse := false
	detail := "the else block lies behind the exhaustion of the branch list"
	switch {
	case elseByPhi:
		okElse = true
		allInstrs(h, func(in ssa.Instruction) {
			if ret, ok := in.(*ssa.Return); ok && len(ret.Results) >= 2 && isNilConst(ret.Results[len(ret.Results)-1]) {
				if cv, isC := ret.Results[1].(*ssa.Const); isC && cv.Value != nil && cv.Value.ExactString() == "false" && inLoop(ret.Block(), h) {
					okElse = false
				}
			}
		})
		detail = "the executor substitutes stmt.Else for the selected block exactly on the selector's negative answer, which it gives only after the list is exhausted"
	case len(elseRets) > 0:
		okElse = okElseOut
	case len(runElse) == 1:
		for _, ec := range controlling(runElse[0].Block()) {
			if ex, ok := ec.Cond.(*ssa.Extract); ok && ex.Tuple == ssa.Value(sel) && ex.Index == 1 && !ec.Pol {
				okElse = true
			}
		}
		// and the selector's negative answer is only given after the list is exhausted
		allInstrs(h, func(in ssa.Instruction) {
			if ret, ok := in.(*ssa.Return); ok && len(ret.Results) >= 2 && isNilConst(ret.Results[len(ret.Results)-1]) {
				if cv, isC := ret.Results[1].(*ssa.Const); isC && cv.Value != nil && cv.Value.ExactString() == "false" && inLoop(ret.Block(), h) {
					okElse = false
				}
			}
		})
		detail = "the executor runs stmt.Else only when the selector found no truthy branch, which it reports only after the list is exhausted"
	}
	r.Ob("IF-FIRST", tag+".RunIfElseStmt runs else only after every condition failed", t.Pos(f.Pos()), okElse, detail)
	return true
}

// blockOfStmts: the call is RunStmts(ctx, X.Stmts): the block value X.
func blockOfStmts(call *ssa.Call, runStmts *ssa.Function) ssa.Value {
	if call.Call.StaticCallee() != runStmts || len(call.Call.Args) < 2 {
		return nil
	}
	ld, ok := call.Call.Args[1].(*ssa.UnOp)
	if !ok || ld.Op != token.MUL {
		return nil
	}
	fa, ok := ld.X.(*ssa.FieldAddr)
	if !ok || fieldName(fa) != "Stmts" {
		return nil
	}
	return fa.X
}

func keysInt(m map[int]bool) []int {
	var out []int
	for k := range m {
		out = append(out, k)
	}
	sort.Ints(out)
	return out
}

// setScope: Stack.Set and the helpers of its package that it hands its frame and its value parameter to (an `update`
// method that walks the chain, recursive or not): function -> position of the parameter carrying Set's value.
func setScope(set *ssa.Function) map[*ssa.Function]int {
	out := map[*ssa.Function]int{}
	vp := roleParam(set, 2)
	if vp == nil {
		return out
	}
	for i, p := range set.Params {
		if p == vp {
			out[set] = i
		}
	}
	work := []*ssa.Function{set}
	for len(work) > 0 {
		f := work[len(work)-1]
		work = work[:len(work)-1]
		vi := out[f]
		allInstrs(f, func(in ssa.Instruction) {
			call, ok := in.(*ssa.Call)
			if !ok {
				return
			}
			g := call.Call.StaticCallee()
			if g == nil || pkgOf(g) != set.Pkg || len(g.Blocks) == 0 {
				return
			}
			if _, seen := out[g]; seen {
				return
			}
			for k, a := range call.Call.Args {
				if a == ssa.Value(f.Params[vi]) && k < len(g.Params) {
					out[g] = k
					work = append(work, g)
				}
			}
		})
	}
	return out
}
