package main

import (
	"fmt"
	"go/token"
	"go/types"
	"reflect"
	"regexp"
	"strings"

	"golang.org/x/tools/go/ssa"
)

func init() {
	register("C17", "positions: NodeStartPos exhaustive, token-position provenance, error-position provenance, chain structure", checkC17)
}

type posRef struct {
	Fields map[string][]string `json:"fields"`
}

var reDollar = regexp.MustCompile(`^\$(\d+)(.*)$`)
var reChildPos = regexp.MustCompile(`^(?:\.(\w+)\(\))?\.(\w+)\.Pos$`)

func checkC17(c *Ctx) {
	r, t := c.R, c.T
	r.Explanation = "Decides structurally: (1) NODE-START: ast.NodeStartPos has an arm for every NodeType constant except TypeInvalid and each arm returns a position stored in that node (or the start of its first child), dereferencing no field that a successfully parsed tree may leave nil without a nil test; (2) TOKEN-POS: composing the grammar action-flow (proved in sync with the compiled parser) with the SSA field provenance of the parser constructors, every position field of every AST struct is fed by the byte offset (Item.Pos, set to Lexer.start at emit) of a token of the kind reference/position_fields.json prescribes — never by the parser's look-ahead item; (3) LNCOL: both lookup routines reject pos<0 and pos>len(text) before any table access; (4) ERR-POS: the position argument of every NewRunError/NewErr/ChainAppend in the run scope, the check scope and the v2 scope derives from an AST node that is a parameter of the reporting function (field or StartPos() of it or of a child), token.InvalidLnColPos is used only under a nil test of that node, and the file argument is the task's script name; (5) CHAIN: PlError.Copy builds PosChain in fresh storage, ChainAppend/NewErr fill {File,Ln,Col,Pos} from their arguments in that order, Error() renders element 0 with \"%s:%d:%d: %s\" and the others with \"\\n%s:%d:%d:\" over (File,Ln,Col), and the JSON field names are distinct. Not decided: that the two lookup routines agree on every offset of every text (value-level), and that an error names the *right* node among the nodes of the statement."
	r.Trusted = []string{"go/ssa lowering", "goyacc driver: yyDollar[k] holds the semantic value of the k-th right-hand-side symbol"}
	c17NodeStart(c)
	c17TokenPos(c)
	c17LnCol(c)
	c17ErrPos(c)
	c17Chain(c)
	_ = t
}

// successNilable computes AST fields that a successfully parsed tree may leave nil:
// fields fed a literal nil by some grammar action, or omitted by some composite literal of a constructor.
func successNilable(c *Ctx, g *Gram, ctors map[string]*CtorSummary) map[string]string {
	out := map[string]string{}
	if g != nil {
		for _, p := range g.Prods[1:] {
			ff, _ := g.FieldFlow(p, ctors)
			for f, srcs := range ff {
				for s := range srcs {
					if s == "nil" || strings.HasPrefix(s, "nil.") {
						out[f] = fmt.Sprintf("production %d (%s: %s) passes nil", p.Num, p.LHS, strings.Join(p.RHS, " "))
					}
				}
			}
		}
	}
	// omitted pointer fields in a composite literal of a constructor
	for _, cs := range ctors {
		allInstrs(cs.Fn, func(in ssa.Instruction) {
			a, ok := in.(*ssa.Alloc)
			if !ok || !a.Heap {
				return
			}
			st := structOfPtr(a.Type())
			sn := namedOf(a.Type())
			if st == nil || !strings.HasPrefix(sn, "ast.") {
				return
			}
			stored := map[string]bool{}
			for _, ref := range *a.Referrers() {
				if fa, ok := ref.(*ssa.FieldAddr); ok {
					for _, rr := range *fa.Referrers() {
						if _, ok := rr.(*ssa.Store); ok {
							stored[fieldName(fa)] = true
						}
					}
				}
			}
			for i := 0; i < st.NumFields(); i++ {
				f := st.Field(i)
				if _, isPtr := f.Type().Underlying().(*types.Pointer); isPtr && !stored[f.Name()] {
					out[strings.TrimPrefix(sn, "ast.")+"."+f.Name()] = cs.Name + " leaves it unset in one of its composite literals"
				}
			}
		})
	}
	return out
}

func c17NodeStart(c *Ctx) {
	r, t := c.R, c.T
	fn := t.Func(pAst, "NodeStartPos")
	if fn == nil {
		r.Undecided("NODE-START", "ast.NodeStartPos", "pkg/ast/ast.go", "unresolved anchor")
		return
	}
	r.Fn(relName(fn))
	names := nodeTypeNames(t)
	k2s, _ := kindTable(t)
	// arms: return blocks controlled by node.NodeType == K
	type armInfo struct {
		val ssa.Value
		at  ssa.Instruction
	}
	arm := map[int64]*armInfo{}
	record := func(val ssa.Value, at ssa.Instruction, b *ssa.BasicBlock) {
		for _, ec := range controlling(b) {
			if bo, ok := ec.Cond.(*ssa.BinOp); ok && bo.Op == token.EQL && ec.Pol && strings.HasSuffix(path(bo.X), ".NodeType") {
				if v, ok := constInt(bo.Y); ok {
					if _, dup := arm[v]; !dup || !strings.Contains(path(val), "InvalidLnColPos") {
						arm[v] = &armInfo{val, at}
					}
				}
			}
		}
	}
	// the node being examined: the parameter, or the loop variable that starts as the parameter and descends to a
	// first child (`for { switch node.NodeType { case K: node = node.K().LHS … } }`)
	isNodeVar := func(v ssa.Value) bool {
		if v == ssa.Value(fn.Params[0]) {
			return true
		}
		if ph, ok := v.(*ssa.Phi); ok {
			for _, e := range ph.Edges {
				if e == ssa.Value(fn.Params[0]) {
					return true
				}
			}
		}
		return false
	}
	// the iterative form: an arm that sets the loop variable to a child and goes round again stands for "the start
	// of that child"
	for _, b := range fn.Blocks {
		for _, in := range b.Instrs {
			ph, ok := in.(*ssa.Phi)
			if !ok || !isNodeVar(ph) {
				continue
			}
			for i, e := range ph.Edges {
				if e == ssa.Value(fn.Params[0]) || e == ssa.Value(ph) {
					continue
				}
				pb := b.Preds[i]
				record(e, pb.Instrs[len(pb.Instrs)-1], pb)
			}
		}
	}
	// the dispatcher may route groups of kinds to same-package helpers that hold the arms
	fns := []*ssa.Function{fn}
	isHelper := map[*ssa.Function]bool{}
	allInstrs(fn, func(in ssa.Instruction) {
		if call, ok := in.(*ssa.Call); ok {
			if h := call.Call.StaticCallee(); h != nil && h.Pkg == fn.Pkg && len(h.Blocks) > 0 && h.Signature.Recv() == nil && len(call.Call.Args) == 1 && isNodeVar(call.Call.Args[0]) {
				if !isHelper[h] {
					isHelper[h] = true
					fns = append(fns, h)
				}
			}
		}
	})
	for _, g := range fns {
		allInstrs(g, func(in ssa.Instruction) {
			ret, ok := in.(*ssa.Return)
			if !ok {
				return
			}
			if call, isC := ret.Results[0].(*ssa.Call); isC && isHelper[call.Call.StaticCallee()] {
				return // routed to a helper: the arm is there
			}
			// a single exit fed by one assignment per arm: each incoming value is that arm's result
			if ph, isP := ret.Results[0].(*ssa.Phi); isP && ph.Block() == ret.Block() {
				for i, e := range ph.Edges {
					pb := ret.Block().Preds[i]
					record(e, pb.Instrs[len(pb.Instrs)-1], pb)
				}
				return
			}
			record(ret.Results[0], ret, ret.Block())
		})
	}
	for k, name := range names {
		if name == "TypeInvalid" {
			continue
		}
		ret := arm[k]
		key := "NodeStartPos arm " + name
		if ret == nil {
			r.Ob("NODE-START", key, t.Pos(fn.Pos()), false, "no arm for this node kind: an error that points at such a node is reported at -1:-1")
			continue
		}
		p := path(ret.val)
		sn := k2s[k]
		ok := strings.Contains(p, "."+sn+"()") || strings.Contains(p, "phi:")
		if strings.Contains(p, "InvalidLnColPos") && !strings.Contains(p, "phi:") {
			ok = false
		}
		r.Ob("NODE-START", key, t.Pos(ret.at.Pos()), ok, "arm returns "+p)
	}
	r.Floor("NODE-START", 24)
	// nil-safety inside NodeStartPos
	g := c.Gram()
	ctors := parserCtors(t, nil)
	nilable := successNilable(c, g, ctors)
	r.Extra["success_nilable_fields"] = nilable
	nilDerefRule(c, "NODE-START-NIL", fn, nilable)
}

// nilDerefRule: in fn, every dereference of a value loaded from a success-nilable AST field must be
// dominated by a nil test of that same access path.
func nilDerefRule(c *Ctx, rule string, fn *ssa.Function, nilable map[string]string) int {
	r, t := c.R, c.T
	n := 0
	allInstrs(fn, func(in ssa.Instruction) {
		// dereference sites: FieldAddr / method call with receiver / IndexAddr whose base is a load of a nilable field
		var base ssa.Value
		switch x := in.(type) {
		case *ssa.FieldAddr:
			base = x.X
		case *ssa.Call:
			if f := x.Call.StaticCallee(); f != nil && f.Signature.Recv() != nil && len(x.Call.Args) > 0 {
				// methods with a nil-tolerant body (NodeStartPos via StartPos) are not dereferences
				if f.Name() == "StartPos" || f.Name() == "String" {
					return
				}
				base = x.Call.Args[0]
			}
		}
		if base == nil {
			return
		}
		ld, ok := base.(*ssa.UnOp)
		if !ok || ld.Op != token.MUL {
			return
		}
		fa, ok := ld.X.(*ssa.FieldAddr)
		if !ok {
			return
		}
		sn := strings.TrimPrefix(namedOf(fa.X.Type()), "ast.")
		why, isNilable := nilable[sn+"."+fieldName(fa)]
		if !isNilable {
			return
		}
		n++
		p := path(base)
		guarded := false
		for _, ec := range controlling(in.Block()) {
			if bo, ok := ec.Cond.(*ssa.BinOp); ok && isNilConst(bo.Y) && path(bo.X) == p {
				if (bo.Op == token.NEQ && ec.Pol) || (bo.Op == token.EQL && !ec.Pol) {
					guarded = true
				}
			}
		}
		r.Ob(rule, fmt.Sprintf("%s dereferences %s #%d", relName(fn), p, ordinalDeref(fn, in, p)), t.Pos(in.Pos()), guarded,
			fmt.Sprintf("%s.%s may be nil in a tree that parsed without error (%s) and is dereferenced without a nil test", sn, fieldName(fa), why))
	})
	return n
}

func ordinalDeref(fn *ssa.Function, x ssa.Instruction, p string) int {
	n := 0
	for _, b := range fn.Blocks {
		for _, in := range b.Instrs {
			var base ssa.Value
			switch y := in.(type) {
			case *ssa.FieldAddr:
				base = y.X
			case *ssa.Call:
				if len(y.Call.Args) > 0 {
					base = y.Call.Args[0]
				}
			}
			if base != nil && path(base) == p {
				n++
			}
			if in == x {
				return n
			}
		}
	}
	return n
}

func c17TokenPos(c *Ctx) {
	r, t := c.R, c.T
	g := c.requireGram()
	if g == nil {
		return
	}
	var ref posRef
	if !mustRef(c, "position_fields.json", &ref) {
		return
	}
	called := map[string]bool{}
	for _, cl := range g.AllCalls() {
		called[cl.Name] = true
	}
	ctors := parserCtors(t, called)
	for _, cs := range ctors {
		r.Fn(relName(cs.Fn))
	}
	seenField := map[string]bool{}
	for _, p := range g.Prods[1:] {
		ff, _ := g.FieldFlow(p, ctors)
		for _, f := range sortedKeys(ff) {
			allowed, isPos := ref.Fields[f]
			if !isPos {
				continue
			}
			seenField[f] = true
			for _, src := range sortedKeys(ff[f]) {
				key := fmt.Sprintf("rule %d `%s: %s` %s <- %s", p.Num, p.LHS, strings.Join(p.RHS, " "), f, src)
				pos := fmt.Sprintf("pkg/parser/gram.y:%d", p.Line)
				if strings.HasPrefix(src, "lookahead") {
					r.Ob("TOKEN-POS", fmt.Sprintf("rule %d `%s: %s` %s", p.Num, p.LHS, strings.Join(p.RHS, " "), f), pos, false,
						fmt.Sprintf("%s is taken from the parser's look-ahead item (%s): at reduction time that is the token *after* the construct, so the stored position is not the %v token's", f, src, allowed))
					continue
				}
				m := reDollar.FindStringSubmatch(src)
				if m == nil {
					// carried over from an existing node (index chain appends, list literal end …): fine if it stays within the same field
					if strings.Contains(src, "()."+f[strings.Index(f, ".")+1:]) || strings.HasPrefix(src, "$$") {
						r.Ob("TOKEN-POS", key, pos, true, "carried over from the node being extended")
						continue
					}
					r.Ob("TOKEN-POS", key, pos, false, "position does not come from a token of this production")
					continue
				}
				var k int
				fmt.Sscan(m[1], &k)
				sym := p.RHS[k-1]
				okSym := false
				for _, a := range allowed {
					if a == sym {
						okSym = true
					}
				}
				if cls := g.tokenClass(sym); !okSym && len(cls) > 0 {
					// an operator-class non-terminal hands its token up unchanged: its position is that token's
					am := map[string]bool{}
					for _, a := range allowed {
						am[a] = true
					}
					okSym = allIn(cls, am)
				}
				rest := m[2]
				// a position copied from a child node's own position field: admissible when that field's token kinds
				// are among the kinds this field expects ($1.LBracePos.Pos of a block, $2.InExpr().OpPos.Pos)
				if cm := reChildPos.FindStringSubmatch(rest); cm != nil {
					for cf, ca := range ref.Fields {
						if !strings.HasSuffix(cf, "."+cm[2]) || (cm[1] != "" && !strings.HasPrefix(cf, cm[1]+".")) {
							continue
						}
						sub := true
						for _, x := range ca {
							in := false
							for _, a := range allowed {
								if a == x {
									in = true
								}
							}
							if !in {
								sub = false
							}
						}
						if sub {
							okSym = true
						}
					}
				}
				okSel := rest == ".Pos" || strings.HasSuffix(rest, ".Pos") || strings.HasSuffix(rest, ".Start") || strings.HasSuffix(rest, "StartPos()") ||
					strings.Contains(rest, "()."+f[strings.Index(f, ".")+1:])
				if strings.Contains(rest, "()."+f[strings.Index(f, ".")+1:]) {
					okSym = true // extension of an existing node of the same kind
				}
				r.Ob("TOKEN-POS", key, pos, okSym && okSel, fmt.Sprintf("symbol $%d is %s, field expects the position of one of %v", k, sym, allowed))
			}
		}
	}
	for f := range ref.Fields {
		if !seenField[f] {
			r.Ob("TOKEN-POS", "field "+f+" is set by some production", "pkg/parser/parser.go", false, "no grammar action stores this position field any more: it stays the zero position")
		}
	}
	r.Floor("TOKEN-POS", 140)
	// Item.Pos is Lexer.start at emit
	emit := t.Method(pParser, "Lexer", "emit")
	okEmit := false
	if emit != nil {
		r.Fn(relName(emit))
		allInstrs(emit, func(in ssa.Instruction) {
			if s, ok := in.(*ssa.Store); ok {
				if fa, ok := s.Addr.(*ssa.FieldAddr); ok && fieldName(fa) == "Pos" && strings.HasSuffix(path(s.Val), ".start") {
					okEmit = true
				}
			}
		})
	}
	r.Ob("TOKEN-POS", "Lexer.emit stamps Item.Pos with the token's start offset", "pkg/parser/lex.go", okEmit, "Item.Pos must be l.start")
	// LnCol conversion: every position field store in a constructor passes through posCache.LnCol
	for _, name := range sortedKeys(ctors) {
		cs := ctors[name]
		allInstrs(cs.Fn, func(in ssa.Instruction) {
			s, ok := in.(*ssa.Store)
			if !ok {
				return
			}
			fa, ok := s.Addr.(*ssa.FieldAddr)
			if !ok {
				return
			}
			key := strings.TrimPrefix(namedOf(fa.X.Type()), "ast.") + "." + fieldName(fa)
			if _, isPos := ref.Fields[key]; !isPos || namedOf(s.Val.Type()) != "token.LnColPos" {
				return
			}
			via := false
			if call, ok := s.Val.(*ssa.Call); ok && call.Call.StaticCallee() != nil && fnName(call.Call.StaticCallee()) == "LnCol" && strings.HasSuffix(path(call.Call.Args[0]), ".posCache") {
				via = true
			}
			if ld, ok := s.Val.(*ssa.UnOp); ok && strings.HasSuffix(path(ld), ".Start") {
				via = true // copied from a child node's own position (CallExpr.NamePos)
			}
			if call, ok := s.Val.(*ssa.Call); ok && call.Call.StaticCallee() != nil {
				if n := fnName(call.Call.StaticCallee()); (n == "StartPos" || n == "NodeStartPos") && len(call.Call.Args) == 1 {
					if _, isP := rootOf(call.Call.Args[0]).(*ssa.Parameter); isP {
						via = true // the start of a child node, itself a stored position
					}
				}
			}
			r.Ob("TOKEN-POS-CONV", name+" "+key, t.Pos(s.Pos()), via, "line/column must be computed by this parse's PosCache from the byte offset")
		})
	}
	r.Floor("TOKEN-POS-CONV", 30)
	// SLICE-ALIAS: two slice-typed fields of a node must not be views of one backing array (appending to one
	// would overwrite the other's elements): every slice stored into a tree field is either a whole fresh array,
	// an append result, or a slice whose capacity is cut to its length.
	nSl := 0
	for _, name := range sortedKeys(ctors) {
		cs := ctors[name]
		byAlloc := map[*ssa.Alloc][]string{}
		allInstrs(cs.Fn, func(in ssa.Instruction) {
			s, ok := in.(*ssa.Store)
			if !ok {
				return
			}
			fa, ok := s.Addr.(*ssa.FieldAddr)
			if !ok || !strings.HasPrefix(namedOf(fa.X.Type()), "ast.") {
				return
			}
			sl, ok := s.Val.(*ssa.Slice)
			if !ok {
				return
			}
			a, ok := sl.X.(*ssa.Alloc)
			if !ok {
				return
			}
			nSl++
			key := strings.TrimPrefix(namedOf(fa.X.Type()), "ast.") + "." + fieldName(fa)
			if sl.Max == nil && (sl.Low != nil || sl.High != nil) {
				byAlloc[a] = append(byAlloc[a], key+" (partial view, capacity not limited)")
			} else {
				byAlloc[a] = append(byAlloc[a], key)
			}
		})
		for a, users := range byAlloc {
			shared := len(users) > 1
			partial := false
			for _, u := range users {
				if strings.Contains(u, "partial view") {
					partial = true
				}
			}
			r.Ob("SLICE-ALIAS", fmt.Sprintf("%s backing array #%d", name, ordinalOf(cs.Fn, a)), t.Pos(a.Pos()), !(shared || partial),
				fmt.Sprintf("fields %v are views of one local array: a later append through one of them writes into the storage of the other (positions of earlier tokens get overwritten)", users))
		}
	}
	r.FloorN("slice-valued tree field stores", nSl, 6)
}

func c17LnCol(c *Ctx) {
	r, t := c.R, c.T
	c17LineBreaks(c)
	posCacheReinit(c, "LNCOL")
	for _, fn := range []*ssa.Function{t.Method(pToken, "PosCache", "LnCol"), t.Func(pToken, "LnCol")} {
		if fn == nil {
			r.Undecided("LNCOL", "token.LnCol routines", "pkg/token/token.go", "unresolved anchor")
			continue
		}
		r.Fn(relName(fn))
		posP := fn.Params[len(fn.Params)-1]
		lo, hi := false, false
		for _, b := range fn.Blocks {
			iff, ok := b.Instrs[len(b.Instrs)-1].(*ssa.If)
			if !ok {
				continue
			}
			bo, ok := iff.Cond.(*ssa.BinOp)
			if !ok {
				continue
			}
			x, y := path(bo.X), path(bo.Y)
			// the true edge must end in the invalid/err return without touching the tables
			bad := leadsToInvalid(b.Succs[0])
			if x == posP.Name() && bo.Op == token.LSS && y == "0" && bad {
				lo = true
			}
			if x == posP.Name() && bo.Op == token.GTR && strings.HasPrefix(y, "len(") && bad {
				hi = true
			}
		}
		r.Ob("LNCOL", relName(fn)+" rejects negative offsets", t.Pos(fn.Pos()), lo, "pos < 0 must return the invalid position / an error")
		r.Ob("LNCOL", relName(fn)+" rejects offsets beyond the text", t.Pos(fn.Pos()), hi, "pos > len(text) must return the invalid position / an error")
		// the guards come first: no IndexAddr / Slice before them
		first := true
		for _, in := range fn.Blocks[0].Instrs {
			switch in.(type) {
			case *ssa.IndexAddr, *ssa.Slice, *ssa.Index:
				first = false
			}
		}
		r.Ob("LNCOL", relName(fn)+" checks bounds before any table access", t.Pos(fn.Pos()), first, "no indexing in the entry block")
	}
}

func leadsToInvalid(b *ssa.BasicBlock) bool {
	seen := map[*ssa.BasicBlock]bool{}
	for i := 0; i < 4 && !seen[b]; i++ {
		seen[b] = true
		if ret, ok := b.Instrs[len(b.Instrs)-1].(*ssa.Return); ok {
			p := path(ret.Results[len(ret.Results)-1])
			return strings.Contains(p, "InvalidLnColPos") || strings.Contains(p, "Errorf") || retError(ret) == "nonnil"
		}
		if len(b.Succs) != 1 {
			return false
		}
		b = b.Succs[0]
	}
	return false
}

func c17ErrPos(c *Ctx) {
	r, t := c.R, c.T
	v2, _ := v2Scope(t)
	scopes := []struct {
		name string
		fns  map[*ssa.Function]bool
	}{{"run", runScope(t)}, {"check", checkScope(t)}, {"v2", v2}}
	seen := map[ssa.Instruction]bool{}
	n := 0
	for _, sc := range scopes {
		var fns []*ssa.Function
		for f := range sc.fns {
			fns = append(fns, f)
		}
		sortFuncs(fns)
		for _, f := range fns {
			allInstrs(f, func(in ssa.Instruction) {
				call, ok := in.(*ssa.Call)
				if !ok || seen[in] {
					return
				}
				cal := call.Call.StaticCallee()
				if cal == nil {
					return
				}
				var posArg, fileArg ssa.Value
				what := cal.Name()
				switch {
				case fnName(cal) == "NewRunError" && len(call.Call.Args) == 3:
					posArg = call.Call.Args[2]
				case funcIs(cal, pErr, "NewErr"):
					posArg, fileArg = call.Call.Args[1], call.Call.Args[0]
				case funcIs(cal, pErr, "PlError.ChainAppend"):
					posArg, fileArg = call.Call.Args[2], call.Call.Args[1]
				default:
					return
				}
				seen[in] = true
				n++
				key := fmt.Sprintf("%s %s #%d position", relName(f), what, ordinalCall(f, call))
				if f.Name() == "NewRunError" && what == "NewErr" {
					// the wrapper itself: its callers' position arguments are the obligations; only the file is checked here
					fp := path(fileArg)
					r.Ob("ERR-FILE", fmt.Sprintf("%s %s #%d file", relName(f), what, ordinalCall(f, call)), t.Pos(call.Pos()), strings.HasSuffix(fp, ".name"), "file argument is "+fp+"; must be the task's script name")
					return
				}
				rt := rootOf(posArg)
				p := path(posArg)
				switch x := rt.(type) {
				case *ssa.Parameter:
					switch {
					case isAstTyped(x.Type()):
						r.Ob("ERR-POS", key, t.Pos(call.Pos()), true, "position "+p+" derives from node parameter "+x.Name())
					case namedOf(x.Type()) == "token.LnColPos":
						// helper with a position parameter: obligation moves to its call sites
						okAll := true
						nsites := 0
						for g := range sc.fns {
							allInstrs(g, func(in2 ssa.Instruction) {
								if c2, ok := in2.(*ssa.Call); ok && c2.Call.StaticCallee() == f {
									nsites++
									idx := paramIndex(f, x)
									if idx >= 0 && idx < len(c2.Call.Args) {
										if pr, ok := rootOf(c2.Call.Args[idx]).(*ssa.Parameter); !ok || !(isAstTyped(pr.Type()) || namedOf(pr.Type()) == "token.LnColPos") {
											okAll = false
										}
									}
								}
							})
						}
						r.Ob("ERR-POS", key, t.Pos(call.Pos()), okAll, fmt.Sprintf("position parameter %s: %d call sites in scope pass a node-derived position", x.Name(), nsites))
					default:
						r.Ob("ERR-POS", key, t.Pos(call.Pos()), false, "position "+p+" derives from parameter "+x.Name()+" which is not an AST node")
					}
				case *ssa.Global:
					if x.Name() == "InvalidLnColPos" {
						// admissible only under a nil test of the node the position would come from
						okNil := false
						for _, ec := range controlling(call.Block()) {
							if bo, ok := ec.Cond.(*ssa.BinOp); ok && isNilConst(bo.Y) && bo.Op == token.EQL && ec.Pol {
								if pr, ok := rootOf(bo.X).(*ssa.Parameter); ok && isAstTyped(pr.Type()) {
									okNil = true
								}
							}
						}
						r.Ob("ERR-POS", key, t.Pos(call.Pos()), okNil, "the invalid position is reported although a node is at hand")
					} else {
						r.Ob("ERR-POS", key, t.Pos(call.Pos()), false, "position comes from global "+x.Name())
					}
				default:
					// a phi over node-derived positions, or a value computed from a child evaluated earlier
					if ph, ok := rt.(*ssa.Phi); ok {
						okAll := true
						for _, e := range ph.Edges {
							if pr, ok := rootOf(e).(*ssa.Parameter); !ok || !isAstTyped(pr.Type()) {
								okAll = false
							}
						}
						r.Ob("ERR-POS", key, t.Pos(call.Pos()), okAll, "position "+p)
						return
					}
					// a local closure: the variable it captures from the enclosing function is that function's node parameter
					if fv, ok := rt.(*ssa.FreeVar); ok && isAstTyped(derefType(fv.Type())) && capturedParam(fv) != nil {
						r.Ob("ERR-POS", key, t.Pos(call.Pos()), true, "position "+p+" derives from the enclosing function's node parameter "+capturedParam(fv).Name()+", captured by the closure")
						return
					}
					r.Ob("ERR-POS", key, t.Pos(call.Pos()), false, fmt.Sprintf("position %s does not derive from an AST node parameter (root %T)", p, rt))
				}
				// file argument
				if fileArg != nil {
					fp := path(fileArg)
					okF := strings.HasSuffix(fp, ".name") || strings.HasSuffix(fp, ".Name()") || strings.HasSuffix(fp, ".Name") || fp == "file"
					r.Ob("ERR-FILE", fmt.Sprintf("%s %s #%d file", relName(f), what, ordinalCall(f, call)), t.Pos(call.Pos()), okF, "file argument is "+fp+"; must be the script name of the task / script")
				}
			})
		}
	}
	r.FloorN("error construction sites", n, 250)
}

func paramIndex(f *ssa.Function, p *ssa.Parameter) int {
	for i, q := range f.Params {
		if q == p {
			return i
		}
	}
	return -1
}

func ordinalCall(f *ssa.Function, x *ssa.Call) int {
	n := 0
	for _, b := range f.Blocks {
		for _, in := range b.Instrs {
			if c, ok := in.(*ssa.Call); ok && c.Call.StaticCallee() == x.Call.StaticCallee() {
				n++
				if c == x {
					return n
				}
			}
		}
	}
	return n
}

func sortFuncs(fs []*ssa.Function) {
	for i := 1; i < len(fs); i++ {
		for j := i; j > 0 && fs[j].String() < fs[j-1].String(); j-- {
			fs[j], fs[j-1] = fs[j-1], fs[j]
		}
	}
}

func c17Chain(c *Ctx) {
	r, t := c.R, c.T
	cp := t.Method(pErr, "PlError", "Copy")
	ca := t.Method(pErr, "PlError", "ChainAppend")
	ne := t.Func(pErr, "NewErr")
	er := t.Method(pErr, "PlError", "Error")
	if cp == nil || ca == nil || ne == nil || er == nil {
		r.Undecided("CHAIN", "errchain.PlError methods", "pkg/errchain/error.go", "unresolved anchor")
		return
	}
	r.Fn(relName(cp), relName(ca), relName(ne), relName(er))
	copyFreshObligation(c, "CHAIN")
	// a chain extended into another error object shares its backing array: the frame one importer appends is
	// overwritten by the next importer's (the premise shared with C15 APPEND-OWNED, on the error package only)
	appendOwnedRule(c, "CHAIN", []string{pErr, pEngine})
	// the frame appended for an outer use() call site carries that call site's own position
	nW := 0
	if push := t.Method(pEngine, "searchPath", "Push"); push != nil {
		for _, f := range t.PkgFuncs(pEngine) {
			uses := false
			var rec []*ssa.Call
			allInstrs(f, func(in ssa.Instruction) {
				if ci, ok := in.(*ssa.Call); ok {
					if ci.Call.StaticCallee() == push {
						uses = true
					}
					if ci.Call.StaticCallee() == f {
						rec = append(rec, ci)
					}
				}
			})
			if uses && len(rec) > 0 {
				nW++
				walkerChainRules(c, f, rec, "", "CALLSITE-POS")
			}
		}
	}
	r.FloorN("use() walkers with a recursive descent", nW, 1)
	r.Floor("CALLSITE-POS", 2)
	// element construction in ChainAppend and NewErr
	for _, fn := range []*ssa.Function{ca, ne} {
		want := map[string]string{"File": "file", "Ln": "pos.Ln", "Col": "pos.Col", "Pos": "pos.Pos"}
		got := map[string]string{}
		scan := func(g *ssa.Function, via *ssa.Call) {
			allInstrs(g, func(in ssa.Instruction) {
				s, ok := in.(*ssa.Store)
				if !ok {
					return
				}
				fa, ok := s.Addr.(*ssa.FieldAddr)
				if !ok || namedOf(fa.X.Type()) != "errchain.Position" {
					return
				}
				p := path(s.Val)
				if via != nil {
					p = translateParams(g, via, p)
				}
				got[fieldName(fa)] = p
			})
		}
		scan(fn, nil)
		allInstrs(fn, func(in ssa.Instruction) {
			if call, ok := in.(*ssa.Call); ok {
				if h := call.Call.StaticCallee(); h != nil && h.Pkg == fn.Pkg && len(h.Blocks) > 0 && h != fn && h.Signature.Results().Len() > 0 && namedOf(h.Signature.Results().At(0).Type()) == "errchain.Position" {
					scan(h, call)
				}
			}
		})
		for f, w := range want {
			r.Ob("CHAIN", fmt.Sprintf("%s fills Position.%s", relName(fn), f), t.Pos(fn.Pos()), got[f] == w, fmt.Sprintf("Position.%s <- %s, want %s", f, got[f], w))
		}
	}
	// ChainAppend appends to e.PosChain
	okApp := false
	allInstrs(ca, func(in ssa.Instruction) {
		if s, ok := in.(*ssa.Store); ok {
			if fa, ok := s.Addr.(*ssa.FieldAddr); ok && fieldName(fa) == "PosChain" {
				if call, ok := s.Val.(*ssa.Call); ok && builtinName(call) == "append" && path(call.Call.Args[0]) == path(fa) {
					okApp = true
				}
			}
		}
	})
	r.Ob("CHAIN", "PlError.ChainAppend appends at the end of PosChain", t.Pos(ca.Pos()), okApp, "outer call sites follow the root cause")
	// Error(): format strings and argument order
	type fm struct {
		format string
		args   []string
		first  bool
	}
	var fms []fm
	joinNL := false
	allInstrs(er, func(in ssa.Instruction) {
		call, ok := in.(*ssa.Call)
		if !ok {
			return
		}
		f := call.Call.StaticCallee()
		if f == nil {
			return
		}
		if f.Name() == "Join" && len(call.Call.Args) == 2 {
			if sep, isC := call.Call.Args[1].(*ssa.Const); isC && sep.Value != nil && sep.Value.ExactString() == `"\n"` {
				joinNL = true // the lines are built without their separator and joined by it
			}
		}
		fi := 0 // fmt.Sprintf(format, …) or fmt.Fprintf(w, format, …) into a builder
		switch f.Name() {
		case "Sprintf":
		case "Fprintf":
			fi = 1
		default:
			return
		}
		if len(call.Call.Args) < fi+2 {
			return
		}
		cst, ok := call.Call.Args[fi].(*ssa.Const)
		if !ok {
			return
		}
		x := fm{format: strings.Trim(cst.Value.ExactString(), `"`)}
		if sl, ok := call.Call.Args[fi+1].(*ssa.Slice); ok {
			if a, ok := sl.X.(*ssa.Alloc); ok {
				byIdx := map[int64]string{}
				for _, ref := range *a.Referrers() {
					if ia, ok := ref.(*ssa.IndexAddr); ok {
						k, _ := constInt(ia.Index)
						for _, rr := range *ia.Referrers() {
							if s, ok := rr.(*ssa.Store); ok {
								p := path(s.Val)
								byIdx[k] = p[strings.LastIndex(p, ".")+1:]
								if strings.Contains(p, "PosChain[0].") {
									x.first = true // formats the head element, wherever the call sits
								}
							}
						}
					}
				}
				for i := int64(0); i < int64(len(byIdx)); i++ {
					x.args = append(x.args, byIdx[i])
				}
			}
		}
		for _, ec := range controlling(call.Block()) {
			s := ec.String()
			if strings.Contains(s, "== 0") && ec.Pol {
				x.first = true
			}
		}
		fms = append(fms, x)
	})
	okFirst, okRest := false, false
	for _, x := range fms {
		if x.first && x.format == `%s:%d:%d: %s` && reflect.DeepEqual(x.args, []string{"File", "Ln", "Col", "Err"}) {
			okFirst = true
		}
		if !x.first && (x.format == `\n%s:%d:%d:` || (joinNL && x.format == `%s:%d:%d:`)) && reflect.DeepEqual(x.args, []string{"File", "Ln", "Col"}) {
			okRest = true
		}
	}
	r.Ob("CHAIN", "PlError.Error renders element 0 as file:ln:col: message", t.Pos(er.Pos()), okFirst, fmt.Sprintf("formats found: %+v", fms))
	r.Ob("CHAIN", "PlError.Error renders outer call sites as \\nfile:ln:col:", t.Pos(er.Pos()), okRest, fmt.Sprintf("formats found: %+v", fms))
	// JSON tags
	for _, tn := range []string{"Position", "PlError"} {
		_, st := t.NamedStruct(pErr, tn)
		if st == nil {
			r.Undecided("CHAIN", "errchain."+tn, "pkg/errchain/error.go", "type not found")
			continue
		}
		tags := map[string]bool{}
		ok := true
		for i := 0; i < st.NumFields(); i++ {
			tag := reflect.StructTag(st.Tag(i)).Get("json")
			name := strings.Split(tag, ",")[0]
			if name == "" || name == "-" || tags[name] || !st.Field(i).Exported() {
				ok = false
			}
			tags[name] = true
		}
		r.Ob("CHAIN", "errchain."+tn+" JSON field names are distinct and exported", "pkg/errchain/error.go", ok, "a JSON round trip must preserve every field")
	}
}

// copyFreshObligation: PlError.Copy must build the PosChain of the copy in fresh storage
// (append(<fresh slice>, e.PosChain...) or make+copy); a struct copy shares the backing array, so
// ChainAppend on one copy overwrites the call site recorded in another.
func copyFreshObligation(c *Ctx, rule string) {
	r, t := c.R, c.T
	cp := t.Method(pErr, "PlError", "Copy")
	if cp == nil {
		r.Undecided(rule, "errchain.PlError.Copy", "pkg/errchain/error.go", "unresolved anchor")
		return
	}
	r.Fn(relName(cp))
	fresh := false
	allInstrs(cp, func(in ssa.Instruction) {
		s, ok := in.(*ssa.Store)
		if !ok {
			return
		}
		fa, ok := s.Addr.(*ssa.FieldAddr)
		if !ok || fieldName(fa) != "PosChain" {
			return
		}
		if _, isNew := fa.X.(*ssa.Alloc); !isNew {
			return
		}
		if call, ok := s.Val.(*ssa.Call); ok && builtinName(call) == "append" {
			switch b := rootOf(call.Call.Args[0]).(type) {
			case *ssa.Alloc, *ssa.MakeSlice:
				fresh = true
			case *ssa.Const:
				fresh = b.Value == nil
			}
		}
		if _, ok := s.Val.(*ssa.MakeSlice); ok {
			fresh = true
		}
	})
	r.Ob(rule, "PlError.Copy builds PosChain in fresh storage", t.Pos(cp.Pos()), fresh, "the copy must not share the original's backing array: appending a call site to one copy would overwrite the call site recorded in another copy of the same stored error")
}

// c17LineBreaks: the two routines that turn offsets into lines record every '\n' (unconditionally under that test).
func c17LineBreaks(c *Ctx) {
	r, t := c.R, c.T
	for _, fn := range []*ssa.Function{t.Func(pToken, "NewPosCache"), t.Func(pToken, "LnCol")} {
		if fn == nil {
			r.Undecided("LNCOL", "token.NewPosCache / token.LnCol", "pkg/token/token.go", "unresolved anchor")
			continue
		}
		r.Fn(relName(fn))
		// every line break counts: the line bookkeeping sits under the test c == '\n' and nothing else
		{
			nNL, okNL := 0, true
			extra := ""
			// the loop may live in a helper of the same package that fn calls on every path (e.g. a Reset method)
			cands := []*ssa.Function{fn}
			allInstrs(fn, func(in ssa.Instruction) {
				if call, ok := in.(*ssa.Call); ok {
					if g := call.Call.StaticCallee(); g != nil && g.Pkg == fn.Pkg && len(g.Blocks) > 0 && g != fn && len(controlling(call.Block())) == 0 {
						cands = append(cands, g)
					}
				}
			})
			for _, fn := range cands {
				allInstrs(fn, func(in ssa.Instruction) {
					iff, ok := in.(*ssa.If)
					if !ok {
						return
					}
					bo, ok := iff.Cond.(*ssa.BinOp)
					if !ok || bo.Op != token.EQL {
						return
					}
					if k, isC := constInt(bo.Y); !isC || k != 10 {
						return
					}
					nNL++
					// the true successor does the bookkeeping directly
					tb := iff.Block().Succs[0]
					var loop *natLoop
					for _, l := range naturalLoops(fn) {
						if l.Blocks[iff.Block()] && (loop == nil || len(l.Blocks) < len(loop.Blocks)) {
							loop = l
						}
					}
					for _, ec := range controlling(tb) {
						if ec.If == iff.Block() || loop == nil || !loop.Blocks[ec.If] || ec.If == loop.Header {
							continue // only per-iteration conditions matter (not the entry checks, not the loop test)
						}
						cs := ec.String()
						// loop conditions of the range are fine; any other data condition is not
						if strings.Contains(cs, "rangeindex") || strings.Contains(cs, "next(") || strings.Contains(cs, "#0") {
							continue
						}
						if b2, ok := ec.Cond.(*ssa.BinOp); ok && (strings.Contains(path(b2.X), "phi:") && strings.Contains(path(b2.Y), "len(")) {
							continue
						}
						okNL = false
						extra = cs
					}
					if len(tb.Instrs) > 0 {
						if i2, ok := tb.Instrs[len(tb.Instrs)-1].(*ssa.If); ok {
							okNL = false
							extra = "a further test follows: " + condStr(i2.Cond)
						}
					}
				})
			}
			r.Ob("LNCOL", relName(fn)+" counts every line break", t.Pos(fn.Pos()), nNL == 1 && okNL, fmt.Sprintf("%d tests `c == '\\n'`; extra condition on the bookkeeping: %q — a line break that is not recorded shifts every later position to the previous line", nNL, extra))
		}
	}
}

func derefType(t types.Type) types.Type {
	if p, ok := t.Underlying().(*types.Pointer); ok {
		if _, isNamed := t.(*types.Named); !isNamed {
			if isAstTyped(p.Elem()) {
				return p.Elem()
			}
		}
	}
	return t
}

// capturedParam: the free variable is bound, at every creation of its closure, to a parameter of the enclosing
// function (by value, or by reference to the parameter's own never-reassigned slot).
func capturedParam(fv *ssa.FreeVar) *ssa.Parameter {
	f := fv.Parent()
	if f == nil || f.Parent() == nil {
		return nil
	}
	k := -1
	for i, x := range f.FreeVars {
		if x == fv {
			k = i
		}
	}
	var res *ssa.Parameter
	bad := false
	allInstrs(f.Parent(), func(in ssa.Instruction) {
		mc, ok := in.(*ssa.MakeClosure)
		if !ok || mc.Fn != ssa.Value(f) || k < 0 || k >= len(mc.Bindings) {
			return
		}
		switch b := mc.Bindings[k].(type) {
		case *ssa.Parameter:
			res = b
		case *ssa.Alloc:
			if p := spilledParam(b); p != nil {
				res = p
			} else {
				bad = true
			}
		default:
			bad = true
		}
	})
	if bad {
		return nil
	}
	return res
}
