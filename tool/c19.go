package main

import (
	"fmt"
	"go/token"
	"regexp"
	"sort"
	"strings"

	"golang.org/x/tools/go/ssa"
)

func init() {
	register("C19", "v2 argument binding: rejection obligations, dead guards, store-index provenance, getters", checkC19)
}

// condDesc renders a controlling edge as a canonical fact string. Boolean phis (flags) are rendered
// by the condition under which they are set true: flag{<cond>}.
func condDesc(ec edgeCond) string {
	s := valDesc(ec.Cond, 0)
	if !ec.Pol {
		s = "!(" + s + ")"
	}
	return canonFact(normLoopIdx(ec.If.Parent(), s))
}

var reRangeIdx = regexp.MustCompile(`\(phi:t\d+\+1\)`)

// normLoopIdx: the current index of a loop over a list is rendered `#i` whether the loop is a range loop (go/ssa:
// phi starting at -1, used as phi+1) or an index loop (phi starting at 0, incremented by one).
func normLoopIdx(fn *ssa.Function, s string) string {
	s = reRangeIdx.ReplaceAllString(s, "#i")
	if !strings.Contains(s, "phi:") {
		return s
	}
	allInstrs(fn, func(in ssa.Instruction) {
		ph, ok := in.(*ssa.Phi)
		if !ok || !isIntType(ph.Type()) {
			return
		}
		zero, inc := false, false
		for _, e := range ph.Edges {
			if k, isC := constInt(e); isC && k == 0 {
				zero = true
			} else if bo, isB := e.(*ssa.BinOp); isB && bo.Op == token.ADD && bo.X == ssa.Value(ph) {
				if k, isC := constInt(bo.Y); isC && k == 1 {
					inc = true
				}
			}
		}
		if zero && inc && len(ph.Edges) == 2 {
			s = strings.ReplaceAll(s, "phi:"+ph.Name(), "#i")
		}
	})
	return s
}

// canonFact: one canonical spelling per fact: a negated ==/!= comparison is the opposite comparison, operands of an
// equality are ordered, redundant parentheses dropped; the conditions inside flag{…} likewise.
func canonFact(s string) string {
	if strings.HasPrefix(s, "!(flag{") && strings.HasSuffix(s, "})") {
		return "!(" + canonFact(s[2:len(s)-1]) + ")"
	}
	if strings.HasPrefix(s, "flag{") && strings.HasSuffix(s, "}") {
		var parts []string
		for _, p := range strings.Split(s[5:len(s)-1], "|") {
			if p == "" || p == "…" {
				parts = append(parts, p)
				continue
			}
			parts = append(parts, canonFact(p))
		}
		sort.Strings(parts)
		return "flag{" + strings.Join(parts, "|") + "}"
	}
	l := canonLit(s)
	if l[0] == '+' {
		return l[1:]
	}
	return "!(" + l[1:] + ")"
}

func valDesc(v ssa.Value, depth int) string {
	switch x := v.(type) {
	case *ssa.Phi:
		if depth > 2 {
			return "flag{…}"
		}
		// where does `true` flow in from?
		var setters []string
		seen := map[*ssa.Phi]bool{}
		var walk func(p *ssa.Phi)
		walk = func(p *ssa.Phi) {
			if seen[p] {
				return
			}
			seen[p] = true
			for i, e := range p.Edges {
				switch ev := e.(type) {
				case *ssa.Const:
					if ev.Value != nil && ev.Value.ExactString() == "true" {
						pred := p.Block().Preds[i]
						var cs []string
						for _, ec := range controlling(pred) {
							if _, isPhi := ec.Cond.(*ssa.Phi); isPhi {
								continue
							}
							d := valDesc(ec.Cond, depth+1)
							if !ec.Pol {
								d = "!(" + d + ")"
							}
							d = canonFact(normLoopIdx(p.Parent(), d))
							// loop bounds and "an earlier rejection was not taken" say nothing about when the flag is set
							if strings.Contains(d, "#i") || strings.Contains(d, "phi:") || rejectingOther(ec) {
								continue
							}
							cs = append(cs, d)
						}
						if len(cs) > 0 {
							setters = append(setters, cs[len(cs)-1])
						}
					}
				case *ssa.Phi:
					walk(ev)
				default:
					// the flag takes the value of a boolean expression: it is set when that expression holds
					setters = append(setters, canonFact(normLoopIdx(p.Parent(), valDesc(ev, depth+1))))
				}
			}
		}
		walk(x)
		sort.Strings(setters)
		return "flag{" + strings.Join(setters, "|") + "}"
	case *ssa.BinOp:
		return path(x.X) + " " + x.Op.String() + " " + path(x.Y)
	case *ssa.Extract:
		if lk, ok := x.Tuple.(*ssa.Lookup); ok && lk.CommaOk && x.Index == 1 {
			return "has(" + path(lk.X) + ", " + path(lk.Index) + ")"
		}
	case *ssa.UnOp:
		if x.Op == token.NOT {
			return "!(" + valDesc(x.X, depth) + ")"
		}
	}
	return path(v)
}

type rejectSite struct {
	ret     *ssa.Return
	facts   []string
	neutral []bool // the fact is a range-loop bound or "an earlier rejection was not taken"
	ecs     []edgeCond
}

// errHelpers: same-package helpers whose error result fn hands back to its own caller (`if err := h(…); err != nil
// { return err }`), with the call site: their rejections are fn's rejections.
func errHelpers(fn *ssa.Function) map[*ssa.Function]*ssa.Call {
	out := map[*ssa.Function]*ssa.Call{}
	allInstrs(fn, func(in ssa.Instruction) {
		call, ok := in.(*ssa.Call)
		if !ok {
			return
		}
		h := call.Call.StaticCallee()
		if h == nil || h == fn || h.Pkg != fn.Pkg || len(h.Blocks) == 0 || h.Signature.Results().Len() != 1 {
			return
		}
		rt := h.Signature.Results().At(0).Type().String()
		if rt != "error" && !strings.HasSuffix(rt, "errchain.PlError") {
			return
		}
		returned := false
		for _, ref := range *call.Referrers() {
			if ret, isR := ref.(*ssa.Return); isR && ret.Results[len(ret.Results)-1] == ssa.Value(call) {
				returned = true
			}
			if mi, isM := ref.(*ssa.MakeInterface); isM {
				for _, r2 := range *mi.Referrers() {
					if _, isR := r2.(*ssa.Return); isR {
						returned = true
					}
				}
			}
		}
		if returned {
			out[h] = call
		}
	})
	return out
}

// translateParams: rewrite the helper's parameter names in a fact to the access paths of the actual arguments.
func translateParams(h *ssa.Function, call *ssa.Call, s string) string {
	for k, prm := range h.Params {
		if k >= len(call.Call.Args) {
			break
		}
		re := regexp.MustCompile(`(^|[^A-Za-z0-9_.])` + regexp.QuoteMeta(pname(prm)) + `($|[^A-Za-z0-9_])`)
		actual := path(call.Call.Args[k])
		for i := 0; i < 4 && re.MatchString(s); i++ {
			s = re.ReplaceAllString(s, "${1}"+strings.ReplaceAll(actual, "$", "$$")+"${2}")
		}
	}
	return s
}

func rejectSites(fn *ssa.Function) []rejectSite {
	var out []rejectSite
	sitesOf := func(g *ssa.Function, via *ssa.Call) {
		var pre rejectSite
		if via != nil {
			for _, ec := range controlling(via.Block()) {
				pre.facts = append(pre.facts, condDesc(ec))
				pre.neutral = append(pre.neutral, rejectingOther(ec) || isLoopBoundFact(condDesc(ec)))
				pre.ecs = append(pre.ecs, ec)
			}
		}
		allInstrs(g, func(in ssa.Instruction) {
			ret, ok := in.(*ssa.Return)
			if !ok || ret.Block() == g.Recover || retError(ret) != "nonnil" {
				return
			}
			rs := rejectSite{ret: ret, facts: append([]string{}, pre.facts...), neutral: append([]bool{}, pre.neutral...), ecs: append([]edgeCond{}, pre.ecs...)}
			for _, ec := range controlling(ret.Block()) {
				d := condDesc(ec)
				if via != nil {
					d = canonFact(translateParams(g, via, d))
				}
				rs.facts = append(rs.facts, d)
				rs.neutral = append(rs.neutral, rejectingOther(ec) || isLoopBoundFact(d))
				rs.ecs = append(rs.ecs, ec)
			}
			out = append(out, rs)
		})
	}
	sitesOf(fn, nil)
	hs := errHelpers(fn)
	var hl []*ssa.Function
	for h := range hs {
		hl = append(hl, h)
	}
	sortFuncs(hl)
	for _, h := range hl {
		sitesOf(h, hs[h])
	}
	return out
}

func isLoopBoundFact(d string) bool {
	return strings.HasPrefix(d, "#i < len(") || strings.HasPrefix(d, "!(#i >= len(")
}

// matches: every needle is found among the site's facts, and every fact of the site is a needle, an allowed
// context fact, or neutral (loop bound / earlier rejection not taken). An extra conjunct in front of the
// rejection therefore makes the site stop matching.
func (rs rejectSite) matches(needles, allowed []string) bool {
	for _, n := range needles {
		ok := false
		for _, f := range rs.facts {
			if matchFact(f, n) {
				ok = true
			}
		}
		if !ok {
			return false
		}
	}
	for i, f := range rs.facts {
		if rs.neutral[i] {
			continue
		}
		ok := false
		for _, n := range append(append([]string{}, needles...), allowed...) {
			if matchFact(f, n) {
				ok = true
			}
		}
		if !ok {
			return false
		}
	}
	return true
}

// matchFact: needle may start with "=" for an exact match, otherwise substring match.
func matchFact(fact, needle string) bool {
	if strings.HasPrefix(needle, "=") {
		return fact == canonFact(needle[1:])
	}
	if strings.HasPrefix(needle, "~") {
		ok, _ := regexp.MatchString(needle[1:], fact)
		return ok
	}
	return strings.Contains(fact, needle)
}

func checkC19(c *Ctx) {
	c.R.Explanation = c19Explanation
	c19Rules(c)
}

const c19Explanation = "Decides on the SSA of pkg/engine/runtimev2/funcs.go: (1) DEAD-GUARD: every local container or flag that a rejection test of CheckFnParamDef/CheckPassParam reads is also written on the accepting path (a map that is looked up but never updated makes its rejection dead); (2) REJECTS: for each rejection the property lists — invalid name, duplicate name, required after optional, variadic with optional / twice / not last (definition); named together with variadic, non-identifier name, unknown name, duplicate binding, positional after named, missing required, more positional arguments than parameters without a variadic tail (call) — there is a return of a non-nil error whose dominating branch conditions have exactly that shape; (3) PLACEMENT: the positional store writes slot = position in the call, the named store writes the slot of the parameter whose name matched, the surplus test dominates the positional store, and ParamNormalized receives the bound slots on success; (4) GETTERS: GetParam evaluates the declared default only when the slot is nil, the variadic tail ranges ParamNormalized[i:] in order, typed getters use checked assertions. Not decided: the binding function as a whole for all (signature, call) pairs (value-level)."

// c19Rules: the rules on the v2 argument-shape helpers (shared with C08, whose load-time acceptance rests on them).
func c19Rules(c *Ctx) {
	r, t := c.R, c.T
	def := t.Func(pRT2, "CheckFnParamDef")
	pass := t.Func(pRT2, "CheckPassParam")
	getp := t.Func(pRT2, "GetParam")
	if def == nil || pass == nil || getp == nil {
		r.Undecided("ANCHOR", "runtimev2.CheckFnParamDef/CheckPassParam/GetParam", "pkg/engine/runtimev2/funcs.go", "unresolved anchor")
		return
	}
	r.Fn(relName(def), relName(pass), relName(getp))

	// ---- (1) dead guards: local maps read but never written
	for _, fn := range []*ssa.Function{def, pass} {
		allInstrs(fn, func(in ssa.Instruction) {
			mk, ok := in.(*ssa.MakeMap)
			if !ok {
				return
			}
			reads, writes := 0, 0
			for _, ref := range *mk.Referrers() {
				switch ref.(type) {
				case *ssa.Lookup, *ssa.Range:
					reads++
				case *ssa.MapUpdate:
					writes++
				}
			}
			if reads > 0 {
				r.Ob("DEAD-GUARD", fmt.Sprintf("%s local map #%d", fn.Name(), ordinalOf(fn, in)), t.Pos(mk.Pos()), writes > 0,
					fmt.Sprintf("local map is looked up %d time(s) but never updated: the test it feeds can never fire", reads))
			}
		})
		// flags: every bool phi used as a branch condition must be able to be true and false
		allInstrs(fn, func(in ssa.Instruction) {
			iff, ok := in.(*ssa.If)
			if !ok {
				return
			}
			ph, ok := iff.Cond.(*ssa.Phi)
			if !ok {
				return
			}
			canT, canF := false, false
			seen := map[*ssa.Phi]bool{}
			var walk func(p *ssa.Phi)
			walk = func(p *ssa.Phi) {
				if seen[p] {
					return
				}
				seen[p] = true
				for _, e := range p.Edges {
					switch ev := e.(type) {
					case *ssa.Const:
						if ev.Value != nil && ev.Value.ExactString() == "true" {
							canT = true
						} else {
							canF = true
						}
					case *ssa.Phi:
						walk(ev)
					default:
						canT, canF = true, true
					}
				}
			}
			walk(ph)
			r.Ob("DEAD-GUARD", fmt.Sprintf("%s flag `%s` tested at if #%d", fn.Name(), ph.Comment, ordinalOf(fn, in)), t.Pos(iff.Pos()), canT && canF, "a flag that is never set (or never clear) makes the branch constant")
		})
	}
	r.Floor("DEAD-GUARD", 6)

	// ---- (2) rejection obligations
	type obl struct {
		name    string
		needles []string
		allowed []string
	}
	defSites := rejectSites(def)
	for _, o := range []obl{
		{"invalid parameter name", []string{"=isValidParamName(params[*].Name) != nil"}, nil},
		{"duplicate parameter name", []string{"params[*].Name)"}, nil},
		{"required parameter after optional", []string{"=!(params[*].Val != nil)", "=flag{params[*].Val != nil}"}, nil},
		{"variadic together with optional", []string{"=params[*].Variable", "=flag{params[*].Val != nil}"}, nil},
		{"second variadic parameter", []string{"=params[*].Variable", "=flag{params[*].Variable}"}, nil},
		{"variadic parameter not last", []string{"=params[*].Variable", "=!(#i == (len(params)-1))"}, nil},
	} {
		ok := false
		var where *ssa.Return
		for _, s := range defSites {
			if s.matches(o.needles, o.allowed) {
				ok, where = true, s.ret
			}
		}
		pos := t.Pos(def.Pos())
		if where != nil {
			pos = t.Pos(where.Pos())
		}
		r.Ob("REJECTS", "CheckFnParamDef rejects: "+o.name, pos, ok, fmt.Sprintf("no error return is guarded by the conditions %v", o.needles))
	}
	// duplicate names: the seen-set must also be filled with the name on the accept path
	{
		filled := false
		allInstrs(def, func(in ssa.Instruction) {
			if mu, ok := in.(*ssa.MapUpdate); ok {
				if _, isLocal := mu.Map.(*ssa.MakeMap); isLocal && strings.HasSuffix(path(mu.Key), ".Name") {
					filled = true
				}
			}
		})
		r.Ob("REJECTS", "CheckFnParamDef records each parameter name", t.Pos(def.Pos()), filled, "the set of names seen so far is never added to: duplicate parameter names are accepted")
	}
	passSites := rejectSites(pass)
	asg := "16" // ast.TypeAssignmentExpr
	if _, s2k := kindTable(t); true {
		if v, ok := s2k["AssignmentExpr"]; ok {
			asg = fmt.Sprint(v)
		}
	}
	ident := "1"
	if _, s2k := kindTable(t); true {
		if v, ok := s2k["Identifier"]; ok {
			ident = fmt.Sprint(v)
		}
	}
	for _, o := range []obl{
		{"named argument together with a variadic parameter", []string{"=expr.Param[*].NodeType == " + asg, "=flag{params[*].Variable}"}, nil},
		{"name of a named argument is not an identifier", []string{"=expr.Param[*].AssignmentExpr().LHS[0].NodeType != " + ident}, []string{"=expr.Param[*].NodeType == " + asg}},
		{"positional argument after a named one", []string{"=!(expr.Param[*].NodeType == " + asg + ")", "=flag{expr.Param[*].NodeType == " + asg + "}"}, nil},
		{"missing required parameter", []string{"=params[*].Val == nil", "=!(params[*].Variable)", "~^(nil == \\S+\\[\\*\\]|\\S+\\[\\*\\] == nil)$"}, []string{"~^!?\\(?#i (<|>=) len\\("}},
	} {
		ok := false
		var where *ssa.Return
		for _, s := range passSites {
			if s.matches(o.needles, o.allowed) {
				ok, where = true, s.ret
			}
		}
		pos := t.Pos(pass.Pos())
		if where != nil {
			pos = t.Pos(where.Pos())
		}
		r.Ob("REJECTS", "CheckPassParam rejects: "+o.name, pos, ok, fmt.Sprintf("no error return is guarded by the conditions %v", o.needles))
	}

	// unknown name / bound twice: the slot index must be the index of the parameter whose name matched, found either
	// by an inline loop (`params[j].Name == name` on the controlling path, same j) or by an index-lookup helper.
	idxFns := indexLookupFns(t)
	{
		var hs []*ssa.Function
		for h := range idxFns {
			hs = append(hs, h)
		}
		sortFuncs(hs)
		for _, h := range hs {
			why, partial := partialLookup[h]
			r.Ob("REJECTS", "name lookup "+relName(h)+" searches every declared parameter", t.Pos(h.Pos()), !partial,
				"a named argument may name any parameter that is still unbound, whatever its position in the declaration: "+why+" — a later named argument that refers to an earlier-declared parameter is not found and the call is rejected although it binds")
		}
	}
	for f := range idxFns {
		r.Fn(relName(f))
	}
	{
		okUnknown, okDup := false, false
		var posU, posD token.Pos
		for _, s := range passSites {
			extra := false
			hasUnknown, hasDup := false, false
			ecs := s.ecs
			for i, ec := range ecs {
				d := s.facts[i]
				switch {
				case s.neutral[i], d == canonFact("expr.Param[*].NodeType == "+asg):
				case strings.HasPrefix(d, "!(flag{") && strings.Contains(d, "params[*].Name"):
					// … and the flag starts every search cleared: entering the search loop it is the constant false,
					// not a value carried over from the previous argument
					if flagClearedBeforeLoop(ec.Cond, ec.If) {
						hasUnknown = true
					} else {
						extra = true
					}
				case isIndexLookupNegative(ec, idxFns), searchLoopExhausted(ec):
					hasUnknown = true
				case isSlotNonNil(ec, idxFns):
					hasDup = true
				case strings.Contains(d, " == params[*].Name") && ((!strings.HasPrefix(d, "!(") && ec.Pol) || matchedName(ec)):
					// inline match context of the duplicate test
				default:
					extra = true
				}
			}
			if extra {
				continue
			}
			if hasUnknown && !hasDup {
				okUnknown, posU = true, s.ret.Pos()
			}
			if hasDup {
				okDup, posD = true, s.ret.Pos()
			}
		}
		pu, pd := t.Pos(pass.Pos()), t.Pos(pass.Pos())
		if okUnknown {
			pu = t.Pos(posU)
		}
		if okDup {
			pd = t.Pos(posD)
		}
		r.Ob("REJECTS", "CheckPassParam rejects: unknown parameter name", pu, okUnknown, "no error return is guarded exactly by `no parameter has this name` (inline search flag or index-lookup helper < 0)")
		r.Ob("REJECTS", "CheckPassParam rejects: parameter bound twice", pd, okDup, "no error return is guarded exactly by `the slot of the parameter whose name matched is already filled` — a named argument can then silently replace an argument bound earlier, positional ones included")
	}

	// ---- (3) placement
	var posStore, namedStore *ssa.Store
	scan := func(g *ssa.Function, via *ssa.Call) {
		allInstrs(g, func(in ssa.Instruction) {
			s, ok := in.(*ssa.Store)
			if !ok {
				return
			}
			ia, ok := s.Addr.(*ssa.IndexAddr)
			if !ok || !strings.HasSuffix(ia.X.Type().String(), "ast.Node") {
				return
			}
			vp := path(s.Val)
			if via != nil {
				vp = translateParams(g, via, vp)
			}
			switch {
			case vp == "expr.Param[*]":
				posStore = s
			case strings.Contains(vp, ".RHS[0]"):
				namedStore = s
			}
		})
	}
	scan(pass, nil)
	for h, via := range errHelpers(pass) {
		scan(h, via)
	}
	if posStore == nil {
		r.Ob("PLACEMENT", "CheckPassParam positional store", t.Pos(pass.Pos()), false, "store of a positional argument into its slot not found")
	} else {
		ia := posStore.Addr.(*ssa.IndexAddr)
		// slot index must be the same range index the argument was read with
		same := false
		if ld, ok := posStore.Val.(*ssa.UnOp); ok {
			if src, ok := ld.X.(*ssa.IndexAddr); ok && src.Index == ia.Index {
				same = true
			}
		}
		r.Ob("PLACEMENT", "CheckPassParam positional store slot = position in the call", t.Pos(posStore.Pos()), same, "newArgs[k] = expr.Param[k] with the same k")
		// surplus: an If that relates the argument position (or count) to len(params) dominates the store, and
		// its "surplus" outcome either rejects outright or rejects unless the last parameter is variadic.
		sur := false
		var facts []string
		for _, b := range pass.Blocks {
			iff, isIf := b.Instrs[len(b.Instrs)-1].(*ssa.If)
			if !isIf || !b.Dominates(posStore.Block()) {
				continue
			}
			d := valDesc(iff.Cond, 0)
			d = normLoopIdx(pass, d)
			if !strings.Contains(d, "len(params)") || !(strings.Contains(d, "phi:") || strings.Contains(d, "#i") || strings.Contains(d, "len(expr.Param)")) {
				continue
			}
			bo, isB := iff.Cond.(*ssa.BinOp)
			if !isB {
				continue
			}
			// which successor is the surplus outcome?  idx >= len / idx > len-1 / len(expr.Param) > len(params): true edge;
			// idx < len: false edge
			surplusIdx := 0
			if bo.Op == token.LSS || bo.Op == token.LEQ {
				surplusIdx = 1
			}
			if strings.HasPrefix(d, "len(params)") { // operands swapped
				surplusIdx = 1 - surplusIdx
			}
			e := b.Succs[surplusIdx]
			facts = append(facts, "surplus test: "+d)
			if rejecting(e) {
				sur = true
				continue
			}
			if iff2, ok := e.Instrs[len(e.Instrs)-1].(*ssa.If); ok && strings.Contains(valDesc(iff2.Cond, 0), ".Variable") {
				if rejecting(e.Succs[0]) != rejecting(e.Succs[1]) {
					sur = true
					facts = append(facts, "variadic exemption: "+valDesc(iff2.Cond, 0))
				}
			}
		}
		r.Ob("REJECTS", "CheckPassParam rejects: more positional arguments than parameters (no variadic tail)", t.Pos(posStore.Pos()), sur,
			"the positional store is not dominated by a rejecting comparison of the argument position / count with len(params): surplus arguments are accepted and silently ignored", facts...)
	}
	if namedStore == nil {
		r.Ob("PLACEMENT", "CheckPassParam named store", t.Pos(pass.Pos()), false, "store of a named argument into its slot not found")
	} else {
		ia := namedStore.Addr.(*ssa.IndexAddr)
		ok := matchedSlotIndex(ia.Index, namedStore.Block(), idxFns)
		for _, ec := range controlling(namedStore.Block()) {
			if bo, isB := ec.Cond.(*ssa.BinOp); isB && ((bo.Op == token.EQL && ec.Pol) || (bo.Op == token.NEQ && !ec.Pol)) {
				// params[j].Name == pName with j == slot index
				if ld, isL := bo.X.(*ssa.UnOp); isL {
					if fa, isF := ld.X.(*ssa.FieldAddr); isF && fieldName(fa) == "Name" {
						if pl, isP := fa.X.(*ssa.UnOp); isP {
							if pia, isI := pl.X.(*ssa.IndexAddr); isI && pia.Index == ia.Index {
								ok = true
							}
						}
					}
				}
			}
		}
		r.Ob("PLACEMENT", "CheckPassParam named store slot = index of the parameter whose name matched", t.Pos(namedStore.Pos()), ok, "newArgs[j] = value under params[j].Name == name, same j")
	}
	// success: ParamNormalized = the bound slots
	{
		ok := false
		allInstrs(pass, func(in ssa.Instruction) {
			if s, isS := in.(*ssa.Store); isS {
				if fa, isF := s.Addr.(*ssa.FieldAddr); isF && fieldName(fa) == "ParamNormalized" {
					if posStore != nil {
						if ia := posStore.Addr.(*ssa.IndexAddr); ia.X == s.Val {
							ok = true
						}
					}
				}
			}
		})
		r.Ob("PLACEMENT", "CheckPassParam publishes the bound slots as ParamNormalized", t.Pos(pass.Pos()), ok, "expr.ParamNormalized must be the slice the arguments were bound into")
	}

	// ---- (4) getters
	{
		// default Val() only when slot nil
		okDef := false
		allInstrs(getp, func(in ssa.Instruction) {
			call, isC := in.(*ssa.Call)
			if !isC || call.Call.StaticCallee() != nil || call.Call.IsInvoke() {
				return
			}
			if _, isB := call.Call.Value.(*ssa.Builtin); isB {
				return
			}
			if !strings.HasSuffix(path(call.Call.Value), ".Val") {
				return
			}
			nilSlot := false
			for _, ec := range controlling(call.Block()) {
				d := condDesc(ec)
				if strings.Contains(d, "ParamNormalized[*] == nil") && !strings.HasPrefix(d, "!(") {
					nilSlot = true
				}
			}
			okDef = nilSlot
		})
		r.Ob("GETTERS", "GetParam evaluates the declared default only for an unbound slot", t.Pos(getp.Pos()), okDef, "params[i].Val() must be guarded by ParamNormalized[i] == nil")
		// variadic tail
		okTail := false
		allInstrs(getp, func(in ssa.Instruction) {
			if sl, isS := in.(*ssa.Slice); isS && strings.HasSuffix(path(sl.X), ".ParamNormalized") && sl.Low != nil && sl.High == nil {
				if p, isP := sl.Low.(*ssa.Parameter); isP && p == getp.Params[len(getp.Params)-1] {
					okTail = true
				}
			}
		})
		r.Ob("GETTERS", "GetParam collects the variadic tail from ParamNormalized[i:]", t.Pos(getp.Pos()), okTail, "all remaining positional arguments, in order")
		n := 0
		for _, f := range t.PkgFuncs(pRT2) {
			if !strings.HasPrefix(f.Name(), "GetParam") {
				continue
			}
			r.Fn(relName(f))
			allInstrs(f, func(in ssa.Instruction) {
				if ta, isT := in.(*ssa.TypeAssert); isT {
					n++
					r.Ob("GETTERS", fmt.Sprintf("%s assertion #%d to %s is checked", f.Name(), ordinalOf(f, in), ta.AssertedType), t.Pos(ta.Pos()), ta.CommaOk, "typed getters must use comma-ok assertions / type switches")
				}
			})
		}
		r.FloorN("typed getter assertions", n, 8)
	}
	r.Floor("REJECTS", 14)
	r.Floor("PLACEMENT", 3)
}

// ordinalOf: 1-based index of in among the instructions of the same Go type in fn (stable construct key).
func ordinalOf(fn *ssa.Function, x ssa.Instruction) int {
	n := 0
	for _, b := range fn.Blocks {
		for _, in := range b.Instrs {
			if fmt.Sprintf("%T", in) == fmt.Sprintf("%T", x) {
				n++
				if in == x {
					return n
				}
			}
		}
	}
	return n
}

// indexLookupFns: functions of runtimev2 of the shape `for i := range params { if params[i].Name == name { return i } }; return -1`.
func indexLookupFns(t *Tree) map[*ssa.Function]bool {
	out := map[*ssa.Function]bool{}
	for _, f := range t.PkgFuncs(pRT2) {
		if f.Signature.Results().Len() != 1 || !isIntType(f.Signature.Results().At(0).Type()) || len(f.Params) < 2 || len(f.Params) > 3 {
			continue
		}
		retIdx, retNeg, bad := false, false, false
		var idxVal ssa.Value
		allInstrs(f, func(in ssa.Instruction) {
			ret, ok := in.(*ssa.Return)
			if !ok {
				return
			}
			if v, ok := constInt(ret.Results[0]); ok {
				if v == -1 {
					retNeg = true
				} else {
					bad = true
				}
				return
			}
			// returns the loop index under params[i].Name == name
			okc := false
			for _, ec := range controlling(ret.Block()) {
				if bo, ok := ec.Cond.(*ssa.BinOp); ok && bo.Op == token.EQL && ec.Pol {
					if nameCmpIndex(bo) == ret.Results[0] {
						okc = true
						idxVal = ret.Results[0]
					}
				}
			}
			if okc {
				retIdx = true
			} else {
				bad = true
			}
		})
		if retIdx && retNeg && !bad {
			out[f] = true
			// the search must cover every parameter: the index starts at the constant 0 (or is a range index)
			if why := lookupStart(idxVal); why != "" {
				partialLookup[f] = why
			}
		}
	}
	return out
}

// partialLookup: index-lookup helpers whose search does not start at the first parameter, with the reason.
var partialLookup = map[*ssa.Function]string{}

func lookupStart(idx ssa.Value) string {
	if idx == nil || isRangeIndex(idx) {
		return ""
	}
	ph, ok := idx.(*ssa.Phi)
	if !ok {
		return ""
	}
	for _, e := range ph.Edges {
		if k, isC := constInt(e); isC {
			if k != 0 {
				return fmt.Sprintf("the search starts at index %d", k)
			}
			continue
		}
		if _, isParam := e.(*ssa.Parameter); isParam {
			return "the search starts at the index given in parameter `" + e.Name() + "`, not at the first parameter"
		}
	}
	return ""
}

// nameCmpIndex: for `params[j].Name == x` returns the SSA value j.
// flagClearedBeforeLoop: v is a boolean flag (phi) tested at block `at`; none of the phis its value can come from is
// carried around a loop that encloses the test — i.e. the flag is re-initialised for every search instead of keeping
// the outcome of the previous one.
func flagClearedBeforeLoop(v ssa.Value, at *ssa.BasicBlock) bool {
	if u, isU := v.(*ssa.UnOp); isU && u.Op == token.NOT {
		v = u.X
	}
	ph, ok := v.(*ssa.Phi)
	if !ok {
		return true
	}
	loops := naturalLoops(ph.Parent())
	seen := map[*ssa.Phi]bool{}
	okAll := true
	var walk func(p *ssa.Phi)
	walk = func(p *ssa.Phi) {
		if seen[p] {
			return
		}
		seen[p] = true
		for _, l := range loops {
			if l.Header == p.Block() && l.Blocks[at] {
				// a header phi of a loop around the test: a value arriving over the back edge is last iteration's
				for i := range p.Edges {
					if l.Blocks[p.Block().Preds[i]] {
						if c, isC := p.Edges[i].(*ssa.Const); !isC || c.Value == nil || c.Value.ExactString() != "false" {
							okAll = false
						}
					}
				}
			}
		}
		for _, e := range p.Edges {
			if ev, isP := e.(*ssa.Phi); isP {
				walk(ev)
			}
		}
	}
	walk(ph)
	return okAll
}

// matchedName: the edge establishes params[j].Name == <name> (either spelling).
func matchedName(ec edgeCond) bool {
	bo, ok := ec.Cond.(*ssa.BinOp)
	return ok && nameCmpIndex(bo) != nil && ((bo.Op == token.EQL && ec.Pol) || (bo.Op == token.NEQ && !ec.Pol))
}

// searchLoopExhausted: the edge leaves a loop over the parameter list because the list is exhausted, and inside that
// loop a parameter whose name matches always ends the function (return), never the next iteration — so the exit
// means "no parameter has this name".
func searchLoopExhausted(ec edgeCond) bool {
	bo, ok := ec.Cond.(*ssa.BinOp)
	if !ok || ec.Pol || bo.Op != token.LSS {
		return false
	}
	if lp, isLen := lenOf(bo.Y); !isLen || !strings.HasSuffix(lp, "params") {
		return false
	}
	fn := ec.If.Parent()
	for _, l := range naturalLoops(fn) {
		if l.Header != ec.If {
			continue
		}
		found, ok := false, true
		for b := range l.Blocks {
			iff, isIf := b.Instrs[len(b.Instrs)-1].(*ssa.If)
			if !isIf {
				continue
			}
			c2, isB := iff.Cond.(*ssa.BinOp)
			if !isB || nameCmpIndex(c2) == nil || (c2.Op != token.EQL && c2.Op != token.NEQ) {
				continue
			}
			found = true
			match := b.Succs[0]
			if c2.Op == token.NEQ {
				match = b.Succs[1]
			}
			// from the match arm the loop header is not reachable
			seen := map[*ssa.BasicBlock]bool{}
			st := []*ssa.BasicBlock{match}
			for len(st) > 0 {
				x := st[len(st)-1]
				st = st[:len(st)-1]
				if seen[x] {
					continue
				}
				seen[x] = true
				if x == l.Header {
					ok = false
				}
				st = append(st, x.Succs...)
			}
		}
		return found && ok
	}
	return false
}

func nameCmpIndex(bo *ssa.BinOp) ssa.Value {
	for _, side := range []ssa.Value{bo.X, bo.Y} {
		if ld, ok := side.(*ssa.UnOp); ok {
			if fa, ok := ld.X.(*ssa.FieldAddr); ok && fieldName(fa) == "Name" {
				if pl, ok := fa.X.(*ssa.UnOp); ok {
					if pia, ok := pl.X.(*ssa.IndexAddr); ok {
						return pia.Index
					}
				}
			}
		}
	}
	return nil
}

// matchedSlotIndex: idx is the index of the parameter whose name matched — the result of an index-lookup
// helper, or the loop index under a controlling `params[idx].Name == name`.
func matchedSlotIndex(idx ssa.Value, blk *ssa.BasicBlock, idxFns map[*ssa.Function]bool) bool {
	if call, ok := idx.(*ssa.Call); ok && idxFns[call.Call.StaticCallee()] {
		return true
	}
	for _, ec := range controlling(blk) {
		if bo, ok := ec.Cond.(*ssa.BinOp); ok && ((bo.Op == token.EQL && ec.Pol) || (bo.Op == token.NEQ && !ec.Pol)) && nameCmpIndex(bo) == idx && idx != nil {
			return true
		}
	}
	return false
}

func isIndexLookupNegative(ec edgeCond, idxFns map[*ssa.Function]bool) bool {
	bo, ok := ec.Cond.(*ssa.BinOp)
	if !ok {
		return false
	}
	call, ok := bo.X.(*ssa.Call)
	if !ok || !idxFns[call.Call.StaticCallee()] {
		return false
	}
	v, isC := constInt(bo.Y)
	switch {
	case bo.Op == token.LSS && isC && v == 0 && ec.Pol:
		return true
	case bo.Op == token.GEQ && isC && v == 0 && !ec.Pol:
		return true
	case bo.Op == token.EQL && isC && v == -1 && ec.Pol:
		return true
	}
	return false
}

// isSlotNonNil: the edge says `newArgs[k] != nil` with k the matched parameter index.
func isSlotNonNil(ec edgeCond, idxFns map[*ssa.Function]bool) bool {
	bo, ok := ec.Cond.(*ssa.BinOp)
	if !ok || !isNilConst(bo.Y) {
		return false
	}
	if !((bo.Op == token.NEQ && ec.Pol) || (bo.Op == token.EQL && !ec.Pol)) {
		return false
	}
	ld, ok := bo.X.(*ssa.UnOp)
	if !ok {
		return false
	}
	ia, ok := ld.X.(*ssa.IndexAddr)
	if !ok || !strings.HasSuffix(ia.X.Type().String(), "ast.Node") {
		return false
	}
	return matchedSlotIndex(ia.Index, ec.If, idxFns)
}
