package main

import (
	"fmt"
	"go/constant"
	"go/token"
	"go/types"
	"os"
	"sort"
	"strings"

	"golang.org/x/tools/go/ssa"
)

func init() {
	register("C02", "operator semantics: dispatch tables by specialisation, order/short-circuit, tag↔value, folding", checkC02)
}

type opRef struct {
	Cells  map[string][]string `json:"cells"`
	Frozen []string            `json:"frozen"`
}

func checkC02(c *Ctx) {
	r, t := c.R, c.T
	r.Explanation = "Decides the complete dispatch table of the operator evaluators of both interpreters: by conditional constant propagation (`spec`: bounded path enumeration over go/ssa with the operator, the operand tags and the operands' dynamic Go types bound to constants, in-module callees inlined path-sensitively) every cell (evaluator × operator × operand tags) of condOp, RunArithmeticExpr, runAssignArith, RunUnaryExpr, RunInExpr, assign2arithOp and condTrue is reduced to its set of outcomes — the primitive Go operation applied (`i64(L) + i64(R)`, `f64(L) < f64(R)`, `str(L) + str(R)`, reflect.DeepEqual, a constant, an error, `error if divisor == 0 else …`) with its result tag — and compared cell by cell with reference/operators.json (spec §Operator/§Binary Expression + the property statement; 1666 cells per interpreter, exhaustive). Plus: SAME-BRANCHES (an if whose two arms return the same expression makes no distinction — the int-vs-float comparison split), ORDER (left operand evaluated before the right one, each exactly once, no right-operand evaluation on the short-circuit paths of && / || with a boolean left operand), TAG-VALUE (every statically typed value returned with a constant tag has that tag's Go representation: Int→int64, Float→float64, Bool→bool, String→string, List→[]any, Map→map[string]any), FOLD (the parser negates a literal only under a minus sign and rejects only literal zero divisors of / and %), OP-NAMES (the operator token → ast.Op string table agrees with the ast.Op constants the evaluators switch on). Go's own int64/float64 arithmetic and the spf13/cast conversions are the trusted base. Not decided: numerical results as values."
	r.Trusted = []string{"Go int64 (wrapping, truncating) and float64 arithmetic", "github.com/spf13/cast conversions", "reflect.DeepEqual", "strings.Contains"}
	r.Exhaustive = true
	var ref opRef
	if !mustRef(c, "operators.json", &ref) {
		return
	}
	frozen := map[string]bool{}
	for _, k := range ref.Frozen {
		frozen[k] = true
	}
	tabs := map[string]*opTables{}
	for _, pp := range []string{pRT, pRT2} {
		ot := extractOpTables(t, pp)
		tabs[ot.tag] = ot
		for _, ab := range ot.Abort {
			r.Undecided("OP-TABLE", ot.tag+" "+ab, "", "specialisation aborted")
		}
		for _, k := range sortedKeys(ref.Cells) {
			got, ok := ot.Cells[k]
			key := ot.tag + " " + k
			pos := evaluatorPos(t, pp, k)
			if !ok {
				r.Ob("OP-TABLE", key, pos, false, "cell could not be extracted: the evaluator for this family was not found")
				continue
			}
			match := false
			for _, w := range ref.Cells[k] {
				if got == canonTable(w) {
					match = true
				}
			}
			note := ""
			if frozen[k] {
				note = " (reference cell frozen from the pinned tree: the written spec leaves it open)"
			}
			r.Ob("OP-TABLE", key, pos, match, fmt.Sprintf("extracted: %s ; reference: %s%s", got, strings.Join(ref.Cells[k], "  OR  "), note))
		}
		for _, k := range sortedKeys(ot.Cells) {
			if _, ok := ref.Cells[k]; !ok {
				r.Ob("OP-TABLE", ot.tag+" "+k, "", false, "cell has no reference entry")
			}
		}
	}
	r.Floor("OP-TABLE", 3300)
	r.Counts["cells_v1"] = len(tabs["v1"].Cells)
	r.Counts["cells_v2"] = len(tabs["v2"].Cells)

	for _, pp := range []string{pRT, pRT2} {
		tag := t.SSA[pp].Pkg.Name()
		// SAME-BRANCHES over the operator helpers
		for _, name := range []string{"condOp", "arithOpInt", "arithOpFloat", "typePromotion", "cmpType", "arithType"} {
			if f := t.Func(pp, name); f != nil {
				r.Fn(relName(f))
				sameBranches(c, tag, f)
			}
		}
		orderRules(c, pp)
	}
	r.Floor("SAME-BRANCHES", 10)
	tagValueRule(c, "TAG-VALUE", []string{pRT, pRT2, pFuncs})
	literalValRule(c, "TAG-VALUE", []string{pRT, pRT2})
	foldRules(c)
	opNameRule(c)
}

func evaluatorPos(t *Tree, pp, key string) string {
	fam := key[:strings.Index(key, "|")]
	name := map[string]string{"condOp": "condOp", "arith": "RunArithmeticExpr", "assignarith": "runAssignArith", "unary": "RunUnaryExpr", "in": "RunInExpr", "assign2arith": "assign2arithOp", "truthy": "condTrue"}[fam]
	if f := t.Func(pp, name); f != nil {
		return t.Pos(f.Pos())
	}
	return ""
}

// sameBranches: an If whose two successors are distinct return blocks returning the same expressions.
func sameBranches(c *Ctx, tag string, f *ssa.Function) {
	r, t := c.R, c.T
	n := 0
	for _, b := range f.Blocks {
		iff, ok := b.Instrs[len(b.Instrs)-1].(*ssa.If)
		if !ok || b.Succs[0] == b.Succs[1] {
			continue
		}
		r0, ok0 := b.Succs[0].Instrs[len(b.Succs[0].Instrs)-1].(*ssa.Return)
		r1, ok1 := b.Succs[1].Instrs[len(b.Succs[1].Instrs)-1].(*ssa.Return)
		if !ok0 || !ok1 || len(b.Succs[0].Preds) != 1 || len(b.Succs[1].Preds) != 1 {
			continue
		}
		if !isPureBlock(b.Succs[0]) || !isPureBlock(b.Succs[1]) {
			continue // arms with effects (register writes …) are distinguished by more than their return value
		}
		n++
		same := len(r0.Results) == len(r1.Results) && len(r0.Results) > 0
		var es []string
		for i := range r0.Results {
			if i < len(r1.Results) && exprShape(r0.Results[i]) != exprShape(r1.Results[i]) {
				same = false
			}
			es = append(es, exprShape(r0.Results[i]))
		}
		// constants-only returns (false vs true …) differ by value and are covered by exprShape
		r.Ob("SAME-BRANCHES", fmt.Sprintf("%s.%s if #%d (%s)", tag, f.Name(), ordinalOf(f, iff), condStr(iff.Cond)), t.Pos(iff.Pos()), !same,
			fmt.Sprintf("both arms of this test return %v: the distinction the code claims to make (e.g. integer vs float comparison) is not made", es))
	}
	_ = n
}

// exprShape renders the expression tree behind a value (through calls, conversions and operators).
func exprShape(v ssa.Value) string {
	switch x := v.(type) {
	case *ssa.Const:
		return constStr(x)
	case *ssa.MakeInterface:
		return exprShape(x.X)
	case *ssa.BinOp:
		return "(" + exprShape(x.X) + " " + x.Op.String() + " " + exprShape(x.Y) + ")"
	case *ssa.UnOp:
		if x.Op == token.MUL {
			return path(x)
		}
		return x.Op.String() + exprShape(x.X)
	case *ssa.Call:
		if f := x.Call.StaticCallee(); f != nil {
			var as []string
			for _, a := range x.Call.Args {
				as = append(as, exprShape(a))
			}
			return f.Name() + "(" + strings.Join(as, ",") + ")"
		}
	case *ssa.Convert:
		return exprShape(x.X)
	case *ssa.ChangeType:
		return exprShape(x.X)
	}
	return path(v)
}

// orderRules: LHS before RHS, each once, short-circuit paths evaluate no RHS.
func orderRules(c *Ctx, pp string) {
	r, t := c.R, c.T
	pk := t.SSA[pp]
	tag := pk.Pkg.Name()
	evalName := "RunStmt"
	if pp == pRT2 {
		evalName = "RunExpr"
	}
	eval := pk.Func(evalName)
	// EVAL-ONCE: in no evaluator can one child expression be evaluated by two different evaluation calls on one path
	if eval != nil {
		nEv := 0
		for _, f := range t.PkgFuncs(pp) {
			byArg := map[string][]*ssa.Call{}
			allInstrs(f, func(in ssa.Instruction) {
				if call, ok := in.(*ssa.Call); ok {
					if p, isEv := evaluatedChild(call, eval); isEv && (strings.HasPrefix(p, "expr.") || strings.HasPrefix(p, "stmt.")) {
						byArg[p] = append(byArg[p], call)
					}
				}
			})
			for _, p := range sortedKeys(byArg) {
				calls := byArg[p]
				nEv++
				twice := ""
				for i := range calls {
					for j := range calls {
						if i != j && reachableFrom(calls[i], calls[j]) {
							twice = fmt.Sprintf("%s and %s", t.Pos(calls[i].Pos()), t.Pos(calls[j].Pos()))
						}
					}
				}
				r.Ob("ORDER", fmt.Sprintf("%s.%s evaluates %s at most once per path", tag, f.Name(), p), t.Pos(calls[0].Pos()), twice == "",
					fmt.Sprintf("%d evaluation call(s) of this child; two on one path: %s — an operand with a side effect (a call) would run twice", len(calls), twice))
			}
		}
		r.FloorN(tag+" child evaluations inspected", nEv, 15)
	}
	for _, name := range []string{"RunArithmeticExpr", "RunConditionExpr", "RunInExpr"} {
		f := pk.Func(name)
		if f == nil || eval == nil {
			r.Undecided("ORDER", tag+"."+name, "", "unresolved anchor")
			continue
		}
		r.Fn(relName(f))
		var lhs, rhs []*ssa.Call
		allInstrs(f, func(in ssa.Instruction) {
			if call, ok := in.(*ssa.Call); ok {
				p, isEv := evaluatedChild(call, eval)
				if !isEv {
					return
				}
				switch {
				case strings.HasSuffix(p, ".LHS"):
					lhs = append(lhs, call)
				case strings.HasSuffix(p, ".RHS"):
					rhs = append(rhs, call)
				}
			}
		})
		once := len(lhs) == 1 && len(rhs) == 1
		inLoop := false
		for _, l := range naturalLoops(f) {
			for _, cl := range append(append([]*ssa.Call{}, lhs...), rhs...) {
				if l.Blocks[cl.Block()] {
					inLoop = true
				}
			}
		}
		r.Ob("ORDER", tag+"."+name+" evaluates each operand exactly once", t.Pos(f.Pos()), once && !inLoop, fmt.Sprintf("%d evaluations of LHS, %d of RHS, inside a loop: %v", len(lhs), len(rhs), inLoop))
		if once {
			r.Ob("ORDER", tag+"."+name+" evaluates the left operand first", t.Pos(rhs[0].Pos()), precedes(lhs[0], rhs[0]), "the evaluation of expr.LHS must dominate the evaluation of expr.RHS")
		}
		if name == "RunConditionExpr" && once {
			shortCircuit(c, tag, f, lhs[0], rhs[0])
		}
	}
}

// evaluatedChild: the call evaluates a child node — it is the evaluator itself called on that node, or a
// same-package helper that hands one of its node parameters to the evaluator (exactly once, outside loops); returns
// the access path of the node.
func evaluatedChild(call *ssa.Call, eval *ssa.Function) (string, bool) {
	cal := call.Call.StaticCallee()
	if cal == nil {
		return "", false
	}
	if cal == eval && len(call.Call.Args) >= 2 {
		return path(call.Call.Args[1]), true
	}
	if cal.Pkg != eval.Pkg || len(cal.Blocks) == 0 {
		return "", false
	}
	for k, prm := range cal.Params {
		if k >= len(call.Call.Args) {
			break
		}
		n := 0
		inLoop := false
		allInstrs(cal, func(in ssa.Instruction) {
			if c2, ok := in.(*ssa.Call); ok && c2.Call.StaticCallee() == eval && len(c2.Call.Args) >= 2 && c2.Call.Args[1] == ssa.Value(prm) {
				n++
				for _, l := range naturalLoops(cal) {
					if l.Blocks[c2.Block()] {
						inLoop = true
					}
				}
			}
		})
		if n == 1 && !inLoop {
			return path(call.Call.Args[k]), true
		}
	}
	return "", false
}

// shortCircuit: in RunConditionExpr there are two paths that return a constant boolean without reaching the RHS
// evaluation: (lhsT == Bool ∧ op == OR ∧ lhs) → true and (lhsT == Bool ∧ op == AND ∧ ¬lhs) → false.
func shortCircuit(c *Ctx, tag string, f *ssa.Function, lhs, rhs *ssa.Call) {
	r, t := c.R, c.T
	astp := t.SSA[pAst]
	opOR := strings.Trim(astp.Const("OR").Value.Value.ExactString(), `"`)
	opAND := strings.Trim(astp.Const("AND").Value.Value.ExactString(), `"`)
	boolTag, _ := constInt(astp.Const("Bool").Value)
	found := map[string]bool{}
	for _, b := range f.Blocks {
		// early exits: return blocks (v1) or blocks that ReturnAppend a constant and return (v2) not dominated by rhs
		ret, ok := b.Instrs[len(b.Instrs)-1].(*ssa.Return)
		if !ok || rhs.Block().Dominates(b) || retError(ret) != "nil" {
			continue
		}
		var facts []string
		for _, ec := range controlling(b) {
			facts = append(facts, ec.String())
		}
		fs := strings.Join(facts, " ; ")
		isBool := strings.Contains(fs, fmt.Sprintf("== %d", boolTag))
		val := ""
		if len(ret.Results) == 3 {
			val = exprShape(ret.Results[0])
		} else {
			// v2: the constant appended to the registers in this block
			for _, in := range b.Instrs {
				if call, ok := in.(*ssa.Call); ok && call.Call.StaticCallee() != nil && fnName(call.Call.StaticCallee()) == "ReturnAppend" {
					val = v2AppendedConst(call)
				}
			}
		}
		switch {
		case isBool && strings.Contains(fs, `== "`+opOR+`"`) && strings.Contains(fs, "ToBool(") && !strings.Contains(fs, "!(ToBool") && !strings.Contains(fs, "!(cast.ToBool") && val == "true":
			found["or"] = true
		case isBool && strings.Contains(fs, `== "`+opAND+`"`) && (strings.Contains(fs, "!(ToBool(") || strings.Contains(fs, "!(cast.ToBool(")) && val == "false":
			found["and"] = true
		}
	}
	r.Ob("ORDER", tag+".RunConditionExpr short-circuits `true || x`", t.Pos(f.Pos()), found["or"], "with a boolean true left operand of || the result is true and the right operand is not evaluated")
	r.Ob("ORDER", tag+".RunConditionExpr short-circuits `false && x`", t.Pos(f.Pos()), found["and"], "with a boolean false left operand of && the result is false and the right operand is not evaluated")
}

func v2AppendedConst(call *ssa.Call) string {
	// ReturnAppend(V{const, tag}...): find the store of the V.V field of the literal
	if len(call.Call.Args) < 2 {
		return ""
	}
	sl, ok := call.Call.Args[1].(*ssa.Slice)
	if !ok {
		return ""
	}
	arr, ok := sl.X.(*ssa.Alloc)
	if !ok {
		return ""
	}
	out := ""
	for _, ref := range *arr.Referrers() {
		ia, ok := ref.(*ssa.IndexAddr)
		if !ok {
			continue
		}
		for _, rr := range *ia.Referrers() {
			st, ok := rr.(*ssa.Store)
			if !ok {
				continue
			}
			if ld, ok := st.Val.(*ssa.UnOp); ok {
				if lit, ok := ld.X.(*ssa.Alloc); ok {
					for _, lr := range *lit.Referrers() {
						if fa, ok := lr.(*ssa.FieldAddr); ok && fieldName(fa) == "V" {
							for _, fr := range *fa.Referrers() {
								if fs, ok := fr.(*ssa.Store); ok {
									out = exprShape(fs.Val)
								}
							}
						}
					}
				}
			}
		}
	}
	return out
}

// tagValueRule: every (value, constant tag) pair with a statically known Go type uses the tag's representation.
func tagValueRule(c *Ctx, rule string, pkgs []string) {
	r, t := c.R, c.T
	astp := t.SSA[pAst]
	rep := map[string]string{"Int": "int64", "Float": "float64", "Bool": "bool", "String": "string", "List": "[]any", "Map": "map[string]any"}
	tagName := map[int64]string{}
	for n := range rep {
		v, _ := constInt(astp.Const(n).Value)
		tagName[v] = n
	}
	nilTag, _ := constInt(astp.Const("Nil").Value)
	n := 0
	for _, pp := range pkgs {
		for _, f := range t.PkgFuncs(pp) {
			check := func(v, tag ssa.Value, at token.Pos, what string) {
				tc, ok := tag.(*ssa.Const)
				if !ok || tc.Value == nil || namedOf(tc.Type()) != "ast.DType" {
					return
				}
				tv, _ := constInt(tc)
				var vt types.Type
				switch x := v.(type) {
				case *ssa.MakeInterface:
					vt = x.X.Type()
				case *ssa.Const:
					if x.Value == nil {
						if tv == nilTag {
							return
						}
						return // nil value with a non-nil tag: error paths return (nil, Invalid)
					}
					vt = x.Type()
				default:
					if _, isI := v.Type().Underlying().(*types.Interface); isI {
						return
					}
					vt = v.Type()
				}
				tn, ok := tagName[tv]
				if !ok {
					return
				}
				n++
				got := strings.ReplaceAll(vt.String(), "interface{}", "any")
				r.Ob(rule, fmt.Sprintf("%s %s #%d tagged %s", relName(f), what, ordinalAt(f, at), tn), t.Pos(at), got == rep[tn],
					fmt.Sprintf("a value of Go type %s is tagged ast.%s, whose representation is %s: a later `.(%s)` or a field type switch on it misbehaves", got, tn, rep[tn], rep[tn]))
			}
			allInstrs(f, func(in ssa.Instruction) {
				switch x := in.(type) {
				case *ssa.Return:
					if len(x.Results) == 3 && namedOf(x.Results[1].Type()) == "ast.DType" {
						check(x.Results[0], x.Results[1], x.Pos(), "return")
					}
					if len(x.Results) == 2 && namedOf(x.Results[1].Type()) == "ast.DType" {
						check(x.Results[0], x.Results[1], x.Pos(), "return")
					}
				case *ssa.Call:
					if sc := x.Call.StaticCallee(); sc != nil && sc.Name() == "ReturnAppend" && len(x.Call.Args) == 3 {
						check(x.Call.Args[1], x.Call.Args[2], x.Pos(), "ReturnAppend")
					}
					if sc := x.Call.StaticCallee(); sc != nil && (sc.Name() == "SetVarb" || sc.Name() == "addKey2PtWithVal") && len(x.Call.Args) >= 4 {
						check(x.Call.Args[len(x.Call.Args)-2], x.Call.Args[len(x.Call.Args)-1], x.Pos(), sc.Name())
						if sc.Name() == "addKey2PtWithVal" {
							check(x.Call.Args[2], x.Call.Args[3], x.Pos(), sc.Name())
						}
					}
				case *ssa.Store:
					// V{val, tag} literals of the v2 interpreter: stores to fields V and T of one local
					if fa, ok := x.Addr.(*ssa.FieldAddr); ok && namedOf(fa.X.Type()) == "runtimev2.V" && fieldName(fa) == "T" {
						if lit, ok := fa.X.(*ssa.Alloc); ok {
							for _, ref := range *lit.Referrers() {
								if fv, ok := ref.(*ssa.FieldAddr); ok && fieldName(fv) == "V" {
									for _, rr := range *fv.Referrers() {
										if sv, ok := rr.(*ssa.Store); ok {
											check(sv.Val, x.Val, x.Pos(), "V literal")
										}
									}
								}
							}
						}
					}
				}
			})
		}
	}
	r.FloorN("statically typed (value, tag) pairs", n, 80)
}

func ordinalAt(f *ssa.Function, at token.Pos) int {
	n := 0
	seen := map[token.Pos]bool{}
	for _, b := range f.Blocks {
		for _, in := range b.Instrs {
			if p := in.Pos(); p.IsValid() && !seen[p] {
				seen[p] = true
				if p <= at {
					n++
				}
			}
		}
	}
	return n
}

// foldRules: parser-side constant folding.
func foldRules(c *Ctx) {
	r, t := c.R, c.T
	pp := t.SSA[pParser]
	sub, _ := constInt(pp.Const("SUB").Value)
	nu := t.Method(pParser, "parser", "newUnaryExpr")
	na := t.Method(pParser, "parser", "newArithmeticExpr")
	if nu == nil || na == nil {
		r.Undecided("FOLD", "parser.newUnaryExpr/newArithmeticExpr", "", "unresolved anchor")
		return
	}
	r.Fn(relName(nu), relName(na))
	// helpers of the two constructors (one level): the folding may live in a function they call
	helpersOf := func(f *ssa.Function) map[*ssa.Function][]*ssa.Call {
		m := map[*ssa.Function][]*ssa.Call{f: nil}
		allInstrs(f, func(in ssa.Instruction) {
			if call, ok := in.(*ssa.Call); ok {
				if g := call.Call.StaticCallee(); g != nil && g != f && g.Pkg == f.Pkg && len(g.Blocks) > 0 && !strings.HasPrefix(g.Name(), "new") && g.Name() != "addParseErrf" {
					m[g] = append(m[g], call)
				}
			}
		})
		return m
	}
	// factsThrough: the branch facts holding at `in` (a site in g), plus — when g is a helper — those holding at every
	// call of g in the constructor
	factsThrough := func(g *ssa.Function, sites []*ssa.Call, in ssa.Instruction) []edgeCond {
		fs := append([]edgeCond{}, controlling(in.Block())...)
		for i, cs := range sites {
			cf := controlling(cs.Block())
			if i == 0 {
				fs = append(fs, cf...)
			}
		}
		return fs
	}
	isTypEq := func(ec edgeCond, want ...int64) bool {
		bo, ok := ec.Cond.(*ssa.BinOp)
		if !ok || bo.Op != token.EQL || !ec.Pol || !strings.HasSuffix(path(bo.X), ".Typ") {
			return false
		}
		v, ok := constInt(bo.Y)
		if !ok {
			return false
		}
		for _, w := range want {
			if v == w {
				return true
			}
		}
		return false
	}
	// every store of a negated literal value is controlled by op.Typ == SUB
	n := 0
	hs := helpersOf(nu)
	var hlist []*ssa.Function
	for g := range hs {
		hlist = append(hlist, g)
	}
	sortFuncs(hlist)
	for _, g := range hlist {
		allInstrs(g, func(in ssa.Instruction) {
			s, ok := in.(*ssa.Store)
			if !ok {
				return
			}
			u, ok := s.Val.(*ssa.UnOp)
			if !ok || u.Op != token.SUB {
				return
			}
			n++
			gd := false
			for _, ec := range factsThrough(g, hs[g], s) {
				if isTypEq(ec, sub) {
					gd = true
				}
			}
			r.Ob("FOLD", fmt.Sprintf("newUnaryExpr negation #%d is under op == SUB", n), t.Pos(s.Pos()), gd, "a literal may be negated only for a minus sign")
		})
	}
	if n < 2 {
		// the folding sits deeper than one helper: decide it on the constructor's outcomes instead
		n += foldSignSpec(c, nu, sub)
	}
	r.FloorN("literal negations in newUnaryExpr", n, 2)
	m := arithRejectRule(c, "FOLD")
	r.FloorN("parse-time rejections in newArithmeticExpr", m, 1)
}

// opNameRule: parser.ItemTypeStr maps every operator token to the string of the like-named ast.Op constant.
func opNameRule(c *Ctx) {
	r, t := c.R, c.T
	pp := t.SSA[pParser]
	pairs := map[string]string{"ADD": "ADD", "SUB": "SUB", "MUL": "MUL", "DIV": "DIV", "MOD": "MOD", "EQEQ": "EQEQ", "NEQ": "NEQ", "LTE": "LTE", "LT": "LT", "GTE": "GTE", "GT": "GT",
		"AND": "AND", "OR": "OR", "NOT": "NOT", "EQ": "EQ", "ADD_EQ": "ADDEQ", "SUB_EQ": "SUBEQ", "MUL_EQ": "MULEQ", "DIV_EQ": "DIVEQ", "MOD_EQ": "MODEQ"}
	tokVal := map[int64]string{}
	for tok := range pairs {
		if cst := pp.Const(tok); cst != nil {
			v, _ := constInt(cst.Value)
			tokVal[v] = tok
		}
	}
	got := map[string]string{}
	for _, f := range t.PkgFuncs(pParser) {
		if !strings.HasPrefix(f.Name(), "init") {
			continue
		}
		allInstrs(f, func(in ssa.Instruction) {
			mu, ok := in.(*ssa.MapUpdate)
			if !ok {
				return
			}
			isTbl := false
			switch m := mu.Map.(type) {
			case *ssa.MakeMap:
				for _, ref := range *m.Referrers() {
					if s, ok := ref.(*ssa.Store); ok {
						if g, ok := s.Addr.(*ssa.Global); ok && g.Name() == "ItemTypeStr" {
							isTbl = true
						}
					}
				}
			case *ssa.UnOp:
				if g, ok := m.X.(*ssa.Global); ok && g.Name() == "ItemTypeStr" {
					isTbl = true
				}
			}
			if !isTbl {
				return
			}
			if k, ok := constInt(mu.Key); ok {
				if tok, ok := tokVal[k]; ok {
					if cv, ok := mu.Value.(*ssa.Const); ok && cv.Value != nil {
						got[tok] = strings.Trim(cv.Value.ExactString(), `"`)
					}
				}
			}
		})
	}
	for _, tok := range sortedKeys(pairs) {
		want := ""
		if cst := t.SSA[pAst].Const(pairs[tok]); cst != nil {
			want = strings.Trim(cst.Value.Value.ExactString(), `"`)
		}
		r.Ob("OP-NAMES", "token "+tok+" ↔ ast."+pairs[tok], "pkg/parser/lex.go", got[tok] == want && want != "", fmt.Sprintf("ItemTypeStr[%s] = %q, ast.%s = %q: the evaluators switch on the ast.Op constant, the parser stores the table string", tok, got[tok], pairs[tok], want))
	}
	r.Floor("OP-NAMES", 20)
}

// isPureBlock: the block performs no store and no call other than conversions/accessors of its return value.
func isPureBlock(b *ssa.BasicBlock) bool {
	for _, in := range b.Instrs {
		switch x := in.(type) {
		case *ssa.Store, *ssa.MapUpdate, *ssa.Defer, *ssa.Go, *ssa.Send:
			return false
		case *ssa.Call:
			if f := x.Call.StaticCallee(); f == nil || f.Name() == "ReturnAppend" || f.Name() == "SetVarb" {
				return false
			}
		}
	}
	return true
}

func condsOnly(conds []string) []string {
	var out []string
	for _, c := range conds {
		if !strings.HasPrefix(c, "effect:") {
			out = append(out, c)
		}
	}
	return out
}

// arithRejectRule: see the comment inside; shared by C02 (FOLD) and C06 (CTOR-TOTAL: a constructor that refuses a
// well-formed operand pair makes valid source text fail to parse).
func arithRejectRule(c *Ctx, rule string) int {
	r, t := c.R, c.T
	pp := t.SSA[pParser]
	div, _ := constInt(pp.Const("DIV").Value)
	modv, _ := constInt(pp.Const("MOD").Value)
	na := t.Method(pParser, "parser", "newArithmeticExpr")
	if na == nil {
		r.Undecided(rule, "parser.newArithmeticExpr", "", "unresolved anchor")
		return 0
	}
	r.Fn(relName(na))
	// Rejections: newArithmeticExpr specialised with symbolic operands (helpers inlined, position lookups opaque). Every
	// outcome that builds no node is either for an operand that is already nil (an earlier, recorded error) or is
	// conditioned on the operator being / or % AND on the literal value of the divisor — the right operand — being zero.
	m := 0
	{
		cfg := &specCfg{MaxLoop: 2, MaxDepth: 3, MaxVisits: 200000}
		cfg.Call = func(fn *ssa.Function, call *ssa.Call, nth int, args []sval) (sval, bool) {
			if cal := call.Call.StaticCallee(); cal != nil {
				switch fnName(cal) {
				case "LnCol", "PositionRange":
					return symv(cal.Name()), true
				case "addParseErrf", "addParseErr":
					return symv("effect:parse-error"), true
				}
			}
			return sval{}, false
		}
		var args []sval
		for _, p := range na.Params {
			args = append(args, symv(pname(p)))
		}
		outs, ab := cfg.run(na, args)
		if ab != "" || len(outs) == 0 || len(na.Params) != 4 {
			r.Undecided(rule, "newArithmeticExpr rejections", t.Pos(na.Pos()), "the constructor could not be specialised: "+ab)
		} else {
			divisor, dividend := pname(roleParam(na, 2)), pname(roleParam(na, 1))
			seen := map[string]bool{}
			for _, o := range outs {
				if len(o.Vals) != 1 || !o.Vals[0].nil {
					continue
				}
				nilOperand, okOp, okZero, other := false, false, false, ""
				for _, cd := range o.Cond {
					if strings.HasPrefix(cd, "effect:") {
						continue
					}
					lit := canonLit(cd)
					i := strings.Index(lit, " == ")
					if lit[0] != '+' || i < 0 {
						continue
					}
					x, y := lit[1:i], lit[i+4:]
					for _, xy := range [][2]string{{x, y}, {y, x}} {
						a, b := xy[0], xy[1]
						switch {
						case b == "nil" && (a == divisor || a == dividend):
							nilOperand = true
						case strings.Contains(a, ".Typ") && (b == fmt.Sprint(div) || b == fmt.Sprint(modv) || b == `"/"` || b == `"%"`):
							okOp = true
						case b == "0" && strings.HasSuffix(a, ".Val"):
							if strings.HasPrefix(a, divisor+".") {
								okZero = true
							} else {
								other = a
							}
						}
					}
				}
				if nilOperand {
					continue
				}
				key := "zero divisor"
				if !okOp || !okZero {
					key = "conditions: " + strings.Join(condsOnly(o.Cond), " && ")
					if len(key) > 160 {
						key = key[:160] + "…"
					}
				}
				if seen[key] {
					continue
				}
				seen[key] = true
				m++
				detail := "only `x / 0`, `x % 0` with a literal zero divisor may be rejected at parse time"
				if other != "" {
					detail += "; the zero test reads " + other + ", which is not the divisor " + divisor
				}
				r.Ob(rule, "newArithmeticExpr rejects only a literal zero divisor of / or %: "+key, t.Pos(na.Pos()), okOp && okZero, detail)
			}
		}
	}
	return m
}

// foldSignSpec: newUnaryExpr specialised for the operator (minus, plus) and the operand kind (float, integer
// literal), stores through the operand recorded as effects. For a minus sign the literal's value is stored negated
// (`x.Val := -x.Val`) on every folded outcome; for a plus sign the value is not changed. One obligation per kind.
func foldSignSpec(c *Ctx, nu *ssa.Function, sub int64) int {
	r, t := c.R, c.T
	pp := t.SSA[pParser]
	add, _ := constInt(pp.Const("ADD").Value)
	_, s2k := kindTable(t)
	n := 0
	if len(nu.Params) != 3 {
		return 0
	}
	opN, rN := pname(nu.Params[1]), pname(nu.Params[2])
	for _, kind := range []string{"FloatLiteral", "IntegerLiteral"} {
		k, ok := s2k[kind]
		if !ok {
			continue
		}
		okKind := true
		detail := ""
		for _, op := range []int64{sub, add} {
			cfg := &specCfg{MaxLoop: 2, MaxDepth: 4, StoreEffects: true,
				Paths: map[string]sval{opN + ".Typ": constv(constant.MakeInt64(op)), rN + ".NodeType": constv(constant.MakeInt64(k))}}
			cfg.Call = func(fn *ssa.Function, call *ssa.Call, nth int, args []sval) (sval, bool) {
				if cal := call.Call.StaticCallee(); cal != nil {
					switch fnName(cal) {
					case "LnCol", "PositionRange":
						return symv(cal.Name()), true
					case kind: // the accessor of the literal: a projection of the node
						if len(args) == 1 {
							return symv(args[0].String() + "." + kind + "()"), true
						}
					}
				}
				return sval{}, false
			}
			outs, ab := cfg.run(nu, []sval{symv("p"), symv(opN), symv(rN)})
			if ab != "" || len(outs) == 0 {
				okKind, detail = false, "could not be specialised: "+ab
				continue
			}
			for _, o := range outs {
				if os.Getenv("PLVERIF_DEBUG") == "fold" {
					fmt.Fprintln(os.Stderr, "FOLDSIGN", kind, op, o.Vals, o.Cond)
				}
				if len(o.Vals) != 1 || o.Vals[0].nil {
					continue // a nil operand
				}
				negated, changed := false, false
				for _, cd := range o.Cond {
					if !strings.HasPrefix(cd, "effect:store ") || !strings.Contains(cd, ".Val := ") {
						continue
					}
					lhs, rhs, _ := strings.Cut(strings.TrimPrefix(cd, "effect:store "), " := ")
					if stripParens(rhs) == "-"+lhs || stripParens(rhs) == "-("+lhs+")" {
						negated = true
					} else if rhs != lhs {
						changed = true
					}
				}
				folded := o.Vals[0].String() == rN
				switch {
				case op == sub && folded && (!negated || changed):
					okKind, detail = false, "a minus sign in front of the literal does not store the negated value"
				case op == add && (negated || changed):
					okKind, detail = false, "a plus sign changes the literal's value"
				case !folded && (negated || changed):
					okKind, detail = false, "the value is changed although the literal is not the result"
				}
			}
		}
		n++
		if detail == "" {
			detail = "specialised for minus and plus: minus stores -Val into the literal it returns, plus leaves Val alone"
		}
		r.Ob("FOLD", "newUnaryExpr folds the sign into a "+kind+" exactly for a minus sign", t.Pos(nu.Pos()), okKind, detail)
	}
	return n
}

// literalValRule (TAG-VALUE, literal arms): the operator tables are extracted for operands of a non-literal kind
// (see extractOpTables); an arm that answers a *literal* operand directly is covered by TAG-VALUE for the pairing of
// Go type and tag, and by this rule for the value: the Val of a Bool/Integer/Float/String literal node is used in the
// interpreters as it stands — never converted, negated or computed with — so a literal denotes in a fast path what
// it denotes through RunExpr.
func literalValRule(c *Ctx, rule string, pkgs []string) {
	r, t := c.R, c.T
	lit := map[string]bool{"BoolLiteral": true, "IntegerLiteral": true, "FloatLiteral": true, "StringLiteral": true}
	n := 0
	var bad []string
	for _, pp := range pkgs {
		for _, f := range t.PkgFuncs(pp) {
			allInstrs(f, func(in ssa.Instruction) {
				fa, ok := in.(*ssa.FieldAddr)
				if !ok || fieldName(fa) != "Val" {
					return
				}
				nm := strings.TrimPrefix(namedOf(fa.X.Type()), "ast.")
				if !lit[nm] {
					return
				}
				for _, ref := range *fa.Referrers() {
					ld, ok := ref.(*ssa.UnOp)
					if !ok || ld.Op != token.MUL {
						continue
					}
					n++
					for _, use := range *ld.Referrers() {
						switch u := use.(type) {
						case *ssa.Convert, *ssa.ChangeType:
							bad = append(bad, fmt.Sprintf("%s converts %s.Val at %s", relName(f), nm, t.Pos(use.Pos())))
						case *ssa.UnOp:
							if u.Op == token.SUB || u.Op == token.NOT || u.Op == token.XOR {
								bad = append(bad, fmt.Sprintf("%s applies %s to %s.Val at %s", relName(f), u.Op, nm, t.Pos(use.Pos())))
							}
						case *ssa.BinOp:
							switch u.Op {
							case token.ADD, token.SUB, token.MUL, token.QUO, token.REM, token.SHL, token.SHR, token.AND, token.OR, token.XOR:
								if nm != "StringLiteral" || u.Op != token.ADD {
									bad = append(bad, fmt.Sprintf("%s computes with %s.Val (%s) at %s", relName(f), nm, u.Op, t.Pos(use.Pos())))
								}
							}
						}
					}
				}
			})
		}
	}
	sort.Strings(bad)
	r.Ob(rule, "literal values are used as they stand in the interpreters", "", len(bad) == 0,
		fmt.Sprintf("%d reads of a scalar literal's Val in the interpreter packages; %s — a literal answered by a fast path must denote what RunExpr's literal arm yields (the operator tables are extracted for non-literal operands)", n, strings.Join(bad, "; ")))
	r.FloorN("reads of scalar literal values in the interpreters", n, 4)
}
