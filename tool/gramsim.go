package main

import (
	"fmt"
	"strconv"
	"strings"
)

// LALR simulation: the automaton listed in y.output (states, actions, gotos) is driven over a short symbolic token
// string. Nothing of /repo is executed — the tables are data derived from gram.y by goyacc, and the walk is the
// textbook shift/reduce loop. It yields the reductions with the token span of every right-hand-side symbol, which is
// all that "how does `a OP1 b OP2 c` group" asks, whatever shape the productions have (operators listed directly,
// folded into operator-class non-terminals, split over precedence-climbing non-terminals …).

type simRed struct {
	Rule  int
	Spans [][2]int // token span [from,to) of each RHS symbol
	Span  [2]int
}

func (g *Gram) simulate(tokens []string) ([]simRed, error) {
	if len(g.States) == 0 {
		return nil, fmt.Errorf("no automaton")
	}
	byNum := map[int]*LRState{}
	for _, s := range g.States {
		byNum[s.Num] = s
	}
	type ent struct {
		st   int
		span [2]int
	}
	stack := []ent{{0, [2]int{0, 0}}}
	toks := append(append([]string{}, tokens...), "$end")
	var reds []simRed
	i := 0
	for steps := 0; steps < 10000; steps++ {
		st := byNum[stack[len(stack)-1].st]
		if st == nil {
			return reds, fmt.Errorf("state %d missing", stack[len(stack)-1].st)
		}
		la := toks[i]
		act := st.ActionOn(la)
		switch {
		case act == "accept":
			return reds, nil
		case strings.HasPrefix(act, "shift "):
			n, _ := strconv.Atoi(act[6:])
			stack = append(stack, ent{n, [2]int{i, i + 1}})
			i++
		case strings.HasPrefix(act, "reduce "):
			n, _ := strconv.Atoi(act[7:])
			if n <= 0 || n >= len(g.Prods) {
				return reds, fmt.Errorf("rule %d out of range", n)
			}
			p := g.Prods[n]
			k := len(p.RHS)
			if k > len(stack)-1 {
				return reds, fmt.Errorf("stack underflow reducing rule %d", n)
			}
			rd := simRed{Rule: n}
			pos := i
			if k > 0 {
				pos = stack[len(stack)-k].span[0]
			}
			rd.Span = [2]int{pos, pos}
			for _, e := range stack[len(stack)-k:] {
				rd.Spans = append(rd.Spans, e.span)
				rd.Span[1] = e.span[1]
			}
			if k == 0 {
				// an empty right-hand side sits just before the look-ahead
				rd.Span = [2]int{i, i}
			}
			stack = stack[:len(stack)-k]
			top := byNum[stack[len(stack)-1].st]
			nx, ok := top.Gotos[p.LHS]
			if !ok {
				return reds, fmt.Errorf("no goto on %s in state %d", p.LHS, top.Num)
			}
			stack = append(stack, ent{nx, rd.Span})
			reds = append(reds, rd)
		default:
			return reds, fmt.Errorf("syntax error in state %d on %s (token #%d of %s)", st.Num, la, i, strings.Join(tokens, " "))
		}
	}
	return reds, fmt.Errorf("step budget exhausted")
}

// groupingOf parses `pre… A op1 B op2 C` (operand positions given) and says how the two operators group:
// "left" = (A op1 B) op2 C, "right" = A op1 (B op2 C). The deciding reduction is the smallest one that covers both
// operator tokens: the operator that is NOT inside one of its proper sub-spans is the root.
func groupingOf(reds []simRed, op1, op2 int) string {
	var best *simRed
	for k := range reds {
		rd := &reds[k]
		if rd.Span[0] <= op1 && rd.Span[1] > op2 {
			if best == nil || rd.Span[1]-rd.Span[0] < best.Span[1]-best.Span[0] || (rd.Span == best.Span && k < indexOfRed(reds, best)) {
				best = rd
			}
		}
	}
	if best == nil {
		return "none"
	}
	nested := func(pos int) bool { // the operator sits inside a child that also holds operands (an inner expression)
		for _, sp := range best.Spans {
			if sp[0] <= pos && pos < sp[1] {
				return sp[1]-sp[0] >= 3
			}
		}
		return false
	}
	i1, i2 := nested(op1), nested(op2)
	switch {
	case i1 && !i2:
		return "left"
	case !i1 && i2:
		return "right"
	}
	return "unclear"
}

func indexOfRed(reds []simRed, r *simRed) int {
	for k := range reds {
		if &reds[k] == r {
			return k
		}
	}
	return -1
}

// tokenClass: the tokens a right-hand-side symbol stands for when it is a token itself or an operator-class
// non-terminal — every production of it is a single token handed up unchanged (`cmp_op: LT | GT | …`, default action
// or `$$ = $1`). Anything else yields nil.
func (g *Gram) tokenClass(sym string) []string {
	if g.Tokens[sym] {
		return []string{sym}
	}
	var out []string
	n := 0
	for _, p := range g.Prods[1:] {
		if p.LHS != sym {
			continue
		}
		n++
		if len(p.RHS) != 1 || !g.Tokens[p.RHS[0]] {
			return nil
		}
		if ai := g.Actions[p.Num]; ai != nil && (len(ai.Calls) != 0 || (len(ai.PassIdx) > 0 && ai.PassIdx[0] != 1)) {
			return nil
		}
		out = append(out, p.RHS[0])
	}
	if n == 0 {
		return nil
	}
	return out
}
