package main

import (
	"fmt"
	"go/token"
	"go/types"
	"sort"
	"strings"

	"golang.org/x/tools/go/ssa"
)

func init() {
	register("C16", "concurrency safety: write-effect discipline over the run, load and parse scopes", checkC16)
}

var sharedTypePrefixes = []string{"ast.", "runtime.Script.", "runtimev2.Script.", "runtimev2.Fn.", "runtimev2.Param.", "runtimev2.FnDesc."}

// sharedWriteObligations: one obligation per function of the scope: it writes neither the shared tree nor a global.
func sharedWriteObligations(c *Ctx, rule, scopeName string, fns map[*ssa.Function]bool, checkShared bool) (nWrites int) {
	r, t := c.R, c.T
	var list []*ssa.Function
	for f := range fns {
		list = append(list, f)
	}
	sortFuncs(list)
	for _, f := range list {
		r.Fn(relName(f))
		var bad []string
		pos := t.Pos(f.Pos())
		for _, w := range writesOf(f) {
			nWrites++
			if g, ok := w.Root.(*ssa.Global); ok {
				bad = append(bad, fmt.Sprintf("%s of package-level variable %s.%s at %s", w.Kind, g.Pkg.Pkg.Name(), g.Name(), t.Pos(w.In.Pos())))
				pos = t.Pos(w.In.Pos())
				continue
			}
			if !checkShared {
				continue
			}
			if via := w.passesThrough(sharedTypePrefixes...); via != "" {
				if a, ok := w.Root.(*ssa.Alloc); ok && a.Heap {
					continue // an object allocated by this very function: not shared yet
				}
				bad = append(bad, fmt.Sprintf("%s through %s (%s, root %s) at %s", w.Kind, via, path(w.Addr), rootKind(w.Root), t.Pos(w.In.Pos())))
				pos = t.Pos(w.In.Pos())
			}
		}
		// the address (or a slice) of a package-level variable handed to a callee lets the callee write it
		allInstrs(f, func(in ssa.Instruction) {
			ci, isCall := in.(ssa.CallInstruction)
			if !isCall {
				return
			}
			for _, a := range ci.Common().Args {
				v := a
				if sl, ok := v.(*ssa.Slice); ok {
					v = sl.X
				}
				for {
					if fa, ok := v.(*ssa.FieldAddr); ok {
						v = fa.X
						continue
					}
					if ia, ok := v.(*ssa.IndexAddr); ok {
						v = ia.X
						continue
					}
					break
				}
				g, ok := v.(*ssa.Global)
				if !ok {
					continue
				}
				ts := g.Type().String()
				if strings.Contains(ts, "sync.Pool") || strings.Contains(ts, "sync.Mutex") || strings.Contains(ts, "sync.RWMutex") || strings.Contains(ts, "sync.Once") {
					continue // synchronised by construction
				}
				bad = append(bad, fmt.Sprintf("address of package-level variable %s.%s passed to %s at %s", g.Pkg.Pkg.Name(), g.Name(), calleeName(in), t.Pos(in.Pos())))
				pos = t.Pos(in.Pos())
			}
		})
		detail := "writes no package-level variable"
		if checkShared {
			detail += " and nothing reachable through the loaded script or its syntax tree"
		}
		if len(bad) > 0 {
			detail = strings.Join(bad, "; ") + " — two goroutines running the same loaded script (or parsing) race on this location"
		}
		r.Ob(rule, scopeName+" scope: "+relName(f), pos, len(bad) == 0, detail)
	}
	return
}

func checkC16(c *Ctx) {
	r, t := c.R, c.T
	r.Explanation = "Decides the write-discipline half of race freedom for all schedules: (1) RUN-WRITES: no function reachable from Script.Run/RefRun and the 23 registered builtins (v1), nor from runtimev2 Script.Run and the GetParam* helpers (v2), writes (field store, element store, map update, delete, copy) through any address that passes through a type of pkg/ast, runtime.Script or the v2 script/function descriptors, whatever its root, and none writes a package-level variable; (2) LOAD-WRITES / PARSE-WRITES: functions reachable from the load entry points and from ParsePipeline write no package-level variable (sync.Pool method calls excepted); in the parse scope, writes through pkg/ast types have as root an object allocated by the writing function or a node parameter handed between constructors (the tree under construction); (3) ANNOTATIONS: the load-time caches on the tree (CallExpr.Grok/Re/PrivateData/ParamNormalized, Script.CallRef) are written only by functions of the load scope and by none of the run scopes; (4) POOL-NO-ESCAPE: the pooled task obtained in Run/RefRun/Check is stored nowhere but in locals and handed to no goroutine; (4b) USE-AFTER-RELEASE: after a non-deferred release of a pooled object (sync.Pool.Put or a Put* helper) no later instruction of that function uses the object or an address derived from it; (4c) SCRIPT-ALIAS: a task field that an init function fills with a slice or map of the loaded script (Task.callRef = Script.CallRef) is never appended to, stored into or updated by a function of the run scope; (5) every dynamic call site in the scopes is bound (builtin/checker registry, lexer state functions) or listed. Reachability uses explicitly resolved callees (static calls, in-module interface implementations, registry values), not CHA, because FuncsMap and FuncsCheckMap share one Go signature. Not decided: races inside third-party code (grok, zap, time zone cache), equality of concurrent and sequential results."
	r.Trusted = []string{"github.com/GuanceCloud/grok (*GrokRegexp is used read-only at run time)", "go.uber.org/zap loggers", "time.LoadLocation cache", "spf13/cast", "sync.Pool"}
	run := runScope(t)
	v2, v2un := v2Scope(t)
	load, loadun := loadScope(t)
	parse, parseun := parseScope(t)
	{
		// objects of foreign types kept in package-level variables and used by the run scopes: unless the type is one
		// of the few documented as safe for concurrent use, two goroutines running scripts share its internal state
		var fns []*ssa.Function
		for f := range run {
			fns = append(fns, f)
		}
		for f := range v2 {
			if !run[f] {
				fns = append(fns, f)
			}
		}
		sortFuncs(fns)
		nObj, bad := sharedObjects(t, fns)
		r.Ob("RUN-WRITES", "run scopes share no third-party object through a package-level variable", "", len(bad) == 0,
			fmt.Sprintf("%d uses inspected (sync.Pool, regexp.Regexp, time.Location, os.File accepted as safe for concurrent use); %s — a library object that adapts itself to its input (an obfuscator, a tokenizer, a cache) makes concurrent runs influence each other even when the race detector stays silent", nObj, strings.Join(bad, "; ")))
	}
	n := sharedWriteObligations(c, "RUN-WRITES", "run(v1)", run, true)
	n += sharedWriteObligations(c, "RUN-WRITES", "run(v2)", v2, true)
	sharedWriteObligations(c, "LOAD-WRITES", "load", load, false)
	sharedWriteObligations(c, "PARSE-WRITES", "parse", parse, false)
	r.Counts["writes_inspected_run"] = n
	// task fields that alias the loaded script's slices are only read at run time
	r.FloorN("task fields aliasing script storage", scriptAliasRule(c, "SCRIPT-ALIAS", run), 1)
	r.FloorN("functions in run scope v1", len(run), 150)
	r.FloorN("functions in run scope v2", len(v2), 60)
	r.FloorN("functions in load scope", len(load), 200)
	r.FloorN("functions in parse scope", len(parse), 100)
	// unresolved dynamic call sites
	un := append(append(append(runScopeUnresolved(t), v2un...), loadun...), parseun...)
	seen := map[string]bool{}
	var uniq []string
	for _, u := range un {
		k := u.key(t)
		if seen[k] {
			continue
		}
		seen[k] = true
		uniq = append(uniq, k)
		// admissible unbound sites are host-supplied callbacks: a func-typed parameter (run options), or a func-typed
		// field of the v2 function table (Fn.Call, Fn.CallCheck, Param.Val)
		cc := u.In.(ssa.CallInstruction).Common()
		what := path(cc.Value)
		ok := false
		switch rt := rootOf(cc.Value).(type) {
		case *ssa.Parameter:
			ok = true
			_ = rt
		}
		if strings.HasSuffix(what, ".Val") || strings.HasSuffix(what, "#0") && strings.Contains(what, "GetFn") {
			ok = true
		}
		r.Ob("DYNAMIC-BOUND", "dynamic call in "+relName(u.Fn)+" of "+what, t.Pos(u.In.Pos()), ok, "a dynamic call that is neither bound to a registry nor a host-supplied callback hides callees from the effect analysis")
	}
	sort.Strings(uniq)
	r.Extra["unbound_dynamic_call_sites"] = uniq
	// parse scope: tree writes are local to the tree under construction
	nTree := 0
	var plist []*ssa.Function
	for f := range parse {
		plist = append(plist, f)
	}
	sortFuncs(plist)
	for _, f := range plist {
		for _, w := range writesOf(f) {
			via := w.passesThrough("ast.")
			if via == "" {
				continue
			}
			nTree++
			ok := false
			switch x := w.Root.(type) {
			case *ssa.Alloc:
				ok = true
			case *ssa.Parameter:
				ok = isAstTyped(x.Type()) || namedOf(x.Type()) == "parser.yyParserImpl" || namedOf(x.Type()) == "parser.parser"
			case *ssa.Phi, *ssa.Call, *ssa.MakeSlice:
				ok = true // value produced inside this parse (yacc value stack slot, append result)
			}
			if !ok {
				r.Ob("PARSE-TREE-LOCAL", fmt.Sprintf("%s %s", relName(f), path(w.Addr)), t.Pos(w.In.Pos()), false, "write into a syntax-tree object whose root is "+rootKind(w.Root)+": not provably the tree under construction")
			}
		}
	}
	r.Ob("PARSE-TREE-LOCAL", "parse scope tree writes", "pkg/parser/parser.go", true, fmt.Sprintf("%d writes through pkg/ast types inspected: all rooted at an allocation of this parse or a node parameter", nTree))
	r.FloorN("tree writes in parse scope", nTree, 60)

	// annotations: writers module-wide
	ann := map[string]bool{"ast.CallExpr.Grok": true, "ast.CallExpr.Re": true, "ast.CallExpr.PrivateData": true, "ast.CallExpr.ParamNormalized": true, "runtime.Script.CallRef": true}
	nAnn := 0
	for _, pp := range sortedKeys(t.SSA) {
		for _, f := range t.PkgFuncs(pp) {
			for _, w := range writesOf(f) {
				if len(w.Through) == 0 || !ann[w.Through[0]] {
					continue
				}
				if a, ok := w.Root.(*ssa.Alloc); ok && a.Heap {
					continue
				}
				nAnn++
				inLoad := load[f]
				inRun := run[f] || v2[f]
				r.Ob("ANNOTATIONS", fmt.Sprintf("%s writes %s", relName(f), w.Through[0]), t.Pos(w.In.Pos()), inLoad && !inRun,
					fmt.Sprintf("tree annotation written by a function that is in load scope=%v, run scope=%v; it must be load-time only", inLoad, inRun))
			}
		}
	}
	r.FloorN("annotation writers", nAnn, 3)

	// no use of a pooled object after it was released
	useAfterRelease(c, "USE-AFTER-RELEASE", []string{pParser, pRT, pRT2, pEngine, pFuncs, pInput})
	poolPairing(c, "USE-AFTER-RELEASE")

	// pooled task does not escape: wherever a task is taken from the pool (Run/RefRun/Check themselves, or a helper
	// they share), it is stored nowhere but in locals and handed to no goroutine
	get := t.Func(pRT, "GetContext")
	for _, spec := range []struct{ pkg, typ, m string }{{pRT, "Script", "Run"}, {pRT, "Script", "RefRun"}, {pRT, "Script", "Check"}} {
		fn := t.Method(spec.pkg, spec.typ, spec.m)
		if fn == nil || get == nil {
			r.Undecided("POOL-NO-ESCAPE", spec.typ+"."+spec.m, "", "unresolved anchor")
			continue
		}
		r.Ob("POOL-NO-ESCAPE", fmt.Sprintf("%s works on a task from the pool", relName(fn)), t.Pos(fn.Pos()), findCallThrough(fn, get) != nil, "GetContext() in the function or in the helper it delegates to")
	}
	nAcq := 0
	for _, fn := range t.PkgFuncs(pRT) {
		if fn == get {
			continue
		}
		escaped := ""
		n := 0
		allInstrs(fn, func(in ssa.Instruction) {
			call, ok := in.(*ssa.Call)
			if !ok || call.Call.StaticCallee() != get {
				return
			}
			n++
			for _, ref := range *call.Referrers() {
				switch x := ref.(type) {
				case *ssa.Store:
					if x.Val == ssa.Value(call) {
						if a, ok := x.Addr.(*ssa.Alloc); !ok || a.Heap {
							// a heap cell captured by a deferred closure is still local to this activation
							if a != nil && a.Heap && onlyLocalUses(a) {
								continue
							}
							escaped = "stored to " + path(x.Addr) + " at " + t.Pos(x.Pos())
						}
					}
				case *ssa.Go:
					escaped = "handed to a goroutine at " + t.Pos(x.Pos())
				case *ssa.MakeInterface:
					escaped = "converted to an interface at " + t.Pos(x.Pos())
				}
			}
		})
		if n == 0 {
			continue
		}
		nAcq++
		r.Fn(relName(fn))
		r.Ob("POOL-NO-ESCAPE", fmt.Sprintf("%s task from the pool stays local", relName(fn)), t.Pos(fn.Pos()), escaped == "", "pooled task "+escaped)
	}
	r.FloorN("functions taking a task from the pool", nAcq, 2)
}

// onlyLocalUses: a heap-allocated local (captured variable) that is only loaded, stored and captured by closures.
func onlyLocalUses(a *ssa.Alloc) bool {
	for _, ref := range *a.Referrers() {
		switch ref.(type) {
		case *ssa.Store, *ssa.UnOp, *ssa.MakeClosure, *ssa.DebugRef:
		default:
			return false
		}
	}
	return true
}

// isReleaseCall: a call that hands a pooled object back: (*sync.Pool).Put(pool, x) or an in-module Put* helper
// whose body does that with its parameter. Returns the released value.
func releasedValue(call *ssa.CallCommon) ssa.Value {
	f := call.StaticCallee()
	if f == nil {
		return nil
	}
	if f.Name() == "Put" && len(call.Args) == 2 {
		if g, ok := call.Args[0].(*ssa.Global); ok && isSyncPool(g) {
			return unwrapIface(call.Args[1])
		}
	}
	if inModule(f) && len(call.Args) == 1 {
		// helper that puts its parameter into a pool
		puts := false
		allInstrs(f, func(in ssa.Instruction) {
			if c, ok := in.(*ssa.Call); ok && c.Call.StaticCallee() != nil && fnName(c.Call.StaticCallee()) == "Put" && len(c.Call.Args) == 2 {
				if unwrapIface(c.Call.Args[1]) == ssa.Value(f.Params[0]) {
					puts = true
				}
			}
		})
		if puts {
			return call.Args[0]
		}
	}
	return nil
}

// useAfterRelease: in every function of the given packages, after a (non-deferred) release of a pooled object no
// instruction may use the object or an address derived from it — another goroutine may own it by then.
func useAfterRelease(c *Ctx, rule string, pkgs []string) {
	r, t := c.R, c.T
	n := 0
	for _, pp := range pkgs {
		for _, f := range t.PkgFuncs(pp) {
			allInstrs(f, func(in ssa.Instruction) {
				call, ok := in.(*ssa.Call) // deferred releases are *ssa.Defer and run at exit
				if !ok {
					return
				}
				obj := releasedValue(&call.Call)
				if obj == nil {
					return
				}
				n++
				// values derived from obj: obj itself and address computations based on it
				derived := map[ssa.Value]bool{obj: true}
				changed := true
				for changed {
					changed = false
					allInstrs(f, func(i2 ssa.Instruction) {
						v, ok := i2.(ssa.Value)
						if !ok || derived[v] {
							return
						}
						switch x := i2.(type) {
						case *ssa.FieldAddr:
							if derived[x.X] {
								derived[v] = true
								changed = true
							}
						case *ssa.IndexAddr:
							if derived[x.X] {
								derived[v] = true
								changed = true
							}
						case *ssa.MakeInterface:
							if derived[x.X] {
								derived[v] = true
								changed = true
							}
						case *ssa.Phi:
							for _, e := range x.Edges {
								if derived[e] {
									derived[v] = true
									changed = true
								}
							}
						}
					})
				}
				var bad []string
				allInstrs(f, func(i2 ssa.Instruction) {
					if i2 == in || !reachableFrom(in, i2) {
						return
					}
					if _, isDbg := i2.(*ssa.DebugRef); isDbg {
						return
					}
					for _, op := range i2.Operands(nil) {
						if op != nil && *op != nil && derived[*op] {
							if _, isAddr := i2.(*ssa.FieldAddr); isAddr {
								continue // computing an address is harmless; its use is what counts
							}
							bad = append(bad, fmt.Sprintf("%s uses %s at %s", strings.TrimPrefix(fmt.Sprintf("%T", i2), "*ssa."), path(*op), t.Pos(i2.Pos())))
						}
					}
				})
				r.Ob(rule, fmt.Sprintf("%s release #%d of %s", relName(f), ordinalCall(f, call), path(obj)), t.Pos(call.Pos()), len(bad) == 0,
					"after an object went back to its pool another goroutine may already own and re-initialise it; later uses here: "+strings.Join(bad, "; "))
			})
		}
	}
	r.FloorN("non-deferred release sites inspected", n, 1)
}

// scriptAliasRule: a task field that an init function fills with a slice or map read from the loaded script
// (`ctx.callRef = script.CallRef`) is an alias of storage owned by the script, shared by every goroutine running it.
// In the run scopes nothing may append to, store into or update such a field's value: an append writes into the
// shared backing array whenever it has spare capacity.
func scriptAliasRule(c *Ctx, rule string, scope map[*ssa.Function]bool) int {
	r, t := c.R, c.T
	aliased := map[string]string{} // task field -> where it is bound to the script
	for _, pp := range []string{pRT, pRT2} {
		for _, f := range t.PkgFuncs(pp) {
			allInstrs(f, func(in ssa.Instruction) {
				s, ok := in.(*ssa.Store)
				if !ok {
					return
				}
				fa, ok := s.Addr.(*ssa.FieldAddr)
				if !ok || !strings.HasSuffix(namedOf(fa.X.Type()), ".Task") {
					return
				}
				switch s.Val.Type().Underlying().(type) {
				case *types.Slice, *types.Map:
				default:
					return
				}
				// the stored value is read through a *Script
				v := s.Val
				for i := 0; i < 8; i++ {
					ld, isL := v.(*ssa.UnOp)
					if !isL || ld.Op != token.MUL {
						break
					}
					fa2, isF := ld.X.(*ssa.FieldAddr)
					if !isF {
						break
					}
					if strings.HasSuffix(namedOf(fa2.X.Type()), ".Script") {
						aliased[fieldName(fa)] = relName(f) + " binds it to Script." + fieldName(fa2)
						break
					}
					v = fa2.X
				}
			})
		}
	}
	r.Extra["task_fields_aliasing_script_storage"] = aliased
	isAliased := func(v ssa.Value) (string, bool) {
		ld, ok := v.(*ssa.UnOp)
		if !ok || ld.Op != token.MUL {
			return "", false
		}
		fa, ok := ld.X.(*ssa.FieldAddr)
		if !ok || !strings.HasSuffix(namedOf(fa.X.Type()), ".Task") {
			return "", false
		}
		_, has := aliased[fieldName(fa)]
		return fieldName(fa), has
	}
	n := 0
	var list []*ssa.Function
	for f := range scope {
		list = append(list, f)
	}
	sortFuncs(list)
	for _, f := range list {
		k := 0
		allInstrs(f, func(in ssa.Instruction) {
			what, fld := "", ""
			switch x := in.(type) {
			case *ssa.Call:
				if builtinName(x) == "append" && len(x.Call.Args) > 0 {
					if fl, ok := isAliased(x.Call.Args[0]); ok {
						what, fld = "append to", fl
					}
				}
			case *ssa.Store:
				if ia, ok := x.Addr.(*ssa.IndexAddr); ok {
					if fl, ok := isAliased(ia.X); ok {
						what, fld = "element store into", fl
					}
				}
			case *ssa.MapUpdate:
				if fl, ok := isAliased(x.Map); ok {
					what, fld = "map update of", fl
				}
			}
			if what == "" {
				return
			}
			k++
			n++
			r.Ob(rule, fmt.Sprintf("%s %s Task.%s #%d", relName(f), what, fld, k), t.Pos(in.Pos()), false,
				"Task."+fld+" aliases storage of the loaded script ("+aliased[fld]+"): a write through it at run time is a write to memory shared by every goroutine running the script")
		})
	}
	r.Ob(rule, "task fields that alias script storage are only read at run time", "", true, fmt.Sprintf("aliased fields: %v; %d functions in the run scope inspected", sortedKeys(aliased), len(list)))
	return len(aliased)
}
