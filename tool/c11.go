package main

import (
	"fmt"
	"go/constant"
	"go/token"
	"sort"
	"strings"

	"golang.org/x/tools/go/ssa"
)

func init() {
	register("C11", "field-manipulating builtins: effect signatures, missing-subject no-op, data-error purity, return discipline, cast table, `_` alias", checkC11)
	register("C12", "extraction builtins: effect signatures, pattern scoping, load-time pattern errors, capture typing, failure purity", checkC12)
}

type effRef struct {
	Signatures map[string]string `json:"signatures"`
	C11        []string          `json:"c11"`
	C12        []string          `json:"c12"`
	Returns    []string          `json:"returns"`
	MissingEx  map[string]string `json:"missing_subject_exceptions"`
	DataCalls  []string          `json:"data_error_calls"`
	DataEx     map[string]string `json:"data_error_exceptions"`
}

// failureEdge: the block reached when `err` (result idx of call) is non-nil, if the code tests it.
func failureEdges(f *ssa.Function, call *ssa.Call) []*ssa.BasicBlock {
	var out []*ssa.BasicBlock
	isErrOf := func(v ssa.Value) bool {
		if v == ssa.Value(call) {
			return true
		}
		if ex, ok := v.(*ssa.Extract); ok && ex.Tuple == ssa.Value(call) {
			return strings.HasSuffix(ex.Type().String(), "error") || strings.HasSuffix(ex.Type().String(), "PlError")
		}
		return false
	}
	for _, b := range f.Blocks {
		iff, ok := b.Instrs[len(b.Instrs)-1].(*ssa.If)
		if !ok {
			continue
		}
		bo, ok := iff.Cond.(*ssa.BinOp)
		if !ok || !isNilConst(bo.Y) || !isErrOf(bo.X) {
			continue
		}
		if bo.Op == token.NEQ {
			out = append(out, b.Succs[0])
		} else if bo.Op == token.EQL {
			out = append(out, b.Succs[1])
		}
	}
	return out
}

func blocksReachable(from *ssa.BasicBlock) map[*ssa.BasicBlock]bool {
	seen := map[*ssa.BasicBlock]bool{}
	st := []*ssa.BasicBlock{from}
	for len(st) > 0 {
		b := st[len(st)-1]
		st = st[:len(st)-1]
		if seen[b] {
			continue
		}
		seen[b] = true
		st = append(st, b.Succs...)
	}
	return seen
}

func builtinRules(c *Ctx, names []string, ref *effRef, rulePrefix string) {
	r, t := c.R, c.T
	run, _ := registryMaps(t)
	isReturning := map[string]bool{}
	for _, n := range ref.Returns {
		isReturning[n] = true
	}
	dataCall := map[string]bool{}
	for _, n := range ref.DataCalls {
		dataCall[n] = true
	}
	for _, name := range names {
		f := run[name]
		if f == nil {
			r.Ob("EFFECT-SIG", "builtin "+name, "", false, "not registered in FuncsMap")
			continue
		}
		r.Fn(relName(f))
		got := effectSignature(t, f)
		r.Ob("EFFECT-SIG", "builtin "+name, t.Pos(f.Pos()), got == ref.Signatures[name],
			fmt.Sprintf("extracted: [%s] ; documented: [%s] — the builtin must read its subject through the documented lookup and write exactly the documented destination", got, ref.Signatures[name]))
		sites := effectSites(t, f, 1)
		var writes, reads []effectSite
		for _, e := range sites {
			switch e.Kind {
			case "write", "stdout":
				if e.Fn == f {
					writes = append(writes, e)
				}
			case "read":
				if e.Fn == f && !strings.HasPrefix(e.Desc, "eval(") {
					reads = append(reads, e)
				}
			}
		}
		// missing subject ⇒ no-op
		for _, rd := range reads {
			for _, fe := range failureEdges(f, rd.Call) {
				reach := blocksReachable(fe)
				var leaked []string
				for _, w := range writes {
					if reach[w.Call.Block()] {
						leaked = append(leaked, w.Desc)
					}
				}
				_, exc := ref.MissingEx[name]
				r.Ob("MISSING-NOOP", fmt.Sprintf("builtin %s when %s fails", name, rd.Desc), t.Pos(rd.Call.Pos()), len(leaked) == 0 || exc,
					fmt.Sprintf("effects reachable after the subject was found missing: %v (documented exception: %q)", leaked, ref.MissingEx[name]))
			}
		}
		// once the subject was read, the write happens unless something failed: a success return that skips the
		// write must sit under a failure fact (an error value, a failed assertion or lookup), not under a
		// comparison of ordinary values
		if rulePrefix == "C11" && len(writes) > 0 && len(reads) > 0 {
			isWrite := func(in ssa.Instruction) bool {
				for _, w := range writes {
					if in == ssa.Instruction(w.Call) {
						return true
					}
				}
				return false
			}
			for _, rd := range reads {
				allInstrs(f, func(in ssa.Instruction) {
					ret, ok := in.(*ssa.Return)
					if !ok || ret.Block() == f.Recover || retError(ret) == "nonnil" {
						return
					}
					if !reachAvoid(rd.Call, ret, isWrite) {
						return
					}
					why := ""
					for _, ec := range controlling(ret.Block()) {
						if !reachableFrom(rd.Call, ec.If.Instrs[len(ec.If.Instrs)-1]) {
							continue // decided before the subject was read
						}
						switch cd := ec.Cond.(type) {
						case *ssa.BinOp:
							if isNilConst(cd.Y) && ((cd.Op == token.NEQ && ec.Pol) || (cd.Op == token.EQL && !ec.Pol)) {
								ts := cd.X.Type().String()
								if ts == "error" || strings.HasSuffix(ts, "errchain.PlError") {
									why = "error " + path(cd.X)
								}
							}
						case *ssa.Extract:
							if cd.Index == 1 && !ec.Pol {
								why = "failed " + path(cd.Tuple)
							}
						}
					}
					if _, exc := ref.MissingEx[name]; exc {
						why = "documented exception"
					}
					r.Ob("WRITE-UNLESS-FAILED", fmt.Sprintf("builtin %s return #%d after %s without its write", name, retOrdinal(f, ret), rd.Desc), t.Pos(ret.Pos()), why != "",
						"a success return reached after the subject was read and before the documented write must be justified by a failure ("+why+"); conditions seen: "+fmt.Sprint(controlling(ret.Block())))
				})
			}
		}
		// data errors
		allInstrs(f, func(in ssa.Instruction) {
			call, ok := in.(*ssa.Call)
			if !ok || call.Call.StaticCallee() == nil || !dataCall[fnName(call.Call.StaticCallee())] {
				return
			}
			for _, fe := range failureEdges(f, call) {
				reach := blocksReachable(fe)
				var leaked []string
				for _, e := range sites {
					if (e.Kind == "write" || e.Kind == "stdout") && reach[e.Call.Block()] && e.Fn == f {
						leaked = append(leaked, e.Desc)
					}
				}
				_, exc := ref.DataEx[name]
				r.Ob("DATA-ERROR", fmt.Sprintf("builtin %s when %s fails", name, fnName(call.Call.StaticCallee())), t.Pos(call.Pos()), len(leaked) == 0 || exc,
					fmt.Sprintf("effects reachable after the data error: %v — an undecodable/invalid input must not fabricate a value (documented exception: %q)", leaked, ref.DataEx[name]))
			}
		})
		if rulePrefix == "C11" && freshResult[name] != "" {
			resultFresh(c, name, f)
		}
		// return discipline
		ts := &typestate{fn: f, nstate: 3, init: 0}
		ts.trans = func(in ssa.Instruction, st int) int {
			if call, ok := in.(*ssa.Call); ok && call.Call.StaticCallee() != nil {
				// ReturnAppend itself, or a same-package helper / local closure that appends the same number of values
				// on each of its paths
				for k := retAppendCount(call.Call.StaticCallee(), 0); k > 0 && st < 2; k-- {
					st++
				}
			}
			return st
		}
		before := ts.run()
		allInstrs(f, func(in ssa.Instruction) {
			ret, ok := in.(*ssa.Return)
			if !ok || ret.Block() == f.Recover {
				return
			}
			m := before[ret]
			isErr := retError(ret) == "nonnil"
			switch {
			case isReturning[name] && name == "grok":
				r.Ob("RETURNS", fmt.Sprintf("builtin %s return #%d", name, retOrdinal(f, ret)), t.Pos(ret.Pos()), m == 1<<1, "grok reports whether it matched on every return path: exactly one value appended")
			case isReturning[name] && !isErr:
				r.Ob("RETURNS", fmt.Sprintf("builtin %s return #%d", name, retOrdinal(f, ret)), t.Pos(ret.Pos()), m == 1<<1, "a value-returning builtin appends exactly one value on every success path")
			case !isReturning[name]:
				r.Ob("RETURNS", fmt.Sprintf("builtin %s return #%d", name, retOrdinal(f, ret)), t.Pos(ret.Pos()), m == 1<<0, "a builtin documented without return value must leave the return registers empty")
			}
		})
	}
}

func checkC11(c *Ctx) {
	r, t := c.R, c.T
	r.Explanation = "Decides the plumbing of the 15 field-manipulating builtins on go/ssa: (1) EFFECT-SIG: for each builtin the set of subject reads (variable-first GetKey/GetKeyConv2Str, point-only getPtKey, evaluation of an argument) and of effects (field/tag write with its key provenance keyName(P_i), delete, rename, measurement, stdout, return value), extracted from the runner (one level into helpers), equals the signature documented in fn.md (reference/builtins_effects.json) — e.g. uppercase reads GetKeyConv2Str(keyName(P0)) and writes field keyName(P0) and nothing else; (2) MISSING-NOOP: from the failure edge of the subject lookup no effect call is reachable (set_tag's documented empty tag and get_key's nil return excepted); (3) DATA-ERROR: from the failure edge of url decoding, JSON decoding, regexp compilation and date formatting no effect call is reachable; (4) RETURNS: get_key, len and load_json append exactly one return value on every success path, all others none (typestate over ReturnAppend); (5) CAST-TABLE: every type name CastChecking accepts is mapped by doCast to a conversion (spec of doCast per accepted literal), never to the (nil, Nil) fall-through; (6) ALIAS: every key-taking helper maps `_` to `message`. Not decided: the computed values (trimmed text, formatted string, decoded URL). SUBJECT-OPAQUE: the string form of the subject (result #0 of Task.GetKeyConv2Str, followed through helpers) is never an operand of a comparison in the builtins — whether a builtin acts depends on the key's presence (the lookup's error), not on its text."
	var ref effRef
	if !mustRef(c, "builtins_effects.json", &ref) {
		return
	}
	builtinRules(c, ref.C11, &ref, "C11")
	subjectOpaque(c, ref.C11, "C11")
	builtinsWriteNoVarb(c, "EFFECT-SIG")
	r.Floor("EFFECT-SIG", 15)
	r.Floor("RETURNS", 30)
	r.Floor("MISSING-NOOP", 6)
	// cast table
	cc := t.Func(pFuncs, "CastChecking")
	dc := t.Func(pFuncs, "doCast")
	if cc == nil || dc == nil {
		r.Undecided("CAST-TABLE", "funcs.CastChecking/doCast", "", "unresolved anchor")
	} else {
		r.Fn(relName(cc), relName(dc))
		accepted := map[string]bool{}
		allInstrs(cc, func(in ssa.Instruction) {
			if bo, ok := in.(*ssa.BinOp); ok && bo.Op == token.EQL {
				if cv, ok := bo.Y.(*ssa.Const); ok && cv.Value != nil && cv.Value.Kind() == constant.String && strings.HasSuffix(path(bo.X), ".Val") {
					accepted[constant.StringVal(cv.Value)] = true
				}
			}
		})
		r.FloorN("type names accepted by CastChecking", len(accepted), 4)
		nilTag, _ := constInt(t.SSA[pAst].Const("Nil").Value)
		for _, lit := range sortedKeys(accepted) {
			cfg := &specCfg{}
			cfg.Call = func(fn *ssa.Function, call *ssa.Call, nth int, args []sval) (sval, bool) {
				if cal := call.Call.StaticCallee(); cal != nil && fnName(cal) == "ToLower" && len(args) == 1 && args[0].isConst() {
					return constv(constant.MakeString(strings.ToLower(constant.StringVal(args[0].c)))), true
				}
				return sval{}, false
			}
			outs, ab := cfg.run(dc, []sval{symv("v"), constv(constant.MakeString(lit))})
			handled := ab == "" && len(outs) > 0
			desc := ""
			for _, o := range outs {
				if len(o.Vals) == 2 {
					desc = canon(o.Vals[0].String()) + " : " + o.Vals[1].String()
					if v, ok := constInt2(o.Vals[1]); ok && v == nilTag {
						handled = false
					}
				}
			}
			r.Ob("CAST-TABLE", fmt.Sprintf("cast to %q", lit), t.Pos(dc.Pos()), handled, fmt.Sprintf("the checker accepts the type name %q; doCast yields %s — a name without conversion arm silently turns the field into nil", lit, desc))
		}
	}
	// alias
	for _, name := range []string{"getPtKey", "deletePtKey", "addKey2PtWithVal", "renamePtKey"} {
		f := t.Func(pFuncs, name)
		ok, why := aliasBeforeUse(f)
		if f == nil {
			// the helper was split, merged or renamed beyond recognition: the functions of the package that now perform
			// its point operation, each on an aliased key parameter (pointPrimitives demands the alias)
			want := map[string][]string{"getPtKey": {"Get"}, "deletePtKey": {"Delete"}, "addKey2PtWithVal": {"Set", "SetTag"}, "renamePtKey": {"Rename"}}[name]
			var heirs []string
			for _, g := range t.PkgFuncs(pFuncs) {
				for _, pr := range pointPrimitives(t, g) {
					for _, m := range want {
						if pr.method == m {
							heirs = append(heirs, g.Name()+"→Point."+m)
						}
					}
				}
			}
			if len(heirs) > 0 {
				sort.Strings(heirs)
				ok, why = true, "no function of that name; its operation is performed, on an aliased key, by "+strings.Join(heirs, ", ")
			}
		}
		r.Ob("ALIAS", "funcs."+name+" maps `_` to the message key before any use", "pkg/inimpl/guancecloud/funcs/utils.go", ok, "`_` stands for `message` in every key-taking helper: "+why)
	}
	for _, name := range []string{"GetKey", "GetKeyConv2Str", "SetVarb"} {
		ok, why := aliasBeforeUse(t.Method(pRT, "Task", name))
		r.Ob("ALIAS", "Task."+name+" maps `_` to the message key before any lookup", "pkg/engine/runtime/context.go", ok, "the variable and the point are both looked up under the aliased name: "+why)
	}
}

func constInt2(v sval) (int64, bool) {
	if !v.isConst() || v.c.Kind() != constant.Int {
		return 0, false
	}
	return constant.Int64Val(v.c)
}

func checkC12(c *Ctx) {
	r, t := c.R, c.T
	r.Explanation = "Decides the plumbing of the extraction builtins (engine results are trusted): (1) EFFECT-SIG for grok, add_pattern, xml, datetime, default_time and sql_cover against fn.md (reference/builtins_effects.json): the subject is read in its string form through the variable-first lookup and the extracted value is written under the designated key (xml: keyName(P2); grok: the capture names; default_time: point time, key deleted, failure note pl_msg); (2) PATTERN-SCOPE: add_pattern's checker stores the definition in the *current* scope frame (Task.SetPattern → Stack.SetPattern on stackCur), Stack.GetPattern walks the Before chain, Task.GetPattern falls back to the global table only on a miss, StackExitCur drops a frame's patterns and the check pass opens/closes a frame per block (shared with C03 SCOPE) — so a definition is visible only inside its block and nested blocks; (3) PATTERN-ERRORS: the error results of grok.CompilePattern and grok.DenormalizePattern make the checker return a non-nil error (unknown pattern ⇒ rejected at load time) and GrokChecking stores the compiled object only on the success path; (4) CAPTURE-TYPES: Grok maps the Go type of each capture to the type tag (int64→Int, float64→Float, string→String, bool→Bool, nil→Nil) and passes that tag with the value; (5) failure purity (DATA-ERROR) for RunWithTypeInfo, xmlquery.Parse/Query, ObfuscateSQLString, DateFormatHandle, TimestampHandle (default_time's documented failure note excepted) and RETURNS: grok appends exactly one bool on every return path; (6) TIMEZONE: in TimestampHandle a +/- zone must be in the table or an error is returned, and tz[0] is read only under tz != \"\". Not decided: what grok/xmlquery/dateparse/obfuscate extract, time arithmetic, zone data. SUBJECT-OPAQUE: the string form of the subject (result #0 of Task.GetKeyConv2Str, followed through helpers) is never an operand of a comparison in the builtins — whether a builtin acts depends on the key's presence (the lookup's error), not on its text."
	r.Trusted = []string{"github.com/GuanceCloud/grok", "github.com/antchfx/xmlquery", "dateparse / time", "DataDog obfuscate"}
	var ref effRef
	if !mustRef(c, "builtins_effects.json", &ref) {
		return
	}
	builtinRules(c, ref.C12, &ref, "C12")
	subjectOpaque(c, ref.C12, "C12")
	builtinsWriteNoVarb(c, "EFFECT-SIG")
	r.Floor("EFFECT-SIG", 6)
	// the engines are used through objects created per call (or immutable ones): no state of an earlier point
	{
		run, chk := registryMaps(t)
		var roots []*ssa.Function
		for _, name := range ref.C12 {
			if f := run[name]; f != nil {
				roots = append(roots, f)
			}
			if f := chk[name]; f != nil { // the load-time half: what a checker compiles is what the runner applies
				roots = append(roots, f)
			}
		}
		sc, _ := reach(t, roots, nil)
		var fns []*ssa.Function
		for f := range sc {
			fns = append(fns, f)
		}
		sortFuncs(fns)
		n, bad := sharedObjects(t, fns)
		r.Ob("ENGINE-STATE", "extraction builtins and their checkers share no engine object between points or loads", "", len(bad) == 0,
			fmt.Sprintf("%d functions reachable from the C12 builtins, %d package-level foreign pointers inspected; %s — an engine object kept in a package variable can carry mode or cache state from one subject to the next (what is stored would then depend on history)", len(fns), n, strings.Join(bad, "; ")))
	}
	// pattern scope
	setP := t.Method(pRT, "Task", "SetPattern")
	getP := t.Method(pRT, "Task", "GetPattern")
	sSet := t.Method(pRT, "Stack", "SetPattern")
	sGet := t.Method(pRT, "Stack", "GetPattern")
	apc := t.Func(pFuncs, "AddPatternChecking")
	gc := t.Func(pFuncs, "GrokChecking")
	if setP == nil || getP == nil || sSet == nil || sGet == nil || apc == nil || gc == nil {
		r.Undecided("PATTERN-SCOPE", "pattern functions", "", "unresolved anchor")
		return
	}
	r.Fn(relName(setP), relName(getP), relName(sSet), relName(sGet), relName(apc), relName(gc))
	okCur := false
	allInstrs(setP, func(in ssa.Instruction) {
		if call, ok := in.(*ssa.Call); ok && call.Call.StaticCallee() == sSet && strings.HasSuffix(path(call.Call.Args[0]), ".stackCur") {
			okCur = true
		}
	})
	r.Ob("PATTERN-SCOPE", "Task.SetPattern stores into the current scope frame", t.Pos(setP.Pos()), okCur, "ctx.stackCur.SetPattern(…): a definition belongs to the block that declares it")
	okStore, nStore := true, 0
	foreign := ""
	allInstrs(sSet, func(in ssa.Instruction) {
		if mu, ok := in.(*ssa.MapUpdate); ok {
			nStore++
			if path(mu.Map) != pname(sSet.Params[0])+".CheckPattern" {
				okStore = false
				foreign = path(mu.Map)
			}
		}
	})
	r.Ob("PATTERN-SCOPE", "Stack.SetPattern writes only the receiver's own pattern table", t.Pos(sSet.Pos()), okStore && nStore > 0,
		fmt.Sprintf("%d map stores; foreign target: %q — a definition must shadow, never overwrite, the pattern of an enclosing block (it would outlive the block that declares it)", nStore, foreign))
	walks := walksBefore(sGet, 0)
	r.Ob("PATTERN-SCOPE", "Stack.GetPattern searches the enclosing frames", t.Pos(sGet.Pos()), walks, "nested blocks see the definitions of their parents")
	// Task.GetPattern: stack first, global on miss
	var sg *ssa.Call
	okGlobal := false
	allInstrs(getP, func(in ssa.Instruction) {
		if call, ok := in.(*ssa.Call); ok && call.Call.StaticCallee() == sGet {
			sg = call
		}
	})
	if sg != nil {
		allInstrs(getP, func(in ssa.Instruction) {
			if lk, ok := in.(*ssa.Lookup); ok && strings.Contains(path(lk.X), "DenormalizedGlobalPatterns") {
				for _, ec := range controlling(lk.Block()) {
					if ex, ok := ec.Cond.(*ssa.Extract); ok && ex.Tuple == ssa.Value(sg) && ex.Index == 1 && !ec.Pol {
						okGlobal = true
					}
				}
			}
		})
	}
	if !okGlobal {
		// the scope chain is searched by another function that walks the Before links (a `find` helper returning the
		// frame or nil): the global table is consulted only on its negative answer
		allInstrs(getP, func(in ssa.Instruction) {
			lk, ok := in.(*ssa.Lookup)
			if !ok || !strings.Contains(path(lk.X), "DenormalizedGlobalPatterns") {
				return
			}
			for _, ec := range controlling(lk.Block()) {
				var call *ssa.Call
				neg := false
				switch x := ec.Cond.(type) {
				case *ssa.Extract:
					call, _ = x.Tuple.(*ssa.Call)
					neg = x.Index == 1 && !ec.Pol
				case *ssa.BinOp:
					if isNilConst(x.Y) {
						call, _ = x.X.(*ssa.Call)
						neg = (x.Op == token.EQL) == ec.Pol
					}
				}
				if call != nil && neg && walksBefore(call.Call.StaticCallee(), 0) {
					okGlobal = true
				}
			}
		})
	}
	r.Ob("PATTERN-SCOPE", "Task.GetPattern prefers a script-defined pattern over the global one", t.Pos(getP.Pos()), okGlobal, "the global table is consulted only when the scope chain has no such pattern")
	// StackExitCur drops the frame's patterns
	ex := t.Method(pRT, "Task", "StackExitCur")
	okDrop := false
	if ex != nil {
		allInstrs(ex, func(in ssa.Instruction) {
			if s, ok := in.(*ssa.Store); ok && strings.HasSuffix(path(s.Addr), ".stackCur.CheckPattern") && isNilConst(s.Val) {
				okDrop = true
			}
		})
	}
	r.Ob("PATTERN-SCOPE", "StackExitCur discards the patterns of the frame it leaves", "pkg/engine/runtime/context.go", okDrop, "ctx.stackCur.CheckPattern = nil before returning to the parent")
	// the check pass starts from an empty root frame: the task is pooled, so a frame (and its pattern table) kept
	// from an earlier check would make another script's definitions visible here
	{
		chk := t.Method(pRT, "Script", "Check")
		ok, via := false, ""
		if chk != nil {
			var walk *ssa.Call
			allInstrs(chk, func(in ssa.Instruction) {
				if call, isC := in.(*ssa.Call); isC && call.Call.StaticCallee() != nil && fnName(call.Call.StaticCallee()) == "RunStmtsCheck" {
					walk = call
				}
			})
			allInstrs(chk, func(in ssa.Instruction) {
				if call, isC := in.(*ssa.Call); isC && call.Call.StaticCallee() != nil && walk != nil && precedes(call, walk) {
					if g := call.Call.StaticCallee(); g.Pkg == chk.Pkg && freshRootFrame(g) {
						ok, via = true, g.Name()
					}
				}
			})
		}
		r.Ob("PATTERN-SCOPE", "Script.Check starts from a brand-new root frame", "pkg/engine/runtime/runtime.go", ok,
			"a function that Check calls on every path before walking the statements assigns stackHeader and stackCur a newly allocated Stack on every path (found: "+via+") — a frame reused from the pooled task carries the previous script's add_pattern definitions")
	}
	// add_pattern checker registers through SetPattern on success only
	for _, spec := range []struct {
		f      *ssa.Function
		engine string
		effect string
	}{{apc, "DenormalizePattern", "SetPattern"}, {gc, "CompilePattern", "Grok"}} {
		var eng *ssa.Call
		allInstrs(spec.f, func(in ssa.Instruction) {
			if call, ok := in.(*ssa.Call); ok && call.Call.StaticCallee() != nil && fnName(call.Call.StaticCallee()) == spec.engine {
				eng = call
			}
		})
		if eng == nil {
			r.Ob("PATTERN-ERRORS", spec.f.Name()+" calls grok."+spec.engine, t.Pos(spec.f.Pos()), false, "not found")
			continue
		}
		fes := failureEdges(spec.f, eng)
		okRej := len(fes) > 0
		for _, fe := range fes {
			if !rejecting(fe) {
				okRej = false
			}
		}
		r.Ob("PATTERN-ERRORS", spec.f.Name()+" rejects when grok."+spec.engine+" fails", t.Pos(eng.Pos()), okRej, "an unknown or malformed pattern must be a load-time error")
		// the effect happens only on the success path
		okEff := false
		allInstrs(spec.f, func(in ssa.Instruction) {
			switch x := in.(type) {
			case *ssa.Call:
				if spec.effect == "SetPattern" && x.Call.StaticCallee() == setP {
					okEff = precedes(eng, x)
					for _, fe := range fes {
						if blocksReachable(fe)[x.Block()] {
							okEff = false
						}
					}
				}
			case *ssa.Store:
				if spec.effect == "Grok" && strings.HasSuffix(path(x.Addr), ".Grok") {
					okEff = precedes(eng, x)
					for _, fe := range fes {
						if blocksReachable(fe)[x.Block()] {
							okEff = false
						}
					}
				}
			}
		})
		r.Ob("PATTERN-ERRORS", spec.f.Name()+" records the compiled pattern only on success", t.Pos(eng.Pos()), okEff, "nothing is stored from the failure arm")
	}
	// capture types in Grok
	grokF := t.Func(pFuncs, "Grok")
	if grokF != nil {
		r.Fn(relName(grokF))
		want := map[string]string{"int64": "Int", "float64": "Float", "string": "String", "bool": "Bool"}
		astp := t.SSA[pAst]
		got := map[string]string{}
		// dtype is a phi of constants, one per type-switch arm; recover arm → constant by the controlling assertion.
		// The mapping may live in Grok or in the same-package helpers it calls (two levels): there it may also be a
		// `return ast.K, …` per arm.
		scope := []*ssa.Function{grokF}
		for lvl := 0; lvl < 2; lvl++ {
			for _, g := range append([]*ssa.Function{}, scope...) {
				allInstrs(g, func(in ssa.Instruction) {
					if call, ok := in.(*ssa.Call); ok {
						if h := call.Call.StaticCallee(); h != nil && h.Pkg == grokF.Pkg && len(h.Blocks) > 0 {
							dup := false
							for _, x := range scope {
								if x == h {
									dup = true
								}
							}
							if !dup {
								scope = append(scope, h)
							}
						}
					}
				})
			}
		}
		tagName := func(cv *ssa.Const) string {
			for _, n := range []string{"Int", "Float", "String", "Bool", "Nil"} {
				if v, _ := constInt(astp.Const(n).Value); constStr(cv) == fmt.Sprint(v) {
					return n
				}
			}
			return ""
		}
		for _, g := range scope {
			allInstrs(g, func(in ssa.Instruction) {
				ret, ok := in.(*ssa.Return)
				if !ok || len(ret.Results) == 0 || namedOf(ret.Results[0].Type()) != "ast.DType" {
					return
				}
				cv, ok := ret.Results[0].(*ssa.Const)
				if !ok {
					return
				}
				for _, ec := range controlling(ret.Block()) {
					if ex, ok := ec.Cond.(*ssa.Extract); ok && ec.Pol {
						if ta, ok := ex.Tuple.(*ssa.TypeAssert); ok {
							if n := tagName(cv); n != "" {
								got[typeShort(ta.AssertedType)] = n
							}
						}
					}
				}
			})
		}
		for _, grokF := range scope {
			allInstrs(grokF, func(in ssa.Instruction) {
				ph, ok := in.(*ssa.Phi)
				if !ok || namedOf(ph.Type()) != "ast.DType" {
					return
				}
				for i, e := range ph.Edges {
					cv, ok := e.(*ssa.Const)
					if !ok {
						continue
					}
					pred := ph.Block().Preds[i]
					for _, ec := range append(controlling(pred), edgeInto(pred, ph.Block())...) {
						if ex, ok := ec.Cond.(*ssa.Extract); ok && ec.Pol {
							if ta, ok := ex.Tuple.(*ssa.TypeAssert); ok {
								for _, n := range []string{"Int", "Float", "String", "Bool", "Nil"} {
									if v, _ := constInt(astp.Const(n).Value); constStr(cv) == fmt.Sprint(v) {
										got[typeShort(ta.AssertedType)] = n
									}
								}
							}
						}
					}
				}
			})
		}
		for gt, tag := range want {
			r.Ob("CAPTURE-TYPES", "grok capture of Go type "+gt, t.Pos(grokF.Pos()), got[gt] == tag, fmt.Sprintf("tagged %q, must be %q", got[gt], tag))
		}
	}
	// timezone handling
	th := t.Func(pFuncs, "TimestampHandle")
	if th != nil {
		r.Fn(relName(th))
		okIdx := true
		n := 0
		// TimestampHandle itself, or the helper it hands tz to
		type tzCtx struct {
			g        *ssa.Function
			tz       *ssa.Parameter
			nonEmpty bool // the zone is known non-empty at (every) call of g on the way here
		}
		nonEmptyAt := func(b *ssa.BasicBlock, name string) bool {
			for _, ec := range controlling(b) {
				s := ec.String()
				if strings.Contains(s, name+` != ""`) && !strings.HasPrefix(s, "!(") || strings.Contains(s, name+` == ""`) && strings.HasPrefix(s, "!(") {
					return true
				}
			}
			return false
		}
		tzs := []tzCtx{{th, th.Params[1], false}}
		// the helpers the zone is handed to, three levels deep
		for i := 0; i < len(tzs) && i < 8; i++ {
			cur := tzs[i]
			allInstrs(cur.g, func(in ssa.Instruction) {
				if call, ok := in.(*ssa.Call); ok {
					if h := call.Call.StaticCallee(); h != nil && h.Pkg == th.Pkg && len(h.Blocks) > 0 && h != cur.g {
						for k, a := range call.Call.Args {
							if a == ssa.Value(cur.tz) && k < len(h.Params) {
								tzs = append(tzs, tzCtx{h, h.Params[k], cur.nonEmpty || nonEmptyAt(call.Block(), pname(cur.tz))})
							}
						}
					}
				}
			})
		}
		for _, tc := range tzs {
			th := tc.g
			tzName := pname(tc.tz)
			allInstrs(th, func(in ssa.Instruction) {
				ix, ok := in.(*ssa.Index)
				if !ok || path(ix.X) != tzName {
					return
				}
				n++
				if !tc.nonEmpty && !nonEmptyAt(ix.Block(), tzName) {
					okIdx = false
				}
			})
		}
		r.Ob("TIMEZONE", "TimestampHandle reads tz[0] only for a non-empty zone", t.Pos(th.Pos()), okIdx && n > 0, fmt.Sprintf("%d index sites", n))
		// a +/- zone not in the table is an error
		okTbl := false
		for _, tc := range tzs {
			th := tc.g
			allInstrs(th, func(in ssa.Instruction) {
				if lk, ok := in.(*ssa.Lookup); ok && lk.CommaOk && strings.Contains(path(lk.X), "timezoneList") {
					for _, b := range th.Blocks {
						if iff, ok := b.Instrs[len(b.Instrs)-1].(*ssa.If); ok {
							if ex, ok := iff.Cond.(*ssa.Extract); ok && ex.Tuple == ssa.Value(lk) && ex.Index == 1 {
								if rejecting(b.Succs[1]) || retClassFrom(b, 1) == "nonnil" {
									okTbl = true
								}
							}
							// `if _, has := table[tz]; !has`
							if u, ok := iff.Cond.(*ssa.UnOp); ok && u.Op == token.NOT {
								if ex, ok := u.X.(*ssa.Extract); ok && ex.Tuple == ssa.Value(lk) && ex.Index == 1 {
									if rejecting(b.Succs[0]) || retClassFrom(b, 0) == "nonnil" {
										okTbl = true
									}
								}
							}
						}
					}
				}
			})
		}
		r.Ob("TIMEZONE", "TimestampHandle rejects a numeric zone that is not in the zone table", t.Pos(th.Pos()), okTbl, "unknown time zone ⇒ error (the point keeps its time, a note is written)")
	}
}

// edgeInto: the condition of the edge pred→b when pred ends in an If.
func edgeInto(pred, b *ssa.BasicBlock) []edgeCond {
	iff, ok := pred.Instrs[len(pred.Instrs)-1].(*ssa.If)
	if !ok {
		return nil
	}
	for i, s := range pred.Succs {
		if s == b {
			return []edgeCond{{pred, iff.Cond, i == 0}}
		}
	}
	return nil
}

// freshResult: builtins documented to return a newly computed container; the object they hand out must be built in
// that very call and must not be kept anywhere else, or a later call (or a later mutation through the script
// variable it was assigned to) changes what another call returned.
var freshResult = map[string]string{
	"load_json": "returns the value decoded from its argument",
}

// pureResultCallees: callees the decoded object may be passed to without escaping.
var pureResultCallees = map[string]bool{"Unmarshal": true, "DectDataType": true, "ReturnAppend": true}

// resultFresh: backward, the value given to ReturnAppend comes from local storage filled in this call (a local
// variable, json.Unmarshal into it, DectDataType of it) and never from a field, a map, a package variable or another
// call; forward, neither that local storage nor the values read from it are stored or passed anywhere else.
func resultFresh(c *Ctx, name string, f *ssa.Function) {
	r, t := c.R, c.T
	n := 0
	allInstrs(f, func(in ssa.Instruction) {
		call, ok := in.(*ssa.Call)
		if !ok || call.Call.StaticCallee() == nil || fnName(call.Call.StaticCallee()) != "ReturnAppend" || len(call.Call.Args) < 2 {
			return
		}
		n++
		vals := map[ssa.Value]bool{}
		allocs := map[*ssa.Alloc]bool{}
		var foreign []string
		var back func(v ssa.Value, depth int)
		back = func(v ssa.Value, depth int) {
			if vals[v] || depth > 12 {
				return
			}
			vals[v] = true
			switch x := v.(type) {
			case *ssa.Const:
			case *ssa.MakeInterface:
				back(x.X, depth+1)
			case *ssa.ChangeInterface:
				back(x.X, depth+1)
			case *ssa.Phi:
				for _, e := range x.Edges {
					back(e, depth+1)
				}
			case *ssa.UnOp:
				if x.Op != token.MUL {
					foreign = append(foreign, "computed "+path(x))
					return
				}
				a, isA := x.X.(*ssa.Alloc)
				if !isA {
					foreign = append(foreign, "read of "+path(x.X)+" (storage that outlives the call)")
					return
				}
				if !allocs[a] {
					allocs[a] = true
					for _, ref := range *a.Referrers() {
						if st, isS := ref.(*ssa.Store); isS && st.Addr == ssa.Value(a) {
							back(st.Val, depth+1)
						}
					}
				}
			case *ssa.Extract:
				cl, isC := x.Tuple.(*ssa.Call)
				if isC && cl.Call.StaticCallee() != nil && fnName(cl.Call.StaticCallee()) == "DectDataType" && x.Index == 0 {
					back(cl.Call.Args[0], depth+1)
					return
				}
				foreign = append(foreign, "result of "+path(x.Tuple))
			case *ssa.Call:
				foreign = append(foreign, "result of "+path(x))
			case *ssa.MakeMap, *ssa.MakeSlice:
			default:
				foreign = append(foreign, fmt.Sprintf("%T %s", v, path(v)))
			}
		}
		back(call.Call.Args[1], 0)
		// forward: uses of the local storage and of the values read from it
		var escapes []string
		use := func(v ssa.Value, ref ssa.Instruction) {
			switch u := ref.(type) {
			case *ssa.Store:
				if a, isA := u.Addr.(*ssa.Alloc); isA && allocs[a] {
					return
				}
				if u.Val == v {
					escapes = append(escapes, "stored to "+path(u.Addr)+" at "+t.Pos(u.Pos()))
				}
			case *ssa.Call:
				cal := u.Call.StaticCallee()
				if cal != nil && pureResultCallees[cal.Name()] {
					return
				}
				escapes = append(escapes, "passed to "+path(u)+" at "+t.Pos(u.Pos()))
			case *ssa.UnOp, *ssa.MakeInterface, *ssa.ChangeInterface, *ssa.Phi, *ssa.Extract, *ssa.TypeAssert, *ssa.BinOp, *ssa.If, *ssa.DebugRef:
			case *ssa.Return:
			default:
				escapes = append(escapes, fmt.Sprintf("used by %T at %s", ref, t.Pos(ref.Pos())))
			}
		}
		for a := range allocs {
			for _, ref := range *a.Referrers() {
				use(a, ref)
				if ld, isL := ref.(*ssa.UnOp); isL && ld.Op == token.MUL {
					vals[ld] = true // every read of the local storage yields the object
				}
			}
		}
		for changed := true; changed; {
			changed = false
			for v := range vals {
				if refs := v.Referrers(); refs != nil {
					for _, ref := range *refs {
						switch u := ref.(type) {
						case *ssa.MakeInterface, *ssa.ChangeInterface, *ssa.Phi:
							if !vals[u.(ssa.Value)] {
								vals[u.(ssa.Value)] = true
								changed = true
							}
						}
					}
				}
			}
		}
		for v := range vals {
			if _, isC := v.(*ssa.Const); isC {
				continue
			}
			if refs := v.Referrers(); refs != nil {
				for _, ref := range *refs {
					use(v, ref)
				}
			}
		}
		sort.Strings(foreign)
		sort.Strings(escapes)
		r.Ob("RESULT-FRESH", fmt.Sprintf("builtin %s ReturnAppend #%d hands out an object built in this call and kept nowhere else", name, n), t.Pos(call.Pos()),
			len(foreign) == 0 && len(escapes) == 0 && len(allocs) > 0,
			fmt.Sprintf("%s; origins outside the call: %v; other places the object reaches: %v — an object shared with storage that outlives the call is changed under a second caller", freshResult[name], foreign, escapes))
	})
	r.FloorN("ReturnAppend sites of fresh-result builtins ("+name+")", n, 1)
}

// freshStack: v is a newly allocated runtime.Stack (a composite literal, or the result of a callee all of whose
// returns are such literals) — not something read from an existing object.
func freshStack(v ssa.Value) bool {
	if a, ok := rootOf(v).(*ssa.Alloc); ok && a.Heap && namedOf(a.Type()) == "runtime.Stack" {
		return true
	}
	if call, ok := v.(*ssa.Call); ok {
		g := call.Call.StaticCallee()
		if g == nil || len(g.Blocks) == 0 {
			return false
		}
		n, all := 0, true
		allInstrs(g, func(in ssa.Instruction) {
			if ret, isR := in.(*ssa.Return); isR && len(ret.Results) == 1 {
				n++
				if a, ok := rootOf(ret.Results[0]).(*ssa.Alloc); !ok || !a.Heap || namedOf(a.Type()) != "runtime.Stack" {
					all = false
				}
			}
		})
		return n > 0 && all
	}
	return false
}

// freshRootFrame: f assigns, with no condition, a newly allocated Stack to both stackHeader and stackCur of a task
// (stackCur may be given the stackHeader just assigned).
func freshRootFrame(f *ssa.Function) bool {
	if freshRootFrameDirect(f) {
		return true
	}
	// or an unconditional call to a same-package helper that does it
	ok := false
	allInstrs(f, func(in ssa.Instruction) {
		if call, isC := in.(*ssa.Call); isC && len(controlling(call.Block())) == 0 {
			if g := call.Call.StaticCallee(); g != nil && g != f && g.Pkg == f.Pkg && len(g.Blocks) > 0 && freshRootFrameDirect(g) {
				ok = true
			}
		}
	})
	return ok
}

func freshRootFrameDirect(f *ssa.Function) bool {
	hdr, cur := false, false
	var hdrStore *ssa.Store
	allInstrs(f, func(in ssa.Instruction) {
		s, ok := in.(*ssa.Store)
		if !ok || len(controlling(s.Block())) != 0 {
			return
		}
		fa, ok := s.Addr.(*ssa.FieldAddr)
		if !ok {
			return
		}
		switch fieldName(fa) {
		case "stackHeader":
			if freshStack(s.Val) {
				hdr, hdrStore = true, s
			}
		case "stackCur":
			if freshStack(s.Val) {
				cur = true
			} else if ld, isL := s.Val.(*ssa.UnOp); isL && hdrStore != nil {
				if fa2, isF := ld.X.(*ssa.FieldAddr); isF && fieldName(fa2) == "stackHeader" && fa2.X == hdrStore.Addr.(*ssa.FieldAddr).X && precedes(hdrStore, ld) {
					cur = true
				}
			}
		}
	})
	return hdr && cur
}

// walksBefore: f (or a same-package function it calls, two levels) has a loop that follows the Before links of the
// scope chain.
func walksBefore(f *ssa.Function, depth int) bool {
	if f == nil || len(f.Blocks) == 0 || depth > 2 {
		return false
	}
	for _, l := range naturalLoops(f) {
		for b := range l.Blocks {
			for _, in := range b.Instrs {
				if u, ok := in.(*ssa.UnOp); ok && strings.HasSuffix(path(u), ".Before") {
					return true
				}
			}
		}
	}
	found := false
	allInstrs(f, func(in ssa.Instruction) {
		if call, ok := in.(*ssa.Call); ok && !found {
			g := call.Call.StaticCallee()
			if g != nil && g != f && pkgOf(g) == pkgOf(f) && walksBefore(g, depth+1) {
				found = true
			}
			// the recursive form: the search calls itself on the enclosing frame
			if g == f && len(call.Call.Args) > 0 && len(f.Params) > 0 && path(call.Call.Args[0]) == pname(f.Params[0])+".Before" {
				found = true
			}
		}
	})
	return found
}

var retAppendMemo = map[*ssa.Function]int{}

// retAppendCount: how many values g appends to the return registers — 1 for ReturnAppend itself; for an in-module
// helper or closure the count it reaches at every one of its returns when that count is the same on all of them
// (0 otherwise, and 0 for functions that do not append).
func retAppendCount(g *ssa.Function, depth int) int {
	if g == nil {
		return 0
	}
	if g.Name() == "ReturnAppend" {
		return 1
	}
	if len(g.Blocks) == 0 || !inModule(g) || depth > 2 {
		return 0
	}
	if v, ok := retAppendMemo[g]; ok {
		return v
	}
	retAppendMemo[g] = 0
	// only functions whose name suggests nothing: decided by the dataflow
	ts := &typestate{fn: g, nstate: 4, init: 0}
	ts.trans = func(in ssa.Instruction, st int) int {
		if call, ok := in.(*ssa.Call); ok && call.Call.StaticCallee() != nil && call.Call.StaticCallee() != g {
			for k := retAppendCount(call.Call.StaticCallee(), depth+1); k > 0 && st < 3; k-- {
				st++
			}
		}
		return st
	}
	before := ts.run()
	res, set, same := 0, false, true
	allInstrs(g, func(in ssa.Instruction) {
		ret, ok := in.(*ssa.Return)
		if !ok || ret.Block() == g.Recover {
			return
		}
		m := before[ret]
		for st := 0; st < 4; st++ {
			if m&(1<<uint(st)) != 0 {
				if set && st != res {
					same = false
				}
				res, set = st, true
			}
		}
	})
	if !same || !set || res > 2 {
		res = 0
	}
	retAppendMemo[g] = res
	return res
}

// subjectOpaque (shared by C11 and C12): a builtin acts on its subject whenever the key exists — whether it exists
// is what the lookup's *error* says. The text the lookup returns is for the engine (pattern, XPath, time, SQL, trim,
// …) and for nobody else: rule SUBJECT-OPAQUE — in the functions reachable from the property's builtins inside the
// builtin package, result #0 of Task.GetKeyConv2Str (followed through phis, conversions, substrings, len(), and the
// results of same-package helpers that return it) is never an operand of a comparison. A comparison such as
// `cont != ""` makes "exists but empty" look like "absent": grok would answer false without asking the pattern,
// default_time would drop its failure note.
func subjectOpaque(c *Ctx, names []string, prop string) {
	r, t := c.R, c.T
	lookup := t.Method(pRT, "Task", "GetKeyConv2Str")
	if lookup == nil {
		r.Undecided("SUBJECT-OPAQUE", "runtime.Task.GetKeyConv2Str", "", "unresolved anchor")
		return
	}
	run, _ := registryMaps(t)
	var roots []*ssa.Function
	for _, name := range names {
		if f := run[name]; f != nil {
			roots = append(roots, f)
		}
	}
	sc, _ := reach(t, roots, nil)
	var fns []*ssa.Function
	for f := range sc {
		if f.Pkg != nil && f.Pkg.Pkg.Path() == pFuncs {
			fns = append(fns, f)
		}
	}
	sortFuncs(fns)
	tainted := map[ssa.Value]bool{}
	taintedRes := map[*ssa.Function]map[int]bool{}
	changed := true
	mark := func(v ssa.Value) {
		if v != nil && !tainted[v] {
			tainted[v] = true
			changed = true
		}
	}
	for iter := 0; changed && iter < 10; iter++ {
		changed = false
		for _, f := range fns {
			allInstrs(f, func(in ssa.Instruction) {
				switch x := in.(type) {
				case *ssa.Extract:
					if call, ok := x.Tuple.(*ssa.Call); ok {
						cal := call.Call.StaticCallee()
						if cal == lookup && x.Index == 0 {
							mark(x)
						}
						if cal != nil && taintedRes[cal][x.Index] {
							mark(x)
						}
					}
				case *ssa.Call:
					cal := x.Call.StaticCallee()
					if cal != nil && x.Call.Signature().Results().Len() == 1 && taintedRes[cal][0] {
						mark(x)
					}
					if b, ok := x.Call.Value.(*ssa.Builtin); ok && b.Name() == "len" && len(x.Call.Args) == 1 && tainted[x.Call.Args[0]] {
						mark(x)
					}
				case *ssa.Phi:
					for _, e := range x.Edges {
						if tainted[e] {
							mark(x)
						}
					}
				case *ssa.Convert:
					if tainted[x.X] {
						mark(x)
					}
				case *ssa.ChangeType:
					if tainted[x.X] {
						mark(x)
					}
				case *ssa.Slice:
					if tainted[x.X] {
						mark(x)
					}
				case *ssa.Lookup:
					if tainted[x.X] {
						mark(x)
					}
				case *ssa.BinOp:
					if x.Op == token.ADD && (tainted[x.X] || tainted[x.Y]) {
						mark(x)
					}
				case *ssa.Return:
					for i, res := range x.Results {
						if tainted[res] {
							if taintedRes[f] == nil {
								taintedRes[f] = map[int]bool{}
							}
							if !taintedRes[f][i] {
								taintedRes[f][i] = true
								changed = true
							}
						}
					}
				}
			})
		}
	}
	n := 0
	for _, f := range fns {
		has := false
		var bad []string
		allInstrs(f, func(in ssa.Instruction) {
			if v, ok := in.(ssa.Value); ok && tainted[v] {
				has = true
			}
			if bo, ok := in.(*ssa.BinOp); ok {
				switch bo.Op {
				case token.EQL, token.NEQ, token.LSS, token.LEQ, token.GTR, token.GEQ:
					if tainted[bo.X] || tainted[bo.Y] {
						bad = append(bad, fmt.Sprintf("%s %s %s at %s", path(bo.X), bo.Op, path(bo.Y), t.Pos(bo.Pos())))
					}
				}
			}
		})
		if !has {
			continue
		}
		n++
		r.Fn(relName(f))
		why := "the subject's string form only flows into calls, stores and results"
		if len(bad) > 0 {
			why = "the subject's text is inspected: " + strings.Join(bad, "; ") + " — whether the builtin acts must depend on the key's presence (the lookup's error) alone: an existing but empty subject is still a subject"
		}
		r.Ob("SUBJECT-OPAQUE", relName(f)+" never branches on the subject's text", t.Pos(f.Pos()), len(bad) == 0, why)
	}
	r.Extra["subject_opaque_functions_"+prop] = n
}

// builtinsWriteNoVarb: what Task.GetKey hands a builtin for a name that has a variable is the live entry of the scope
// frame. A builtin's documented effects are on the point; storing into the entry it looked up changes the script's
// variable (value or type) behind the script's back. Only a Varb the function allocated itself may be filled in.
func builtinsWriteNoVarb(c *Ctx, rule string) {
	r, t := c.R, c.T
	var bad []string
	nFn := 0
	for _, f := range t.PkgFuncs(pFuncs) {
		nFn++
		allInstrs(f, func(in ssa.Instruction) {
			st, ok := in.(*ssa.Store)
			if !ok {
				return
			}
			fa, ok := st.Addr.(*ssa.FieldAddr)
			if !ok || namedOf(fa.X.Type()) != "runtime.Varb" {
				return
			}
			if _, isAlloc := fa.X.(*ssa.Alloc); isAlloc {
				return
			}
			bad = append(bad, fmt.Sprintf("%s stores %s.%s at %s", relName(f), path(fa.X), fieldName(fa), t.Pos(st.Pos())))
		})
	}
	sort.Strings(bad)
	r.Ob(rule, "no builtin stores into a variable entry it looked up", "", len(bad) == 0,
		fmt.Sprintf("%d functions of the builtin package inspected; %s — the entry GetKey returns for a script variable is the live one: converting it in place changes the variable, which no builtin is documented to do", nFn, strings.Join(bad, "; ")))
}
