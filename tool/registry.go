package main

import (
	"golang.org/x/tools/go/ssa"
)

// registryMaps resolves the values of funcs.FuncsMap and funcs.FuncsCheckMap from the package initialiser:
// MapUpdate instructions on the MakeMap that is stored into the global.
func registryMaps(t *Tree) (run, chk map[string]*ssa.Function) {
	run, chk = map[string]*ssa.Function{}, map[string]*ssa.Function{}
	fp := t.SSA[pFuncs]
	if fp == nil {
		return
	}
	initf := fp.Func("init")
	if initf == nil {
		return
	}
	globalOf := func(m ssa.Value) string {
		switch x := m.(type) {
		case *ssa.UnOp:
			if g, ok := x.X.(*ssa.Global); ok {
				return g.Name()
			}
		case *ssa.MakeMap:
			for _, ref := range *x.Referrers() {
				if s, ok := ref.(*ssa.Store); ok {
					if g, ok := s.Addr.(*ssa.Global); ok {
						return g.Name()
					}
				}
			}
		}
		return ""
	}
	allInstrs(initf, func(in ssa.Instruction) {
		mu, ok := in.(*ssa.MapUpdate)
		if !ok {
			return
		}
		kc, ok := mu.Key.(*ssa.Const)
		if !ok || kc.Value == nil {
			return
		}
		var f *ssa.Function
		switch v := mu.Value.(type) {
		case *ssa.Function:
			f = v
		case *ssa.ChangeType:
			f, _ = v.X.(*ssa.Function)
		case *ssa.MakeClosure:
			f, _ = v.Fn.(*ssa.Function)
		}
		if f == nil {
			return
		}
		name := kc.Value.ExactString()
		if len(name) >= 2 && name[0] == '"' {
			name = name[1 : len(name)-1]
		}
		switch globalOf(mu.Map) {
		case "FuncsMap":
			run[name] = f
		case "FuncsCheckMap":
			chk[name] = f
		}
	})
	return
}
