package main

import (
	"fmt"
	"go/token"
	"go/types"
	"sort"
	"strings"

	"golang.org/x/tools/go/ssa"
)

func init() {
	register("C18", "v2 interpreter: result-register typestate, consumer adjacency, v1↔v2 operator tables, documented differences, panic sites", checkC18)
}

// register-state kinds
const (
	kU  = iota // untouched since function entry: whatever an earlier expression left (stale)
	kS         // holds the result of an evaluator call (a sub-expression's value)
	kO         // written or cleared by this function (ReturnAppend / Reset) or by a helper that always does
	kF         // left by a host function that was called on a cleared register
	kFs        // left by a host function called on a register that may hold an earlier value
	kH         // left by a helper with mixed behaviour
)

var kindName = map[int]string{kU: "stale", kS: "sub-value", kO: "own", kF: "function-result", kFs: "function-result-or-stale", kH: "helper-left"}

type regAct struct {
	in   ssa.Instruction // nil for function entry
	kind int
}

type regState map[regAct]bool

func (s regState) kinds() map[int]bool {
	m := map[int]bool{}
	for a := range s {
		m[a.kind] = true
	}
	return m
}

func (s regState) String() string {
	var l []string
	for k := range s.kinds() {
		l = append(l, kindName[k])
	}
	sort.Strings(l)
	return strings.Join(l, "|")
}

type regAnalysis struct {
	t        *Tree
	evalSet  map[*ssa.Function]bool // calling one of these evaluates a (sub-)expression or statement
	summ     map[*ssa.Function]map[int]bool
	funcs    []*ssa.Function
	in       map[*ssa.Function]map[*ssa.BasicBlock]regState
	okFn     map[ssa.Instruction]bool
	regMeth  map[string]*ssa.Function
	consumer map[*ssa.Function]bool
}

func isTaskDynCall(call ssa.CallInstruction) bool {
	cm := call.Common()
	if cm.StaticCallee() != nil || cm.IsInvoke() {
		return false
	}
	if _, isB := cm.Value.(*ssa.Builtin); isB {
		return false
	}
	for _, a := range cm.Args {
		if strings.HasSuffix(a.Type().String(), "runtimev2.Task") {
			return true
		}
	}
	return false
}

func (ra *regAnalysis) transfer(f *ssa.Function, in ssa.Instruction, st regState) regState {
	call, ok := in.(ssa.CallInstruction)
	if !ok {
		return st
	}
	if _, isDefer := in.(*ssa.Defer); isDefer {
		return st
	}
	cm := call.Common()
	if isTaskDynCall(call) {
		allO := len(st) > 0
		for a := range st {
			if a.kind != kO {
				allO = false
			}
		}
		if allO {
			return regState{regAct{in, kF}: true}
		}
		return regState{regAct{in, kFs}: true}
	}
	g := cm.StaticCallee()
	if g == nil {
		return st
	}
	switch g {
	case ra.regMeth["ReturnAppend"], ra.regMeth["Reset"]:
		return regState{regAct{in, kO}: true}
	}
	if ra.consumer[g] {
		return st
	}
	if ra.evalSet[g] {
		return regState{regAct{in, kS}: true}
	}
	sm := ra.summ[g]
	if len(sm) == 0 {
		return st
	}
	out := regState{}
	for k := range sm {
		switch k {
		case kU:
			for a := range st {
				out[a] = true
			}
		case kO:
			out[regAct{in, kO}] = true
		default:
			out[regAct{in, kH}] = true
		}
	}
	return out
}

func (ra *regAnalysis) flow(f *ssa.Function) map[*ssa.BasicBlock]regState {
	in := map[*ssa.BasicBlock]regState{}
	if len(f.Blocks) == 0 {
		return in
	}
	in[f.Blocks[0]] = regState{regAct{nil, kU}: true}
	work := []*ssa.BasicBlock{f.Blocks[0]}
	for len(work) > 0 {
		b := work[0]
		work = work[1:]
		st := regState{}
		for a := range in[b] {
			st[a] = true
		}
		for _, ins := range b.Instrs {
			st = ra.transfer(f, ins, st)
		}
		for _, s := range b.Succs {
			changed := false
			if in[s] == nil {
				in[s] = regState{}
				changed = true
			}
			for a := range st {
				if !in[s][a] {
					in[s][a] = true
					changed = true
				}
			}
			if changed {
				work = append(work, s)
			}
		}
	}
	return in
}

// stateAt: the register state just before instruction x.
func (ra *regAnalysis) stateAt(f *ssa.Function, x ssa.Instruction) regState {
	st := regState{}
	for a := range ra.in[f][x.Block()] {
		st[a] = true
	}
	for _, ins := range x.Block().Instrs {
		if ins == x {
			break
		}
		st = ra.transfer(f, ins, st)
	}
	return st
}

func successReturn(ret *ssa.Return) bool {
	n := len(ret.Results)
	if n == 0 {
		return true
	}
	last := ret.Results[n-1]
	ts := last.Type().String()
	if !strings.HasSuffix(ts, "errchain.PlError") && ts != "error" {
		return true
	}
	return retError(ret) != "nonnil"
}

func (ra *regAnalysis) solve() {
	for iter := 0; iter < 12; iter++ {
		changed := false
		for _, f := range ra.funcs {
			ra.in[f] = ra.flow(f)
			sm := map[int]bool{}
			allInstrs(f, func(in ssa.Instruction) {
				ret, ok := in.(*ssa.Return)
				if !ok || !successReturn(ret) || ra.in[f][ret.Block()] == nil {
					return
				}
				for k := range ra.stateAt(f, ret).kinds() {
					sm[k] = true
				}
			})
			if ra.evalSet[f] || ra.consumer[f] {
				continue
			}
			for k := range sm {
				if !ra.summ[f][k] {
					if ra.summ[f] == nil {
						ra.summ[f] = map[int]bool{}
					}
					ra.summ[f][k] = true
					changed = true
				}
			}
		}
		if !changed {
			return
		}
	}
}

func checkC18(c *Ctx) {
	r, t := c.R, c.T
	r.Explanation = "Decides the structural clauses of the v2 interpreter's register discipline and its agreement with v1: (1) REG-DEFINED: a forward dataflow over every function of runtimev2 tracks who last touched the result register (untouched since entry = stale / a sub-evaluation / the function's own ReturnAppend or Reset / a host function called on a cleared register), with interprocedural summaries for helpers; every evaluator of an operand-capable node kind (the kinds the grammar symbol `expr` can carry, from the grammar kind fixpoint, dispatched by RunExpr) must end each success path with its own write, a cleared register handed to a host function, or the tail delegation to exactly one other evaluator — so a construct that yields no value leaves the register empty and its consumer's GetRet reports an error instead of an earlier value; GetParam* leave the register cleared; (2) REG-CONSUME: every GetRet/GetMultiRet/Count reads a register whose only possible last writers are evaluator calls on a node proved non-nil (RunExpr(nil) returns without touching the register) — never the state at function entry; (3) REG-WRITERS: PlReg.Val is written only by Reset and ReturnAppend; (4) SIBLING-TABLE: each of the 1666 operator/truthiness cells extracted from v2 equals the v1 cell; (5) DIFF: an undefined name is an error without register write, and in multi-assignment no store precedes the evaluation of a right-hand side; (6) PANIC-*: the C01 panic-site rules over everything reachable from v2's Script.Run and GetParam* that C01 does not already cover. (7) the v2 half of the C03 control-flow rules (first truthy branch only, scope enter/exit pairing, loop flags, per-iteration scope wipe on every path between two body executions). Index walks, slices and literals of v2 are decided under C04, argument binding under C19. Not decided: value-level equality with a reference semantics, and host functions that evaluate arguments themselves with RunExpr and return without ReturnAppend/Reset (outside the repository; the contract is stated in DESIGN.md)."
	r.Trusted = []string{"host functions honour the FnCall contract when they evaluate arguments themselves", "the parameter index a host function passes to GetParam* is not negative"}
	pk := t.SSA[pRT2]
	if pk == nil {
		r.Undecided("REG-DEFINED", "runtimev2", "", "package not loaded")
		return
	}
	runExpr := t.Func(pRT2, "RunExpr")
	if runExpr == nil {
		r.Undecided("REG-DEFINED", "runtimev2.RunExpr", "", "unresolved anchor")
		return
	}
	ra := &regAnalysis{t: t, evalSet: map[*ssa.Function]bool{}, summ: map[*ssa.Function]map[int]bool{}, in: map[*ssa.Function]map[*ssa.BasicBlock]regState{}, regMeth: map[string]*ssa.Function{}, consumer: map[*ssa.Function]bool{}}
	for _, n := range []string{"ReturnAppend", "Reset", "GetRet", "GetMultiRet", "Count"} {
		m := t.Method(pRT2, "PlReg", n)
		if m == nil {
			r.Undecided("REG-DEFINED", "runtimev2.PlReg."+n, "", "unresolved anchor")
			return
		}
		ra.regMeth[n] = m
	}
	for _, n := range []string{"GetRet", "GetMultiRet", "Count"} {
		ra.consumer[ra.regMeth[n]] = true
	}
	// REG-WRITERS
	{
		okW, n := true, 0
		var bad []string
		for _, f := range t.PkgFuncs(pRT2) {
			for _, w := range writesOf(f) {
				if !strings.HasSuffix(path(w.Addr), ".Val") || w.passesThrough("runtimev2.PlReg") == "" {
					continue
				}
				n++
				if f != ra.regMeth["Reset"] && f != ra.regMeth["ReturnAppend"] {
					okW = false
					bad = append(bad, relName(f))
				}
			}
		}
		r.Ob("REG-WRITERS", "PlReg.Val is written only by Reset and ReturnAppend", "pkg/engine/runtimev2/runtime.go", okW && n >= 2, fmt.Sprintf("%d stores; other writers: %v", n, bad))
	}
	// dispatch table of RunExpr: kind -> callee / inline arm
	k2s, s2k := kindTable(t)
	g := c.Gram()
	ctors := parserCtors(t, nil)
	exprKinds := map[int64]bool{}
	if g != nil {
		gn := computeGramNil(c, g, ctors)
		for k := range gn.kinds["expr"] {
			exprKinds[k] = true
		}
	}
	if len(exprKinds) < 10 {
		r.Undecided("REG-DEFINED", "operand-capable node kinds", "pkg/parser/gram.y", fmt.Sprintf("the grammar kind fixpoint gives only %d kinds for symbol expr", len(exprKinds)))
		return
	}
	var kl []string
	for k := range exprKinds {
		kl = append(kl, k2s[k])
	}
	sort.Strings(kl)
	r.Extra["operand_kinds_from_grammar"] = kl
	armKind := func(b *ssa.BasicBlock) (int64, bool) {
		for _, ec := range controlling(b) {
			bo, ok := ec.Cond.(*ssa.BinOp)
			if !ok || bo.Op != token.EQL || !ec.Pol || !strings.HasSuffix(path(bo.X), ".NodeType") {
				continue
			}
			if k, isC := constInt(bo.Y); isC {
				return k, true
			}
		}
		// arms shared by several cases have no single dominating edge: look at the predecessors
		var ks []int64
		for _, p := range b.Preds {
			if iff, ok := p.Instrs[len(p.Instrs)-1].(*ssa.If); ok && p.Succs[0] == b {
				if bo, ok := iff.Cond.(*ssa.BinOp); ok && bo.Op == token.EQL && strings.HasSuffix(path(bo.X), ".NodeType") {
					if k, isC := constInt(bo.Y); isC {
						ks = append(ks, k)
					}
				}
			}
		}
		if len(ks) == 1 {
			return ks[0], true
		}
		return 0, false
	}
	// evaluator set: everything RunExpr tail-calls, RunExpr itself, RunStmts
	ra.evalSet[runExpr] = true
	dispatch := map[int64]*ssa.Function{}
	allInstrs(runExpr, func(in ssa.Instruction) {
		ret, ok := in.(*ssa.Return)
		if !ok || len(ret.Results) != 1 {
			return
		}
		if call, ok := ret.Results[0].(*ssa.Call); ok && call.Call.StaticCallee() != nil && call.Call.StaticCallee().Pkg == pk {
			ra.evalSet[call.Call.StaticCallee()] = true
			if k, ok := armKind(ret.Block()); ok {
				dispatch[k] = call.Call.StaticCallee()
			}
		}
	})
	if rs := t.Func(pRT2, "RunStmts"); rs != nil {
		ra.evalSet[rs] = true
	}
	for _, f := range t.PkgFuncs(pRT2) {
		if len(f.Blocks) > 0 {
			ra.funcs = append(ra.funcs, f)
		}
	}
	sortFuncs(ra.funcs)
	ra.solve()
	r.Counts["functions_with_register_dataflow"] = len(ra.funcs)
	r.Counts["dispatch_arms"] = len(dispatch)

	// ---- REG-DEFINED
	checkEvaluator := func(f *ssa.Function, label string, onlyKinds func(b *ssa.BasicBlock) (bool, string)) {
		r.Fn(relName(f))
		nEval := 0
		allInstrs(f, func(in ssa.Instruction) {
			if call, ok := in.(*ssa.Call); ok && call.Call.StaticCallee() != nil && ra.evalSet[call.Call.StaticCallee()] {
				nEval++
			}
		})
		allInstrs(f, func(in ssa.Instruction) {
			ret, ok := in.(*ssa.Return)
			if !ok || !successReturn(ret) || ra.in[f][ret.Block()] == nil {
				return
			}
			arm := ""
			if onlyKinds != nil {
				use, a := onlyKinds(ret.Block())
				if !use {
					return
				}
				arm = " (" + a + ")"
			}
			st := ra.stateAt(f, ret)
			ok2 := len(st) > 0
			why := ""
			var tail *ssa.Call
			if len(ret.Results) > 0 {
				tail, _ = ret.Results[len(ret.Results)-1].(*ssa.Call)
			}
			for a := range st {
				switch a.kind {
				case kO, kF:
				case kS:
					// delegation: the tail call, or the only evaluation of a pure wrapper
					if !(a.in == ssa.Instruction(tail) || nEval == 1) {
						ok2 = false
						why = "returns success with a sub-expression's value still in the register"
					}
				case kU:
					ok2 = false
					why = "returns success without touching the register: the consumer reads whatever an earlier expression left"
				case kFs:
					ok2 = false
					why = "calls the host function on a register that may still hold an earlier value: a function that returns nothing leaves that value"
				default:
					ok2 = false
					why = "register left by a helper with mixed behaviour"
				}
			}
			r.Ob("REG-DEFINED", fmt.Sprintf("%s%s success return #%d", label, arm, retOrdinal(f, ret)), t.Pos(ret.Pos()), ok2,
				fmt.Sprintf("register state at this return: %s. %s", st, why))
		})
	}
	stmtKinds := map[int64]bool{}
	for k := range k2s {
		if !exprKinds[k] {
			stmtKinds[k] = true
		}
	}
	checkEvaluator(runExpr, "runtimev2.RunExpr", func(b *ssa.BasicBlock) (bool, string) {
		k, ok := armKind(b)
		if !ok {
			return false, "" // the nil-node arm and the default arm (an error)
		}
		return exprKinds[k], "arm " + k2s[k]
	})
	var evs []*ssa.Function
	for k, f := range dispatch {
		if exprKinds[k] {
			evs = append(evs, f)
		}
	}
	sortFuncs(evs)
	seenEv := map[*ssa.Function]bool{}
	for _, f := range evs {
		if seenEv[f] {
			continue
		}
		seenEv[f] = true
		checkEvaluator(f, relName(f), nil)
	}
	// every operand kind has an arm
	for _, k := range sortedInt64(exprKinds) {
		_, hasDispatch := dispatch[k]
		inline := false
		allInstrs(runExpr, func(in ssa.Instruction) {
			if ret, ok := in.(*ssa.Return); ok {
				if kk, ok := armKind(ret.Block()); ok && kk == k {
					inline = true
				}
			}
		})
		r.Ob("REG-DEFINED", "RunExpr has an arm for operand kind "+k2s[k], t.Pos(runExpr.Pos()), hasDispatch || inline, "a kind the grammar can put in operand position must be evaluated, not fall into `unsupported ast node`")
	}
	// GetParam*: cleared on success
	for _, f := range ra.funcs {
		if !strings.HasPrefix(f.Name(), "GetParam") {
			continue
		}
		r.Fn(relName(f))
		allInstrs(f, func(in ssa.Instruction) {
			ret, ok := in.(*ssa.Return)
			if !ok || !successReturn(ret) || ra.in[f][ret.Block()] == nil {
				return
			}
			st := ra.stateAt(f, ret)
			okc := true
			for a := range st {
				// untouched is fine (default value, nothing evaluated); a sub-value left behind is not
				if a.kind != kO && a.kind != kU {
					okc = false
				}
			}
			r.Ob("REG-DEFINED", fmt.Sprintf("%s success return #%d leaves no argument value in the register", relName(f), retOrdinal(f, ret)), t.Pos(ret.Pos()), okc,
				"register state: "+st.String()+" — an argument's value left behind would become the result of a function that returns nothing")
		})
	}
	r.Floor("REG-DEFINED", 60)

	// ---- REG-CONSUME
	nilable := successNilable(c, g, ctors)
	nCons := 0
	for _, f := range ra.funcs {
		if ra.consumer[f] {
			continue
		}
		allInstrs(f, func(in ssa.Instruction) {
			call, ok := in.(*ssa.Call)
			if !ok || call.Call.StaticCallee() == nil || !ra.consumer[call.Call.StaticCallee()] {
				return
			}
			if ra.in[f][call.Block()] == nil {
				return
			}
			nCons++
			st := ra.stateAt(f, call)
			okc := len(st) > 0
			var why []string
			for a := range st {
				switch a.kind {
				case kS:
					ev := a.in.(*ssa.Call)
					if ev.Call.StaticCallee() == runExpr {
						if w := nonNilNode(ev, nilable); w != "" {
							okc = false
							why = append(why, w)
						}
					}
				case kO, kF:
				case kU:
					// reading what the caller left is the documented protocol only for host-facing helpers that take no node
					okc = false
					why = append(why, "may read the register as it was at function entry")
				default:
					okc = false
					why = append(why, "may read "+kindName[a.kind])
				}
			}
			sort.Strings(why)
			r.Ob("REG-CONSUME", fmt.Sprintf("%s reads the register (%s #%d)", relName(f), fnName(call.Call.StaticCallee()), ordinalCall(f, call)), t.Pos(call.Pos()), okc,
				fmt.Sprintf("possible last writers: %s. %s", st, strings.Join(uniqStrings(why), "; ")))
		})
	}
	r.Counts["register_reads"] = nCons
	r.Floor("REG-CONSUME", 12)

	// ---- REG-ALIAS: GetMultiRet hands out the register's own storage; it must be copied out before the next write
	nAlias := 0
	for _, f := range ra.funcs {
		allInstrs(f, func(in ssa.Instruction) {
			call, ok := in.(*ssa.Call)
			if !ok || call.Call.StaticCallee() != ra.regMeth["GetMultiRet"] {
				return
			}
			nAlias++
			// values sharing the register's backing array
			taint := map[ssa.Value]bool{}
			var add func(v ssa.Value)
			add = func(v ssa.Value) {
				if v == nil || taint[v] {
					return
				}
				taint[v] = true
				for _, ref := range *v.Referrers() {
					switch x := ref.(type) {
					case *ssa.Extract:
						if x.Index == 0 {
							add(x)
						}
					case *ssa.Phi:
						add(x)
					case *ssa.Slice:
						add(x)
					case *ssa.ChangeType:
						add(x)
					case *ssa.Call:
						if builtinName(x) == "append" && x.Call.Args[0] == v {
							add(x)
						}
					case *ssa.Store:
						if x.Val == v {
							if al, ok := x.Addr.(*ssa.Alloc); ok {
								for _, r2 := range *al.Referrers() {
									if ld, ok := r2.(*ssa.UnOp); ok && ld.Op == token.MUL {
										add(ld)
									}
								}
							}
						}
					}
				}
			}
			add(call)
			// a register write W between the read and a later use of a tainted value
			bad := ""
			allInstrs(f, func(w ssa.Instruction) {
				if bad != "" {
					return
				}
				wc, ok := w.(ssa.CallInstruction)
				if !ok || w == ssa.Instruction(call) {
					return
				}
				isWrite := isTaskDynCall(wc)
				if g := wc.Common().StaticCallee(); g != nil {
					if ra.evalSet[g] || g == ra.regMeth["ReturnAppend"] || g == ra.regMeth["Reset"] || (len(ra.summ[g]) > 0 && !(len(ra.summ[g]) == 1 && ra.summ[g][kU])) {
						isWrite = true
					}
				}
				if !isWrite || !reachableFrom(call, w) {
					return
				}
				for tv := range taint {
					if tv == ssa.Value(call) {
						continue
					}
					for _, ref := range *tv.Referrers() {
						if _, isPhi := ref.(*ssa.Phi); isPhi {
							continue // the phi itself is tainted and checked through its own uses
						}
						def, _ := tv.(ssa.Instruction)
						if _, isPhiDef := tv.(*ssa.Phi); isPhiDef {
							def = nil // loop-carried: a new iteration does not re-create it
						}
						if ref != w && reachAvoid(w, ref, func(k ssa.Instruction) bool { return k == ssa.Instruction(call) || (def != nil && k == def) }) {
							bad = fmt.Sprintf("%s is still used at %s after the register may have been rewritten at %s", path(tv), t.Pos(ref.Pos()), t.Pos(w.Pos()))
							return
						}
					}
				}
			})
			r.Ob("REG-ALIAS", fmt.Sprintf("%s copies the values of GetMultiRet #%d out before the register is written again", relName(f), ordinalCall(f, call)), t.Pos(call.Pos()), bad == "",
				"GetMultiRet returns the register's own slice; Reset keeps its backing array, so the next ReturnAppend overwrites it. "+bad)
		})
	}
	r.FloorN("GetMultiRet call sites", nAlias, 1)

	// ---- SIBLING-TABLE
	ot1 := extractOpTables(t, pRT)
	ot2 := extractOpTables(t, pRT2)
	for _, ab := range append(append([]string{}, ot1.Abort...), ot2.Abort...) {
		r.Undecided("SIBLING-TABLE", "extraction "+ab, "", "specialisation aborted")
	}
	for _, k := range sortedKeys(ot1.Cells) {
		v2, ok := ot2.Cells[k]
		r.Ob("SIBLING-TABLE", "cell "+k, evaluatorPos(t, pRT2, k), ok && v2 == ot1.Cells[k], fmt.Sprintf("v1: %s ; v2: %s", ot1.Cells[k], v2))
	}
	for _, k := range sortedKeys(ot2.Cells) {
		if _, ok := ot1.Cells[k]; !ok {
			r.Ob("SIBLING-TABLE", "cell "+k, evaluatorPos(t, pRT2, k), false, "v2 has a cell v1 lacks")
		}
	}
	r.Floor("SIBLING-TABLE", 1600)

	// ---- DIFF
	c18Diff(c, ra, runExpr, s2k)

	// ---- control flow and scoping of the v2 interpreter (the v2 half of the C03 rules)
	c03If(c, pRT2, "runtimev2")
	c03Scopes(c, pRT2, "runtimev2")
	c03Flags(c, pRT2, "runtimev2")
	c03Iter(c, pRT2, "runtimev2")

	// ---- PANIC over the v2 scope
	v2s, unresolved := v2Scope(t)
	recursionRule(c, "RECURSION", v2s, "v2")
	r.Counts["v2_scope_functions"] = len(v2s)
	r.Counts["v2_scope_unresolved_dynamic_calls"] = len(unresolved)
	d := &dischargeCtx{t: t, s2k: s2k, flows: map[*ssa.Function]map[*ssa.BasicBlock]lenState{}, initLen: map[*ssa.Function]lenState{}, bounded: boundedFields(t)}
	d.nilable = nilable
	d.nonEmpty = nonEmptyListFields(t, g)
	var hostIdx []string
	for _, f := range ra.funcs {
		if strings.HasPrefix(f.Name(), "GetParam") {
			for _, p := range f.Params {
				if p.Name() == "i" && isIntType(p.Type()) {
					hostNonNeg[p] = true
					hostIdx = append(hostIdx, relName(f)+"("+p.Name()+")")
				}
			}
		}
	}
	r.Extra["host_supplied_indices_assumed_non_negative"] = hostIdx
	counts, nAcc, nNil, nArg := panicRules(c, v2s, runScope(t), d, s2k)
	r.Extra["panic_site_census_v2_only"] = counts
	r.Counts["accessor_call_sites_v2"] = nAcc
	r.Counts["nilable_field_dereferences_v2"] = nNil
	r.Counts["nil_pointer_arguments_v2"] = nArg
	r.Floor("PANIC-IDX", 40)
	r.Floor("PANIC-TA", 30)
}

func sortedInt64(m map[int64]bool) []int64 {
	var l []int64
	for k := range m {
		l = append(l, k)
	}
	sort.Slice(l, func(i, j int) bool { return l[i] < l[j] })
	return l
}

// nonNilNode: why the node argument of this RunExpr call may be nil ("" = proved non-nil or the caller's duty).
func nonNilNode(ev *ssa.Call, nilable map[string]string) string {
	if len(ev.Call.Args) < 2 {
		return ""
	}
	x := ev.Call.Args[1]
	p := path(x)
	guarded := func() bool {
		for _, ec := range controlling(ev.Block()) {
			if bo, ok := ec.Cond.(*ssa.BinOp); ok && isNilConst(bo.Y) && path(bo.X) == p {
				if (bo.Op == token.NEQ && ec.Pol) || (bo.Op == token.EQL && !ec.Pol) {
					return true
				}
			}
		}
		return false
	}
	if ld, ok := x.(*ssa.UnOp); ok && ld.Op == token.MUL {
		switch a := ld.X.(type) {
		case *ssa.FieldAddr:
			key := strings.TrimPrefix(namedOf(a.X.Type()), "ast.") + "." + fieldName(a)
			if why, isN := nilable[key]; isN && !guarded() {
				return fmt.Sprintf("evaluates %s, which may be nil (%s), without a nil test: RunExpr(nil) leaves the register as it was", p, why)
			}
		case *ssa.IndexAddr:
			if strings.Contains(p, "ParamNormalized") && !guarded() {
				return "evaluates an element of ParamNormalized, which holds nil for an argument that was not passed, without a nil test"
			}
		}
	}
	return ""
}

func c18Diff(c *Ctx, ra *regAnalysis, runExpr *ssa.Function, s2k map[string]int64) {
	r, t := c.R, c.T
	// identifier miss => error, no register write
	getKey := t.Method(pRT2, "Task", "GetKey")
	okMiss, n := false, 0
	allInstrs(runExpr, func(in ssa.Instruction) {
		call, ok := in.(*ssa.Call)
		if !ok || call.Call.StaticCallee() != getKey || getKey == nil {
			return
		}
		n++
		for _, ref := range *call.Referrers() {
			ex, ok := ref.(*ssa.Extract)
			if !ok || ex.Index != 1 {
				continue
			}
			for _, r2 := range *ex.Referrers() {
				bo, ok := r2.(*ssa.BinOp)
				if !ok || !isNilConst(bo.Y) {
					continue
				}
				for _, r3 := range *bo.Referrers() {
					if iff, ok := r3.(*ssa.If); ok {
						miss := iff.Block().Succs[0]
						if bo.Op == token.EQL {
							miss = iff.Block().Succs[1]
						}
						writes := false
						for _, ins := range miss.Instrs {
							if cl, ok := ins.(*ssa.Call); ok && (cl.Call.StaticCallee() == ra.regMeth["ReturnAppend"]) {
								writes = true
							}
						}
						if rejecting(miss) && !writes {
							okMiss = true
						}
					}
				}
			}
		}
	})
	r.Ob("DIFF", "an undefined name is an error in v2", t.Pos(runExpr.Pos()), okMiss && n == 1, "the miss edge of ctx.GetKey in RunExpr's identifier arm returns a run error and writes no value")
	// Task.GetKey does not consult a point
	if getKey != nil {
		onlyStack := true
		allInstrs(getKey, func(in ssa.Instruction) {
			if cl, ok := in.(ssa.CallInstruction); ok && cl.Common().IsInvoke() {
				onlyStack = false
			}
		})
		r.Ob("DIFF", "v2 names resolve through the scope stack only", t.Pos(getKey.Pos()), onlyStack, "Task.GetKey has no input point to fall back to")
	}
	// all right-hand sides before any store
	as := t.Func(pRT2, "RunAssignmentExpr")
	if as == nil {
		r.Undecided("DIFF", "runtimev2.RunAssignmentExpr", "", "unresolved anchor")
		return
	}
	r.Fn(relName(as))
	var rhsEvals, stores []*ssa.Call
	allInstrs(as, func(in ssa.Instruction) {
		call, ok := in.(*ssa.Call)
		if !ok || call.Call.StaticCallee() == nil {
			return
		}
		switch fnName(call.Call.StaticCallee()) {
		case "RunExpr":
			if strings.Contains(path(call.Call.Args[1]), ".RHS") {
				rhsEvals = append(rhsEvals, call)
			}
		case "SetVarb", "changeListOrMapValue":
			stores = append(stores, call)
		default:
			// a same-package helper that performs the store for one target
			h := call.Call.StaticCallee()
			if h.Pkg == as.Pkg && len(h.Blocks) > 0 {
				n := 0
				allInstrs(h, func(i2 ssa.Instruction) {
					if c2, ok := i2.(*ssa.Call); ok && c2.Call.StaticCallee() != nil {
						if nm := fnName(c2.Call.StaticCallee()); nm == "SetVarb" || nm == "changeListOrMapValue" {
							n++
						}
					}
				})
				if n >= 2 {
					stores = append(stores, call, call) // stands for both kinds of target
				}
			}
		}
	})
	okOrder := len(rhsEvals) >= 1 && len(stores) >= 2
	for _, s := range stores {
		for _, e := range rhsEvals {
			if reachableFrom(s, e) {
				okOrder = false
			}
		}
	}
	r.Ob("DIFF", "multi-assignment evaluates the whole right side before assigning", t.Pos(as.Pos()), okOrder,
		fmt.Sprintf("%d evaluations of expr.RHS elements, %d stores (SetVarb/changeListOrMapValue); no store can be followed by a right-hand-side evaluation", len(rhsEvals), len(stores)))
	// counts must agree
	okCnt := false
	allInstrs(as, func(in ssa.Instruction) {
		iff, ok := in.(*ssa.If)
		if !ok {
			return
		}
		bo, ok := iff.Cond.(*ssa.BinOp)
		if !ok || (bo.Op != token.NEQ && bo.Op != token.EQL) {
			return
		}
		lx, ok1 := bo.X.(*ssa.Call)
		ly, ok2 := bo.Y.(*ssa.Call)
		if ok1 && ok2 && builtinName(lx) == "len" && builtinName(ly) == "len" {
			ps := path(lx.Call.Args[0]) + " " + path(ly.Call.Args[0])
			if strings.Contains(ps, ".LHS") {
				bad := iff.Block().Succs[0]
				if bo.Op == token.EQL {
					bad = iff.Block().Succs[1]
				}
				if rejecting(bad) {
					okCnt = true
				}
			}
		}
	})
	r.Ob("DIFF", "multi-assignment rejects a value count that differs from the target count", t.Pos(as.Pos()), okCnt, "len(expr.LHS) != len(vals) → error before any store")
	_ = types.Typ
}
