package main

import (
	"fmt"
	"go/token"
	"go/types"
	"strings"

	"golang.org/x/tools/go/ssa"
)

// Write is one memory write of a function: a store, a map update, a delete or an element store,
// with the root of the written address and the named struct types the address passes through.
type Write struct {
	Fn      *ssa.Function
	In      ssa.Instruction
	Kind    string // store | mapupdate | delete
	Addr    ssa.Value
	Root    ssa.Value
	Through []string // "pkg.Type.Field" steps from the root to the written location
	Val     ssa.Value
}

func (w Write) String() string {
	return fmt.Sprintf("%s %s", w.Kind, path(w.Addr))
}

// addrChain walks an address back to its root, recording the struct fields passed through.
func addrChain(v ssa.Value) (root ssa.Value, through []string) {
	for i := 0; i < 64; i++ {
		switch x := v.(type) {
		case *ssa.FieldAddr:
			through = append(through, namedOf(x.X.Type())+"."+fieldName(x))
			v = x.X
		case *ssa.Field:
			through = append(through, namedOf(x.X.Type())+"."+fieldNameV(x))
			v = x.X
		case *ssa.IndexAddr:
			v = x.X
		case *ssa.Index:
			v = x.X
		case *ssa.Lookup:
			v = x.X
		case *ssa.Slice:
			v = x.X
		case *ssa.UnOp:
			if x.Op != token.MUL {
				return v, through
			}
			if a, ok := x.X.(*ssa.Alloc); ok {
				if sv := singleStore(a); sv != nil {
					v = sv
					continue
				}
				return a, through
			}
			v = x.X
		case *ssa.ChangeType:
			v = x.X
		case *ssa.Convert:
			v = x.X
		case *ssa.MakeInterface:
			v = x.X
		case *ssa.TypeAssert:
			v = x.X
		case *ssa.Extract:
			v = x.Tuple
		case *ssa.Phi:
			// follow the first non-nil edge (roots of phi'd addresses are reported as the phi itself otherwise)
			return v, through
		case *ssa.Call:
			// accessor n.X() on an ast node: the node
			if f := x.Call.StaticCallee(); f != nil && f.Signature.Recv() != nil && len(x.Call.Args) == 1 && f.Pkg != nil && f.Pkg.Pkg.Path() == pAst {
				through = append(through, namedOf(x.Call.Args[0].Type())+"."+f.Name()+"()")
				v = x.Call.Args[0]
				continue
			}
			return v, through
		default:
			return v, through
		}
	}
	return v, through
}

func writesOf(fn *ssa.Function) []Write {
	var out []Write
	allInstrs(fn, func(in ssa.Instruction) {
		var addr, val ssa.Value
		kind := ""
		switch x := in.(type) {
		case *ssa.Store:
			addr, val, kind = x.Addr, x.Val, "store"
		case *ssa.MapUpdate:
			addr, val, kind = x.Map, x.Value, "mapupdate"
		case *ssa.Call:
			if builtinName(x) == "delete" {
				addr, kind = x.Call.Args[0], "delete"
			}
			if builtinName(x) == "copy" {
				addr, kind = x.Call.Args[0], "copy"
			}
		}
		if addr == nil {
			return
		}
		root, thr := addrChain(addr)
		out = append(out, Write{Fn: fn, In: in, Kind: kind, Addr: addr, Root: root, Through: thr, Val: val})
	})
	return out
}

// passesThrough: the written location is reached through a field of a type with the given prefix ("ast." …).
func (w Write) passesThrough(prefixes ...string) string {
	for _, t := range w.Through {
		for _, p := range prefixes {
			if strings.HasPrefix(t, p) {
				return t
			}
		}
	}
	// the root itself may be a pointer to such a type (whole-struct store)
	rt := namedOf(w.Root.Type())
	if pt, ok := w.Root.Type().(*types.Pointer); ok {
		rt = namedOf(pt)
	}
	for _, p := range prefixes {
		if strings.HasPrefix(rt+".", p) && len(w.Through) == 0 {
			if _, isAlloc := w.Root.(*ssa.Alloc); !isAlloc {
				return rt
			}
		}
	}
	return ""
}

func rootKind(v ssa.Value) string {
	switch x := v.(type) {
	case *ssa.Global:
		return "global " + x.Pkg.Pkg.Name() + "." + x.Name()
	case *ssa.Alloc:
		if x.Heap {
			return "new"
		}
		return "local"
	case *ssa.Parameter:
		return "param " + x.Name()
	case *ssa.FreeVar:
		return "freevar " + x.Name()
	case *ssa.MakeMap, *ssa.MakeSlice:
		return "new"
	case *ssa.Call:
		if f := x.Call.StaticCallee(); f != nil {
			return "call " + f.Name()
		}
		return "call"
	case *ssa.Phi:
		return "phi"
	case *ssa.Const:
		return "const"
	}
	return fmt.Sprintf("%T", v)
}
