package main

import (
	"fmt"
	"go/token"
	"go/types"
	"strings"

	"golang.org/x/tools/go/ssa"
)

func init() {
	register("C20", "CLI runner: point snapshot after Run, sink completeness, script selection, no-input", checkC20)
}

// pointFieldLoad recognises `*(&pt.F)` with pt a *input.Point and returns F.
func pointFieldLoad(v ssa.Value) (string, *ssa.UnOp) {
	u, ok := v.(*ssa.UnOp)
	if !ok || u.Op != token.MUL {
		return "", nil
	}
	fa, ok := u.X.(*ssa.FieldAddr)
	if !ok || namedOf(fa.X.Type()) != "input.Point" {
		return "", nil
	}
	return fieldName(fa), u
}

// pointGetter recognises a call pt.GetX() whose body just returns a field of the receiver.
func pointGetter(v ssa.Value) (string, *ssa.Call) {
	call, ok := v.(*ssa.Call)
	if !ok {
		return "", nil
	}
	f := call.Call.StaticCallee()
	if f == nil || len(call.Call.Args) != 1 || namedOf(call.Call.Args[0].Type()) != "input.Point" || len(f.Blocks) != 1 {
		return "", nil
	}
	ret, ok := f.Blocks[0].Instrs[len(f.Blocks[0].Instrs)-1].(*ssa.Return)
	if !ok || len(ret.Results) != 1 {
		return "", nil
	}
	if fld, ld := pointFieldLoad(ret.Results[0]); ld != nil {
		if fa := ld.X.(*ssa.FieldAddr); fa.X == ssa.Value(f.Params[0]) {
			return fld, call
		}
	}
	return "", nil
}

func unwrapIface(v ssa.Value) ssa.Value {
	for {
		switch x := v.(type) {
		case *ssa.MakeInterface:
			v = x.X
		case *ssa.ChangeType:
			v = x.X
		default:
			return v
		}
	}
}

func checkC20(c *Ctx) {
	r, t := c.R, c.T
	r.Explanation = "Decides on the SSA of internal/cmd/platypus/run: (1) SNAPSHOT-AFTER-RUN: every value that reaches an output sink (the four entries of the JSON object, the four arguments of influxdb.NewPoint, the `dropped` test) is a load of the corresponding field of the input.Point that was handed to script.Run, and that load executes after the Run call — unless the field is a map (a reference to the point's own storage) and no function reachable from Script.Run replaces that map; (2) SINKS-COMPLETE: both renderers receive measurement, tags, fields and time, each from the like-named point field; (3) SELECT: the script that is run is the entry of ParseScript's result under the key the script content was registered with (options.Script in workspace mode, the file's own name in single-file mode), and its load error, if present under that key, is returned instead; (4) NO-INPUT: runScript is reached only when options.Input is non-empty and loading succeeded; script.Run is called exactly once, outside any loop; (5) INPUT-SHAPE: text input becomes the field `message`, line protocol supplies name/tags/fields/time of pts[0]. Not decided: byte-equality of the CLI output with the library result (encoder behaviour is trusted)."
	r.Trusted = []string{"encoding/json.Encoder", "influxdb1-client models.ParsePointsWithPrecision / NewPoint", "cobra flag parsing"}
	rs := t.Func(pRun, "runScript")
	ls := t.Func(pRun, "loadScript")
	run := t.Func(pRun, "Run")
	if rs == nil || ls == nil || run == nil {
		r.Undecided("ANCHOR", "run.Run/loadScript/runScript", "internal/cmd/platypus/run/run.go", "unresolved anchor")
		return
	}
	r.Fn(relName(rs), relName(ls), relName(run))
	scriptRun := t.Method(pRT, "Script", "Run")
	var runCalls []*ssa.Call
	allInstrs(rs, func(in ssa.Instruction) {
		if call, ok := in.(*ssa.Call); ok && call.Call.StaticCallee() == scriptRun {
			runCalls = append(runCalls, call)
		}
	})
	inLoop := false
	for _, l := range naturalLoops(rs) {
		for _, rc := range runCalls {
			if l.Blocks[rc.Block()] {
				inLoop = true
			}
		}
	}
	r.Ob("RUN-ONCE", "runScript calls script.Run exactly once", t.Pos(rs.Pos()), len(runCalls) == 1 && !inLoop, fmt.Sprintf("%d call sites, in loop: %v", len(runCalls), inLoop))
	if len(runCalls) != 1 {
		return
	}
	rc := runCalls[0]
	// RUN-ERROR: a run error is reported instead of output — everything runScript does after script.Run on its way
	// to a nil return (reading the point, printing) is dominated by the test that Run's own result is nil, and the
	// other edge of that test returns a non-nil error
	{
		tested := func(in ssa.Instruction) bool {
			for _, ec := range factsAt(in) {
				bo, ok := ec.Cond.(*ssa.BinOp)
				if !ok || bo.X != ssa.Value(rc) || !isNilConst(bo.Y) {
					continue
				}
				if (bo.Op == token.NEQ && !ec.Pol) || (bo.Op == token.EQL && ec.Pol) {
					return true
				}
			}
			return false
		}
		n, bad := 0, ""
		allInstrs(rs, func(in ssa.Instruction) {
			if in.Block() == rs.Recover || !reachableFrom(rc, in) {
				return
			}
			switch x := in.(type) {
			case *ssa.Return:
				if retError(x) == "nonnil" {
					return
				}
			case *ssa.Call:
				if x.Call.IsInvoke() && (x.Call.Method.Name() == "Infof" || x.Call.Method.Name() == "Info") {
					break
				}
				return
			default:
				return
			}
			n++
			if !tested(in) && bad == "" {
				bad = fmt.Sprintf("%T at %s is reached whether or not script.Run returned an error", in, t.Pos(in.Pos()))
			}
		})
		// the failing edge returns an error
		okFail := false
		allInstrs(rs, func(in ssa.Instruction) {
			iff, ok := in.(*ssa.If)
			if !ok {
				return
			}
			bo, ok := iff.Cond.(*ssa.BinOp)
			if !ok || bo.X != ssa.Value(rc) || !isNilConst(bo.Y) {
				return
			}
			fail := iff.Block().Succs[0]
			if bo.Op == token.EQL {
				fail = iff.Block().Succs[1]
			}
			if ret, isR := fail.Instrs[len(fail.Instrs)-1].(*ssa.Return); isR && retError(ret) == "nonnil" {
				okFail = true
			}
		})
		r.Ob("RUN-ERROR", "runScript prints and succeeds only when script.Run returned no error", t.Pos(rc.Pos()), n > 0 && bad == "" && okFail,
			fmt.Sprintf("%d output calls / success returns after the run, each dominated by `<result of script.Run> == nil`; failing edge returns an error: %v. %s", n, okFail, bad))
	}
	// the point passed to Run
	ptArg := unwrapIface(rc.Call.Args[1])
	// which Point map fields are replaced as a whole by anything reachable from Script.Run?
	replaced := map[string]string{}
	for f := range runScope(t) {
		allInstrs(f, func(in ssa.Instruction) {
			if s, ok := in.(*ssa.Store); ok {
				if fa, ok := s.Addr.(*ssa.FieldAddr); ok && namedOf(fa.X.Type()) == "input.Point" {
					if _, isMap := fa.Type().(*types.Pointer).Elem().Underlying().(*types.Map); isMap {
						replaced[fieldName(fa)] = relName(f) + " at " + t.Pos(s.Pos())
					}
				}
			}
		})
	}
	checkSink := func(sinkKey, want string, v ssa.Value, pos token.Pos) {
		v = unwrapIface(v)
		f, ld := pointFieldLoad(v)
		key := "sink " + sinkKey
		if gf, gc := pointGetter(v); gc != nil {
			// accessor call: same obligations, the call is the read
			if gf != want {
				r.Ob("SINKS-COMPLETE", key, t.Pos(pos), false, fmt.Sprintf("receives Point.%s, expected Point.%s", gf, want))
				return
			}
			r.Ob("SINKS-COMPLETE", key, t.Pos(pos), true, "receives Point."+gf+" through "+fnName(gc.Call.StaticCallee())+"()")
			okAfter := gc.Call.Args[0] == ptArg && precedes(rc, gc)
			r.Ob("SNAPSHOT-AFTER-RUN", key, t.Pos(gc.Pos()), okAfter, "the accessor must be called on the point handed to script.Run, after the run")
			return
		}
		if ld == nil {
			r.Ob("SNAPSHOT-AFTER-RUN", key, t.Pos(pos), false, fmt.Sprintf("value %s is not a read of the point's field %s: the output does not show the point as the script left it", path(v), want))
			return
		}
		if f != want {
			r.Ob("SINKS-COMPLETE", key, t.Pos(pos), false, fmt.Sprintf("receives Point.%s, expected Point.%s", f, want))
			return
		}
		r.Ob("SINKS-COMPLETE", key, t.Pos(pos), true, "receives Point."+f)
		fa := ld.X.(*ssa.FieldAddr)
		if fa.X != ptArg {
			r.Ob("SNAPSHOT-AFTER-RUN", key, t.Pos(pos), false, "the field is read from a different point than the one handed to script.Run")
			return
		}
		after := reachableFrom(rc, ld) && precedes(rc, ld)
		_, isMap := ld.Type().Underlying().(*types.Map)
		switch {
		case after:
			r.Ob("SNAPSHOT-AFTER-RUN", key, t.Pos(ld.Pos()), true, "read after script.Run")
		case isMap && replaced[f] == "":
			r.Ob("SNAPSHOT-AFTER-RUN", key, t.Pos(ld.Pos()), true, "read before script.Run, but it is a reference to the point's own map and nothing reachable from Script.Run replaces Point."+f)
		case isMap:
			r.Ob("SNAPSHOT-AFTER-RUN", key, t.Pos(ld.Pos()), false, "map reference taken before script.Run, but "+replaced[f]+" replaces Point."+f+" during the run")
		default:
			r.Ob("SNAPSHOT-AFTER-RUN", key, t.Pos(ld.Pos()), false, fmt.Sprintf("Point.%s is copied before script.Run (%s): changes made by the script (set_measurement, default_time, drop) never reach the output", f, t.Pos(rc.Pos())))
		}
	}
	// JSON sink: MapUpdate with constant keys on a map that flows into Encode
	jsonKeys := map[string]string{"measurement": "Measurement", "tags": "Tags", "fields": "Fields", "time": "Time"}
	seenJSON := map[string]bool{}
	allInstrs(rs, func(in ssa.Instruction) {
		mu, ok := in.(*ssa.MapUpdate)
		if !ok {
			return
		}
		kc, ok := mu.Key.(*ssa.Const)
		if !ok || kc.Value == nil {
			return
		}
		k := strings.Trim(kc.Value.ExactString(), `"`)
		want, ok := jsonKeys[k]
		if !ok || !reachableFrom(rc, mu) {
			return
		}
		seenJSON[k] = true
		checkSink("json."+k, want, mu.Value, mu.Pos())
	})
	for k := range jsonKeys {
		if !seenJSON[k] {
			r.Ob("SINKS-COMPLETE", "sink json."+k, t.Pos(rs.Pos()), false, "the JSON output object has no entry `"+k+"`")
		}
	}
	// line-protocol sink
	nNP := 0
	allInstrs(rs, func(in ssa.Instruction) {
		call, ok := in.(*ssa.Call)
		if !ok {
			return
		}
		f := call.Call.StaticCallee()
		if f == nil || f.Name() != "NewPoint" || f.Object() == nil || !strings.Contains(f.Object().Pkg().Path(), "influxdb1-client") {
			return
		}
		nNP++
		for i, want := range []string{"Measurement", "Tags", "Fields"} {
			checkSink("lineprotocol."+strings.ToLower(want), want, call.Call.Args[i], call.Pos())
		}
		// variadic time: slice of a one-element array
		if sl, ok := call.Call.Args[3].(*ssa.Slice); ok {
			if a, ok := sl.X.(*ssa.Alloc); ok {
				for _, ref := range *a.Referrers() {
					if ia, ok := ref.(*ssa.IndexAddr); ok {
						for _, rr := range *ia.Referrers() {
							if s, ok := rr.(*ssa.Store); ok && s.Addr == ssa.Value(ia) {
								checkSink("lineprotocol.time", "Time", s.Val, call.Pos())
							}
						}
					}
				}
			}
		}
	})
	r.FloorN("NewPoint sinks", nNP, 1)
	// dropped test: an If after Run whose condition is (a load of) Point.Drop leading to an error return
	nDrop := 0
	allInstrs(rs, func(in ssa.Instruction) {
		iff, ok := in.(*ssa.If)
		if !ok || !reachableFrom(rc, iff) {
			return
		}
		if f, _ := pointFieldLoad(iff.Cond); f == "Drop" {
			nDrop++
			checkSink("dropped-test", "Drop", iff.Cond, iff.Pos())
			return
		}
		// a local bool that was loaded from Drop earlier
		if u, ok := iff.Cond.(*ssa.UnOp); ok {
			_ = u
		}
	})
	if nDrop == 0 {
		// the condition may be a pre-Run copy: find any load of Point.Drop and the If that uses it
		allInstrs(rs, func(in ssa.Instruction) {
			if f, ld := pointFieldLoad(valueOf(in)); f == "Drop" && ld != nil {
				for _, ref := range *ld.Referrers() {
					if iff, ok := ref.(*ssa.If); ok {
						nDrop++
						checkSink("dropped-test", "Drop", iff.Cond, iff.Pos())
					}
				}
			}
		})
	}
	r.FloorN("dropped tests", nDrop, 1)
	r.Floor("SNAPSHOT-AFTER-RUN", 9)
	r.Floor("SINKS-COMPLETE", 9)

	// INPUT-SHAPE: text -> fields{"message": string(data)}
	okMsg := false
	// runScript itself and the same-package helpers it hands the input to (the construction of the point data may
	// have been moved out); actual(v) = the caller's argument when v is such a helper's parameter
	type inCtx struct {
		g   *ssa.Function
		via *ssa.Call
	}
	inCtxs := []inCtx{{rs, nil}}
	allInstrs(rs, func(in ssa.Instruction) {
		if call, ok := in.(*ssa.Call); ok {
			if h := call.Call.StaticCallee(); h != nil && h.Pkg == rs.Pkg && len(h.Blocks) > 0 && h != rs {
				inCtxs = append(inCtxs, inCtx{h, call})
			}
		}
	})
	actual := func(ic inCtx, v ssa.Value) ssa.Value {
		if ic.via == nil {
			return v
		}
		for k, prm := range ic.g.Params {
			if v == ssa.Value(prm) && k < len(ic.via.Call.Args) {
				return ic.via.Call.Args[k]
			}
		}
		return v
	}
	for _, ic := range inCtxs {
		allInstrs(ic.g, func(in ssa.Instruction) {
			if mu, ok := in.(*ssa.MapUpdate); ok {
				if kc, ok := mu.Key.(*ssa.Const); ok && kc.Value != nil && kc.Value.ExactString() == `"message"` {
					v := unwrapIface(mu.Value)
					if cv, ok := v.(*ssa.Convert); ok && strings.Contains(path(actual(ic, cv.X)), "ReadFile") {
						okMsg = true
					}
				}
			}
		})
	}
	r.Ob("INPUT-SHAPE", "text input becomes field `message`", t.Pos(rs.Pos()), okMsg, "fields[\"message\"] must be string(<contents of the input file>)")
	// line protocol: pts[0] and its Name/Tags/Fields/Time
	got := map[string]bool{}
	for _, ic := range inCtxs {
		allInstrs(ic.g, func(in ssa.Instruction) {
			if call, ok := in.(*ssa.Call); ok {
				if f := call.Call.StaticCallee(); f != nil && f.Object() != nil && f.Object().Pkg() != nil && strings.Contains(f.Object().Pkg().Path(), "influxdb1-client") {
					got[f.Name()] = true
					if f.Name() == "NewPointFrom" {
						p := path(call.Call.Args[0])
						got["pts[0]"] = strings.HasSuffix(p, "[0]")
					}
				}
			}
		})
	}
	// the line-protocol parser must be handed the bytes read from the input file, untransformed
	{
		okBytes, found := false, false
		for _, ic := range inCtxs {
			ic := ic
			allInstrs(ic.g, func(in ssa.Instruction) {
				call, ok := in.(*ssa.Call)
				if !ok {
					return
				}
				f := call.Call.StaticCallee()
				if f == nil || f.Object() == nil || f.Object().Pkg() == nil || !strings.Contains(f.Object().Pkg().Path(), "influxdb1-client/models") || !strings.HasPrefix(f.Name(), "ParsePoints") {
					return
				}
				found = true
				a0 := actual(ic, call.Call.Args[0])
				if ex, ok := a0.(*ssa.Extract); ok && ex.Index == 0 {
					if rc, ok := ex.Tuple.(*ssa.Call); ok && rc.Call.StaticCallee() != nil && fnName(rc.Call.StaticCallee()) == "ReadFile" && strings.HasSuffix(path(rc.Call.Args[0]), ".Input") {
						okBytes = true
					}
				}
				if !okBytes {
					r.Ob("INPUT-SHAPE", "line protocol parser receives the input file's bytes", t.Pos(call.Pos()), false,
						"the parser is given "+path(a0)+" instead of the contents of options.Input as read: any pre-processing of the raw bytes (line splitting, trimming) changes which point is built from records that the line-protocol grammar allows (quoted newlines, escapes)")
				}
			})
		}
		if okBytes {
			r.Ob("INPUT-SHAPE", "line protocol parser receives the input file's bytes", t.Pos(rs.Pos()), true, "models.ParsePoints*(os.ReadFile(options.Input))")
		} else if !found {
			r.Ob("INPUT-SHAPE", "line protocol parser receives the input file's bytes", t.Pos(rs.Pos()), false, "no call to the influx line-protocol parser found")
		}
	}
	for _, m := range []string{"NewPointFrom", "pts[0]", "Name", "Tags", "Fields", "Time"} {
		r.Ob("INPUT-SHAPE", "line protocol input uses "+m, t.Pos(rs.Pos()), got[m], "measurement, tags, fields and time of the first parsed point")
	}
	// InitPt receives them
	okInit := false
	allInstrs(rs, func(in ssa.Instruction) {
		if call, ok := in.(*ssa.Call); ok && isCallTo(in, pInput, "InitPt") {
			okInit = call.Call.Args[0] == ptArg && precedes(call, rc)
		}
	})
	r.Ob("INPUT-SHAPE", "the point handed to Run was initialised by InitPt from the input", t.Pos(rs.Pos()), okInit, "InitPt(pt, measurement, tags, fields, time) must precede script.Run(pt, …)")

	// ---- NO-INPUT in Run
	var rsCall, lsCall *ssa.Call
	allInstrs(run, func(in ssa.Instruction) {
		if call, ok := in.(*ssa.Call); ok {
			switch call.Call.StaticCallee() {
			case rs:
				rsCall = call
			case ls:
				lsCall = call
			}
		}
	})
	okNI, okLoad := false, false
	if rsCall != nil && lsCall != nil {
		for _, ec := range controlling(rsCall.Block()) {
			s := ec.String()
			if strings.Contains(s, `.Input == ""`) && strings.HasPrefix(s, "!(") || strings.Contains(s, `.Input != ""`) && !strings.HasPrefix(s, "!(") {
				okNI = true
			}
			if bo, ok := ec.Cond.(*ssa.BinOp); ok && isNilConst(bo.Y) {
				if ex, ok := bo.X.(*ssa.Extract); ok && ex.Tuple == ssa.Value(lsCall) && ex.Index == 1 {
					if (bo.Op == token.NEQ && !ec.Pol) || (bo.Op == token.EQL && ec.Pol) {
						okLoad = true
					}
				}
			}
		}
		// the script run is the one loaded
		if ex, ok := rsCall.Call.Args[2].(*ssa.Extract); !ok || ex.Tuple != ssa.Value(lsCall) || ex.Index != 0 {
			okLoad = false
		}
	}
	r.Ob("NO-INPUT", "Run reaches runScript only with an input file", t.Pos(run.Pos()), okNI, "with options.Input == \"\" the command only loads and checks")
	r.Ob("NO-INPUT", "Run reaches runScript only after a successful load, with the loaded script", t.Pos(run.Pos()), okLoad, "a load error is reported instead of output")

	// ---- SELECT in loadScript
	c20Select(c, ls)
	c20ScanFilter(c)
}

func valueOf(in ssa.Instruction) ssa.Value {
	v, _ := in.(ssa.Value)
	return v
}

func c20Select(c *Ctx, ls *ssa.Function) {
	r, t := c.R, c.T
	var ps *ssa.Call
	allInstrs(ls, func(in ssa.Instruction) {
		if isCallTo(in, pEngine, "ParseScript") {
			ps = in.(*ssa.Call)
		}
	})
	if ps == nil {
		r.Ob("SELECT", "loadScript calls engine.ParseScript", t.Pos(ls.Pos()), false, "not found")
		return
	}
	// registry arguments
	a1, a2 := path(ps.Call.Args[1]), path(ps.Call.Args[2])
	r.Ob("SELECT", "loadScript parses with the builtin tables", t.Pos(ps.Pos()), strings.HasSuffix(a1, "FuncsMap") && strings.HasSuffix(a2, "FuncsCheckMap"), "ParseScript(contents, "+a1+", "+a2+")")
	// registration keys of the content map
	regKeys := map[string]bool{}
	fromDir := false
	var walk func(v ssa.Value, seen map[ssa.Value]bool)
	var builtMaps []*ssa.MakeMap
	walk = func(v ssa.Value, seen map[ssa.Value]bool) {
		if seen[v] {
			return
		}
		seen[v] = true
		switch x := v.(type) {
		case *ssa.Phi:
			for _, e := range x.Edges {
				walk(e, seen)
			}
		case *ssa.MakeMap:
			builtMaps = append(builtMaps, x)
			for _, ref := range *x.Referrers() {
				if mu, ok := ref.(*ssa.MapUpdate); ok {
					regKeys[path(mu.Key)] = true
				}
			}
		case *ssa.Extract:
			if call, ok := x.Tuple.(*ssa.Call); ok && call.Call.StaticCallee() != nil && fnName(call.Call.StaticCallee()) == "ReadPlScriptFromDir" {
				fromDir = true
			}
		case *ssa.UnOp:
			if a, ok := x.X.(*ssa.Alloc); ok {
				for _, ref := range *a.Referrers() {
					if s, ok := ref.(*ssa.Store); ok && s.Addr == ssa.Value(a) {
						walk(s.Val, seen)
					}
				}
			}
		}
	}
	walk(ps.Call.Args[0], map[ssa.Value]bool{})
	r.Ob("SELECT", "workspace mode reads the scripts of the workspace directory", t.Pos(ps.Pos()), fromDir, "ReadPlScriptFromDir(options.Workspace) must feed ParseScript")
	// … all of them: a script map built by hand may reach ParseScript only in single-file mode
	okWhole := true
	where := ""
	for _, mm := range builtMaps {
		single := false
		for _, ec := range controlling(mm.Block()) {
			es := ec.String()
			if strings.Contains(es, ".Workspace") && (strings.HasPrefix(es, "!(") && strings.Contains(es, "!= \"\"") || !strings.HasPrefix(es, "!(") && strings.Contains(es, "== \"\"")) {
				single = true
			}
		}
		if !single {
			okWhole = false
			where = t.Pos(mm.Pos())
		}
	}
	r.Ob("SELECT", "workspace mode hands the whole workspace to the loader", t.Pos(ps.Pos()), okWhole, "a map of scripts assembled in loadScript reaches ParseScript outside the single-file arm ("+where+"): a script that use()s a sibling needs every script of the workspace loaded")
	// lookups in the results
	n := 0
	allInstrs(ls, func(in ssa.Instruction) {
		lk, ok := in.(*ssa.Lookup)
		if !ok {
			return
		}
		ex, ok := lk.X.(*ssa.Extract)
		if !ok || ex.Tuple != ssa.Value(ps) {
			return
		}
		n++
		what := "accepted scripts"
		if ex.Index == 1 {
			what = "load errors"
		}
		keys := map[string]bool{}
		var kw func(v ssa.Value, seen map[ssa.Value]bool)
		kw = func(v ssa.Value, seen map[ssa.Value]bool) {
			if seen[v] {
				return
			}
			seen[v] = true
			switch x := v.(type) {
			case *ssa.Phi:
				for _, e := range x.Edges {
					kw(e, seen)
				}
			case *ssa.UnOp:
				if a, ok := x.X.(*ssa.Alloc); ok {
					for _, ref := range *a.Referrers() {
						if s, ok := ref.(*ssa.Store); ok && s.Addr == ssa.Value(a) {
							kw(s.Val, seen)
						}
					}
					return
				}
				keys[path(v)] = true
			default:
				keys[path(v)] = true
			}
		}
		kw(lk.Index, map[ssa.Value]bool{})
		// single-file arm: every registration key must be among the lookup keys
		missing := []string{}
		for k := range regKeys {
			if !keys[k] {
				missing = append(missing, k)
			}
		}
		hasOpt := false
		for k := range keys {
			if strings.HasSuffix(k, ".Script") {
				hasOpt = true
			}
		}
		r.Ob("SELECT", "lookup of the selected script in the "+what, t.Pos(lk.Pos()), len(missing) == 0 && hasOpt,
			fmt.Sprintf("looked up under %v; in single-file mode the content is registered under %v — a key that is not among the lookup keys means the script just loaded is never found (any -s path with a directory part)", sortedKeys(keys), sortedKeys(regKeys)))
	})
	r.FloorN("result lookups in loadScript", n, 2)
	// the error found under the key is returned
	okErr := false
	allInstrs(ls, func(in ssa.Instruction) {
		ret, ok := in.(*ssa.Return)
		if !ok {
			return
		}
		if ex, ok := ret.Results[1].(*ssa.Extract); ok {
			if lk, ok := ex.Tuple.(*ssa.Lookup); ok {
				if e2, ok := lk.X.(*ssa.Extract); ok && e2.Tuple == ssa.Value(ps) && e2.Index == 1 && isNilConst(ret.Results[0]) {
					okErr = true
				}
			}
		}
	})
	r.Ob("SELECT", "the selected script's load error is returned", t.Pos(ls.Pos()), okErr, "errs[key] must be returned instead of a script")
}

// c20ScanFilter: the workspace scan (engine.ReadPlScriptFromDir) may leave a directory entry out only because it
// is a directory or because its name lacks a script extension. Any other filter (entry type bits, Info(), name
// prefixes, sizes) leaves out files that the library loads when they are given singly — the selected script or a
// sibling it use()s is then "not found" although the same workspace runs through the library.
func c20ScanFilter(c *Ctx) {
	r, t := c.R, c.T
	f := t.Func(pEngine, "ReadPlScriptFromDir")
	if f == nil {
		r.Undecided("SELECT", "engine.ReadPlScriptFromDir", "pkg/engine/engine.go", "unresolved anchor")
		return
	}
	r.Fn(relName(f))
	// the entries: result #0 of os.ReadDir
	var entries ssa.Value
	allInstrs(f, func(in ssa.Instruction) {
		if ex, ok := in.(*ssa.Extract); ok && ex.Index == 0 {
			if call, ok := ex.Tuple.(*ssa.Call); ok && call.Call.StaticCallee() != nil && call.Call.StaticCallee().String() == "os.ReadDir" {
				entries = ex
			}
		}
	})
	if entries == nil {
		r.Undecided("SELECT", "workspace scan lists the directory with os.ReadDir", t.Pos(f.Pos()), "no os.ReadDir call found in ReadPlScriptFromDir")
		return
	}
	// the reads: calls that hand an entry's path on (ReadPlScriptFromFile / os.ReadFile)
	var reads []ssa.Instruction
	allInstrs(f, func(in ssa.Instruction) {
		if ci, ok := in.(*ssa.Call); ok && ci.Call.StaticCallee() != nil {
			n := ci.Call.StaticCallee().String()
			if fnName(ci.Call.StaticCallee()) == "ReadPlScriptFromFile" || n == "os.ReadFile" {
				reads = append(reads, in)
			}
		}
	})
	if len(reads) == 0 {
		r.Undecided("SELECT", "workspace scan reads the entries it keeps", t.Pos(f.Pos()), "no ReadPlScriptFromFile / os.ReadFile call found in ReadPlScriptFromDir")
		return
	}
	// every condition that controls a read must be of an admitted kind
	var isEntry func(v ssa.Value, d int) bool
	isEntry = func(v ssa.Value, d int) bool {
		if d > 6 || v == nil {
			return false
		}
		switch x := v.(type) {
		case *ssa.UnOp:
			return isEntry(x.X, d+1)
		case *ssa.IndexAddr:
			return x.X == entries || isEntry(x.X, d+1)
		case *ssa.Index:
			return x.X == entries
		case *ssa.Phi:
			for _, e := range x.Edges {
				if isEntry(e, d+1) {
					return true
				}
			}
		case *ssa.Alloc:
			for _, ref := range *x.Referrers() {
				if s, ok := ref.(*ssa.Store); ok && s.Addr == ssa.Value(x) && isEntry(s.Val, d+1) {
					return true
				}
			}
		case *ssa.Extract:
			if nx, ok := x.Tuple.(*ssa.Next); ok {
				if rg, ok := nx.Iter.(*ssa.Range); ok {
					return rg.X == entries
				}
			}
		}
		if _, isParam := v.(*ssa.Parameter); isParam && strings.Contains(v.Type().String(), "DirEntry") {
			return true // inside a predicate helper the entry is the parameter
		}
		return v == entries
	}
	var fromExt func(v ssa.Value, d int) bool
	fromExt = func(v ssa.Value, d int) bool { // the entry's file name extension, possibly case-folded
		call, ok := v.(*ssa.Call)
		if !ok || d > 3 || call.Call.StaticCallee() == nil {
			return false
		}
		switch call.Call.StaticCallee().String() {
		case "path/filepath.Ext", "path.Ext":
			return true
		case "strings.ToLower", "strings.ToUpper":
			return fromExt(call.Call.Args[0], d+1)
		}
		return false
	}
	var admitted func(v ssa.Value, d int) (bool, string)
	admitted = func(v ssa.Value, d int) (bool, string) {
		if d > 4 {
			return false, "too deep"
		}
		switch x := v.(type) {
		case *ssa.Lookup: // extension table: scriptExts[filepath.Ext(name)]
			if fromExt(x.Index, 0) {
				return true, "extension table"
			}
		case *ssa.UnOp:
			if x.Op == token.NOT {
				return admitted(x.X, d+1)
			}
		case *ssa.Call:
			if x.Call.IsInvoke() && x.Call.Method.Name() == "IsDir" && isEntry(x.Call.Value, 0) {
				return true, "entry.IsDir()"
			}
			if cal := x.Call.StaticCallee(); cal != nil && cal.String() == "strings.EqualFold" && (fromExt(x.Call.Args[0], 0) || fromExt(x.Call.Args[1], 0)) {
				return true, "extension test"
			}
			if cal := x.Call.StaticCallee(); cal != nil && (cal.String() == "strings.HasSuffix") {
				if _, ok := x.Call.Args[1].(*ssa.Const); ok {
					return true, "name suffix"
				}
			}
			// a predicate helper of the module: every test it makes and every answer it computes is of an admitted kind
			if cal := x.Call.StaticCallee(); cal != nil && len(cal.Blocks) > 0 && inModule(cal) {
				okAll, why := true, "helper "+fnName(cal)
				allInstrs(cal, func(in ssa.Instruction) {
					switch y := in.(type) {
					case *ssa.If:
						if ok, w := admitted(y.Cond, d+1); !ok {
							okAll, why = false, w
						}
					case *ssa.Return:
						for _, res := range y.Results {
							if _, isC := res.(*ssa.Const); isC {
								continue
							}
							if b, isB := res.Type().Underlying().(*types.Basic); isB && b.Kind() == types.Bool {
								if _, isPhi := res.(*ssa.Phi); isPhi {
									continue // joins of tested answers; the tests themselves are inspected above
								}
								if ok, w := admitted(res, d+1); !ok {
									okAll, why = false, w
								}
							}
						}
					}
				})
				return okAll, why
			}
		case *ssa.BinOp:
			if x.Op == token.EQL || x.Op == token.NEQ || x.Op == token.LSS || x.Op == token.GEQ {
				for i, o := range []ssa.Value{x.X, x.Y} {
					other := []ssa.Value{x.Y, x.X}[i]
					if k, ok := o.(*ssa.Const); ok {
						if k.IsNil() {
							return true, "nil test"
						}
						if fromExt(other, 0) {
							return true, "extension test"
						}
						if _, ok := other.(*ssa.Phi); ok || isLoopIndex(other) {
							return true, "loop index"
						}
					}
				}
				if isLoopIndex(x.X) || isLoopIndex(x.Y) {
					return true, "loop index"
				}
			}
		case *ssa.Extract:
			if _, ok := x.Tuple.(*ssa.Next); ok && x.Index == 0 {
				return true, "range ok"
			}
			if lk, ok := x.Tuple.(*ssa.Lookup); ok && fromExt(lk.Index, 0) {
				return true, "extension table"
			}
		}
		return false, v.String()
	}
	{
		// every test the scan makes (the function does nothing else than list, filter and read): a skip hidden in one
		// arm of a && or || dominates nothing, so all branch conditions are inspected, not only the dominating ones
		var bad []string
		n := 0
		allInstrs(f, func(in ssa.Instruction) {
			iff, ok := in.(*ssa.If)
			if !ok {
				return
			}
			n++
			if ok, why := admitted(iff.Cond, 0); !ok {
				bad = append(bad, why+" at "+t.Pos(iff.Cond.Pos()))
			}
		})
		r.Ob("SELECT", "workspace scan leaves an entry out only for being a directory or lacking a script extension", t.Pos(reads[0].Pos()), len(bad) == 0,
			fmt.Sprintf("%d branch conditions of ReadPlScriptFromDir inspected (%d reads); not admitted: %s — a file the library loads when given singly (a symbolic link, say) would be missing from the workspace, so the CLI reports `not found` where the library runs the script", n, len(reads), strings.Join(bad, "; ")))
	}
}

func isLoopIndex(v ssa.Value) bool {
	switch x := v.(type) {
	case *ssa.Phi:
		return true
	case *ssa.BinOp:
		if _, ok := x.X.(*ssa.Phi); ok {
			return true
		}
	case *ssa.Call:
		return builtinName(x) == "len"
	}
	return false
}
