package main

import (
	"bytes"
	"fmt"
	"go/ast"
	"go/parser"
	"go/printer"
	"go/scanner"
	"go/token"
	"os"
	"os/exec"
	"path/filepath"
	"regexp"
	"strconv"
	"strings"
)

// ------------------------------------------------------------------ E-gram: the grammar engine

type Production struct {
	Num    int
	LHS    string
	RHS    []string
	Prec   string // %prec token, if any
	Action string // raw action text ("" = default action)
	Line   int
}

type PrecLevel struct {
	Assoc  string // left | right | nonassoc
	Tokens []string
}

type LRState struct {
	Num     int
	Items   []string
	Actions map[string]string // token or "." -> "shift N" | "reduce N" | "accept" | "error"
	Gotos   map[string]int
}

// ArgFlow says what a constructor argument in a grammar action is made of.
type ArgFlow struct {
	Text    string   // source text of the argument
	Symbols []string // grammar symbols whose semantic value flows in ($k -> rhs[k-1])
	Dollars []int    // the k of each $k
	Self    bool     // $$ flows in
	Nil     bool     // literal nil
	Sel     string   // trailing selector on the $k, e.g. ".Pos" or ".LBracePos.Pos"
	// FromCtor: the argument is a local variable of the action that holds the result of this constructor call
	// (`list := p.newListLiteralStart(…); $$ = p.newListLiteralAppendExpr(list, $3)`)
	FromCtor string
}

type CtorCall struct {
	Name     string
	Args     []ArgFlow
	ToResult bool // result assigned to $$
	Prod     *Production
	Pos      token.Pos
}

type ActionInfo struct {
	Prod     *Production
	Calls    []CtorCall
	PassThru []string // symbols assigned to $$ without constructor ($$ = $1 or default action)
	PassIdx  []int    // their positions (1-based)
	Body     *ast.CaseClause
	ItemSets []string // "$1.Val = unquoteString($1.Val)" style item rewrites: "k:helper"
}

type Gram struct {
	Dir        string
	GramY      []byte
	Committed  []byte // gram_y.go as in the tree
	Regen      []byte
	YOutput    []byte
	Tokens     map[string]bool
	TypeOf     map[string]string // symbol -> %union tag ("item", "node", ...)
	Prec       []PrecLevel
	PrecOf     map[string]int // token -> level index (0 = lowest)
	AssocOf    map[string]string
	Prods      []*Production // index = rule number; [0] = $accept
	States     []*LRState
	Conflicts  string
	Actions    map[int]*ActionInfo
	SyncOK     bool
	SyncDetail string
	Fset       *token.FileSet
	File       *ast.File
}

func goyaccBin() string { return filepath.Join(verifDir(), "bin", "goyacc") }

// runGoyacc regenerates the parser from grammar text in a scratch directory that is removed afterwards.
func runGoyacc(src []byte) (gramGo, yOutput []byte, err error) {
	tmp, err := os.MkdirTemp("", "plverif-gy-")
	if err != nil {
		return nil, nil, err
	}
	defer os.RemoveAll(tmp)
	if err := os.WriteFile(filepath.Join(tmp, "gram.y"), src, 0o644); err != nil {
		return nil, nil, err
	}
	cmd := exec.Command(goyaccBin(), "-o", "gram_y.go", "-v", "y.output", "gram.y")
	cmd.Dir = tmp
	out, err := cmd.CombinedOutput()
	if err != nil {
		return nil, nil, fmt.Errorf("goyacc: %v: %s", err, out)
	}
	g, err := os.ReadFile(filepath.Join(tmp, "gram_y.go"))
	if err != nil {
		return nil, nil, err
	}
	y, err := os.ReadFile(filepath.Join(tmp, "y.output"))
	if err != nil {
		return nil, nil, err
	}
	return g, y, nil
}

func readTreeFile(dir string, overlay map[string][]byte, rel string) ([]byte, error) {
	full := filepath.Join(dir, rel)
	if b, ok := overlay[full]; ok {
		return b, nil
	}
	return os.ReadFile(full)
}

// LoadGram reads gram.y and gram_y.go from the tree, regenerates, and builds all tables.
func LoadGram(dir string, overlay map[string][]byte) (*Gram, error) {
	g := &Gram{Dir: dir, TypeOf: map[string]string{}, Tokens: map[string]bool{}, PrecOf: map[string]int{}, AssocOf: map[string]string{}, Actions: map[int]*ActionInfo{}}
	var err error
	if g.GramY, err = readTreeFile(dir, overlay, "pkg/parser/gram.y"); err != nil {
		return nil, err
	}
	if g.Committed, err = readTreeFile(dir, overlay, "pkg/parser/gram_y.go"); err != nil {
		return nil, err
	}
	if g.Regen, g.YOutput, err = runGoyacc(g.GramY); err != nil {
		return nil, err
	}
	if err := g.parseGramY(); err != nil {
		return nil, err
	}
	if err := g.parseYOutput(); err != nil {
		return nil, err
	}
	g.checkSync()
	if err := g.parseActions(); err != nil {
		return nil, err
	}
	return g, nil
}

// ---- gram.y reader

type ytok struct {
	kind string // id, punct, action, pct, str
	text string
	line int
}

func lexY(src string, startLine int) []ytok {
	var toks []ytok
	line := startLine
	i := 0
	for i < len(src) {
		c := src[i]
		switch {
		case c == '\n':
			line++
			i++
		case c == ' ' || c == '\t' || c == '\r':
			i++
		case strings.HasPrefix(src[i:], "//"):
			for i < len(src) && src[i] != '\n' {
				i++
			}
		case strings.HasPrefix(src[i:], "/*"):
			j := strings.Index(src[i+2:], "*/")
			if j < 0 {
				j = len(src) - i - 2
			}
			line += strings.Count(src[i:i+2+j+2], "\n")
			i += 2 + j + 2
		case c == '{':
			depth, j, l0 := 0, i, line
			for j < len(src) {
				switch src[j] {
				case '{':
					depth++
				case '}':
					depth--
				case '\n':
					line++
				case '"':
					j++
					for j < len(src) && src[j] != '"' {
						if src[j] == '\\' {
							j++
						}
						j++
					}
				case '/':
					if j+1 < len(src) && src[j+1] == '/' {
						for j < len(src) && src[j] != '\n' {
							j++
						}
						continue
					}
				}
				j++
				if depth == 0 {
					break
				}
			}
			toks = append(toks, ytok{"action", src[i:j], l0})
			i = j
		case c == ':' || c == '|' || c == ';':
			toks = append(toks, ytok{"punct", string(c), line})
			i++
		case c == '%':
			j := i + 1
			for j < len(src) && (isIdent(src[j]) || src[j] == '%') {
				j++
			}
			toks = append(toks, ytok{"pct", src[i:j], line})
			i = j
		case c == '<':
			j := strings.IndexByte(src[i:], '>')
			toks = append(toks, ytok{"tag", src[i : i+j+1], line})
			i += j + 1
		case isIdent(c):
			j := i
			for j < len(src) && isIdent(src[j]) {
				j++
			}
			toks = append(toks, ytok{"id", src[i:j], line})
			i = j
		default:
			i++
		}
	}
	return toks
}

func isIdent(c byte) bool {
	return c == '_' || c == '$' || (c >= 'a' && c <= 'z') || (c >= 'A' && c <= 'Z') || (c >= '0' && c <= '9')
}

func (g *Gram) parseGramY() error {
	src := string(g.GramY)
	// strip the %{ ... %} prologue and the %union block from the declarations, then split at %%
	i1 := strings.Index(src, "\n%%")
	if i1 < 0 {
		return fmt.Errorf("gram.y: no %%%% separator")
	}
	decl := src[:i1]
	rest := src[i1+3:]
	i2 := strings.Index(rest, "\n%%")
	rules := rest
	if i2 >= 0 {
		rules = rest[:i2]
	}
	if j := strings.Index(decl, "%}"); j >= 0 {
		k := strings.Index(decl, "%{")
		decl = decl[:k] + strings.Repeat("\n", strings.Count(decl[k:j+2], "\n")) + decl[j+2:]
	}
	// declarations
	dt := lexY(decl, 1)
	level := 0
	for i := 0; i < len(dt); i++ {
		t := dt[i]
		if t.kind != "pct" {
			continue
		}
		switch t.text {
		case "%union":
			// skip its action block
		case "%token", "%type":
			tag := ""
			for j := i + 1; j < len(dt) && dt[j].kind != "pct"; j++ {
				if dt[j].kind == "tag" {
					tag = strings.Trim(dt[j].text, "<>")
				}
				if dt[j].kind == "id" {
					if t.text == "%token" {
						g.Tokens[dt[j].text] = true
					}
					if tag != "" {
						g.TypeOf[dt[j].text] = tag
					}
				}
			}
		case "%left", "%right", "%nonassoc":
			lv := PrecLevel{Assoc: t.text[1:]}
			for j := i + 1; j < len(dt) && dt[j].kind != "pct"; j++ {
				if dt[j].kind == "id" {
					lv.Tokens = append(lv.Tokens, dt[j].text)
					g.PrecOf[dt[j].text] = level
					g.AssocOf[dt[j].text] = lv.Assoc
					g.Tokens[dt[j].text] = true
				}
			}
			g.Prec = append(g.Prec, lv)
			level++
		}
	}
	// rules
	g.Prods = []*Production{{Num: 0, LHS: "$accept", RHS: []string{"start", "$end"}}}
	rt := lexY(rules, strings.Count(src[:i1+3], "\n")+1)
	i := 0
	for i < len(rt) {
		if rt[i].kind != "id" || i+1 >= len(rt) || rt[i+1].text != ":" {
			return fmt.Errorf("gram.y:%d: expected `lhs :`, got %q", rt[i].line, rt[i].text)
		}
		lhs := rt[i].text
		i += 2
		cur := &Production{LHS: lhs, Line: rt[i-2].line}
		flush := func() {
			cur.Num = len(g.Prods)
			g.Prods = append(g.Prods, cur)
		}
		for i < len(rt) {
			t := rt[i]
			if t.kind == "id" && i+1 < len(rt) && rt[i+1].text == ":" {
				break // next rule (the terminating ';' is optional in yacc)
			}
			i++
			switch {
			case t.text == "|" && t.kind == "punct":
				flush()
				cur = &Production{LHS: lhs, Line: t.line}
			case t.text == ";" && t.kind == "punct":
			case t.kind == "pct" && t.text == "%prec":
				cur.Prec = rt[i].text
				i++
			case t.kind == "action":
				if cur.Action != "" {
					return fmt.Errorf("gram.y:%d: mid-rule actions are not supported by this reader", t.line)
				}
				cur.Action = t.text
			case t.kind == "id":
				if cur.Action != "" {
					return fmt.Errorf("gram.y:%d: symbol after action (mid-rule action) not supported", t.line)
				}
				cur.RHS = append(cur.RHS, t.text)
			}
		}
		flush()
	}
	return nil
}

// ---- y.output reader

var reAct = regexp.MustCompile(`^(\S+)\s+(shift \d+|reduce \d+|accept|error)\b`)
var reGoto = regexp.MustCompile(`^(\S+)\s+goto (\d+)$`)

func (g *Gram) parseYOutput() error {
	lines := strings.Split(string(g.YOutput), "\n")
	var cur *LRState
	for _, ln := range lines {
		if strings.HasPrefix(ln, "state ") {
			n, _ := strconv.Atoi(strings.TrimSpace(ln[6:]))
			cur = &LRState{Num: n, Actions: map[string]string{}, Gotos: map[string]int{}}
			g.States = append(g.States, cur)
			continue
		}
		if strings.Contains(ln, "conflicts reported") {
			g.Conflicts = strings.TrimSpace(ln)
		}
		if cur == nil || !strings.HasPrefix(ln, "\t") {
			continue
		}
		l := strings.TrimSpace(ln)
		if l == "" {
			continue
		}
		if f := strings.Fields(l); len(f) > 0 && strings.HasSuffix(f[0], ":") {
			cur.Items = append(cur.Items, l)
			continue
		}
		if m := reGoto.FindStringSubmatch(l); m != nil {
			n, _ := strconv.Atoi(m[2])
			cur.Gotos[m[1]] = n
			continue
		}
		if m := reAct.FindStringSubmatch(l); m != nil {
			cur.Actions[m[1]] = m[2]
		}
	}
	if len(g.States) == 0 {
		return fmt.Errorf("y.output: no states")
	}
	return nil
}

// ActionOn returns "shift"/"reduce N"/"error"/"accept" of state s on look-ahead tok.
func (s *LRState) ActionOn(tok string) string {
	if a, ok := s.Actions[tok]; ok {
		return a
	}
	return s.Actions["."]
}

// CompletedItem returns the rule number if the state holds the completed item `lhs: rhs.`
var reCompleted = regexp.MustCompile(`^(\S+):\s+(.*?)\.\s+\((\d+)\)$`)

func (s *LRState) Completed() map[int]string {
	out := map[int]string{}
	for _, it := range s.Items {
		if m := reCompleted.FindStringSubmatch(it); m != nil {
			n, _ := strconv.Atoi(m[3])
			out[n] = m[1] + ": " + strings.Join(strings.Fields(m[2]), " ")
		}
	}
	return out
}

// ---- sync obligation: committed gram_y.go == goyacc(gram.y), compared as token streams without comments

type gtok struct {
	tok  token.Token
	lit  string
	line int
}

func goTokens(src []byte) []gtok {
	fset := token.NewFileSet()
	f := fset.AddFile("x.go", -1, len(src))
	var s scanner.Scanner
	s.Init(f, src, nil, 0)
	var out []gtok
	for {
		pos, tok, lit := s.Scan()
		if tok == token.EOF {
			break
		}
		if tok == token.SEMICOLON {
			lit = ";"
		}
		out = append(out, gtok{tok, lit, fset.Position(pos).Line})
	}
	return out
}

func (g *Gram) checkSync() {
	a, b := goTokens(g.Committed), goTokens(g.Regen)
	n := len(a)
	if len(b) < n {
		n = len(b)
	}
	for i := 0; i < n; i++ {
		if a[i].tok != b[i].tok || a[i].lit != b[i].lit {
			g.SyncDetail = fmt.Sprintf("pkg/parser/gram_y.go:%d differs from the parser generated from gram.y (%s): committed `%s%s`, generated `%s%s`",
				a[i].line, enclosingCase(g.Committed, a[i].line), a[i].tok, litOf(a[i]), b[i].tok, litOf(b[i]))
			return
		}
	}
	if len(a) != len(b) {
		g.SyncDetail = fmt.Sprintf("pkg/parser/gram_y.go has %d tokens, the parser generated from gram.y has %d", len(a), len(b))
		return
	}
	g.SyncOK = true
}

func litOf(t gtok) string {
	if t.lit != "" && t.lit != t.tok.String() {
		return " " + t.lit
	}
	return ""
}

func enclosingCase(src []byte, line int) string {
	lines := strings.Split(string(src), "\n")
	re := regexp.MustCompile(`^\s*case (\d+):`)
	rv := regexp.MustCompile(`^var (yy\w+) `)
	for i := line - 1; i >= 0 && i < len(lines); i-- {
		if m := re.FindStringSubmatch(lines[i]); m != nil {
			return "action case " + m[1]
		}
		if m := rv.FindStringSubmatch(lines[i]); m != nil {
			return "table " + m[1]
		}
	}
	return "prologue"
}

// ---- action-flow: read the action cases of the committed gram_y.go

func (g *Gram) parseActions() error {
	g.Fset = token.NewFileSet()
	f, err := parser.ParseFile(g.Fset, "gram_y.go", g.Committed, parser.SkipObjectResolution)
	if err != nil {
		return fmt.Errorf("gram_y.go does not parse: %w", err)
	}
	g.File = f
	var sw *ast.SwitchStmt
	ast.Inspect(f, func(n ast.Node) bool {
		if s, ok := n.(*ast.SwitchStmt); ok {
			if id, ok := s.Tag.(*ast.Ident); ok && id.Name == "yynt" {
				sw = s
			}
		}
		return true
	})
	if sw == nil {
		return fmt.Errorf("gram_y.go: `switch yynt` not found (unresolved anchor)")
	}
	cases := map[int]*ast.CaseClause{}
	for _, st := range sw.Body.List {
		cc := st.(*ast.CaseClause)
		for _, e := range cc.List {
			if bl, ok := e.(*ast.BasicLit); ok {
				n, _ := strconv.Atoi(bl.Value)
				cases[n] = cc
			}
		}
	}
	for _, p := range g.Prods[1:] {
		ai := &ActionInfo{Prod: p}
		g.Actions[p.Num] = ai
		cc := cases[p.Num]
		if cc == nil {
			if p.Action != "" {
				return fmt.Errorf("production %d (%s) has an action in gram.y but no case in gram_y.go", p.Num, p.LHS)
			}
			if len(p.RHS) > 0 {
				ai.PassThru = append(ai.PassThru, p.RHS[0])
				ai.PassIdx = append(ai.PassIdx, 1)
			}
			continue
		}
		ai.Body = cc
		g.flowOfCase(ai, cc)
	}
	for n := range cases {
		if n <= 0 || n >= len(g.Prods) {
			return fmt.Errorf("gram_y.go: action case %d has no production", n)
		}
	}
	return nil
}

func exprText(fset *token.FileSet, e ast.Node) string {
	var b bytes.Buffer
	printer.Fprint(&b, fset, e)
	return strings.Join(strings.Fields(b.String()), " ")
}

// dollarOf recognises yyDollar[k].field[.sel...] and returns k and the trailing selector.
func dollarOf(e ast.Expr) (k int, sel string, ok bool) {
	var sels []string
	for {
		se, isSel := e.(*ast.SelectorExpr)
		if !isSel {
			break
		}
		sels = append([]string{se.Sel.Name}, sels...)
		e = se.X
	}
	ix, isIx := e.(*ast.IndexExpr)
	if !isIx {
		return 0, "", false
	}
	id, isId := ix.X.(*ast.Ident)
	bl, isLit := ix.Index.(*ast.BasicLit)
	if !isId || id.Name != "yyDollar" || !isLit {
		return 0, "", false
	}
	k, _ = strconv.Atoi(bl.Value)
	if len(sels) > 1 {
		sel = "." + strings.Join(sels[1:], ".")
	}
	return k, sel, true
}

func isYYVAL(e ast.Expr) bool {
	se, ok := e.(*ast.SelectorExpr)
	if !ok {
		return false
	}
	id, ok := se.X.(*ast.Ident)
	return ok && id.Name == "yyVAL"
}

func parserCall(e ast.Expr) (*ast.CallExpr, string) {
	ce, ok := e.(*ast.CallExpr)
	if !ok {
		return nil, ""
	}
	se, ok := ce.Fun.(*ast.SelectorExpr)
	if !ok {
		return nil, ""
	}
	ta, ok := se.X.(*ast.TypeAssertExpr)
	if !ok {
		return nil, ""
	}
	if id, ok := ta.X.(*ast.Ident); !ok || id.Name != "yylex" {
		return nil, ""
	}
	return ce, se.Sel.Name
}

func (g *Gram) argFlow(p *Production, e ast.Expr) ArgFlow {
	af := ArgFlow{Text: exprText(g.Fset, e)}
	if id, ok := e.(*ast.Ident); ok && id.Name == "nil" {
		af.Nil = true
		return af
	}
	if k, sel, ok := dollarOf(e); ok {
		af.Sel = sel
		_ = k
	}
	ast.Inspect(e, func(n ast.Node) bool {
		if x, ok := n.(ast.Expr); ok {
			if k, _, ok := dollarOf(x); ok {
				if k >= 1 && k <= len(p.RHS) {
					af.Symbols = append(af.Symbols, p.RHS[k-1])
					af.Dollars = append(af.Dollars, k)
				}
				return false
			}
			if isYYVAL(x) {
				af.Self = true
				return false
			}
		}
		return true
	})
	return af
}

func (g *Gram) flowOfCase(ai *ActionInfo, cc *ast.CaseClause) {
	p := ai.Prod
	// goyacc initialises $$ with $1 (yyVAL = yyS[yyp+1]); until the action assigns yyVAL, reading it reads $1.
	valAssigned := false
	locals := map[string]string{} // local variable of the action -> constructor whose result it holds
	fix := func(af ArgFlow) ArgFlow {
		if c, ok := locals[af.Text]; ok {
			af.FromCtor = c
		}
		if af.Self && !valAssigned && len(p.RHS) > 0 {
			af.Self = false
			af.Symbols = append(af.Symbols, p.RHS[0])
			af.Dollars = append(af.Dollars, 1)
		}
		return af
	}
	for _, st := range cc.Body {
		ast.Inspect(st, func(n ast.Node) bool {
			switch x := n.(type) {
			case *ast.AssignStmt:
				if len(x.Lhs) == 1 && len(x.Rhs) == 1 {
					ce, name := parserCall(x.Rhs[0])
					if ce != nil {
						call := CtorCall{Name: name, Prod: p, Pos: ce.Pos(), ToResult: isYYVAL(x.Lhs[0])}
						for _, a := range ce.Args {
							call.Args = append(call.Args, fix(g.argFlow(p, a)))
						}
						ai.Calls = append(ai.Calls, call)
						if call.ToResult {
							valAssigned = true
						}
						if id, isId := x.Lhs[0].(*ast.Ident); isId {
							locals[id.Name] = name
						}
						if k, sel, ok := dollarOf(x.Lhs[0]); ok {
							ai.ItemSets = append(ai.ItemSets, fmt.Sprintf("%d%s:%s", k, sel, name))
						}
						return false
					}
					if isYYVAL(x.Lhs[0]) {
						af := fix(g.argFlow(p, x.Rhs[0]))
						ai.PassThru = append(ai.PassThru, af.Symbols...)
						ai.PassIdx = append(ai.PassIdx, af.Dollars...)
						valAssigned = true
					}
				}
			case *ast.ExprStmt:
				if ce, name := parserCall(x.X); ce != nil {
					call := CtorCall{Name: name, Prod: p, Pos: ce.Pos()}
					for _, a := range ce.Args {
						call.Args = append(call.Args, g.argFlow(p, a))
					}
					ai.Calls = append(ai.Calls, call)
					return false
				}
			}
			return true
		})
	}
}

// AllCalls lists every constructor/helper call in the grammar actions.
func (g *Gram) AllCalls() []CtorCall {
	var out []CtorCall
	for _, p := range g.Prods[1:] {
		if ai := g.Actions[p.Num]; ai != nil {
			out = append(out, ai.Calls...)
		}
	}
	return out
}

// Gram returns the grammar engine for the context's tree (built once).
func (c *Ctx) Gram() *Gram {
	if c.gram == nil && c.gerr == nil {
		c.gram, c.gerr = LoadGram(c.T.Dir, c.T.Overlay)
	}
	return c.gram
}

// requireGram records the sync obligation; returns nil if grammar facts cannot be used.
func (c *Ctx) requireGram() *Gram {
	g := c.Gram()
	if g == nil {
		c.R.Undecided("GRAM-SYNC", "pkg/parser/gram.y", "pkg/parser/gram.y", fmt.Sprintf("grammar engine failed: %v", c.gerr))
		return nil
	}
	c.R.Ob("GRAM-SYNC", "pkg/parser/gram_y.go == goyacc(pkg/parser/gram.y)", "pkg/parser/gram_y.go", g.SyncOK, g.SyncDetail,
		fmt.Sprintf("%d productions, %d states, %s", len(g.Prods), len(g.States), g.Conflicts))
	if !g.SyncOK {
		return nil
	}
	return g
}
