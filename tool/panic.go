package main

import (
	"fmt"
	"go/constant"
	"go/token"
	"go/types"
	"sort"
	"strings"

	"golang.org/x/tools/go/ssa"
)

// ------------------------------------------------------------------ PANIC-SITES: every instruction of a scope that can
// panic, with the rule that discharges it (or none).

type panicSite struct {
	Fn    *ssa.Function
	In    ssa.Instruction
	Class string // TA IDX SLICE DIV MAKE NIL PANIC CONV
	What  string
	By    string // discharge rule ("" = not discharged)
}

// facts: branch facts that hold at instruction in (dominating edges), rendered by condStr with polarity.
// factsAt: the branch facts that hold at in; every ordering comparison is given in both orientations
// (`0 <= i` also as `i >= 0`), so that the rules need to look at one operand order only.
func factsAt(in ssa.Instruction) []edgeCond {
	base := controlling(in.Block())
	// `!x` taken (not taken) is the fact x not taken (taken): `switch { case !ok: … }`, `if !found`
	for _, ec := range base {
		if u, ok := ec.Cond.(*ssa.UnOp); ok && u.Op == token.NOT {
			base = append(base, edgeCond{If: ec.If, Cond: u.X, Pol: !ec.Pol})
		}
	}
	out := append([]edgeCond{}, base...)
	for _, ec := range base {
		bo, ok := ec.Cond.(*ssa.BinOp)
		if !ok {
			continue
		}
		var m token.Token
		switch bo.Op {
		case token.LSS:
			m = token.GTR
		case token.LEQ:
			m = token.GEQ
		case token.GTR:
			m = token.LSS
		case token.GEQ:
			m = token.LEQ
		case token.EQL, token.NEQ:
			m = bo.Op
		default:
			continue
		}
		out = append(out, edgeCond{If: ec.If, Cond: &ssa.BinOp{Op: m, X: bo.Y, Y: bo.X}, Pol: ec.Pol})
	}
	return out
}

// lenOf: if v is `len(x)` returns path(x).
func lenOf(v ssa.Value) (string, bool) {
	if call, ok := v.(*ssa.Call); ok && builtinName(call) == "len" {
		return path(call.Call.Args[0]), true
	}
	// a length getter: `func (x *T) Count() int { return len(x.F) }` called on r is len(r.F)
	if call, ok := v.(*ssa.Call); ok {
		if h := call.Call.StaticCallee(); h != nil && len(h.Blocks) == 1 && len(h.Params) == 1 && len(call.Call.Args) == 1 && h.Signature.Results().Len() == 1 {
			if ret, isR := h.Blocks[0].Instrs[len(h.Blocks[0].Instrs)-1].(*ssa.Return); isR && len(ret.Results) == 1 {
				if inner, isC := ret.Results[0].(*ssa.Call); isC && builtinName(inner) == "len" {
					p := path(inner.Call.Args[0])
					if strings.HasPrefix(p, pname(h.Params[0])+".") {
						return path(call.Call.Args[0]) + strings.TrimPrefix(p, pname(h.Params[0])), true
					}
				}
			}
		}
	}
	return "", false
}

// rangeIndexOf: v is the index variable of a range loop over slice/array x (rangeindex phi + 1 under `< len(x)`).
func isRangeIndex(v ssa.Value) bool {
	bo, ok := v.(*ssa.BinOp)
	if !ok || bo.Op != token.ADD {
		return false
	}
	ph, ok := bo.X.(*ssa.Phi)
	return ok && ph.Comment == "rangeindex"
}

// lowerBoundLen: from the dominating facts, the largest k with len(p) > k known (−1 if none).
func lenLowerBound(in ssa.Instruction, p string, summary map[string]int) int {
	best := -1
	if k, ok := summary[p]; ok && k > best {
		best = k
	}
	upd := func(k int64) {
		if int(k) > best {
			best = int(k)
		}
	}
	for _, ec := range factsAt(in) {
		bo, ok := ec.Cond.(*ssa.BinOp)
		if !ok {
			continue
		}
		lp, isLen := lenOf(bo.X)
		k, isC := constInt(bo.Y)
		if !isLen || !isC || lp != p {
			continue
		}
		op := bo.Op
		pol := ec.Pol
		// normalise to facts about len
		switch {
		case op == token.EQL && pol: // len == k  → elements 0..k-1
			upd(k - 1)
		case op == token.NEQ && !pol:
			upd(k - 1)
		case op == token.GTR && pol: // len > k
			upd(k)
		case op == token.GEQ && pol: // len >= k
			upd(k - 1)
		case op == token.LSS && !pol: // !(len < k) → len >= k
			upd(k - 1)
		case op == token.LEQ && !pol: // !(len <= k) → len > k
			upd(k)
		}
	}
	return best
}

// lenExactSet: disjunctive length facts `len(p) == a || len(p) == b` established by early-return guards of the form
// `if len(p) != a && len(p) != b { return }` are handled by the forward length dataflow below.
type lenState map[string]uint32 // path -> bitset of possible lengths 0..30, bit 31 = "31 or more"

const lenAll = ^uint32(0)

func lenBit(k int64) uint32 {
	if k < 0 {
		return 0
	}
	if k >= 31 {
		return 1 << 31
	}
	return 1 << uint(k)
}

func lenMaskFor(op token.Token, k int64) uint32 {
	var m uint32
	for n := int64(0); n <= 31; n++ {
		ok := false
		switch op {
		case token.EQL:
			ok = n == k
		case token.NEQ:
			ok = n != k
		case token.LSS:
			ok = n < k
		case token.LEQ:
			ok = n <= k
		case token.GTR:
			ok = n > k
		case token.GEQ:
			ok = n >= k
		}
		if n == 31 { // "31 or more": keep unless the relation excludes every such length
			switch op {
			case token.EQL:
				ok = k >= 31
			case token.LSS, token.LEQ:
				ok = k > 31
			default:
				ok = true
			}
		}
		if ok {
			m |= lenBit(n)
		}
	}
	return m
}

func negOp(op token.Token) token.Token {
	switch op {
	case token.EQL:
		return token.NEQ
	case token.NEQ:
		return token.EQL
	case token.LSS:
		return token.GEQ
	case token.LEQ:
		return token.GTR
	case token.GTR:
		return token.LEQ
	case token.GEQ:
		return token.LSS
	}
	return op
}

// lengthFlow: forward dataflow of the possible values of len(p) for every path p, refined on branch edges
// `len(p) ⋈ k`; entry state comes from init (e.g. a checker summary). Returns the state before each block.
func lengthFlow(fn *ssa.Function, init lenState) map[*ssa.BasicBlock]lenState {
	in := map[*ssa.BasicBlock]lenState{}
	if len(fn.Blocks) == 0 {
		return in
	}
	clone := func(s lenState) lenState {
		n := lenState{}
		for k, v := range s {
			n[k] = v
		}
		return n
	}
	get := func(s lenState, p string) uint32 {
		if v, ok := s[p]; ok {
			return v
		}
		return lenAll
	}
	in[fn.Blocks[0]] = clone(init)
	work := []*ssa.BasicBlock{fn.Blocks[0]}
	reached := map[*ssa.BasicBlock]bool{fn.Blocks[0]: true}
	for len(work) > 0 {
		b := work[0]
		work = work[1:]
		st := in[b]
		for si, sc := range b.Succs {
			out := clone(st)
			if iff, ok := b.Instrs[len(b.Instrs)-1].(*ssa.If); ok {
				if bo, ok := iff.Cond.(*ssa.BinOp); ok {
					if lp, isLen := lenOf(bo.X); isLen {
						if k, isC := constInt(bo.Y); isC {
							op := bo.Op
							if si == 1 {
								op = negOp(op)
							}
							out[lp] = get(out, lp) & lenMaskFor(op, k)
						}
					}
					// the nil-error arm of a validation helper: what the helper guarantees about the lengths of what it was given
					if isNilConst(bo.Y) && (bo.Op == token.EQL || bo.Op == token.NEQ) {
						if (bo.Op == token.EQL) == (si == 0) {
							for p, m := range validatorPost(bo.X) {
								out[p] = get(out, p) & m
							}
						}
					}
				}
			}
			// infeasible edge
			dead := false
			for _, v := range out {
				if v == 0 {
					dead = true
				}
			}
			if dead {
				continue
			}
			if !reached[sc] {
				reached[sc] = true
				in[sc] = out
				work = append(work, sc)
				continue
			}
			// join = union per path (missing = all)
			old := in[sc]
			changed := false
			for p, v := range old {
				nv := v | get(out, p)
				if nv != v {
					old[p] = nv
					changed = true
				}
			}
			for p := range old {
				if old[p] == lenAll {
					delete(old, p)
				}
			}
			if changed {
				work = append(work, sc)
			}
		}
	}
	return in
}

// minLen: the smallest possible length of p in block b under the flow state (0 if unknown).
func minLen(st lenState, p string) int {
	v, ok := st[p]
	if !ok {
		return 0
	}
	for n := 0; n <= 31; n++ {
		if v&(1<<uint(n)) != 0 {
			return n
		}
	}
	return 0
}

// nonZeroDivisor: the divisor is a non-zero constant, or the site is dominated by `d == 0 → leave`.
func nonZeroDivisor(in *ssa.BinOp) string {
	if c, ok := in.Y.(*ssa.Const); ok && c.Value != nil && constant.Sign(c.Value) != 0 {
		return "constant non-zero divisor"
	}
	d := in.Y
	// look through unary minus
	if u, ok := d.(*ssa.UnOp); ok && u.Op == token.SUB {
		d = u.X
	}
	for _, ec := range factsAt(in) {
		bo, ok := ec.Cond.(*ssa.BinOp)
		if !ok {
			continue
		}
		if (bo.X == d || bo.X == in.Y) && isZeroConst(bo.Y) {
			if (bo.Op == token.EQL && !ec.Pol) || (bo.Op == token.NEQ && ec.Pol) {
				return "dominated by a zero test of the divisor"
			}
			if (bo.Op == token.GTR || bo.Op == token.LSS) && ec.Pol {
				return "dominated by a strict sign test of the divisor"
			}
		}
	}
	return ""
}

func isZeroConst(v ssa.Value) bool {
	c, ok := v.(*ssa.Const)
	return ok && c.Value != nil && (c.Value.Kind() == constant.Int || c.Value.Kind() == constant.Float) && constant.Sign(c.Value) == 0
}

// tagGuarded: a single-result assertion `v.(T)` is dominated by a fact `tag == K` where K is the tag whose
// representation is T and (tag, v) come from the same evaluation (same call / same struct).
func tagGuarded(t *Tree, ta *ssa.TypeAssert) string {
	rep := map[string]string{"int64": "Int", "float64": "Float", "bool": "Bool", "string": "String", "[]any": "List", "map[string]any": "Map"}
	want, ok := rep[typeShort(ta.AssertedType)]
	if !ok {
		return ""
	}
	wv, _ := constInt(t.SSA[pAst].Const(want).Value)
	for _, ec := range factsAt(ta) {
		bo, ok := ec.Cond.(*ssa.BinOp)
		if !ok || !((bo.Op == token.EQL && ec.Pol) || (bo.Op == token.NEQ && !ec.Pol)) {
			continue
		}
		k, isC := constInt(bo.Y)
		if !isC || k != wv || namedOf(bo.X.Type()) != "ast.DType" {
			continue
		}
		if samePair(ta.X, bo.X) {
			return "dominated by tag == ast." + want + " of the same value"
		}
	}
	return ""
}

// samePair: value v and tag tg belong together: results #0/#1 of one call, fields Value/DType (V/T) of one struct,
// or parameters (val, dtype) of the same function.
func samePair(v, tg ssa.Value) bool {
	if ev, ok := v.(*ssa.Extract); ok {
		if et, ok := tg.(*ssa.Extract); ok && ev.Tuple == et.Tuple {
			return true
		}
	}
	pv, pt := path(v), path(tg)
	for _, pr := range [][2]string{{".Value", ".DType"}, {".V", ".T"}} {
		if strings.HasSuffix(pv, pr[0]) && strings.HasSuffix(pt, pr[1]) && strings.TrimSuffix(pv, pr[0]) == strings.TrimSuffix(pt, pr[1]) {
			return true
		}
	}
	if _, ok := v.(*ssa.Parameter); ok {
		if _, ok := tg.(*ssa.Parameter); ok {
			return true
		}
	}
	// phi of such pairs (variables assigned together)
	if phv, ok := v.(*ssa.Phi); ok {
		if pht, ok := tg.(*ssa.Phi); ok && phv.Block() == pht.Block() && len(phv.Edges) == len(pht.Edges) {
			all := true
			for i := range phv.Edges {
				if !samePair(phv.Edges[i], pht.Edges[i]) {
					all = false
				}
			}
			return all
		}
	}
	return false
}

// kindGuarded: accessor n.X() (whose body is the assertion n.elem.(*X)) is called under NodeType == TypeX of the same node.
func kindGuarded(t *Tree, call *ssa.Call, s2k map[string]int64) string {
	f := call.Call.StaticCallee()
	if f == nil || f.Pkg == nil || f.Pkg.Pkg.Path() != pAst || f.Signature.Recv() == nil || len(call.Call.Args) != 1 {
		return ""
	}
	want, ok := s2k[f.Name()]
	if !ok {
		return ""
	}
	return kindFactAt(t, call, call.Call.Args[0], want, "Type"+f.Name(), 0)
}

// kindFactAt: at instruction `at`, node value n is known to have NodeType == want: by a dominating fact in this
// function (`n.NodeType == K` taken, or `n.NodeType != K` not taken), or — when n is (a field path of) a parameter
// of an unexported function — by the same fact at every call site of that function in the module.
func kindFactAt(t *Tree, at ssa.Instruction, n ssa.Value, want int64, name string, depth int) string {
	np := path(n)
	for _, ec := range factsAt(at) {
		bo, ok := ec.Cond.(*ssa.BinOp)
		if !ok {
			continue
		}
		k, isC := constInt(bo.Y)
		if !isC || k != want || path(bo.X) != np+".NodeType" {
			continue
		}
		if (bo.Op == token.EQL && ec.Pol) || (bo.Op == token.NEQ && !ec.Pol) {
			return "dominated by NodeType == " + name + " of the same node"
		}
	}
	if depth >= 2 {
		return ""
	}
	fn := at.Parent()
	prm, ok := rootOf(n).(*ssa.Parameter)
	if !ok || fn.Object() == nil || fn.Object().Exported() {
		return ""
	}
	k := -1
	for i, q := range fn.Params {
		if q == prm {
			k = i
		}
	}
	suffix := strings.TrimPrefix(np, pname(prm))
	if k < 0 || (suffix != "" && !strings.HasPrefix(suffix, ".")) {
		return ""
	}
	sites := callersOf(t)[fn]
	if len(sites) == 0 {
		return ""
	}
	for _, cs := range sites {
		if k >= len(cs.Call.Args) {
			return ""
		}
		actual := cs.Call.Args[k]
		if suffix != "" {
			// the fact must be about the same field path below the actual argument
			if kindFactPath(t, cs, path(actual)+suffix, want) == "" {
				return ""
			}
			continue
		}
		if kindFactAt(t, cs, actual, want, name, depth+1) == "" {
			return ""
		}
	}
	return fmt.Sprintf("every call of %s (%d) passes a node tested NodeType == %s", fn.Name(), len(sites), name)
}

func kindFactPath(t *Tree, at ssa.Instruction, np string, want int64) string {
	for _, ec := range factsAt(at) {
		bo, ok := ec.Cond.(*ssa.BinOp)
		if !ok {
			continue
		}
		k, isC := constInt(bo.Y)
		if !isC || k != want || path(bo.X) != np+".NodeType" {
			continue
		}
		if (bo.Op == token.EQL && ec.Pol) || (bo.Op == token.NEQ && !ec.Pol) {
			return "fact"
		}
	}
	return ""
}

// callersOf: static call sites of every function of the module (built once per tree).
var callersMemo = map[*Tree]map[*ssa.Function][]*ssa.Call{}

func callersOf(t *Tree) map[*ssa.Function][]*ssa.Call {
	if m, ok := callersMemo[t]; ok {
		return m
	}
	m := map[*ssa.Function][]*ssa.Call{}
	for pkg := range t.SSA {
		for _, f := range t.PkgFuncs(pkg) {
			allInstrs(f, func(in ssa.Instruction) {
				if call, ok := in.(*ssa.Call); ok {
					if g := call.Call.StaticCallee(); g != nil {
						m[g] = append(m[g], call)
					}
				}
			})
		}
	}
	callersMemo[t] = m
	return m
}

func collectPanicSites(t *Tree, fns map[*ssa.Function]bool) []panicSite {
	var list []*ssa.Function
	for f := range fns {
		list = append(list, f)
	}
	sortFuncs(list)
	var out []panicSite
	for _, f := range list {
		allInstrs(f, func(in ssa.Instruction) {
			switch x := in.(type) {
			case *ssa.TypeAssert:
				if !x.CommaOk {
					out = append(out, panicSite{Fn: f, In: in, Class: "TA", What: path(x.X) + ".(" + typeShort(x.AssertedType) + ")"})
				}
			case *ssa.IndexAddr:
				out = append(out, panicSite{Fn: f, In: in, Class: "IDX", What: path(x.X) + "[" + path(x.Index) + "]"})
			case *ssa.Index:
				out = append(out, panicSite{Fn: f, In: in, Class: "IDX", What: path(x.X) + "[" + path(x.Index) + "]"})
			case *ssa.Slice:
				if x.Low != nil || x.High != nil || x.Max != nil {
					out = append(out, panicSite{Fn: f, In: in, Class: "SLICE", What: path(x.X) + "[" + optPath(x.Low) + ":" + optPath(x.High) + "]"})
				}
			case *ssa.BinOp:
				if (x.Op == token.QUO || x.Op == token.REM) && isIntType(x.X.Type()) {
					out = append(out, panicSite{Fn: f, In: in, Class: "DIV", What: path(x.X) + " " + x.Op.String() + " " + path(x.Y)})
				}
			case *ssa.MakeSlice:
				_, lc := x.Len.(*ssa.Const)
				_, cc := x.Cap.(*ssa.Const)
				if !lc || !cc {
					out = append(out, panicSite{Fn: f, In: in, Class: "MAKE", What: "make(len=" + path(x.Len) + ", cap=" + path(x.Cap) + ")"})
				}
			case *ssa.Panic:
				out = append(out, panicSite{Fn: f, In: in, Class: "PANIC", What: "panic(" + path(x.X) + ")"})
			}
		})
	}
	return out
}

func optPath(v ssa.Value) string {
	if v == nil {
		return ""
	}
	return path(v)
}

func sortSites(s []panicSite) {
	sort.SliceStable(s, func(i, j int) bool {
		if s[i].Fn.String() != s[j].Fn.String() {
			return s[i].Fn.String() < s[j].Fn.String()
		}
		return s[i].In.Pos() < s[j].In.Pos()
	})
}

var _ = types.Typ
var _ = fmt.Sprint

var lenPostMemo = map[*ssa.Function]map[int]map[string]uint32{}

// helperLenPost: for an in-module helper whose last result is an error: per parameter, the lengths of the paths rooted
// in that parameter (".Param") that are possible when the helper returns a nil error — the union over its nil-error
// returns of its own length dataflow.
func helperLenPost(h *ssa.Function) map[int]map[string]uint32 {
	if m, ok := lenPostMemo[h]; ok {
		return m
	}
	lenPostMemo[h] = nil
	res := map[int]map[string]uint32{}
	flow := lengthFlow(h, lenState{})
	first := true
	acc := map[string]uint32{}
	allInstrs(h, func(in ssa.Instruction) {
		ret, ok := in.(*ssa.Return)
		if !ok || len(ret.Results) == 0 || retError(ret) == "nonnil" {
			return
		}
		st, reached := flow[ret.Block()]
		if !reached {
			return
		}
		if first {
			for k, v := range st {
				acc[k] = v
			}
			first = false
			return
		}
		for k := range acc {
			if v, ok := st[k]; ok {
				acc[k] |= v
			} else {
				delete(acc, k)
			}
		}
	})
	for k, v := range acc {
		for i, p := range h.Params {
			if strings.HasPrefix(k, pname(p)+".") || strings.HasPrefix(k, p.Name()+".") {
				if res[i] == nil {
					res[i] = map[string]uint32{}
				}
				res[i][k[len(p.Name()):]] = v
			}
		}
	}
	lenPostMemo[h] = res
	return res
}

// validatorPost: e is the error result of a call of an in-module helper; the length facts that hold for the
// caller's values when that error is nil.
func validatorPost(e ssa.Value) map[string]uint32 {
	var call *ssa.Call
	switch x := e.(type) {
	case *ssa.Call:
		call = x
	case *ssa.Extract:
		call, _ = x.Tuple.(*ssa.Call)
		if call != nil && x.Index != call.Call.Signature().Results().Len()-1 {
			return nil
		}
	}
	if call == nil {
		return nil
	}
	h := call.Call.StaticCallee()
	if h == nil || !inModule(h) || len(h.Blocks) == 0 {
		return nil
	}
	out := map[string]uint32{}
	for i, m := range helperLenPost(h) {
		if i >= len(call.Call.Args) {
			continue
		}
		ap := path(call.Call.Args[i])
		for suf, v := range m {
			out[ap+suf] = v
		}
	}
	return out
}
