package main

import (
	"go/token"

	"golang.org/x/tools/go/ssa"
)

// ------------------------------------------------------------------ loop helpers that report "go on" / "stop"
// A loop executor may hand the end of an iteration to a helper that answers with a boolean (alone or next to an
// error): `done, err := runLoopBody(ctx, body); if err != nil { return err }; if done { break }` or
// `next, err := forNext(ctx, stmt); …; if !next { break }`. The rules on loops (poll on every cycle, loop clause on
// every cycle, scope cleared on every cycle) follow such a call: the caller's test of the result decides which
// answer stays in the loop, and the helper's returns with that answer must satisfy the rule.

// boolResultIdx: the index of the only boolean result of h, -1 if there is none or more than one.
func boolResultIdx(h *ssa.Function) int {
	if h == nil {
		return -1
	}
	idx := -1
	rs := h.Signature.Results()
	for i := 0; i < rs.Len(); i++ {
		if rs.At(i).Type().String() == "bool" {
			if idx >= 0 {
				return -1
			}
			idx = i
		}
	}
	return idx
}

// resultOf: the values that stand for result #i of call.
func resultOf(call *ssa.Call, i int) []ssa.Value {
	if call.Call.Signature().Results().Len() == 1 {
		return []ssa.Value{call}
	}
	var out []ssa.Value
	if call.Referrers() != nil {
		for _, ref := range *call.Referrers() {
			if ex, ok := ref.(*ssa.Extract); ok && ex.Index == i {
				out = append(out, ex)
			}
		}
	}
	return out
}

// loopTestOf: the branch of loop l on result #bi of call (or its negation) one edge of which leaves the loop.
// contVal is the value of the result on the edge that stays in the loop; exitIdx the successor that leaves.
func loopTestOf(l *natLoop, call *ssa.Call, bi int) (ifBlk *ssa.BasicBlock, contVal bool, exitIdx int, ok bool) {
	vals := resultOf(call, bi)
	for b := range l.Blocks {
		iff, isIf := b.Instrs[len(b.Instrs)-1].(*ssa.If)
		if !isIf {
			continue
		}
		cond, neg := iff.Cond, false
		if u, isU := cond.(*ssa.UnOp); isU && u.Op == token.NOT {
			cond, neg = u.X, true
		}
		hit := false
		for _, v := range vals {
			if cond == v {
				hit = true
			}
		}
		if !hit {
			continue
		}
		out0 := !l.Blocks[b.Succs[0]] || leadsOut(b.Succs[0], l)
		out1 := !l.Blocks[b.Succs[1]] || leadsOut(b.Succs[1], l)
		if out0 == out1 {
			continue
		}
		// on Succs[0] the condition is true: the result is true unless negated
		if out0 {
			return b, neg, 0, true // leaving when cond true: staying when the result is `neg`
		}
		return b, !neg, 1, true
	}
	return nil, false, 0, false
}

func constBool(v ssa.Value) (val, ok bool) {
	c, isC := v.(*ssa.Const)
	if !isC || c.Value == nil || c.Type().Underlying().String() != "bool" {
		return false, false
	}
	return c.Value.ExactString() == "true", true
}

// helperAnswers: every return of h whose boolean result #bi may have the value `val` satisfies good(block), where the
// block is the one the value is decided in (the return block, or the predecessor a phi takes the value from). A
// result that is itself the value `direct(v)` accepts counts as good. Returns false when a result cannot be judged.
func helperAnswers(h *ssa.Function, bi int, val bool, good func(b *ssa.BasicBlock) bool, direct func(v ssa.Value, val bool) bool) bool {
	okAll, n := true, 0
	var judge func(v ssa.Value, b *ssa.BasicBlock, depth int)
	judge = func(v ssa.Value, b *ssa.BasicBlock, depth int) {
		if cv, isC := constBool(v); isC {
			if cv == val && !good(b) {
				okAll = false
			}
			return
		}
		if direct != nil && direct(v, val) {
			return
		}
		if phi, isPhi := v.(*ssa.Phi); isPhi && depth < 3 {
			for i, e := range phi.Edges {
				judge(e, phi.Block().Preds[i], depth+1)
			}
			return
		}
		if good(b) {
			return
		}
		okAll = false
	}
	allInstrs(h, func(in ssa.Instruction) {
		ret, isR := in.(*ssa.Return)
		if !isR || ret.Block() == h.Recover || bi >= len(ret.Results) {
			return
		}
		n++
		judge(ret.Results[bi], ret.Block(), 0)
	})
	return okAll && n > 0
}
