package main

import (
	"encoding/json"
	"fmt"
	"os"
	"path/filepath"
)

func loadRef(name string, v any) error {
	b, err := os.ReadFile(filepath.Join(verifDir(), "reference", name))
	if err != nil {
		return err
	}
	if err := json.Unmarshal(b, v); err != nil {
		return fmt.Errorf("reference/%s: %w", name, err)
	}
	return nil
}

func mustRef(c *Ctx, name string, v any) bool {
	if err := loadRef(name, v); err != nil {
		c.R.Undecided("REFERENCE", name, "", err.Error())
		return false
	}
	return true
}
