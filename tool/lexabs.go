package main

import (
	"fmt"
	"go/constant"
	"go/token"
	"sort"
	"strings"

	"golang.org/x/tools/go/ssa"
)

// ------------------------------------------------------------------------------------------------
// Abstract interpretation of the lexer's state functions over rune classes.
//
// Question decided: can the state machine go round a cycle of states without consuming a rune?
// Domain: the class (set of runes, eof = -1 included) of the *next unread rune* r0 at the entry of a state
// function, and a lower bound n ∈ {0,1,2,3+} of the runes consumed since then. Reading r0 refines nothing;
// every test on r0 (comparison with a constant, an in-module predicate, strings.ContainsRune with a constant
// set, utf8.RuneLen, unicode.IsSpace) splits the class. backup() un-reads r0 when it was the only rune read.
// Helpers (peek, accept, acceptRun, scanNumber, predicates) are inlined path-sensitively.
// ------------------------------------------------------------------------------------------------

var lexDebug = false

type rint struct{ lo, hi int64 }
type rset []rint

const (
	runeEOF = -1
	runeMax = 0x10FFFF
)

func rsAll() rset { return rset{{runeEOF, runeMax}} }

func rsNorm(s rset) rset {
	var t rset
	for _, x := range s {
		if x.lo < runeEOF {
			x.lo = runeEOF
		}
		if x.hi > runeMax {
			x.hi = runeMax
		}
		if x.lo <= x.hi {
			t = append(t, x)
		}
	}
	sort.Slice(t, func(i, j int) bool { return t[i].lo < t[j].lo })
	var out rset
	for _, x := range t {
		if n := len(out); n > 0 && x.lo <= out[n-1].hi+1 {
			if x.hi > out[n-1].hi {
				out[n-1].hi = x.hi
			}
			continue
		}
		out = append(out, x)
	}
	return out
}

func rsUnion(a, b rset) rset { return rsNorm(append(append(rset{}, a...), b...)) }

func rsCompl(a rset) rset {
	a = rsNorm(a)
	var out rset
	cur := int64(runeEOF)
	for _, x := range a {
		if x.lo > cur {
			out = append(out, rint{cur, x.lo - 1})
		}
		cur = x.hi + 1
	}
	if cur <= runeMax {
		out = append(out, rint{cur, runeMax})
	}
	return out
}

func rsInter(a, b rset) rset {
	var out rset
	for _, x := range a {
		for _, y := range b {
			lo, hi := x.lo, x.hi
			if y.lo > lo {
				lo = y.lo
			}
			if y.hi < hi {
				hi = y.hi
			}
			if lo <= hi {
				out = append(out, rint{lo, hi})
			}
		}
	}
	return rsNorm(out)
}

func rsMinus(a, b rset) rset { return rsInter(a, rsCompl(b)) }

func rsChars(s string) rset {
	var out rset
	for _, r := range s {
		out = append(out, rint{int64(r), int64(r)})
	}
	return rsNorm(out)
}

func (s rset) String() string {
	if len(s) == 0 {
		return "∅"
	}
	var parts []string
	for i, x := range s {
		if i == 6 {
			parts = append(parts, "…")
			break
		}
		f := func(v int64) string {
			switch {
			case v == runeEOF:
				return "eof"
			case v >= 0x21 && v < 0x7f:
				return fmt.Sprintf("%q", rune(v))
			}
			return fmt.Sprintf("U+%04X", v)
		}
		if x.lo == x.hi {
			parts = append(parts, f(x.lo))
		} else {
			parts = append(parts, f(x.lo)+"–"+f(x.hi))
		}
	}
	return strings.Join(parts, ",")
}

func (s rset) key() string {
	var sb strings.Builder
	for _, x := range s {
		fmt.Fprintf(&sb, "%d-%d,", x.lo, x.hi)
	}
	return sb.String()
}

var (
	rsSurrogates = rset{{0xD800, 0xDFFF}}
	// unicode.IsSpace
	rsUniSpace = rsNorm(rset{{'\t', '\r'}, {' ', ' '}, {0x85, 0x85}, {0xA0, 0xA0}, {0x1680, 0x1680}, {0x2000, 0x200a}, {0x2028, 0x2029}, {0x202f, 0x202f}, {0x205f, 0x205f}, {0x3000, 0x3000}})
)

// runeLenSet: {r : utf8.RuneLen(r) == k}, k ∈ {-1,1,2,3,4}
func runeLenSet(k int64) rset {
	switch k {
	case 1:
		return rset{{0, 0x7f}}
	case 2:
		return rset{{0x80, 0x7ff}}
	case 3:
		return rsMinus(rset{{0x800, 0xffff}}, rsSurrogates)
	case 4:
		return rset{{0x10000, runeMax}}
	case -1:
		return rsUnion(rset{{runeEOF, runeEOF}}, rsSurrogates)
	}
	return nil
}

// relSet: {x : x op c} over the rune universe.
func relSet(op token.Token, c int64) rset {
	switch op {
	case token.EQL:
		return rsNorm(rset{{c, c}})
	case token.NEQ:
		return rsCompl(rset{{c, c}})
	case token.LSS:
		return rsNorm(rset{{runeEOF, c - 1}})
	case token.LEQ:
		return rsNorm(rset{{runeEOF, c}})
	case token.GTR:
		return rsNorm(rset{{c + 1, runeMax}})
	case token.GEQ:
		return rsNorm(rset{{c, runeMax}})
	}
	return nil
}

func flipRel(op token.Token) token.Token {
	switch op {
	case token.LSS:
		return token.GTR
	case token.LEQ:
		return token.GEQ
	case token.GTR:
		return token.LSS
	case token.GEQ:
		return token.LEQ
	}
	return op
}

const (
	aUnknown = iota
	aR0
	aInt
	aBool
	aRLen // utf8.RuneLen(r0)
	aStr
	aFn
	aNilFn
)

type aval struct {
	kind int
	i    int64
	b    bool
	s    string
	fn   *ssa.Function
}

type lexSt struct {
	cls rset
	n   int  // lower bound of runes consumed since entry (3 = three or more)
	err bool // errorf was called: parser.Lex ends the token stream
}

type lexOut struct {
	st  lexSt
	ret aval
}

type lexExec struct {
	t                    *Tree
	next, backup, errorf *ssa.Function
	steps, maxSteps      int
	aborted              string
	nest                 int
	unknownPreds         map[string]bool
}

type lexFrame struct {
	f     *ssa.Function
	env   map[ssa.Value]aval
	depth int
	seen  map[string]int
	out   *[]lexOut
	// distinct abstract values each phi has taken in this frame (widening of loop counters)
	phiVals map[*ssa.Phi]map[string]bool
}

func (x *lexExec) val(fr *lexFrame, v ssa.Value) aval {
	switch c := v.(type) {
	case *ssa.Const:
		if c.Value == nil {
			if strings.Contains(c.Type().String(), "stateFn") {
				return aval{kind: aNilFn}
			}
			return aval{}
		}
		switch c.Value.Kind() {
		case constant.Int:
			if i, ok := constant.Int64Val(c.Value); ok {
				return aval{kind: aInt, i: i}
			}
		case constant.Bool:
			return aval{kind: aBool, b: constant.BoolVal(c.Value)}
		case constant.String:
			return aval{kind: aStr, s: constant.StringVal(c.Value)}
		}
		return aval{}
	case *ssa.Function:
		return aval{kind: aFn, fn: c}
	case *ssa.ChangeType:
		return x.val(fr, c.X)
	case *ssa.Convert:
		return x.val(fr, c.X)
	case *ssa.MakeClosure:
		if fn, ok := c.Fn.(*ssa.Function); ok {
			return aval{kind: aFn, fn: fn}
		}
	}
	if a, ok := fr.env[v]; ok {
		return a
	}
	return aval{}
}

func cloneEnv(e map[ssa.Value]aval) map[ssa.Value]aval {
	n := make(map[ssa.Value]aval, len(e)+4)
	for k, v := range e {
		n[k] = v
	}
	return n
}

// run executes f abstractly from its entry and returns the outcomes at its returns.
func (x *lexExec) run(f *ssa.Function, args []aval, st lexSt, depth int) []lexOut {
	var out []lexOut
	fr := &lexFrame{f: f, env: map[ssa.Value]aval{}, depth: depth, seen: map[string]int{}, out: &out}
	for i, p := range f.Params {
		if i < len(args) {
			fr.env[p] = args[i]
		}
	}
	if len(f.Blocks) > 0 {
		x.block(fr, f.Blocks[0], nil, fr.env, st, 0)
	}
	return out
}

func (x *lexExec) block(fr *lexFrame, b, from *ssa.BasicBlock, env map[ssa.Value]aval, st lexSt, start int) {
	if x.aborted != "" {
		return
	}
	x.nest++
	defer func() { x.nest-- }()
	if x.nest > 4000 {
		x.aborted = "path depth exhausted in " + fr.f.Name() + " (a loop whose state never repeats)"
		return
	}
	if lexDebug {
		fmt.Printf("  [%s b%d start=%d n=%d cls=%s]\n", fr.f.Name(), b.Index, start, st.n, st.cls)
	}
	if start == 0 {
		// loop bound: a (block, state) pair is entered at most twice per frame
		fi := -1
		if from != nil {
			fi = from.Index
		}
		key := fmt.Sprintf("%d<%d|%s|%d|%v|%s", b.Index, fi, st.cls.key(), st.n, st.err, envDigest(env))
		fr.seen[key]++
		if fr.seen[key] > 2 {
			return
		}
		// phis
		if from != nil {
			pi := -1
			for i, p := range b.Preds {
				if p == from {
					pi = i
				}
			}
			vals := map[ssa.Value]aval{}
			for _, in := range b.Instrs {
				ph, ok := in.(*ssa.Phi)
				if !ok {
					break
				}
				if pi >= 0 {
					nv := x.val(&lexFrame{env: env}, ph.Edges[pi])
					// widening: an integer that keeps changing around a loop (a character counter) is not part of
					// the rune-class abstraction; after a few distinct values it becomes "some integer"
					if nv.kind != aUnknown {
						if fr.phiVals == nil {
							fr.phiVals = map[*ssa.Phi]map[string]bool{}
						}
						if fr.phiVals[ph] == nil {
							fr.phiVals[ph] = map[string]bool{}
						}
						fr.phiVals[ph][fmt.Sprintf("%d:%d:%v", nv.kind, nv.i, nv.b)] = true
						if len(fr.phiVals[ph]) > 6 {
							nv = aval{kind: aUnknown}
						}
					}
					vals[ph] = nv
				}
			}
			for k, v := range vals {
				env[k] = v
			}
		}
	}
	fr2 := *fr
	fr2.env = env
	for i := start; i < len(b.Instrs); i++ {
		x.steps++
		if x.steps > x.maxSteps {
			x.aborted = "step budget exhausted in " + fr.f.Name()
			return
		}
		in := b.Instrs[i]
		switch ins := in.(type) {
		case *ssa.Phi, *ssa.DebugRef:
		case *ssa.Call:
			alts := x.call(&fr2, ins, st)
			if len(alts) == 1 {
				st = alts[0].st
				env[ins] = alts[0].ret
				continue
			}
			for _, a := range alts {
				e := cloneEnv(env)
				e[ins] = a.ret
				x.block(fr, b, nil, e, a.st, i+1)
			}
			return
		case *ssa.BinOp:
			alts := x.binop(&fr2, ins, st)
			if len(alts) == 1 {
				st = alts[0].st
				env[ins] = alts[0].ret
				continue
			}
			for _, a := range alts {
				e := cloneEnv(env)
				e[ins] = a.ret
				x.block(fr, b, nil, e, a.st, i+1)
			}
			return
		case *ssa.Lookup:
			// `row, ok := table[r]` on a read-only package-level table keyed by runes: ok splits the class of r0
			g := globalOfLoad(ins.X)
			if g == nil || !ins.CommaOk {
				break
			}
			tab := roTable(g)
			if tab == nil || !tab.isMap {
				break
			}
			var keys rset
			okKeys := true
			for k := range tab.vals {
				var v int64
				if _, err := fmt.Sscan(k, &v); err != nil {
					okKeys = false
				}
				keys = append(keys, rint{v, v})
			}
			if !okKeys {
				break
			}
			keys = rsNorm(keys)
			switch a := x.val(&fr2, ins.Index); a.kind {
			case aInt:
				env[ins] = aval{kind: aBool, b: len(rsInter(keys, rset{{a.i, a.i}})) > 0}
			case aR0:
				in1, out1 := rsInter(st.cls, keys), rsMinus(st.cls, keys)
				if len(in1) > 0 && len(out1) > 0 {
					for _, alt := range []struct {
						cls rset
						ok  bool
					}{{in1, true}, {out1, false}} {
						e := cloneEnv(env)
						e[ins] = aval{kind: aBool, b: alt.ok}
						s2 := st
						s2.cls = alt.cls
						x.block(fr, b, nil, e, s2, i+1)
					}
					return
				}
				env[ins] = aval{kind: aBool, b: len(in1) > 0}
			}
		case *ssa.Extract:
			if lk, ok := ins.Tuple.(*ssa.Lookup); ok && ins.Index == 1 {
				if a, has := env[lk]; has {
					env[ins] = a
				}
			}
		case *ssa.UnOp:
			if ins.Op == token.NOT {
				if a := x.val(&fr2, ins.X); a.kind == aBool {
					env[ins] = aval{kind: aBool, b: !a.b}
				}
			}
		case *ssa.Store:
			// manual advance of the position by a positive constant
			if strings.HasSuffix(path(ins.Addr), ".pos") {
				if bo, ok := ins.Val.(*ssa.BinOp); ok && bo.Op == token.ADD {
					if a := x.val(&fr2, bo.Y); a.kind == aInt && a.i > 0 {
						st.n = 3
					}
				}
			}
		case *ssa.If:
			c := x.val(&fr2, ins.Cond)
			if c.kind == aBool {
				s := b.Succs[1]
				if c.b {
					s = b.Succs[0]
				}
				x.block(fr, s, b, env, st, 0)
				return
			}
			x.block(fr, b.Succs[0], b, cloneEnv(env), st, 0)
			x.block(fr, b.Succs[1], b, cloneEnv(env), st, 0)
			return
		case *ssa.Jump:
			x.block(fr, b.Succs[0], b, env, st, 0)
			return
		case *ssa.Return:
			r := aval{}
			if len(ins.Results) > 0 {
				r = x.val(&fr2, ins.Results[0])
			}
			*fr.out = append(*fr.out, lexOut{st, r})
			return
		case *ssa.Panic:
			return
		}
	}
}

func (x *lexExec) call(fr *lexFrame, call *ssa.Call, st lexSt) []lexOut {
	one := func(st lexSt, r aval) []lexOut { return []lexOut{{st, r}} }
	cal := call.Call.StaticCallee()
	if cal == nil {
		return one(st, aval{})
	}
	args := make([]aval, len(call.Call.Args))
	for i, a := range call.Call.Args {
		args[i] = x.val(fr, a)
	}
	splitBy := func(set rset) []lexOut {
		var outs []lexOut
		if t := rsInter(st.cls, set); len(t) > 0 {
			s := st
			s.cls = t
			outs = append(outs, lexOut{s, aval{kind: aBool, b: true}})
		}
		if f := rsMinus(st.cls, set); len(f) > 0 {
			s := st
			s.cls = f
			outs = append(outs, lexOut{s, aval{kind: aBool, b: false}})
		}
		return outs
	}
	switch cal {
	case x.next:
		if st.n == 0 {
			eofPart := rsInter(st.cls, rset{{runeEOF, runeEOF}})
			rest := rsMinus(st.cls, rset{{runeEOF, runeEOF}})
			var outs []lexOut
			if len(eofPart) > 0 {
				s := st
				s.cls = eofPart // reading eof consumes nothing
				outs = append(outs, lexOut{s, aval{kind: aR0}})
			}
			if len(rest) > 0 {
				s := st
				s.cls = rest
				s.n = 1
				outs = append(outs, lexOut{s, aval{kind: aR0}})
			}
			return outs
		}
		s := st
		if s.n < 3 {
			s.n++
		}
		return one(s, aval{})
	case x.backup:
		s := st
		switch {
		case s.n == 3:
			s.n = 2
		case s.n > 0:
			s.n--
		}
		return one(s, aval{})
	case x.errorf:
		s := st
		s.err = true
		return one(s, aval{kind: aNilFn})
	}
	pkgPath := ""
	if cal.Pkg != nil {
		pkgPath = cal.Pkg.Pkg.Path()
	} else if cal.Object() != nil && cal.Object().Pkg() != nil {
		pkgPath = cal.Object().Pkg().Path()
	}
	switch pkgPath + "." + cal.Name() {
	case "strings.ContainsRune":
		if args[0].kind == aStr && args[1].kind == aR0 && st.n <= 1 {
			return splitBy(rsChars(args[0].s))
		}
		return one(st, aval{})
	case "unicode/utf8.RuneLen":
		if args[0].kind == aR0 {
			return one(st, aval{kind: aRLen})
		}
		return one(st, aval{})
	case "unicode.IsSpace":
		if args[0].kind == aR0 {
			return splitBy(rsUniSpace)
		}
		return one(st, aval{})
	}
	if len(cal.Blocks) > 0 && strings.HasPrefix(pkgPath, mod) && fr.depth < 8 {
		outs := x.run(cal, args, st, fr.depth+1)
		if len(outs) == 0 {
			return nil // no return reachable (all paths cut): nothing continues
		}
		// merge identical outcomes
		seen := map[string]bool{}
		var res []lexOut
		for _, o := range outs {
			k := fmt.Sprintf("%s|%d|%v|%d|%d|%v|%s", o.st.cls.key(), o.st.n, o.st.err, o.ret.kind, o.ret.i, o.ret.b, o.ret.s)
			if !seen[k] {
				seen[k] = true
				res = append(res, o)
			}
		}
		return res
	}
	if len(args) > 0 && args[0].kind == aR0 && strings.HasPrefix(pkgPath, "unicode") {
		x.unknownPreds[pkgPath+"."+cal.Name()] = true
	}
	return one(st, aval{})
}

func (x *lexExec) binop(fr *lexFrame, bo *ssa.BinOp, st lexSt) []lexOut {
	one := func(r aval) []lexOut { return []lexOut{{st, r}} }
	a, b := x.val(fr, bo.X), x.val(fr, bo.Y)
	op := bo.Op
	switch op {
	case token.EQL, token.NEQ, token.LSS, token.LEQ, token.GTR, token.GEQ:
	default:
		if a.kind == aInt && b.kind == aInt {
			switch op {
			case token.ADD:
				return one(aval{kind: aInt, i: a.i + b.i})
			case token.SUB:
				return one(aval{kind: aInt, i: a.i - b.i})
			}
		}
		return one(aval{})
	}
	if a.kind == aInt && (b.kind == aR0 || b.kind == aRLen) {
		a, b, op = b, a, flipRel(op)
	}
	var set rset
	switch {
	case a.kind == aR0 && b.kind == aInt:
		set = relSet(op, b.i)
	case a.kind == aRLen && b.kind == aInt:
		for _, k := range []int64{-1, 1, 2, 3, 4} {
			if relHolds(op, k, b.i) {
				set = rsUnion(set, runeLenSet(k))
			}
		}
	case a.kind == aInt && b.kind == aInt:
		return one(aval{kind: aBool, b: relHolds(op, a.i, b.i)})
	case a.kind == aBool && b.kind == aBool && (op == token.EQL || op == token.NEQ):
		return one(aval{kind: aBool, b: (a.b == b.b) == (op == token.EQL)})
	default:
		return one(aval{})
	}
	var outs []lexOut
	if t := rsInter(st.cls, set); len(t) > 0 {
		s := st
		s.cls = t
		outs = append(outs, lexOut{s, aval{kind: aBool, b: true}})
	}
	if f := rsMinus(st.cls, set); len(f) > 0 {
		s := st
		s.cls = f
		outs = append(outs, lexOut{s, aval{kind: aBool, b: false}})
	}
	return outs
}

func relHolds(op token.Token, a, b int64) bool {
	switch op {
	case token.EQL:
		return a == b
	case token.NEQ:
		return a != b
	case token.LSS:
		return a < b
	case token.LEQ:
		return a <= b
	case token.GTR:
		return a > b
	case token.GEQ:
		return a >= b
	}
	return false
}

type lexAbsEdge struct {
	from, to *ssa.Function
	zero     bool // some path takes this transition without having consumed a rune
	cls      rset // class of the unread rune on such a path
}

// lexAbstract runs the fixpoint over the state functions and returns the transitions.
func lexAbstract(t *Tree, states []*ssa.Function, entry *ssa.Function) ([]lexAbsEdge, map[*ssa.Function]rset, *lexExec) {
	x := &lexExec{t: t, maxSteps: 4000000, unknownPreds: map[string]bool{}}
	x.next = t.Method(pParser, "Lexer", "next")
	x.backup = t.Method(pParser, "Lexer", "backup")
	x.errorf = t.Method(pParser, "Lexer", "errorf")
	isState := map[*ssa.Function]bool{}
	for _, s := range states {
		isState[s] = true
	}
	entryCls := map[*ssa.Function]rset{entry: rsAll()}
	edges := map[[2]*ssa.Function]*lexAbsEdge{}
	for iter := 0; iter < 12; iter++ {
		changed := false
		for _, f := range states {
			cls, ok := entryCls[f]
			if !ok || len(cls) == 0 {
				continue
			}
			outs := x.run(f, []aval{{}}, lexSt{cls: cls}, 0)
			if x.aborted != "" {
				return nil, entryCls, x
			}
			for _, o := range outs {
				if o.st.err || o.ret.kind != aFn || !isState[o.ret.fn] {
					continue
				}
				k := [2]*ssa.Function{f, o.ret.fn}
				e := edges[k]
				if e == nil {
					e = &lexAbsEdge{from: f, to: o.ret.fn}
					edges[k] = e
					changed = true
				}
				add := rsAll()
				if o.st.n == 0 {
					add = o.st.cls
					if !e.zero {
						e.zero = true
						changed = true
					}
					if u := rsUnion(e.cls, o.st.cls); u.key() != e.cls.key() {
						e.cls = u
						changed = true
					}
				}
				if u := rsUnion(entryCls[o.ret.fn], add); u.key() != entryCls[o.ret.fn].key() {
					entryCls[o.ret.fn] = u
					changed = true
				}
			}
		}
		if !changed {
			break
		}
	}
	var list []lexAbsEdge
	for _, e := range edges {
		list = append(list, *e)
	}
	sort.Slice(list, func(i, j int) bool {
		if list[i].from.Name() != list[j].from.Name() {
			return list[i].from.Name() < list[j].from.Name()
		}
		return list[i].to.Name() < list[j].to.Name()
	})
	return list, entryCls, x
}

// envDigest: the abstract values that distinguish paths (booleans, r0 aliases, constants), rendered stably.
func envDigest(env map[ssa.Value]aval) string {
	var ks []string
	for v, a := range env {
		if a.kind == aUnknown {
			continue
		}
		ks = append(ks, fmt.Sprintf("%s=%d:%d:%v", v.Name(), a.kind, a.i, a.b))
	}
	sort.Strings(ks)
	return strings.Join(ks, ",")
}
