package main

import (
	"golang.org/x/tools/go/ssa"
)

// typestate runs a forward may-analysis over fn with a small finite state space (states 0..n-1, n<=16).
// trans maps (instruction, state) to the successor state; edge refines a state along a branch edge.
// It returns, for every instruction, the set of states (bitmask) possible just before it.
type typestate struct {
	fn     *ssa.Function
	nstate int
	init   int
	trans  func(in ssa.Instruction, st int) int
	// edge may refine/transform the state on edge b -> succ (index si); nil = identity
	edge func(b *ssa.BasicBlock, si int, st int) int
	// set-valued variants (a call that may leave several states; an edge that keeps several): used when non-nil
	transSet func(in ssa.Instruction, st int) uint16
	edgeSet  func(b *ssa.BasicBlock, si int, st int) uint16
	in       map[*ssa.BasicBlock]uint16
	// successOnly: do not follow edges from which the function can only return a non-nil error (errorEdge); the states
	// at a return fed by a single exit are then those of its success paths
	successOnly bool
}

func (ts *typestate) run() map[ssa.Instruction]uint16 {
	ts.in = map[*ssa.BasicBlock]uint16{}
	if len(ts.fn.Blocks) == 0 {
		return nil
	}
	before := map[ssa.Instruction]uint16{}
	ts.in[ts.fn.Blocks[0]] = 1 << uint(ts.init)
	work := []*ssa.BasicBlock{ts.fn.Blocks[0]}
	for len(work) > 0 {
		b := work[0]
		work = work[1:]
		cur := ts.in[b]
		for _, in := range b.Instrs {
			before[in] |= cur
			var nxt uint16
			for s := 0; s < ts.nstate; s++ {
				if cur&(1<<uint(s)) != 0 {
					if ts.transSet != nil {
						nxt |= ts.transSet(in, s)
					} else {
						nxt |= 1 << uint(ts.trans(in, s))
					}
				}
			}
			cur = nxt
		}
		for si, sc := range b.Succs {
			if ts.successOnly && errorEdge(b, si) {
				continue // from here the function can only fail: not a success path
			}
			out := cur
			if ts.edgeSet != nil {
				out = 0
				for s := 0; s < ts.nstate; s++ {
					if cur&(1<<uint(s)) != 0 {
						out |= ts.edgeSet(b, si, s)
					}
				}
			} else if ts.edge != nil {
				out = 0
				for s := 0; s < ts.nstate; s++ {
					if cur&(1<<uint(s)) != 0 {
						if n := ts.edge(b, si, s); n >= 0 {
							out |= 1 << uint(n)
						}
					}
				}
			}
			if old := ts.in[sc]; old|out != old {
				ts.in[sc] = old | out
				work = append(work, sc)
			}
		}
	}
	return before
}

// pairState encodes (held, deferredRelease) as a 2-bit state.
const (
	psFree      = 0
	psHeld      = 1
	psFreeDefer = 2
	psHeldDefer = 3
)

// pairing reports every success return of fn that may be reached while the resource acquired by
// isAcquire is still held (not released by isRelease, directly or via defer).
func pairing(fn *ssa.Function, isAcquire, isRelease func(c *ssa.CallCommon) bool) (bad []*ssa.Return, okRets []*ssa.Return, acquires int) {
	ts := &typestate{fn: fn, nstate: 4, init: psFree}
	ts.trans = func(in ssa.Instruction, st int) int {
		switch x := in.(type) {
		case *ssa.Defer:
			if isRelease(&x.Call) {
				return st | 2
			}
			if isDeferredClosureCalling(&x.Call, isRelease) {
				return st | 2
			}
		case *ssa.RunDefers:
			if st&2 != 0 {
				return psFree
			}
		case *ssa.Call:
			if isAcquire(&x.Call) {
				return st | 1
			}
			if isRelease(&x.Call) {
				return st &^ 1
			}
		}
		return st
	}
	before := ts.run()
	allInstrs(fn, func(in ssa.Instruction) {
		if c, ok := in.(*ssa.Call); ok && isAcquire(&c.Call) {
			acquires++
		}
		r, ok := in.(*ssa.Return)
		if !ok || r.Block() == fn.Recover {
			return
		}
		if retError(r) == "nonnil" {
			return
		}
		m := before[in]
		if m&(1<<psHeld) != 0 || m&(1<<psHeldDefer) != 0 {
			bad = append(bad, r)
		} else {
			okRets = append(okRets, r)
		}
	})
	return
}

func isDeferredClosureCalling(c *ssa.CallCommon, pred func(c *ssa.CallCommon) bool) bool {
	mc, ok := c.Value.(*ssa.MakeClosure)
	if !ok {
		return false
	}
	f, ok := mc.Fn.(*ssa.Function)
	if !ok {
		return false
	}
	found := false
	allInstrs(f, func(in ssa.Instruction) {
		if ci, ok := in.(ssa.CallInstruction); ok && pred(ci.Common()) {
			found = true
		}
	})
	return found
}
