package main

import (
	"fmt"
	"go/token"
	"go/types"
	"sort"
	"strings"

	"golang.org/x/tools/go/ssa"
)

// CtorSummary describes what a parser constructor (*parser).newX does with its parameters:
// for every field of an ast struct it stores to, where the stored value comes from.
type CtorSummary struct {
	Fn      *ssa.Function
	Name    string
	Params  []string                   // names, receiver excluded
	Fields  map[string]map[string]bool // "Struct.Field" -> provenance set
	Updates map[string]map[string]bool // same, but for stores into an existing node reached from a parameter
	Pos     map[string]token.Pos       // position of one store per field
}

// prov computes where a value comes from, as a set of root descriptors:
//
//	"<param>[.field…]"      a parameter (Item fields spelled out: op.Pos, op.Typ, name.Val)
//	"nil", "const:<v>"      constants
//	"lookahead[…]"          anything loaded from p.yyParser (the look-ahead item)
//	"lex[…]"                anything loaded from p.lex
//	"call:<name>"           an opaque call result
func prov(v ssa.Value, out map[string]bool, seen map[ssa.Value]bool) {
	if seen[v] {
		return
	}
	seen[v] = true
	switch x := v.(type) {
	case *ssa.Parameter:
		out[x.Name()] = true
	case *ssa.Const:
		if x.Value == nil {
			out["nil"] = true
		} else {
			out["const:"+x.Value.ExactString()] = true
		}
	case *ssa.FieldAddr, *ssa.Field:
		p := path(v)
		switch {
		case strings.Contains(p, ".yyParser."):
			out["lookahead"+p[strings.Index(p, ".yyParser.")+9:]] = true
		case strings.Contains(p, ".lex."):
			out["lex"+p[strings.Index(p, ".lex.")+4:]] = true
		default:
			if strings.HasPrefix(p, "?") || strings.HasPrefix(p, "alloc:") || strings.HasPrefix(p, "phi:") || rootedInHelperResult(v) {
				// field of a computed value: follow the base
				switch y := v.(type) {
				case *ssa.FieldAddr:
					sub := map[string]bool{}
					prov(y.X, sub, seen)
					for s := range sub {
						out[s+"."+fieldName(y)] = true
					}
				case *ssa.Field:
					sub := map[string]bool{}
					prov(y.X, sub, seen)
					for s := range sub {
						out[s+"."+fieldNameV(y)] = true
					}
				}
			} else {
				out[p] = true
			}
		}
	case *ssa.UnOp:
		if x.Op == token.MUL {
			if a, ok := x.X.(*ssa.Alloc); ok {
				// local variable: union of everything stored to it (element-wise for local arrays)
				provAlloc(a, out, seen)
				return
			}
		}
		prov(x.X, out, seen)
	case *ssa.Phi:
		for _, e := range x.Edges {
			prov(e, out, seen)
		}
	case *ssa.ChangeType:
		prov(x.X, out, seen)
	case *ssa.Convert:
		prov(x.X, out, seen)
	case *ssa.MakeInterface:
		prov(x.X, out, seen)
	case *ssa.ChangeInterface:
		prov(x.X, out, seen)
	case *ssa.TypeAssert:
		prov(x.X, out, seen)
	case *ssa.BinOp:
		prov(x.X, out, seen)
		prov(x.Y, out, seen)
	case *ssa.Slice:
		// slice of a local array: the elements stored into it, restricted to constant bounds when present
		if a, ok := x.X.(*ssa.Alloc); ok {
			lo, hi := int64(0), int64(-1)
			bounded := true
			if x.Low != nil {
				if v, ok := constInt(x.Low); ok {
					lo = v
				} else {
					bounded = false
				}
			}
			if x.High != nil {
				if v, ok := constInt(x.High); ok {
					hi = v
				} else {
					bounded = false
				}
			}
			if bounded && (x.Low != nil || x.High != nil) {
				provAllocRange(a, lo, hi, out, seen)
				return
			}
			provAlloc(a, out, seen)
			return
		}
		prov(x.X, out, seen)
	case *ssa.IndexAddr:
		// element of a local array
		if a, ok := x.X.(*ssa.Alloc); ok {
			if k, ok := constInt(x.Index); ok {
				provAllocRange(a, k, k+1, out, seen)
				return
			}
		}
		prov(x.X, out, seen)
	case *ssa.Alloc:
		provAlloc(x, out, seen)
	case *ssa.Extract:
		if call, ok := x.Tuple.(*ssa.Call); ok && provHelperResult(call, x.Index, out, seen) {
			return
		}
		prov(x.Tuple, out, seen)
	case *ssa.Call:
		if b, ok := x.Call.Value.(*ssa.Builtin); ok {
			if b.Name() == "append" {
				for _, a := range x.Call.Args {
					prov(a, out, seen)
				}
				return
			}
			out["call:"+b.Name()] = true
			return
		}
		f := x.Call.StaticCallee()
		if f == nil {
			// AstOp is a package-level func variable (token type -> operator string): pass through
			if u, ok := x.Call.Value.(*ssa.UnOp); ok {
				if g, ok := u.X.(*ssa.Global); ok && g.Name() == "AstOp" && len(x.Call.Args) == 1 {
					prov(x.Call.Args[0], out, seen)
					return
				}
			}
			out["call:dynamic"] = true
			return
		}
		switch {
		case f.Name() == "LnCol" || f.Name() == "AstOp":
			// position conversion / operator conversion: provenance of the argument
			prov(x.Call.Args[len(x.Call.Args)-1], out, seen)
		case f.Name() == "PositionRange":
			sub := map[string]bool{}
			prov(x.Call.Args[0], sub, seen)
			for s := range sub {
				out[s+".PositionRange()"] = true
			}
		case strings.HasPrefix(f.Name(), "Wrap"):
			prov(x.Call.Args[0], out, seen)
		case f.Signature.Recv() != nil && len(x.Call.Args) == 1 && f.Pkg != nil && f.Pkg.Pkg.Path() == pAst:
			// accessor n.X(): the node itself
			sub := map[string]bool{}
			prov(x.Call.Args[0], sub, seen)
			for s := range sub {
				out[s+"."+f.Name()+"()"] = true
			}
		default:
			out["call:"+f.Name()] = true
		}
	default:
		out["?"+v.Name()] = true
	}
}

// provAlloc: provenance of the contents of a local allocation. Elements of a local array with more than
// one element are tagged "@k" so that element order ([2]*Node{key, value}) stays visible.
func provAlloc(a *ssa.Alloc, out map[string]bool, seen map[ssa.Value]bool) {
	multi := false
	if pt, ok := a.Type().Underlying().(*types.Pointer); ok {
		if at, ok := pt.Elem().Underlying().(*types.Array); ok && at.Len() > 1 {
			multi = true
		}
	}
	for _, r := range *a.Referrers() {
		switch y := r.(type) {
		case *ssa.IndexAddr:
			for _, rr := range *y.Referrers() {
				if s, ok := rr.(*ssa.Store); ok && s.Addr == ssa.Value(y) {
					if multi {
						sub := map[string]bool{}
						prov(s.Val, sub, seen)
						for k := range sub {
							out[k+"@"+idxStr(y.Index)] = true
						}
					} else {
						prov(s.Val, out, seen)
					}
				}
			}
		case *ssa.Store:
			if y.Addr == ssa.Value(a) {
				prov(y.Val, out, seen)
			}
		}
	}
}

// provAllocRange: provenance of the elements lo ≤ k < hi of a local array (hi < 0: to the end); a single element
// carries no position tag.
func provAllocRange(a *ssa.Alloc, lo, hi int64, out map[string]bool, seen map[ssa.Value]bool) {
	n := int64(-1)
	if pt, ok := a.Type().Underlying().(*types.Pointer); ok {
		if at, ok := pt.Elem().Underlying().(*types.Array); ok {
			n = at.Len()
		}
	}
	if hi < 0 {
		hi = n
	}
	for _, r := range *a.Referrers() {
		ia, ok := r.(*ssa.IndexAddr)
		if !ok {
			continue
		}
		k, ok := constInt(ia.Index)
		if !ok || k < lo || k >= hi {
			continue
		}
		for _, rr := range *ia.Referrers() {
			if s, ok := rr.(*ssa.Store); ok && s.Addr == ssa.Value(ia) {
				if hi-lo > 1 {
					sub := map[string]bool{}
					prov(s.Val, sub, seen)
					for kk := range sub {
						out[kk+"@"+idxStr(ia.Index)] = true
					}
				} else {
					prov(s.Val, out, seen)
				}
			}
		}
	}
}

func provOf(v ssa.Value) map[string]bool {
	out := map[string]bool{}
	prov(v, out, map[ssa.Value]bool{})
	return out
}

func setStr(m map[string]bool) string {
	return strings.Join(sortedKeys(m), ",")
}

// storedStruct finds, for a FieldAddr store target, the ast struct name and whether the base is a
// fresh allocation (constructed node) or reached from a parameter (update in place).
func storedStruct(fa *ssa.FieldAddr) (structName string, fresh bool, basePath string) {
	structName = namedOf(fa.X.Type())
	switch b := fa.X.(type) {
	case *ssa.Alloc:
		return structName, true, ""
	default:
		return structName, false, path(b)
	}
}

func summarizeCtor(fn *ssa.Function) *CtorSummary {
	cs := &CtorSummary{Fn: fn, Name: fn.Name(), Fields: map[string]map[string]bool{}, Updates: map[string]map[string]bool{}, Pos: map[string]token.Pos{}}
	for i, p := range fn.Params {
		if i == 0 && fn.Signature.Recv() != nil {
			continue
		}
		cs.Params = append(cs.Params, p.Name())
	}
	allInstrs(fn, func(in ssa.Instruction) {
		s, ok := in.(*ssa.Store)
		if !ok {
			return
		}
		fa, ok := s.Addr.(*ssa.FieldAddr)
		if !ok {
			return
		}
		sn, fresh, _ := storedStruct(fa)
		if !strings.HasPrefix(sn, "ast.") {
			return
		}
		key := strings.TrimPrefix(sn, "ast.") + "." + fieldName(fa)
		dst := cs.Fields
		if !fresh {
			dst = cs.Updates
		}
		if dst[key] == nil {
			dst[key] = map[string]bool{}
		}
		for p := range provOf(s.Val) {
			dst[key][p] = true
		}
		cs.Pos[key] = s.Pos()
	})
	return cs
}

// parserCtors returns the summaries of all methods of *parser whose name starts with "new" or that are
// called from grammar actions.
func parserCtors(t *Tree, called map[string]bool) map[string]*CtorSummary {
	out := map[string]*CtorSummary{}
	for _, f := range t.Methods(pParser, "parser") {
		if strings.HasPrefix(f.Name(), "new") || called[f.Name()] {
			if len(f.Blocks) > 0 {
				out[f.Name()] = summarizeCtor(f)
			}
		}
	}
	return out
}

func (cs *CtorSummary) String() string {
	var b strings.Builder
	fmt.Fprintf(&b, "%s(%s)\n", cs.Name, strings.Join(cs.Params, ", "))
	for _, k := range sortedKeys(cs.Fields) {
		fmt.Fprintf(&b, "    %-28s <- %s\n", k, setStr(cs.Fields[k]))
	}
	for _, k := range sortedKeys(cs.Updates) {
		fmt.Fprintf(&b, "    %-28s <~ %s\n", k, setStr(cs.Updates[k]))
	}
	return b.String()
}

// FieldFlow composes the grammar action-flow with the constructor summaries:
// for production p, "Struct.Field" -> set of sources expressed over the production:
//
//	"$k" / "$k.Sel"  the k-th RHS symbol (1-based), "nil", "const:…", "lookahead…", "$$…"
func (g *Gram) FieldFlow(p *Production, ctors map[string]*CtorSummary) (map[string]map[string]bool, []string) {
	ai := g.Actions[p.Num]
	res := map[string]map[string]bool{}
	var problems []string
	if ai == nil {
		return res, nil
	}
	for _, call := range ai.Calls {
		cs := ctors[call.Name]
		if cs == nil {
			continue
		}
		if len(call.Args) != len(cs.Params) {
			problems = append(problems, fmt.Sprintf("%s called with %d args, has %d params", call.Name, len(call.Args), len(cs.Params)))
			continue
		}
		argOf := map[string]ArgFlow{}
		for i, pn := range cs.Params {
			argOf[pn] = call.Args[i]
		}
		subst := func(src string) []string {
			// src is like "op.Pos", "l", "nil", "lookahead.lval..."
			head, tail := src, ""
			if i := strings.IndexAny(src, ".@"); i >= 0 {
				head, tail = src[:i], src[i:]
			}
			af, ok := argOf[head]
			if !ok {
				return []string{src}
			}
			if af.Nil {
				return []string{"nil" + tail}
			}
			var out []string
			for _, k := range af.Dollars {
				out = append(out, fmt.Sprintf("$%d%s%s", k, af.Sel, tail))
			}
			if af.Self {
				out = append(out, "$$"+tail)
			}
			if len(out) == 0 {
				out = append(out, "const:"+af.Text+tail)
			}
			return out
		}
		for _, m := range []map[string]map[string]bool{cs.Fields, cs.Updates} {
			for f, srcs := range m {
				if res[f] == nil {
					res[f] = map[string]bool{}
				}
				for s := range srcs {
					for _, r := range subst(s) {
						res[f][r] = true
					}
				}
			}
		}
	}
	sort.Strings(problems)
	return res, problems
}

var _ = types.Typ

// rootedInHelperResult: the access path starts at one result of a multi-result in-module helper (a validation
// function returning (value, ok)).
func rootedInHelperResult(v ssa.Value) bool {
	for i := 0; i < 8; i++ {
		switch x := v.(type) {
		case *ssa.FieldAddr:
			v = x.X
		case *ssa.Field:
			v = x.X
		case *ssa.UnOp:
			if x.Op != token.MUL {
				return false
			}
			v = x.X
		case *ssa.Extract:
			call, ok := x.Tuple.(*ssa.Call)
			if !ok {
				return false
			}
			h := call.Call.StaticCallee()
			return h != nil && inModule(h) && len(h.Blocks) > 0 && h.Signature.Results().Len() >= 2
		default:
			return false
		}
	}
	return false
}

// provHelperResult: provenance of result #k of a multi-result in-module helper, in the caller's terms: the union
// over the helper's returns of the provenance of the returned value (nil returns aside), with the helper's
// parameters replaced by the provenance of the arguments.
func provHelperResult(call *ssa.Call, k int, out map[string]bool, seen map[ssa.Value]bool) bool {
	h := call.Call.StaticCallee()
	if h == nil || !inModule(h) || len(h.Blocks) == 0 || h.Signature.Results().Len() < 2 {
		return false
	}
	inner := map[string]bool{}
	n := 0
	allInstrs(h, func(in ssa.Instruction) {
		ret, ok := in.(*ssa.Return)
		if !ok || k >= len(ret.Results) || isNilConst(ret.Results[k]) {
			return
		}
		n++
		prov(ret.Results[k], inner, map[ssa.Value]bool{})
	})
	if n == 0 {
		return false
	}
	for s := range inner {
		root, rest := s, ""
		if i := strings.IndexAny(s, ".[@"); i >= 0 {
			root, rest = s[:i], s[i:]
		}
		sub := false
		for j, p := range h.Params {
			if p.Name() == root && j < len(call.Call.Args) {
				argp := map[string]bool{}
				prov(call.Call.Args[j], argp, seen)
				for a := range argp {
					out[a+rest] = true
				}
				sub = true
			}
		}
		if !sub {
			out[s] = true
		}
	}
	return true
}
