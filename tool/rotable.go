package main

import (
	"go/constant"
	"go/types"

	"golang.org/x/tools/go/ssa"
)

// ------------------------------------------------------------------ read-only package-level tables.
// A package-level map, array or slice that is filled once by the package initialiser from constant keys and is
// never written, re-sliced, passed on or address-taken anywhere else is a constant table: a lookup with a constant
// key folds to the stored value (or the element type's zero value for a map miss). This is how a `switch` that only
// yields constants looks after it has been turned into a lookup table.

type roTab struct {
	isMap bool
	elem  types.Type
	vals  map[string]ssa.Value // key (constant.ExactString) -> stored value
	n     int64                // arrays/slices: length
}

var (
	roTabMemo  = map[*ssa.Global]*roTab{}
	globalRefs map[*ssa.Program]map[*ssa.Global][]ssa.Instruction
)

func progFuncs(prog *ssa.Program) []*ssa.Function {
	seen := map[*ssa.Function]bool{}
	var out []*ssa.Function
	var add func(f *ssa.Function)
	add = func(f *ssa.Function) {
		if f == nil || seen[f] || len(f.Blocks) == 0 {
			return
		}
		seen[f] = true
		out = append(out, f)
		for _, a := range f.AnonFuncs {
			add(a)
		}
	}
	for _, p := range prog.AllPackages() {
		for _, m := range p.Members {
			switch m := m.(type) {
			case *ssa.Function:
				add(m)
			case *ssa.Type:
				for _, ty := range []types.Type{m.Type(), types.NewPointer(m.Type())} {
					ms := prog.MethodSets.MethodSet(ty)
					for i := 0; i < ms.Len(); i++ {
						if f := prog.MethodValue(ms.At(i)); f != nil && f.Pkg == p {
							add(f)
						}
					}
				}
			}
		}
	}
	return out
}

func refsOfGlobal(g *ssa.Global) []ssa.Instruction {
	prog := g.Pkg.Prog
	if globalRefs == nil {
		globalRefs = map[*ssa.Program]map[*ssa.Global][]ssa.Instruction{}
	}
	m, ok := globalRefs[prog]
	if !ok {
		m = map[*ssa.Global][]ssa.Instruction{}
		var ops []*ssa.Value
		for _, f := range progFuncs(prog) {
			for _, b := range f.Blocks {
				for _, in := range b.Instrs {
					ops = in.Operands(ops[:0])
					for _, o := range ops {
						if o == nil || *o == nil {
							continue
						}
						if gg, isG := (*o).(*ssa.Global); isG {
							m[gg] = append(m[gg], in)
						}
					}
				}
			}
		}
		globalRefs[prog] = m
	}
	return m[g]
}

// readOnlyUse: the value (a loaded map/slice, or an element address) is only read.
func readOnlyUse(v ssa.Value, depth int) bool {
	refs := v.Referrers()
	if refs == nil {
		return false
	}
	for _, r := range *refs {
		switch x := r.(type) {
		case *ssa.Lookup:
			if x.X != v {
				return false
			}
		case *ssa.Index:
			if x.X != v {
				return false
			}
		case *ssa.Range, *ssa.DebugRef:
		case *ssa.UnOp: // load through an element address
		case *ssa.IndexAddr:
			if x.X != v || depth > 2 || !readOnlyUse(x, depth+1) {
				return false
			}
		case *ssa.Call:
			b, isB := x.Call.Value.(*ssa.Builtin)
			if !isB || (b.Name() != "len" && b.Name() != "cap") {
				return false
			}
		default:
			return false
		}
	}
	return true
}

// roTable returns the constant table held by g, or nil when g is not provably one.
func roTable(g *ssa.Global) *roTab {
	if t, ok := roTabMemo[g]; ok {
		return t
	}
	roTabMemo[g] = nil
	pt, ok := g.Type().(*types.Pointer)
	if !ok {
		return nil
	}
	tab := &roTab{vals: map[string]ssa.Value{}}
	switch u := pt.Elem().Underlying().(type) {
	case *types.Map:
		tab.isMap, tab.elem = true, u.Elem()
	case *types.Slice:
		tab.elem = u.Elem()
	case *types.Array:
		tab.elem, tab.n = u.Elem(), u.Len()
	default:
		return nil
	}
	initFn := g.Pkg.Func("init")
	stores := 0
	for _, in := range refsOfGlobal(g) {
		if in.Parent() == initFn {
			switch x := in.(type) {
			case *ssa.Store:
				if x.Addr != g {
					return nil
				}
				stores++
				if !tab.fill(x.Val) {
					return nil
				}
			case *ssa.IndexAddr: // array global initialised element by element
				if !tab.fillElem(x) {
					return nil
				}
			default:
				return nil
			}
			continue
		}
		switch x := in.(type) {
		case *ssa.UnOp:
			if x.X != g || !readOnlyUse(x, 0) {
				return nil
			}
		case *ssa.IndexAddr:
			if x.X != g || !readOnlyUse(x, 1) {
				return nil
			}
		default:
			return nil
		}
	}
	if _, isArr := pt.Elem().Underlying().(*types.Array); !isArr && stores != 1 {
		return nil
	}
	roTabMemo[g] = tab
	return tab
}

func (tab *roTab) fillElem(ia *ssa.IndexAddr) bool {
	k, ok := ia.Index.(*ssa.Const)
	if !ok || k.Value == nil || ia.Referrers() == nil {
		return false
	}
	for _, r := range *ia.Referrers() {
		st, isSt := r.(*ssa.Store)
		if !isSt || st.Addr != ia {
			return false
		}
		key := constant.ToInt(k.Value).ExactString()
		if _, dup := tab.vals[key]; dup {
			return false
		}
		tab.vals[key] = st.Val
	}
	return true
}

// fill reads the construction of the stored value: make(map) + MapUpdate with constant keys, or
// new([n]T) + element stores + slice.
func (tab *roTab) fill(v ssa.Value) bool {
	switch x := v.(type) {
	case *ssa.MakeMap:
		if !tab.isMap || x.Referrers() == nil {
			return false
		}
		for _, r := range *x.Referrers() {
			switch u := r.(type) {
			case *ssa.MapUpdate:
				k, ok := u.Key.(*ssa.Const)
				if !ok || k.Value == nil || u.Map != x {
					return false
				}
				key := k.Value.ExactString()
				if _, dup := tab.vals[key]; dup {
					return false
				}
				tab.vals[key] = u.Value
			case *ssa.Store, *ssa.DebugRef:
			default:
				return false
			}
		}
		return true
	case *ssa.Slice:
		if tab.isMap || x.Low != nil || x.High != nil || x.Max != nil {
			return false
		}
		al, ok := x.X.(*ssa.Alloc)
		if !ok || al.Referrers() == nil {
			return false
		}
		arr, ok := al.Type().(*types.Pointer).Elem().Underlying().(*types.Array)
		if !ok {
			return false
		}
		tab.n = arr.Len()
		for _, r := range *al.Referrers() {
			switch u := r.(type) {
			case *ssa.IndexAddr:
				if !tab.fillElem(u) {
					return false
				}
			case *ssa.Slice, *ssa.DebugRef:
			default:
				return false
			}
		}
		return true
	}
	return false
}

// roLookup folds a constant-key access to g; ok=false when g is no constant table, the key is not constant or the
// stored value is not a constant or a function.
func roLookup(g *ssa.Global, key sval) (val sval, found bool, ok bool) {
	if !key.isConst() {
		return sval{}, false, false
	}
	tab := roTable(g)
	if tab == nil {
		return sval{}, false, false
	}
	k := key.c.ExactString()
	if !tab.isMap {
		k = constant.ToInt(key.c).ExactString()
	}
	if v, has := tab.vals[k]; has {
		switch c := v.(type) {
		case *ssa.Const:
			if c.Value == nil {
				return sval{nil: true}, true, true
			}
			return constv(c.Value), true, true
		case *ssa.Function:
			return sval{sym: c.Name(), fn: c}, true, true
		case *ssa.MakeClosure:
			if f, isF := c.Fn.(*ssa.Function); isF && len(c.Bindings) == 0 {
				return sval{sym: f.Name(), fn: f}, true, true
			}
		case *ssa.UnOp:
			// a struct row built in a temporary of the initialiser: one value per field
			if row, ok := rowTuple(c); ok {
				return row, true, true
			}
		}
		return sval{}, true, false
	}
	if !tab.isMap {
		// an unset array element is the zero value too, but an index beyond the length panics: leave it symbolic
		if i, exact := constant.Int64Val(constant.ToInt(key.c)); !exact || i < 0 || i >= tab.n {
			return sval{}, false, false
		}
	}
	z, zok := zeroConst(tab.elem)
	if !zok {
		if tab.isMap {
			return symv("zero(" + typeShort(tab.elem) + ")"), false, true // a miss is still a miss
		}
		return sval{}, false, false
	}
	return z, false, true
}

func zeroConst(t types.Type) (sval, bool) {
	switch u := t.Underlying().(type) {
	case *types.Basic:
		switch {
		case u.Info()&types.IsBoolean != 0:
			return constv(constant.MakeBool(false)), true
		case u.Info()&types.IsString != 0:
			return constv(constant.MakeString("")), true
		case u.Info()&types.IsInteger != 0:
			return constv(constant.MakeInt64(0)), true
		case u.Info()&types.IsFloat != 0:
			return constv(constant.MakeFloat64(0)), true
		}
	case *types.Pointer, *types.Interface, *types.Slice, *types.Map, *types.Signature:
		return sval{nil: true}, true
	}
	return sval{}, false
}

// globalOfLoad: v is a load of a package-level variable.
func globalOfLoad(v ssa.Value) *ssa.Global {
	if u, ok := v.(*ssa.UnOp); ok {
		if g, ok := u.X.(*ssa.Global); ok {
			return g
		}
	}
	return nil
}

// rowTuple: the value is the load of a struct temporary that the package initialiser fills field by field with
// constants and functions (a table row `{dtype: ast.Int, convert: func…}`); the fields as a tuple.
func rowTuple(ld *ssa.UnOp) (sval, bool) {
	al, ok := ld.X.(*ssa.Alloc)
	if !ok || al.Referrers() == nil {
		return sval{}, false
	}
	st := structOfPtr(al.Type())
	if st == nil {
		return sval{}, false
	}
	tup := make([]sval, st.NumFields())
	for i := range tup {
		z, zok := zeroConst(st.Field(i).Type())
		if !zok {
			z = symv("zero")
		}
		tup[i] = z
	}
	for _, r := range *al.Referrers() {
		switch x := r.(type) {
		case *ssa.FieldAddr:
			if x.Referrers() == nil {
				return sval{}, false
			}
			for _, r2 := range *x.Referrers() {
				s, isS := r2.(*ssa.Store)
				if !isS || s.Addr != ssa.Value(x) {
					return sval{}, false
				}
				switch c := s.Val.(type) {
				case *ssa.Const:
					if c.Value == nil {
						tup[x.Field] = sval{nil: true}
					} else {
						tup[x.Field] = constv(c.Value)
					}
				case *ssa.Function:
					tup[x.Field] = sval{sym: c.Name(), fn: c}
				case *ssa.MakeClosure:
					f, isF := c.Fn.(*ssa.Function)
					if !isF || len(c.Bindings) != 0 {
						return sval{}, false
					}
					tup[x.Field] = sval{sym: f.Name(), fn: f}
				default:
					return sval{}, false
				}
			}
		case *ssa.UnOp, *ssa.DebugRef:
		default:
			return sval{}, false
		}
	}
	return sval{tup: tup}, true
}
