package main

import (
	"bufio"
	"encoding/json"
	"fmt"
	"os"
	"path/filepath"
	"sort"
	"strings"
	"time"
)

const (
	stOK        = "discharged"
	stViolated  = "violated"
	stUndecided = "undecided"
)

// Obligation is one instance of a rule on one construct of the tree.
// Key identifies the construct by role (package, function, descriptor), never by line.
type Obligation struct {
	Rule   string   `json:"rule"`
	Key    string   `json:"construct"`
	Pos    string   `json:"pos,omitempty"`
	Status string   `json:"status"`
	Detail string   `json:"detail,omitempty"`
	Facts  []string `json:"facts,omitempty"`
}

type Floor struct {
	Rule string `json:"rule"`
	Min  int    `json:"min"`
	Got  int    `json:"got"`
}

// Report collects everything one property check produced.
type Report struct {
	Prop        string
	Tier        string
	Obls        []Obligation
	Floors      []Floor
	Notes       []string
	Trusted     []string
	Assumptions []string
	Counts      map[string]int
	Functions   map[string]bool
	Explanation string
	Exhaustive  bool
	Extra       map[string]any
	start       time.Time
}

func NewReport(prop, tier string) *Report {
	return &Report{Prop: prop, Tier: tier, Counts: map[string]int{}, Functions: map[string]bool{}, Extra: map[string]any{}, start: time.Now()}
}

func (r *Report) add(rule, key, pos, status, detail string, facts ...string) {
	if os.Getenv("PLVERIF_ALL") != "" {
		fmt.Printf("  %s [%s] %s at %s: %s\n", status, rule, key, pos, detail)
	}
	r.Obls = append(r.Obls, Obligation{Rule: rule, Key: key, Pos: pos, Status: status, Detail: detail, Facts: facts})
}

// Ob records an obligation that is either discharged or violated.
func (r *Report) Ob(rule, key, pos string, ok bool, detail string, facts ...string) {
	st := stOK
	if !ok {
		st = stViolated
	}
	r.add(rule, key, pos, st, detail, facts...)
}

func (r *Report) Undecided(rule, key, pos, detail string) {
	r.add(rule, key, pos, stUndecided, detail)
}

func (r *Report) Note(format string, a ...any) { r.Notes = append(r.Notes, fmt.Sprintf(format, a...)) }

// Floor demands that rule produced at least min obligations (vacuity guard).
func (r *Report) Floor(rule string, min int) {
	n := 0
	for _, o := range r.Obls {
		if o.Rule == rule {
			n++
		}
	}
	r.Floors = append(r.Floors, Floor{rule, min, n})
	if n < min {
		r.add("FLOOR", rule, "", stUndecided, fmt.Sprintf("rule %s matched %d instances, fewer than the %d confirmed by hand on the pinned tree: the rule no longer sees its constructs", rule, n, min))
	}
}

// FloorN is Floor for a measured count that is not an obligation count.
func (r *Report) FloorN(name string, got, min int) {
	r.Floors = append(r.Floors, Floor{name, min, got})
	if got < min {
		r.add("FLOOR", name, "", stUndecided, fmt.Sprintf("%s = %d, fewer than the %d confirmed by hand on the pinned tree", name, got, min))
	}
}

func (r *Report) Fn(names ...string) {
	for _, n := range names {
		r.Functions[n] = true
	}
}

// ---------------------------------------------------------------- known findings

type finding struct {
	Prop, Rule, Key, Fails string
}

func verifDir() string {
	if d := os.Getenv("PLVERIF_HOME"); d != "" {
		return d
	}
	return "/verif"
}

func loadFindings() []finding {
	f, err := os.Open(filepath.Join(verifDir(), "known_findings.txt"))
	if err != nil {
		return nil
	}
	defer f.Close()
	var out []finding
	sc := bufio.NewScanner(f)
	for sc.Scan() {
		line := strings.TrimSpace(sc.Text())
		if !strings.HasPrefix(line, "finding:") {
			continue // "fixed:" entries and comments suppress nothing
		}
		fd := finding{}
		rest := strings.TrimSpace(strings.TrimPrefix(line, "finding:"))
		if i := strings.Index(rest, " fails="); i >= 0 {
			fd.Fails = rest[i+7:]
			rest = rest[:i]
		}
		if i := strings.Index(rest, " construct="); i >= 0 {
			fd.Key = strings.TrimSpace(rest[i+11:])
			rest = rest[:i]
		}
		for _, kv := range strings.Fields(rest) {
			switch {
			case strings.HasPrefix(kv, "property="):
				fd.Prop = kv[9:]
			case strings.HasPrefix(kv, "rule="):
				fd.Rule = kv[5:]
			}
		}
		out = append(out, fd)
	}
	return out
}

// ---------------------------------------------------------------- evidence + verdict

type replayFile struct {
	Property string     `json:"property"`
	Tier     string     `json:"tier"`
	Ob       Obligation `json:"obligation"`
	Repo     string     `json:"repo"`
	Overlay  string     `json:"overlay,omitempty"`
}

// Finish writes the evidence file, prints KNOWN-FINDING / VIOLATION lines and returns the exit code.
func (r *Report) Finish(seed int64, quiet bool, evidenceDir string) int {
	known := loadFindings()
	sort.SliceStable(r.Obls, func(i, j int) bool {
		if r.Obls[i].Rule != r.Obls[j].Rule {
			return r.Obls[i].Rule < r.Obls[j].Rule
		}
		return r.Obls[i].Key < r.Obls[j].Key
	})
	discharged, violations, knownHits := 0, 0, 0
	distinct := map[string]bool{}
	var bad []Obligation
	perRule := map[string]int{}
	for _, o := range r.Obls {
		perRule[o.Rule]++
		distinct[o.Rule+"|"+o.Key] = true
		if o.Status == stOK {
			discharged++
			continue
		}
		isKnown := false
		for _, k := range known {
			if k.Prop == r.Prop && k.Rule == o.Rule && k.Key == o.Key {
				isKnown = true
				if !quiet {
					fmt.Printf("KNOWN-FINDING: property=%s rule=%s construct=%s at %s: %s (fails: %s)\n", r.Prop, o.Rule, o.Key, o.Pos, o.Detail, k.Fails)
				}
			}
		}
		if isKnown {
			knownHits++
			continue
		}
		bad = append(bad, o)
	}
	violations = len(bad)
	os.MkdirAll(filepath.Join(evidenceDir, "replay"), 0o755)
	// remove stale replay files of this property
	if old, _ := filepath.Glob(filepath.Join(evidenceDir, "replay", r.Prop+"-*.json")); len(old) > 0 {
		for _, f := range old {
			os.Remove(f)
		}
	}
	for i, o := range bad {
		p := filepath.Join(evidenceDir, "replay", fmt.Sprintf("%s-%d.json", r.Prop, i+1))
		b, _ := json.MarshalIndent(replayFile{Property: r.Prop, Tier: r.Tier, Ob: o, Repo: repoDir(), Overlay: os.Getenv("PLVERIF_OVERLAY")}, "", " ")
		os.WriteFile(p, b, 0o644)
		if !quiet {
			fmt.Printf("  %s [%s] %s at %s: %s\n", o.Status, o.Rule, o.Key, o.Pos, o.Detail)
			fmt.Printf("VIOLATION property=%s replay=%s\n", r.Prop, p)
		}
	}
	// samples: a few discharged obligations per rule plus every non-discharged one
	var samples []Obligation
	taken := map[string]int{}
	for _, o := range r.Obls {
		if o.Status != stOK || taken[o.Rule] < 3 {
			samples = append(samples, o)
			taken[o.Rule]++
		}
	}
	var fns []string
	for f := range r.Functions {
		fns = append(fns, f)
	}
	sort.Strings(fns)
	cov := map[string]any{
		"explanation":          r.Explanation,
		"obligations":          len(r.Obls),
		"discharged":           discharged,
		"evaluations":          len(r.Obls),
		"distinct_nontrivial":  len(distinct),
		"rule":                 "one obligation per (rule, construct) instance found in /repo's current source; distinct = distinct (rule, construct) keys; every obligation names a concrete code construct, none is trivial by construction",
		"samples":              samples,
		"checker_cmd":          fmt.Sprintf("/verif/bin/plverif check -p %s -tier %s", r.Prop, r.Tier),
		"trusted_base":         r.Trusted,
		"exhaustive":           r.Exhaustive,
		"obligations_per_rule": perRule,
		"instance_floors":      r.Floors,
		"functions_analysed":   fns,
		"functions_count":      len(fns),
		"known_findings_hit":   knownHits,
		"notes":                r.Notes,
		"counts":               r.Counts,
	}
	for k, v := range r.Extra {
		cov[k] = v
	}
	ev := map[string]any{
		"property_id": r.Prop,
		"tier":        r.Tier,
		"seed":        seed,
		"level":       "other",
		"coverage":    cov,
		"assumptions": r.Assumptions,
		"wall_s":      time.Since(r.start).Seconds(),
		"violations":  violations,
	}
	if r.Trusted == nil {
		cov["trusted_base"] = []string{}
	}
	if r.Assumptions == nil {
		ev["assumptions"] = []string{}
	}
	b, _ := json.MarshalIndent(ev, "", " ")
	if err := os.WriteFile(filepath.Join(evidenceDir, r.Prop+".json"), b, 0o644); err != nil {
		fmt.Fprintln(os.Stderr, "cannot write evidence:", err)
		return 2
	}
	if !quiet {
		fmt.Printf("%s %s: %d obligations, %d discharged, %d known findings, %d violations, %d functions, %.1fs\n", r.Prop, r.Tier, len(r.Obls), discharged, knownHits, violations, len(fns), time.Since(r.start).Seconds())
	}
	if violations > 0 {
		return 1
	}
	return 0
}
