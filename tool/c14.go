package main

import (
	"fmt"
	"go/constant"
	"go/token"
	"go/types"
	"os"
	"strings"

	"golang.org/x/tools/go/ssa"
)

func init() {
	register("C14", "cancellation: signal plumbing, poll in every loop cycle, poll exit is a success return", checkC14)
}

func hasMethod(t types.Type, name string) bool {
	it, ok := t.Underlying().(*types.Interface)
	if !ok {
		return false
	}
	for i := 0; i < it.NumMethods(); i++ {
		if it.Method(i).Name() == name {
			return true
		}
	}
	return false
}

// storesParamToField: does fn store its parameter #idx into field `field` of some struct reached from a parameter?
func storesParamToField(fn *ssa.Function, idx int, field string) bool {
	if idx >= len(fn.Params) {
		return false
	}
	found := false
	allInstrs(fn, func(in ssa.Instruction) {
		if s, ok := in.(*ssa.Store); ok && s.Val == ssa.Value(fn.Params[idx]) {
			if fa, ok := s.Addr.(*ssa.FieldAddr); ok && fieldName(fa) == field {
				found = true
			}
		}
	})
	return found
}

// storesValueToSignal: f stores a value satisfying isVal into Task.signal, directly or by handing it to an in-module
// callee that does (depth-bounded); returns the instruction of f where that happens.
func storesValueToSignal(f *ssa.Function, isVal func(ssa.Value) bool, depth int) ssa.Instruction {
	if depth > 3 {
		return nil
	}
	var at ssa.Instruction
	allInstrs(f, func(in ssa.Instruction) {
		if at != nil {
			return
		}
		switch x := in.(type) {
		case *ssa.Store:
			if isVal(x.Val) {
				if fa, ok := x.Addr.(*ssa.FieldAddr); ok && fieldName(fa) == "signal" && strings.HasSuffix(namedOf(fa.X.Type()), ".Task") {
					at = in
				}
			}
		case *ssa.Call:
			if g := x.Call.StaticCallee(); g != nil && inModule(g) && len(g.Blocks) > 0 {
				for ai, a := range x.Call.Args {
					if isVal(a) && ai < len(g.Params) {
						prm := g.Params[ai]
						if storesValueToSignal(g, func(v ssa.Value) bool { return v == ssa.Value(prm) }, depth+1) != nil {
							at = in
						}
					}
				}
			}
		}
	})
	return at
}

// plumbsThenRuns: in f the value reaches Task.signal at an instruction that precedes the RunStmts call — both may sit
// in f itself or, together, inside a helper that f hands the value to.
func plumbsThenRuns(f *ssa.Function, isVal func(ssa.Value) bool, runStmts *ssa.Function, depth int) (bool, []*ssa.Function) {
	if depth > 3 {
		return false, nil
	}
	at := storesValueToSignal(f, isVal, 0)
	var rs *ssa.Call
	allInstrs(f, func(in ssa.Instruction) {
		if call, ok := in.(*ssa.Call); ok && call.Call.StaticCallee() == runStmts {
			rs = call
		}
	})
	if at != nil && rs != nil && precedes(at, rs) {
		return true, []*ssa.Function{f}
	}
	ok := false
	var via []*ssa.Function
	allInstrs(f, func(in ssa.Instruction) {
		call, isC := in.(*ssa.Call)
		if !isC || ok {
			return
		}
		g := call.Call.StaticCallee()
		if g == nil || !inModule(g) || len(g.Blocks) == 0 || g == f {
			return
		}
		for ai, a := range call.Call.Args {
			if isVal(a) && ai < len(g.Params) {
				prm := g.Params[ai]
				if sub, v := plumbsThenRuns(g, func(v ssa.Value) bool { return v == ssa.Value(prm) }, runStmts, depth+1); sub {
					ok, via = true, append([]*ssa.Function{f}, v...)
				}
			}
		}
	})
	return ok, via
}

func checkC14(c *Ctx) {
	r := c.R
	r.Explanation = "Decides for both interpreters (pkg/engine/runtime, pkg/engine/runtimev2) the structural chain that makes cancellation work for every program and every poll index: (1) SIGNAL-PLUMB: the Signal parameter of Script.Run reaches the `signal` field of the task that is handed to RunStmts (a store of the parameter, direct or through the init helper, dominating the RunStmts call); RefRun hands the caller's ctx.signal to the callee task; (2) POLL-FN: ProcExit invokes ExitSignal() under no condition other than `!procExit` and `signal != nil`, latches procExit=true on a true answer and returns the latch; StmtRetrun returns true whenever ProcExit does; (3) POLL-IN-CYCLE: every natural loop of the statement-list executor and of the for / for-in executors contains a StmtRetrun poll whose true edge leaves the loop and whose block dominates every latch of that loop (so even an empty body cannot spin without polling); (4) POLL-EXIT-SUCCESS: from the poll's exit edge every path reaches a nil-error return without evaluating another statement or expression. Not decided: wall-clock promptness, host ExitSignal implementations, the prefix-of-effects clause as behaviour (follows from 3+4 by induction on the tree, which the checker does not prove)."
	for _, pp := range []string{pRT, pRT2} {
		c14For(c, pp)
	}
	r.Floor("POLL-IN-CYCLE", 10)
	r.Floor("SIGNAL-PLUMB", 3)
	r.Floor("POLL-FN", 8)
}

func c14For(c *Ctx, pp string) {
	r, t := c.R, c.T
	pk := t.SSA[pp]
	tag := pk.Pkg.Name()
	run := t.Method(pp, "Script", "Run")
	runStmts := pkgFunc(pk, "RunStmts")
	procExit := t.Method(pp, "Task", "ProcExit")
	stmtRet := t.Method(pp, "Task", "StmtRetrun")
	if run == nil || runStmts == nil || procExit == nil || stmtRet == nil {
		r.Undecided("ANCHOR", tag+" Run/RunStmts/ProcExit/StmtRetrun", "", "unresolved anchor")
		return
	}
	r.Fn(relName(run), relName(runStmts), relName(procExit), relName(stmtRet))

	// ---- (1) plumbing in Run
	sigIdx := -1
	for i, p := range run.Params {
		if hasMethod(p.Type(), "ExitSignal") {
			sigIdx = i
		}
	}
	if sigIdx < 0 {
		r.Ob("SIGNAL-PLUMB", tag+".Script.Run has a Signal parameter", t.Pos(run.Pos()), false, "no parameter with an ExitSignal method")
	} else {
		sig := run.Params[sigIdx]
		ok, via := plumbsThenRuns(run, func(v ssa.Value) bool { return v == ssa.Value(sig) }, runStmts, 0)
		for _, f := range via {
			r.Fn(relName(f))
		}
		detail := "the signal parameter must be stored into Task.signal before RunStmts is called (directly, or inside the helpers it is handed to)"
		if !ok {
			detail = fmt.Sprintf("parameter `%s` of %s.Script.Run does not reach the task's signal field ahead of RunStmts (referrers: %d): ProcExit's `signal != nil` is constantly false and no loop can be cancelled", sig.Name(), tag, len(*sig.Referrers()))
		}
		r.Ob("SIGNAL-PLUMB", tag+".Script.Run signal -> Task.signal", t.Pos(run.Pos()), ok, detail)
	}
	// RefRun (v1 only)
	if rr := t.Method(pp, "Script", "RefRun"); rr != nil {
		r.Fn(relName(rr))
		// the signal of the task RefRun was called with (its parameter), not of the fresh task
		ok, _ := plumbsThenRuns(rr, func(v ssa.Value) bool {
			for _, prm := range rr.Params {
				if path(v) == pname(prm)+".signal" && strings.HasSuffix(prm.Type().String(), "Task") {
					return true
				}
			}
			return false
		}, runStmts, 0)
		r.Ob("SIGNAL-PLUMB", tag+".Script.RefRun passes the caller's signal", t.Pos(rr.Pos()), ok, "a script reached through use() must observe the same cancellation signal")
	}
	// every store to Task.signal in the package: at least one non-nil
	nonNilStore := false
	for _, f := range t.PkgFuncs(pp) {
		allInstrs(f, func(in ssa.Instruction) {
			if s, ok := in.(*ssa.Store); ok {
				if fa, ok := s.Addr.(*ssa.FieldAddr); ok && fieldName(fa) == "signal" && strings.HasSuffix(namedOf(fa.X.Type()), ".Task") && !isNilConst(s.Val) {
					nonNilStore = true
				}
			}
		})
	}
	r.Ob("SIGNAL-PLUMB", tag+".Task.signal is written with a non-nil value somewhere", t.Pos(procExit.Pos()), nonNilStore, "a field that is only ever zero makes the `signal != nil` guard dead")

	// ---- (2) ProcExit / StmtRetrun
	var inv *ssa.Call
	allInstrs(procExit, func(in ssa.Instruction) {
		if call, ok := in.(*ssa.Call); ok && call.Call.IsInvoke() && call.Call.Method.Name() == "ExitSignal" {
			inv = call
		}
	})
	if inv == nil {
		r.Ob("POLL-FN", tag+".ProcExit invokes ExitSignal", t.Pos(procExit.Pos()), false, "no ExitSignal() invocation")
	} else {
		okRecv := strings.HasSuffix(path(inv.Call.Value), ".signal")
		r.Ob("POLL-FN", tag+".ProcExit invokes ExitSignal on Task.signal", t.Pos(inv.Pos()), okRecv, "receiver is "+path(inv.Call.Value))
		var foreign []string
		for _, ec := range controlling(inv.Block()) {
			s := ec.String()
			switch {
			case strings.Contains(s, ".signal != nil") && ec.Pol, strings.Contains(s, ".signal == nil") && !ec.Pol:
			case strings.HasSuffix(condStr(ec.Cond), ".procExit") && !ec.Pol:
			case strings.HasPrefix(condStr(ec.Cond), "!") && strings.HasSuffix(condStr(ec.Cond), ".procExit") && ec.Pol:
			default:
				foreign = append(foreign, s)
			}
		}
		r.Ob("POLL-FN", tag+".ProcExit polls whenever signal != nil and not yet exited", t.Pos(inv.Pos()), len(foreign) == 0, fmt.Sprintf("extra conditions in front of the poll: %v", foreign))
		// latch on true
		// a latch: procExit = true, or SetExit() (whose body is that store)
		isLatch := func(in ssa.Instruction) bool {
			if s, ok := in.(*ssa.Store); ok {
				if fa, ok := s.Addr.(*ssa.FieldAddr); ok && fieldName(fa) == "procExit" {
					if cv, ok := s.Val.(*ssa.Const); ok && cv.Value != nil && cv.Value.ExactString() == "true" {
						return true
					}
				}
			}
			if call, ok := in.(*ssa.Call); ok && call.Call.StaticCallee() != nil && fnName(call.Call.StaticCallee()) == "SetExit" {
				return true
			}
			return false
		}
		latched := false
		if iff, ok := inv.Block().Instrs[len(inv.Block().Instrs)-1].(*ssa.If); ok && iff.Cond == ssa.Value(inv) {
			for _, in := range inv.Block().Succs[0].Instrs {
				if isLatch(in) {
					latched = true
				}
			}
		}
		r.Ob("POLL-FN", tag+".ProcExit latches procExit on a true answer", t.Pos(inv.Pos()), latched, "ExitSignal()==true must set procExit")
		// every return yields the value the latch has at that point: the field itself; the constant true where the
		// latch is known set (tested true, or just set in this block); the constant false where it is known clear
		// (tested false) and the poll did not fire (no signal, or ExitSignal() answered false)
		retsLatch := true
		allInstrs(procExit, func(in ssa.Instruction) {
			ret, ok := in.(*ssa.Return)
			if !ok {
				return
			}
			v := ret.Results[0]
			if strings.HasSuffix(path(v), ".procExit") {
				return
			}
			cv, isC := v.(*ssa.Const)
			if !isC || cv.Value == nil {
				retsLatch = false
				return
			}
			flagTrue, flagFalse, noFire := false, false, false
			for _, ec := range controlling(ret.Block()) {
				cs := condStr(ec.Cond)
				switch {
				case strings.HasSuffix(cs, ".procExit") && !strings.HasPrefix(cs, "!"):
					flagTrue, flagFalse = flagTrue || ec.Pol, flagFalse || !ec.Pol
				case strings.HasPrefix(cs, "!") && strings.HasSuffix(cs, ".procExit"):
					flagTrue, flagFalse = flagTrue || !ec.Pol, flagFalse || ec.Pol
				case ec.Cond == ssa.Value(inv) && !ec.Pol:
					noFire = true
				case strings.Contains(ec.String(), ".signal == nil") && ec.Pol, strings.Contains(ec.String(), ".signal != nil") && !ec.Pol:
					noFire = true
				}
			}
			setHere := false
			for _, i2 := range ret.Block().Instrs {
				if isLatch(i2) {
					setHere = true
				}
			}
			switch cv.Value.ExactString() {
			case "true":
				if !flagTrue && !setHere {
					retsLatch = false
				}
			case "false":
				if !(flagFalse && noFire) || setHere {
					retsLatch = false
				}
			default:
				retsLatch = false
			}
		})
		if !retsLatch {
			retsLatch, _ = pollFnSpec(procExit, stmtRet)
		}
		r.Ob("POLL-FN", tag+".ProcExit returns the latch", t.Pos(procExit.Pos()), retsLatch, "must return ctx.procExit")
	}
	// StmtRetrun: calls ProcExit; ProcExit true -> returns true
	{
		var pe *ssa.Call
		allInstrs(stmtRet, func(in ssa.Instruction) {
			if call, ok := in.(*ssa.Call); ok && call.Call.StaticCallee() == procExit {
				pe = call
			}
		})
		ok := false
		if pe != nil && len(controlling(pe.Block())) == 0 {
			// on the true edge of pe, all returns are `true`
			if iff, isIf := pe.Block().Instrs[len(pe.Block().Instrs)-1].(*ssa.If); isIf && iff.Cond == ssa.Value(pe) {
				ok = returnsTrueFrom(pe.Block(), pe.Block().Succs[0], map[*ssa.BasicBlock]bool{})
			}
			// `return ctx.ProcExit() && …` would not propagate; `return ctx.ProcExit()` alone does
			for _, ref := range *pe.Referrers() {
				if ret, isR := ref.(*ssa.Return); isR && ret.Results[0] == ssa.Value(pe) {
					ok = true
				}
			}
		}
		if !ok {
			_, ok = pollFnSpec(procExit, stmtRet)
		}
		r.Ob("POLL-FN", tag+".StmtRetrun polls ProcExit first and returns true when it is true", t.Pos(stmtRet.Pos()), ok, "StmtRetrun must call ProcExit unconditionally and propagate a true answer")
	}

	// ---- (3)+(4) loops
	evalFns := map[*ssa.Function]bool{runStmts: true}
	for _, n := range []string{"RunStmt", "RunExpr"} {
		if f := pk.Func(n); f != nil {
			evalFns[f] = true
		}
	}
	// a poll is StmtRetrun()/ProcExit() or a boolean helper of the package every return of which is the constant true
	// or the answer of such a poll (e.g. `if forbreak(ctx) { return true }; …; return ctx.StmtRetrun()`): its true
	// answer covers the poll's
	pollMemo := map[*ssa.Function]bool{}
	var isPollFn func(h *ssa.Function) bool
	isPollFn = func(h *ssa.Function) bool {
		if h == nil {
			return false
		}
		if h == stmtRet || h == procExit {
			return true
		}
		if v, ok := pollMemo[h]; ok {
			return v
		}
		pollMemo[h] = false
		if h.Pkg != pk || len(h.Blocks) == 0 || h.Signature.Results().Len() != 1 || h.Signature.Results().At(0).Type().String() != "bool" {
			return false
		}
		okAll, polls := true, 0
		allInstrs(h, func(in ssa.Instruction) {
			ret, isR := in.(*ssa.Return)
			if !isR || ret.Block() == h.Recover {
				return
			}
			switch v := ret.Results[0].(type) {
			case *ssa.Const:
				if v.Value == nil || v.Value.ExactString() != "true" {
					okAll = false
				}
			case *ssa.Call:
				if isPollFn(v.Call.StaticCallee()) {
					polls++
				} else {
					okAll = false
				}
			default:
				okAll = false
			}
		})
		pollMemo[h] = okAll && polls > 0
		if pollMemo[h] {
			r.Fn(relName(h))
		}
		return pollMemo[h]
	}
	// a helper that ends an iteration and answers "go on"/"stop" (alone or next to an error) polls for the loop when
	// every return that answers "go on" lies on the false edge of a poll made after the body it may run, and nothing is
	// evaluated in it before that poll
	pollHelperOK := func(h *ssa.Function, bi int, contVal bool) bool {
		if h == nil || h.Pkg != pk || len(h.Blocks) == 0 {
			return false
		}
		var polls []*ssa.Call
		var bodyCall *ssa.Call
		allInstrs(h, func(in ssa.Instruction) {
			if call, ok := in.(*ssa.Call); ok {
				if isPollFn(call.Call.StaticCallee()) {
					polls = append(polls, call)
				} else if runsBodyOnce(call.Call.StaticCallee(), runStmts, 1) {
					bodyCall = call
				}
			}
		})
		if len(polls) == 0 {
			return false
		}
		isPollVal := func(v ssa.Value) bool {
			for _, p := range polls {
				if v == ssa.Value(p) && (bodyCall == nil || (!reachableFrom(p, bodyCall) && reachableFrom(bodyCall, p))) {
					return true
				}
			}
			return false
		}
		pollFalse := func(b *ssa.BasicBlock) bool {
			for _, ec := range controlling(b) {
				cond, pol := ec.Cond, ec.Pol
				if u, ok := cond.(*ssa.UnOp); ok && u.Op == token.NOT {
					cond, pol = u.X, !pol
				}
				if isPollVal(cond) && !pol {
					return true
				}
			}
			return false
		}
		direct := func(v ssa.Value, val bool) bool {
			if u, ok := v.(*ssa.UnOp); ok && u.Op == token.NOT {
				return isPollVal(u.X) && val
			}
			return isPollVal(v) && !val
		}
		if !helperAnswers(h, bi, contVal, pollFalse, direct) {
			return false
		}
		okEv := true
		allInstrs(h, func(in ssa.Instruction) {
			if call, ok := in.(*ssa.Call); ok && call != bodyCall && evalFns[call.Call.StaticCallee()] && !pollFalse(call.Block()) {
				okEv = false
			}
		})
		return okEv
	}
	type pollSite struct {
		call    *ssa.Call
		ifBlk   *ssa.BasicBlock
		exitIdx int
	}
	helperPolls := func(l *natLoop) []pollSite {
		var out []pollSite
		for _, b := range l.Header.Parent().Blocks {
			if !l.Blocks[b] {
				continue
			}
			for _, in := range b.Instrs {
				call, ok := in.(*ssa.Call)
				if !ok {
					continue
				}
				h := call.Call.StaticCallee()
				bi := boolResultIdx(h)
				if bi < 0 || isPollFn(h) {
					continue
				}
				ifBlk, contVal, exitIdx, ok := loopTestOf(l, call, bi)
				if !ok || !pollHelperOK(h, bi, contVal) {
					continue
				}
				r.Fn(relName(h))
				out = append(out, pollSite{call, ifBlk, exitIdx})
			}
		}
		return out
	}
	for _, name := range []string{"RunStmts", "RunForStmt", "RunForInStmt"} {
		fn := pk.Func(name)
		if fn == nil {
			r.Undecided("POLL-IN-CYCLE", tag+"."+name, "", "executor not found")
			continue
		}
		r.Fn(relName(fn))
		loops := naturalLoops(fn)
		if len(loops) == 0 {
			r.Ob("POLL-IN-CYCLE", tag+"."+name+" has a loop", t.Pos(fn.Pos()), false, "executor without loop: unresolved structure")
		}
		for li, l := range loops {
			key := fmt.Sprintf("%s.%s loop #%d", tag, name, li+1)
			var poll *ssa.Call
			var pollBlk *ssa.BasicBlock
			exitIdx := -1
			for b := range l.Blocks {
				for _, in := range b.Instrs {
					call, ok := in.(*ssa.Call)
					if !ok || !isPollFn(call.Call.StaticCallee()) {
						continue
					}
					iff, isIf := b.Instrs[len(b.Instrs)-1].(*ssa.If)
					if !isIf || iff.Cond != ssa.Value(call) {
						continue
					}
					if !l.Blocks[b.Succs[0]] || leadsOut(b.Succs[0], l) {
						dom := true
						for _, la := range l.Latch {
							if !b.Dominates(la) {
								dom = false
							}
						}
						if dom {
							poll, pollBlk, exitIdx = call, b, 0
						}
					}
				}
			}
			hsites := helperPolls(l)
			viaHelper := ""
			if poll == nil {
				for _, hs := range hsites {
					dom := true
					for _, la := range l.Latch {
						if !hs.ifBlk.Dominates(la) {
							dom = false
						}
					}
					if dom {
						poll, pollBlk, exitIdx = hs.call, hs.ifBlk, hs.exitIdx
						viaHelper = " (inside the helper: every `go on` answer lies on the false edge of the poll)"
					}
				}
			}
			pos := "-"
			for _, in := range l.Header.Instrs {
				if in.Pos().IsValid() {
					pos = t.Pos(in.Pos())
					break
				}
			}
			if pos == "-" {
				for _, la := range l.Latch {
					for _, in := range la.Instrs {
						if in.Pos().IsValid() && pos == "-" {
							pos = t.Pos(in.Pos())
						}
					}
				}
			}
			if poll == nil {
				r.Ob("POLL-IN-CYCLE", key, pos, false, "this loop has a cycle on which neither StmtRetrun() nor ProcExit() is polled with an exit on true: an iteration can repeat forever after the signal fired")
				continue
			}
			r.Ob("POLL-IN-CYCLE", key, t.Pos(poll.Pos()), true, fnName(poll.Call.StaticCallee())+" poll dominates every back edge and its true edge leaves the loop"+viaHelper)
			// (3b) the body is where the signal is observed (RunStmts polls after each statement and returns): between
			// the body's return and the next evaluation in the same iteration (post statement, next element, …) the
			// executor must consult the latch, or that evaluation runs after the signal was observed
			if name != "RunStmts" {
				isPoll := func(in ssa.Instruction) bool {
					call, ok := in.(*ssa.Call)
					if !ok || !isPollFn(call.Call.StaticCallee()) {
						return false
					}
					b := call.Block()
					iff, isIf := b.Instrs[len(b.Instrs)-1].(*ssa.If)
					return isIf && iff.Cond == ssa.Value(call) && (!l.Blocks[b.Succs[0]] || leadsOut(b.Succs[0], l))
				}
				if len(hsites) > 0 {
					direct := isPoll
					isPoll = func(in ssa.Instruction) bool {
						for _, hs := range hsites {
							if in == hs.ifBlk.Instrs[len(hs.ifBlk.Instrs)-1] {
								return true // the caller's test of the helper's answer
							}
						}
						return direct(in)
					}
				}
				nb := 0
				for _, b := range fn.Blocks {
					if !l.Blocks[b] {
						continue
					}
					for _, in := range b.Instrs {
						body, ok := in.(*ssa.Call)
						if !ok || !runsBodyOnce(body.Call.StaticCallee(), runStmts, 0) {
							continue
						}
						nb++
						late := ""
						for _, b2 := range fn.Blocks {
							if !l.Blocks[b2] {
								continue
							}
							for _, in2 := range b2.Instrs {
								ev, ok := in2.(*ssa.Call)
								if !ok || ev == body || ev.Call.StaticCallee() == nil || !evalFns[ev.Call.StaticCallee()] {
									continue
								}
								if reachAvoid(body, ev, isPoll) {
									late = fmt.Sprintf("%s at %s is reachable from the body without a latch test in between", fnName(ev.Call.StaticCallee()), t.Pos(ev.Pos()))
								}
							}
						}
						r.Ob("POLL-IN-CYCLE", fmt.Sprintf("%s body #%d is followed by a latch test before anything else is evaluated", key, nb), t.Pos(body.Pos()), late == "",
							"after the body returned (possibly because a poll inside it observed the signal) nothing may be evaluated before StmtRetrun()/ProcExit() is consulted: "+late)
					}
				}
				if nb == 0 {
					r.Undecided("POLL-IN-CYCLE", key+" body execution", pos, "no execution of the loop body (RunStmts, or a helper that runs it once) was found in this loop: the rule that nothing is evaluated between the body and the latch test cannot be applied")
				}
			}
			// (4) from the exit edge: no evaluation before a success return
			pollEdgeNil = retClassFrom(pollBlk, exitIdx) == "nil" // a single exit returning a named result: nil on this path
			okExit, why := pollExitClean(pollBlk.Succs[exitIdx], l, evalFns, map[*ssa.BasicBlock]bool{})
			r.Ob("POLL-EXIT-SUCCESS", key, t.Pos(poll.Pos()), okExit, "after the poll reports true the executor must return success without evaluating anything else"+why)
		}
	}
}

// returnsTrueFrom: every path from the edge prev->b reaches a return whose value is true: the constant, or a phi
// whose incoming value over the edge just taken is the constant true (`return a() || b`).
func returnsTrueFrom(prev, b *ssa.BasicBlock, seen map[*ssa.BasicBlock]bool) bool {
	if seen[b] {
		return true
	}
	seen[b] = true
	if ret, ok := b.Instrs[len(b.Instrs)-1].(*ssa.Return); ok {
		switch v := ret.Results[0].(type) {
		case *ssa.Const:
			return v.Value != nil && v.Value.ExactString() == "true"
		case *ssa.Phi:
			if v.Block() != b {
				return false
			}
			for i, p := range b.Preds {
				if p == prev {
					cv, isC := v.Edges[i].(*ssa.Const)
					if !isC || cv.Value == nil || cv.Value.ExactString() != "true" {
						return false
					}
				}
			}
			return true
		}
		return false
	}
	for _, s := range b.Succs {
		if !returnsTrueFrom(b, s, seen) {
			return false
		}
	}
	return len(b.Succs) > 0
}

func allReturnsConst(b *ssa.BasicBlock, val string, seen map[*ssa.BasicBlock]bool) bool {
	if seen[b] {
		return true
	}
	seen[b] = true
	if ret, ok := b.Instrs[len(b.Instrs)-1].(*ssa.Return); ok {
		cv, ok := ret.Results[0].(*ssa.Const)
		return ok && cv.Value != nil && cv.Value.ExactString() == val
	}
	for _, s := range b.Succs {
		if !allReturnsConst(s, val, seen) {
			return false
		}
	}
	return len(b.Succs) > 0
}

// leadsOut: block b (a successor of a loop block) is outside the loop or runs straight out of it.
func leadsOut(b *ssa.BasicBlock, l *natLoop) bool {
	seen := map[*ssa.BasicBlock]bool{}
	for l.Blocks[b] && !seen[b] {
		seen[b] = true
		if len(b.Succs) != 1 {
			return false
		}
		b = b.Succs[0]
	}
	return !l.Blocks[b]
}

// pollEdgeNil: set by the caller for the exit edge being examined (see retClassFrom)
var pollEdgeNil bool

func pollExitClean(b *ssa.BasicBlock, l *natLoop, evalFns map[*ssa.Function]bool, seen map[*ssa.BasicBlock]bool) (bool, string) {
	if seen[b] {
		return true, ""
	}
	seen[b] = true
	if l.Blocks[b] && b == l.Header {
		return false, ": the exit edge leads back into the loop"
	}
	for _, in := range b.Instrs {
		if call, ok := in.(*ssa.Call); ok {
			if f := call.Call.StaticCallee(); f != nil && evalFns[f] {
				return false, ": " + f.Name() + " is called after the poll"
			}
			if !call.Call.IsInvoke() && call.Call.StaticCallee() == nil {
				if _, isB := call.Call.Value.(*ssa.Builtin); !isB {
					return false, ": a dynamic call follows the poll"
				}
			}
		}
		if ret, ok := in.(*ssa.Return); ok {
			if retError(ret) != "nil" && !pollEdgeNil {
				return false, ": the return after the poll is not a nil-error return"
			}
		}
	}
	for _, s := range b.Succs {
		if ok, why := pollExitClean(s, l, evalFns, seen); !ok {
			return false, why
		}
	}
	return true, ""
}

var _ = token.ADD

// pollFnSpec: ProcExit / StmtRetrun decided on their outcomes (named results, single exits and helpers inlined).
// ProcExit: whenever the latch was set on entry, or the signal answered true, the result is true; it is true for no
// other reason. StmtRetrun: every outcome consulted ProcExit, and a true answer of ProcExit gives true.
func pollFnSpec(procExit, stmtRet *ssa.Function) (latchOK, stmtOK bool) {
	truth := func(v sval, lits map[string]bool, latch string) (isTrue, known bool) {
		if v.isConst() && v.c.Kind() == constant.Bool {
			return constant.BoolVal(v.c), true
		}
		// a boolean symbol that was branched on along this path has the value of that branch
		if s := stripParens(v.String()); s != "" {
			if lits["+"+s] {
				return true, true
			}
			if lits["-"+s] {
				return false, true
			}
		}
		return false, false
	}
	{
		cfg := &specCfg{MaxLoop: 2, MaxDepth: 3, Consistent: true}
		var args []sval
		for _, p := range procExit.Params {
			args = append(args, symv(pname(p)))
		}
		outs, ab := cfg.run(procExit, args)
		latch := pname(procExit.Params[0]) + ".procExit"
		latchOK = ab == "" && len(outs) > 0
		for _, o := range outs {
			lits := map[string]bool{}
			fired := false
			for _, cd := range condsOnly(o.Cond) {
				l := canonLit(cd)
				lits[l] = true
				if l[0] == '+' && strings.HasPrefix(l[1:], "ExitSignal(") {
					fired = true
				}
			}
			if os.Getenv("PLVERIF_DEBUG") == "pollfn" {
				fmt.Fprintln(os.Stderr, "POLLFN ProcExit", o.Vals, sortedKeys(lits))
			}
			if len(o.Vals) != 1 {
				latchOK = false
				continue
			}
			isTrue, known := truth(o.Vals[0], lits, latch)
			if !known {
				// returning the latch itself after it may have been set on this path
				if o.Vals[0].String() == latch && !fired {
					continue
				}
				if o.Vals[0].String() == latch && fired {
					continue // set on this path just before (checked by the latching rule) and returned
				}
				latchOK = false
				continue
			}
			if (lits["+"+latch] || fired) && !isTrue {
				latchOK = false
			}
			if isTrue && !lits["+"+latch] && !fired {
				latchOK = false
			}
		}
	}
	{
		cfg := &specCfg{MaxLoop: 2, MaxDepth: 3, Consistent: true}
		cfg.Call = func(fn *ssa.Function, call *ssa.Call, nth int, args []sval) (sval, bool) {
			if call.Call.StaticCallee() == procExit {
				return symv("exit"), true
			}
			return sval{}, false
		}
		var args []sval
		for _, p := range stmtRet.Params {
			args = append(args, symv(pname(p)))
		}
		outs, ab := cfg.run(stmtRet, args)
		stmtOK = ab == "" && len(outs) > 0
		for _, o := range outs {
			lits := map[string]bool{}
			for _, cd := range condsOnly(o.Cond) {
				lits[canonLit(cd)] = true
			}
			if os.Getenv("PLVERIF_DEBUG") == "pollfn" {
				fmt.Fprintln(os.Stderr, "POLLFN StmtRetrun", o.Vals, sortedKeys(lits))
			}
			if len(o.Vals) != 1 {
				stmtOK = false
				continue
			}
			v := o.Vals[0]
			if v.String() == "exit" {
				continue // returns ProcExit's answer itself
			}
			if !lits["+exit"] && !lits["-exit"] {
				stmtOK = false // ProcExit was not consulted on this path
			}
			if lits["+exit"] && !(v.isConst() && v.c.Kind() == constant.Bool && constant.BoolVal(v.c)) {
				stmtOK = false
			}
		}
	}
	return
}
