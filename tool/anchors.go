package main

import (
	"encoding/json"
	"fmt"
	"go/constant"
	"go/types"
	"os"
	"path/filepath"
	"sort"
	"strings"

	"golang.org/x/tools/go/ssa"
)

// ------------------------------------------------------------------ anchors that survive a rename
//
// Many rules start from a function or a field of the repository by name (forbreak, searchListAndMap, Task.loopBreak,
// ContextCheck.forstmt, …). Exported names are API; unexported ones are renamed and moved between files in ordinary
// clean-ups. A renamed anchor must not silence a rule (it would pass vacuously) nor fail it (an alarm on correct
// code). So names are resolved in two steps: by name; and, when a name recorded on the pinned tree
// (reference/anchors.json) is gone, by matching the *shape* the anchor had there against the functions (fields) of
// the same package (struct) that carry a name the pinned tree did not have:
//
//   - a function's shape: its signature with the receiver counted as first parameter (so method <-> function
//     conversions match), the exported / external functions it calls, the fields it touches, the string and small
//     integer constants it mentions;
//   - a field's shape: its type and its position among the fields of the same type in the struct.
//
// A match is accepted only when it is clearly the best (similarity >= 0.55 and a margin of 0.15 to the runner-up);
// otherwise the anchor stays unresolved and the rules that need it report "unresolved anchor" (fail closed). Every
// accepted match is listed in the evidence ("resolved_renames").

type anchorRef struct {
	Funcs   map[string]map[string]funcShape   `json:"funcs"`   // package path -> canonical name ("Recv.name" for methods) -> shape
	Structs map[string][]anchorField          `json:"structs"` // "pkgpath.Type" -> fields in order
	Params  map[string]map[string][]string    `json:"params"`  // package path -> canonical name -> parameter names (receiver first)
	Dummy   map[string]map[string]interface{} `json:"-"`
}

type anchorField struct {
	Name string `json:"name"`
	Type string `json:"type"`
}

type funcShape struct {
	Sig    string   `json:"sig"`
	Tokens []string `json:"tokens"`
}

var (
	anchorsLoaded   *anchorRef
	canonFieldOf    = map[*types.Var]string{}    // renamed field -> name it had on the pinned tree
	canonFuncOf     = map[*ssa.Function]string{} // renamed function -> canonical name
	renamedFuncs    = map[string]*ssa.Function{} // "pkgpath\x00canonical name" -> function now carrying another name
	resolvedRenames []string
	anchorsTree     *Tree
)

func loadAnchors() *anchorRef {
	if anchorsLoaded != nil {
		return anchorsLoaded
	}
	anchorsLoaded = &anchorRef{Funcs: map[string]map[string]funcShape{}, Structs: map[string][]anchorField{}}
	exe, _ := os.Executable()
	for _, p := range []string{filepath.Join(filepath.Dir(filepath.Dir(exe)), "reference", "anchors.json"), "/verif/reference/anchors.json"} {
		if b, err := os.ReadFile(p); err == nil {
			var a anchorRef
			if json.Unmarshal(b, &a) == nil && a.Funcs != nil {
				anchorsLoaded = &a
				break
			}
		}
	}
	return anchorsLoaded
}

// canonicalKey: "name" for functions, "Recv.name" for methods.
func canonicalKey(f *ssa.Function) string {
	if r := f.Signature.Recv(); r != nil {
		return strings.TrimPrefix(namedOf(r.Type())[strings.Index(namedOf(r.Type()), ".")+1:], "*") + "." + f.Name()
	}
	return f.Name()
}

func typeStr(t types.Type) string {
	return types.TypeString(t, func(p *types.Package) string { return p.Name() })
}

// shapeOf computes the shape of a function on the current tree (field names canonicalised first).
func shapeOf(f *ssa.Function) funcShape {
	var sig []string
	if r := f.Signature.Recv(); r != nil {
		sig = append(sig, typeStr(r.Type()))
	}
	for i := 0; i < f.Signature.Params().Len(); i++ {
		sig = append(sig, typeStr(f.Signature.Params().At(i).Type()))
	}
	sig = append(sig, "->")
	for i := 0; i < f.Signature.Results().Len(); i++ {
		sig = append(sig, typeStr(f.Signature.Results().At(i).Type()))
	}
	toks := map[string]bool{}
	var visit func(g *ssa.Function)
	visit = func(g *ssa.Function) {
		for _, b := range g.Blocks {
			for _, in := range b.Instrs {
				switch x := in.(type) {
				case ssa.CallInstruction:
					cc := x.Common()
					if c := cc.StaticCallee(); c != nil {
						ext := c.Pkg == nil || c.Pkg != f.Pkg
						if ext || (c.Object() != nil && c.Object().Exported()) {
							pk := ""
							if c.Pkg != nil {
								pk = c.Pkg.Pkg.Name() + "."
							}
							toks["call:"+pk+c.Name()] = true
						}
					} else if cc.IsInvoke() {
						toks["invoke:"+cc.Method.Name()] = true
					} else if b, ok := cc.Value.(*ssa.Builtin); ok {
						toks["builtin:"+b.Name()] = true
					}
				case *ssa.FieldAddr:
					toks["field:"+strings.TrimPrefix(namedOf(x.X.Type()), "*")+"."+fieldName(x)] = true
				case *ssa.Field:
					toks["field:"+namedOf(x.X.Type())+"."+fieldNameV(x)] = true
				}
				for _, op := range in.Operands(nil) {
					if op == nil || *op == nil {
						continue
					}
					if c, ok := (*op).(*ssa.Const); ok && c.Value != nil {
						switch c.Value.Kind() {
						case constant.String:
							if s := constant.StringVal(c.Value); len(s) > 0 && len(s) <= 48 {
								toks["str:"+s] = true
							}
						case constant.Int:
							if v, exact := constant.Int64Val(c.Value); exact && (v > 1 || v < -1) && v < 1<<40 {
								toks[fmt.Sprintf("int:%d", v)] = true
							}
						}
					}
				}
			}
		}
		for _, a := range g.AnonFuncs {
			visit(a)
		}
	}
	visit(f)
	return funcShape{Sig: strings.Join(sig, ","), Tokens: sortedKeys(toks)}
}

func shapeSim(a, b funcShape) float64 {
	if len(a.Tokens) == 0 && len(b.Tokens) == 0 {
		if a.Sig == b.Sig {
			return 0.6
		}
		return 0
	}
	set := map[string]bool{}
	for _, t := range a.Tokens {
		set[t] = true
	}
	inter := 0
	for _, t := range b.Tokens {
		if set[t] {
			inter++
		}
	}
	union := len(a.Tokens) + len(b.Tokens) - inter
	s := float64(inter) / float64(union)
	if a.Sig == b.Sig {
		s = 0.75*s + 0.25
	} else {
		s = 0.75 * s
	}
	return s
}

// writeAnchors records the unexported functions and the struct layouts of the module on the current (pinned) tree.
func writeAnchors(t *Tree, file string) error {
	a := anchorRef{Funcs: map[string]map[string]funcShape{}, Structs: map[string][]anchorField{}, Params: map[string]map[string][]string{}}
	for pp := range t.SSA {
		if !strings.HasPrefix(pp, mod) {
			continue
		}
		pm := map[string][]string{}
		for _, f := range t.PkgFuncs(pp) {
			if f.Parent() != nil || f.Synthetic != "" || f.Object() == nil || f.Name() == "init" {
				continue
			}
			var names []string
			for _, p := range f.Params {
				names = append(names, p.Name())
			}
			pm[canonicalKey(f)] = names
		}
		a.Params[pp] = pm
		m := map[string]funcShape{}
		for _, f := range t.PkgFuncs(pp) {
			if f.Parent() != nil || f.Synthetic != "" || f.Object() == nil || apiName(f) || f.Name() == "init" {
				continue
			}
			m[canonicalKey(f)] = shapeOf(f)
		}
		a.Funcs[pp] = m
		scope := t.ByPath[pp].Types.Scope()
		for _, n := range scope.Names() {
			tn, ok := scope.Lookup(n).(*types.TypeName)
			if !ok {
				continue
			}
			st, ok := tn.Type().Underlying().(*types.Struct)
			if !ok {
				continue
			}
			var fs []anchorField
			for i := 0; i < st.NumFields(); i++ {
				fs = append(fs, anchorField{st.Field(i).Name(), typeStr(st.Field(i).Type())})
			}
			a.Structs[pp+"."+n] = fs
		}
	}
	b, err := json.MarshalIndent(a, "", " ")
	if err != nil {
		return err
	}
	return os.WriteFile(file, b, 0o644)
}

// resolveAnchors matches what the reference names and the tree no longer has; called once after loading.
func resolveAnchors(t *Tree) {
	if anchorsTree == t {
		return
	}
	anchorsTree = t
	ref := loadAnchors()
	// ---- fields first (function shapes mention fields)
	for key, fields := range ref.Structs {
		i := strings.LastIndex(key, ".")
		pp, tn := key[:i], key[i+1:]
		pkg := t.ByPath[pp]
		if pkg == nil {
			continue
		}
		obj, ok := pkg.Types.Scope().Lookup(tn).(*types.TypeName)
		if !ok {
			continue
		}
		st, ok := obj.Type().Underlying().(*types.Struct)
		if !ok {
			continue
		}
		have := map[string]bool{}
		for i := 0; i < st.NumFields(); i++ {
			have[st.Field(i).Name()] = true
		}
		was := map[string]bool{}
		for _, f := range fields {
			was[f.Name] = true
		}
		// per type: the reference's missing names and the tree's new names, in declaration order
		missing := map[string][]string{}
		for _, f := range fields {
			if !have[f.Name] {
				missing[f.Type] = append(missing[f.Type], f.Name)
			}
		}
		fresh := map[string][]*types.Var{}
		for i := 0; i < st.NumFields(); i++ {
			v := st.Field(i)
			if !was[v.Name()] {
				fresh[typeStr(v.Type())] = append(fresh[typeStr(v.Type())], v)
			}
		}
		for ty, ms := range missing {
			fr := fresh[ty]
			if len(fr) != len(ms) {
				continue // fields added or removed as well: not a pure rename, leave unresolved
			}
			for k, v := range fr {
				canonFieldOf[v] = ms[k]
				resolvedRenames = append(resolvedRenames, fmt.Sprintf("field %s.%s is %s.%s of the pinned tree (same type %s, same position among the renamed fields)", tn, v.Name(), tn, ms[k], ty))
			}
		}
	}
	// ---- functions
	for pp, refFns := range ref.Funcs {
		if t.SSA[pp] == nil {
			continue
		}
		cur := map[string]*ssa.Function{}
		for _, f := range t.PkgFuncs(pp) {
			if f.Parent() != nil || f.Synthetic != "" || f.Object() == nil || f.Name() == "init" {
				continue
			}
			cur[canonicalKey(f)] = f
		}
		var lost []string
		for name := range refFns {
			if cur[name] == nil {
				lost = append(lost, name)
			}
		}
		if len(lost) == 0 {
			continue
		}
		sort.Strings(lost)
		var cands []*ssa.Function
		for name, f := range cur {
			if _, known := refFns[name]; !known && !apiName(f) {
				cands = append(cands, f)
			}
		}
		sortFuncs(cands)
		shapes := map[*ssa.Function]funcShape{}
		for _, f := range cands {
			shapes[f] = shapeOf(f)
		}
		taken := map[*ssa.Function]bool{}
		for _, name := range lost {
			best, second := 0.0, 0.0
			var bf *ssa.Function
			for _, f := range cands {
				if taken[f] {
					continue
				}
				s := shapeSim(refFns[name], shapes[f])
				if s > best {
					second, best, bf = best, s, f
				} else if s > second {
					second = s
				}
			}
			if bf != nil && best >= 0.55 && best-second >= 0.15 {
				taken[bf] = true
				short := name
				if i := strings.Index(name, "."); i >= 0 {
					short = name[i+1:]
				}
				renamedFuncs[pp+"\x00"+name] = bf
				canonFuncOf[bf] = short
				resolvedRenames = append(resolvedRenames, fmt.Sprintf("function %s is %s of the pinned tree (shape similarity %.2f, runner-up %.2f)", relName(bf), name, best, second))
			}
		}
	}
	sort.Strings(resolvedRenames)
}

// renamedFunc: the function that carries, under another name, the role the pinned tree's pkg.name had. name may be a
// plain function name or a method name (typ != ""); a method that became a function (or the reverse) is found too.
func renamedFunc(t *Tree, pkg, typ, name string) *ssa.Function {
	resolveAnchors(t)
	if typ != "" {
		if f := renamedFuncs[pkg+"\x00"+typ+"."+name]; f != nil {
			return f
		}
		return nil
	}
	if f := renamedFuncs[pkg+"\x00"+name]; f != nil {
		return f
	}
	return nil
}

// fnName: the name a function had on the pinned tree (its own name unless it was resolved as a rename).
func fnName(f *ssa.Function) string {
	if f == nil {
		return ""
	}
	if c, ok := canonFuncOf[f]; ok {
		return c
	}
	return f.Name()
}

// pkgFunc: ssa.Package.Func with the rename fallback.
func pkgFunc(pk *ssa.Package, name string) *ssa.Function {
	if pk == nil {
		return nil
	}
	if f := pk.Func(name); f != nil {
		return f
	}
	if anchorsTree != nil {
		return anchorsTree.Func(pk.Pkg.Path(), name)
	}
	return nil
}

// apiName: the function's name is part of the package's API — an exported function, or an exported method of an
// exported type. Everything else may be renamed freely.
func apiName(f *ssa.Function) bool {
	if f.Object() == nil || !f.Object().Exported() {
		return false
	}
	if r := f.Signature.Recv(); r != nil {
		t := r.Type()
		if p, ok := t.(*types.Pointer); ok {
			t = p.Elem()
		}
		if n, ok := t.(*types.Named); ok {
			return n.Obj().Exported()
		}
	}
	return true
}

var pnameMemo = map[*ssa.Parameter]string{}

// pname: the name the parameter had on the pinned tree (same function — by name, or as resolved above — and same
// position), so that a renamed parameter reads the same in every access path the rules compare; its own name when
// the function is new or its parameter list changed length.
func pname(p *ssa.Parameter) string {
	if p == nil {
		return ""
	}
	if n, ok := pnameMemo[p]; ok {
		return n
	}
	n := p.Name()
	f := p.Parent()
	if f != nil && f.Parent() == nil && f.Pkg != nil {
		ref := loadAnchors()
		key := canonicalKey(f)
		if c, ok := canonFuncOf[f]; ok {
			// the canonical key of a resolved rename: find it in the table
			for k, g := range renamedFuncs {
				if g == f {
					key = k[strings.Index(k, "\x00")+1:]
				}
			}
			_ = c
		}
		if names, ok := ref.Params[f.Pkg.Pkg.Path()][key]; ok && len(names) == len(f.Params) && !sameNameSet(names, f.Params) {
			// (a parameter list that only changed its order keeps its names: each name still means the same operand)
			for i, q := range f.Params {
				if q == p && names[i] != "" && names[i] != "_" {
					n = names[i]
				}
			}
		}
	}
	pnameMemo[p] = n
	return n
}

func sameNameSet(names []string, ps []*ssa.Parameter) bool {
	cnt := map[string]int{}
	for _, n := range names {
		cnt[n]++
	}
	for _, p := range ps {
		cnt[p.Name()]--
	}
	for _, c := range cnt {
		if c != 0 {
			return false
		}
	}
	return true
}

// roleParam: the parameter of f that plays the part the parameter at position i played on the pinned tree: when the
// parameter list only changed its order, the one that still has that name; otherwise the one at the position.
func roleParam(f *ssa.Function, i int) *ssa.Parameter {
	if f == nil || i >= len(f.Params) {
		return nil
	}
	if f.Parent() == nil && f.Pkg != nil {
		ref := loadAnchors()
		if names, ok := ref.Params[f.Pkg.Pkg.Path()][canonicalKey(f)]; ok && len(names) == len(f.Params) && sameNameSet(names, f.Params) {
			for _, p := range f.Params {
				if p.Name() == names[i] {
					return p
				}
			}
		}
	}
	return f.Params[i]
}

// roleArgs: arguments given in the parameter order of the pinned tree, arranged for f's present parameter order
// (a parameter list that was only reordered keeps its names; otherwise the order is taken as unchanged).
func roleArgs(f *ssa.Function, ref []sval) []sval {
	if f == nil || len(ref) != len(f.Params) {
		return ref
	}
	out := make([]sval, len(ref))
	used := map[int]bool{}
	for i := range ref {
		p := roleParam(f, i)
		placed := false
		for j, q := range f.Params {
			if q == p && !used[j] {
				out[j] = ref[i]
				used[j] = true
				placed = true
			}
		}
		if !placed {
			return ref
		}
	}
	return out
}
